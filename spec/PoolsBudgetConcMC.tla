-------------------------- MODULE PoolsBudgetConcMC --------------------------
(***************************************************************************)
(* Leg A of C17 (b), concurrent part: several goroutines Get and Put on    *)
(* one BucketedPool near its budget.                                       *)
(*                                                                         *)
(* BucketedPool.Get holds the pool's mutex from the budget test to the     *)
(* accounting (AtomicGet = TRUE: one step) - that is the code as it is.    *)
(* The variant AtomicGet = FALSE splits Get into "test the budget" and,    *)
(* after an arbitrary delay, "account" (a check-then-act race: the test    *)
(* under a read lock, the allocation unlocked, the accounting later); it   *)
(* is kept only to show what the invariant catches:                        *)
(* PoolsBudgetConcMC_split.cfg is expected to FAIL with 2 getters.         *)
(***************************************************************************)
EXTENDS Pools, TLC
CONSTANTS Getters,     \* goroutines
          Sizes,       \* bucket sizes (a set)
          Max,         \* budget (> 0)
          ReqSizes,    \* sizes asked for
          Rounds,      \* Get/Put rounds per goroutine
          AtomicGet

SizeSeq == CHOOSE s \in [1..Cardinality(Sizes) -> Sizes] : \A i \in 1..(Cardinality(Sizes) - 1) : s[i] < s[i + 1]

VARIABLES used,     \* usedTotal
          pc,       \* getter -> "idle" | "checked" | "holding" | "done"
          want,     \* getter -> capacity its pending Get will account
          held,     \* getter -> capacity it holds (0 = nothing)
          left      \* getter -> rounds left
vars == <<used, pc, want, held, left>>

Init == /\ used = 0 /\ pc = [g \in Getters |-> "idle"] /\ want = [g \in Getters |-> 0]
        /\ held = [g \in Getters |-> 0] /\ left = [g \in Getters |-> Rounds]

(* Get as one critical section: test, take a slice, account *)
GetAtomic(g, sz) ==
    /\ AtomicGet /\ pc[g] = "idle" /\ left[g] > 0
    /\ LET r == AlgoGet(SizeSeq, Max, used, sz) IN
         /\ used' = r.used
         /\ IF r.ok THEN held' = [held EXCEPT ![g] = r.cap] /\ pc' = [pc EXCEPT ![g] = "holding"] /\ UNCHANGED left
            ELSE left' = [left EXCEPT ![g] = @ - 1] /\ UNCHANGED <<held, pc>>      \* ErrPoolExhausted
    /\ UNCHANGED want
(* the split variant: the budget test ... *)
GetCheck(g, sz) ==
    /\ ~AtomicGet /\ pc[g] = "idle" /\ left[g] > 0
    /\ LET c == GetCap(SizeSeq, sz) IN
         IF used + c > Max THEN left' = [left EXCEPT ![g] = @ - 1] /\ UNCHANGED <<pc, want>>
         ELSE pc' = [pc EXCEPT ![g] = "checked"] /\ want' = [want EXCEPT ![g] = c] /\ UNCHANGED left
    /\ UNCHANGED <<used, held>>
(* ... and, later, the accounting *)
GetAccount(g) ==
    /\ pc[g] = "checked"
    /\ used' = used + want[g] /\ held' = [held EXCEPT ![g] = want[g]]
    /\ pc' = [pc EXCEPT ![g] = "holding"] /\ UNCHANGED <<want, left>>
Put(g) ==
    /\ pc[g] = "holding"
    /\ used' = AlgoPut(used, held[g]) /\ held' = [held EXCEPT ![g] = 0]
    /\ left' = [left EXCEPT ![g] = @ - 1]
    /\ pc' = [pc EXCEPT ![g] = "idle"] /\ UNCHANGED want
AllDone == (\A g \in Getters : left[g] = 0 /\ pc[g] = "idle") /\ UNCHANGED vars
Next == (\E g \in Getters : (\E sz \in ReqSizes : GetAtomic(g, sz) \/ GetCheck(g, sz)) \/ GetAccount(g) \/ Put(g)) \/ AllDone
Spec == Init /\ [][Next]_vars

HeldTotal == LET S == { g \in Getters : held[g] > 0 }
                 RECURSIVE Sum(_)
                 Sum(T) == IF T = {} THEN 0 ELSE LET x == CHOOSE y \in T : TRUE IN held[x] + Sum(T \ {x})
             IN Sum(S)
(* "never has more bytes checked out than its configured maximum", for every interleaving *)
C17_ConcWithinMaximum == used <= Max /\ HeldTotal <= Max
(* "its usage returns to zero once every buffer is returned" *)
C17_ConcZeroWhenAllReturned == (\A g \in Getters : pc[g] \in {"idle"} /\ held[g] = 0) => used = 0
=============================================================================
