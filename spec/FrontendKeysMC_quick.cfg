\* C43 leg A quick: slices of the request domain (tenant x query x step; engine x partial x replicas x analyze;
\* typed fields; query x engine x replicas x shard; uncacheable variants) + labels and series domains
SPECIFICATION Spec
CONSTANTS Big = FALSE
INVARIANTS BuilderAgrees C43_KeysSeparate
CHECK_DEADLOCK FALSE
