------------------------------ MODULE BlockSet ------------------------------
(***************************************************************************)
(* Block selection of the store gateway                                    *)
(* (pkg/store/bucket.go: bucketBlockSet.add / getFor).                     *)
(*                                                                         *)
(* A block is a record [id, res, min, max]: it holds the samples with      *)
(* min <= t < max (TSDB block ranges are half-open) at downsampling        *)
(* resolution res (milliseconds: 0 raw, 300000 = 5m, 3600000 = 1h).        *)
(* A query is [mint, maxt, maxres]: the closed range mint..maxt (the       *)
(* StoreAPI Series request range is inclusive on both ends) and the        *)
(* coarsest resolution the caller accepts.                                 *)
(*                                                                         *)
(* Property C15: the selected blocks never exceed the maximum resolution,  *)
(* never contain a block twice, all overlap the query range, and together  *)
(* cover every instant of the range that some block of an allowed          *)
(* resolution covers.                                                      *)
(***************************************************************************)
EXTENDS Integers, Sequences, FiniteSets

Resolutions == <<3600000, 300000, 0>>      \* as bucketBlockSet.resolutions: high to low

SeqRange(s) == { s[k] : k \in DOMAIN s }

(* ------------------------- property level ------------------------- *)
(* Written from the statement; nothing here knows how getFor works.     *)

Covers(b, t) == b.min <= t /\ t < b.max
Allowed(blocks, q) == { b \in blocks : b.res <= q.maxres }

(* "overlaps the query range": some instant of mint..maxt lies in [min,max).  Closed form of    *)
(* \E t \in q.mint..q.maxt : Covers(b, t)   (BlockSetLemmaMC checks the two agree on the grid).       *)
Overlaps(b, q) == q.mint <= q.maxt /\ b.min < b.max /\ b.min <= q.maxt /\ q.mint < b.max

(* Instants of the range that an allowed block covers and no selected block covers.  The set is *)
(* a finite union of intervals; a left end of such an interval is the range start, the start of *)
(* an allowed block or the end of a selected block, so it is enough to look there (the trace    *)
(* works on millisecond timestamps; BlockSetLemmaMC checks this reduction against all instants). *)
UncoveredAt(blocks, selBlocks, q, t) ==
    /\ q.mint <= t /\ t <= q.maxt
    /\ \E b \in Allowed(blocks, q) : Covers(b, t)
    /\ ~ \E b \in selBlocks : Covers(b, t)
CandidateInstants(blocks, selBlocks, q) ==
    {q.mint} \cup { b.min : b \in Allowed(blocks, q) } \cup { b.max : b \in selBlocks }
CoverageHole(blocks, selBlocks, q) ==
    \E t \in CandidateInstants(blocks, selBlocks, q) : UncoveredAt(blocks, selBlocks, q, t)

(* Request hints may carry block matchers (on the blocks' external labels and __block_id): then *)
(* only matching blocks may be selected.  q.allowed (optional field) = ids of the matching       *)
(* blocks.  What such a request must still cover is not part of the statement: the coverage     *)
(* clause is judged only for requests without block matchers.                                    *)
HasMatchers(q) == "allowed" \in DOMAIN q
AllowedIds(blocks, q) == IF HasMatchers(q) THEN q.allowed ELSE { b.id : b \in blocks }

(* sel = the sequence of block ids a selection returned.  The set of violated clauses of C15.   *)
Judge(blocks, q, sel) ==
    LET ids == { b.id : b \in blocks }
        selBlocks == { b \in blocks : b.id \in SeqRange(sel) }
    IN  (IF SeqRange(sel) \cap ids \subseteq AllowedIds(blocks, q) THEN {} ELSE {"only-blocks-matching-the-block-matchers"}) \cup (IF SeqRange(sel) \subseteq ids THEN {} ELSE {"selected-blocks-exist-in-the-layout"})
        \cup (IF \A b \in selBlocks : b.res <= q.maxres THEN {} ELSE {"never-exceeds-max-resolution"})
        \cup (IF Cardinality(SeqRange(sel)) = Len(sel) THEN {} ELSE {"never-duplicates-a-block"})
        \cup (IF \A b \in selBlocks : Overlaps(b, q) THEN {} ELSE {"all-overlap-the-query-range"})
        \cup (IF ~HasMatchers(q) /\ CoverageHole(blocks, selBlocks, q) THEN {"covers-what-allowed-blocks-cover"} ELSE {})

(* ------------------------- algorithm level ------------------------- *)
(* bucketBlockSet keeps one slice per resolution, sorted by (MinTime, MaxTime) (add()).  Blocks  *)
(* with identical ranges are in unspecified relative order (sort.Slice is not stable); the model *)
(* orders them by id, and conformance is compared on the multiset of returned ids.               *)

Before(a, b) == \/ a.min < b.min
                \/ a.min = b.min /\ a.max < b.max
                \/ a.min = b.min /\ a.max = b.max /\ a.id < b.id
RECURSIVE SortBlocks(_)
SortBlocks(S) ==
    IF S = {} THEN <<>>
    ELSE LET m == CHOOSE x \in S : \A y \in S \ {x} : Before(x, y)
         IN  <<m>> \o SortBlocks(S \ {m})
Level(blocks, i) == SortBlocks({ b \in blocks : b.res = Resolutions[i] })

(* "Find first matching resolution": first index whose resolution is <= maxres.  For maxres < 0  *)
(* the code indexes past the slice (panic); the model and the property only consider maxres >= 0. *)
FirstLevel(maxres) == CHOOSE i \in 1..3 : Resolutions[i] <= maxres /\ \A j \in 1..(i - 1) : Resolutions[j] > maxres

Max(a, b) == IF a >= b THEN a ELSE b

(* The two repairs of the fix: commit (see KNOWN_FINDINGS.jsonl, property=C15).  Set either to   *)
(* FALSE to obtain the behaviour of the code before the fix (BlockSetMC then fails).             *)
MonotoneStart == TRUE      \* start only moves forward: start = max(start, b.MaxTime)
DedupResult == TRUE        \* getFor drops repeated blocks from the result of the recursion

NewStart(start, b) == IF MonotoneStart THEN Max(start, b.max) ELSE b.max

(* The recursion of getFor as a function: fill mint..maxt with the blocks of the level, and the  *)
(* gaps (before each block, and after the last) with the next finer level.                       *)
(* al = ids of the blocks that match the request's block matchers: a block that does not match  *)
(* is not appended, but it still counts as covering its range (start moves past it).            *)
RECURSIVE GetForRec(_, _, _, _, _), GetForLoop(_, _, _, _, _, _, _, _)
Finer(blocks, lo, hi, i, al) == IF i < 3 THEN GetForRec(blocks, lo, hi, i + 1, al) ELSE <<>>
GetForLoop(blocks, lvl, k, start, mint, maxt, i, al) ==
    IF k > Len(lvl) \/ lvl[k].min > maxt THEN Finer(blocks, start, maxt, i, al)
    ELSE IF lvl[k].max <= mint THEN GetForLoop(blocks, lvl, k + 1, start, mint, maxt, i, al)
    ELSE Finer(blocks, start, lvl[k].min - 1, i, al) \o (IF lvl[k].id \in al THEN <<lvl[k].id>> ELSE <<>>)
         \o GetForLoop(blocks, lvl, k + 1, NewStart(start, lvl[k]), mint, maxt, i, al)
GetForRec(blocks, mint, maxt, i, al) ==
    IF mint > maxt THEN <<>> ELSE GetForLoop(blocks, Level(blocks, i), 1, mint, mint, maxt, i, al)

RECURSIVE DedupSeq(_, _)
DedupSeq(s, seen) ==
    IF s = <<>> THEN <<>>
    ELSE IF Head(s) \in seen THEN DedupSeq(Tail(s), seen)
    ELSE <<Head(s)>> \o DedupSeq(Tail(s), seen \cup {Head(s)})

GetFor(blocks, q) ==
    LET r == GetForRec(blocks, q.mint, q.maxt, FirstLevel(q.maxres), AllowedIds(blocks, q))
    IN  IF DedupResult THEN DedupSeq(r, {}) ELSE r

(* multiset of a sequence, for order-insensitive comparison *)
BagOf(s) == [x \in SeqRange(s) |-> Cardinality({ k \in DOMAIN s : s[k] = x })]
=============================================================================
