------------------------------ MODULE C47Trace ------------------------------
(***************************************************************************)
(* Leg C for C47 (step trace).  A single driver goroutine changes the      *)
(* files / environment and calls Reloader.apply (through the export shim,  *)
(* no real-time watcher), so the order of lines is the order of events.    *)
(*   case    header of a history (in.cfg0, in.env0, in.tol, in.ops)        *)
(*   Change  a change the driver made (op, f, c) - informational           *)
(*   Apply   outcome asked of the reload endpoint; ins = the input files   *)
(*           as found on disk when apply returned (nothing changes them    *)
(*           during apply), env ("unset" when the variable is unset), tol  *)
(*           (tolerance for unset variables, configuration); calls/oks     *)
(*           counted by the endpoint; err;                                 *)
(*           outs = output files after apply; atok = output files at the   *)
(*           moment the endpoint answered 200                              *)
(*   WChange / WSettle / WIdle  scenarios on the real Watch loop (fsnotify *)
(*           events, ConfigMap-style symlink flips, watch and retry        *)
(*           intervals): a change, the settled observation after it (or a  *)
(*           deadline), the reload requests seen during an idle period     *)
(* Judged with the property-level operators of Reloader.tla; the spec only *)
(* carries the property's memory P (last successfully reloaded content,    *)
(* pending failed reload) from apply to apply.  The eventual clause of the *)
(* statement (outputs = expanded inputs, no orphan outputs) is judged at   *)
(* every quiescent point: after every apply that completed without error   *)
(* and reloaded successfully or had nothing to reload - including the      *)
(* first one after an apply that failed part-way (recovery).               *)
(***************************************************************************)
EXTENDS TraceLib, Reloader

VARIABLES l, P, A
tvars == <<l, P, A>>

TraceInit == l = 1 /\ P = PInit /\ A = AInit
IsEvent(n) == l <= TraceLen /\ Trace[l].ev = n /\ l' = l + 1

Header == IsEvent("case") /\ P' = PInit /\ A' = AInit
Change == IsEvent("Change") /\ UNCHANGED <<P, A>>
Apply == /\ IsEvent("Apply")
         /\ LET e == Trace[l]
                snap == Snapshot(e.ins)
            IN /\ CaseReject(l, e, ApplyClauses(P, e.ins, e.env, e.tol, e))
               (* model conformance (never a verdict): does the algorithm summary predict the trigger, *)
               (* and does the apply fail exactly under the unset-variable fault?                       *)
               /\ (IF (e.err = "" /\ (e.calls > 0) # ATrigger(A, snap)) \/ ((e.err # "") # MayFail(e.ins, e.env, e.tol))
                     THEN PrintT(<<"DRIFT", l, e["case"]>>) ELSE TRUE)
               /\ P' = PNext(P, snap, e.env, e.err, e.calls, e.oks)
               /\ A' = ANext(A, snap, e.err, e.calls, e.oks)

(* phase 2: scenarios on the real Watch loop; WChange lines are informational *)
WChange == IsEvent("WChange") /\ UNCHANGED <<P, A>>
WSettle == IsEvent("WSettle") /\ CaseReject(l, Trace[l], SettleClauses(Trace[l])) /\ UNCHANGED <<P, A>>
WIdle == IsEvent("WIdle") /\ CaseReject(l, Trace[l], IdleClauses(Trace[l])) /\ UNCHANGED <<P, A>>

TraceNext == Header \/ Change \/ Apply \/ WChange \/ WSettle \/ WIdle
TraceSpec == TraceInit /\ [][TraceNext]_tvars
TraceAccepted == TLCGet("stats").diameter = TraceLen + 1
=============================================================================
