------------------------------ MODULE TraceLib ------------------------------
(***************************************************************************)
(* Shared plumbing of every trace specification (leg C, DESIGN.md 3.1).   *)
(*                                                                         *)
(* The trace is an NDJSON file recorded from the REAL code by a Go        *)
(* harness.  Its path comes from the environment (VERIF_TRACE) so that    *)
(* one committed spec serves every run.  Two styles are supported:        *)
(*                                                                         *)
(*  * case traces: every line is one self-contained execution; the trace  *)
(*    spec supplies Judge(e) = the set of property clauses that line e    *)
(*    violates.  CaseStep walks the file and prints one REJECT tuple per  *)
(*    offending line, so one TLC run reports every rejected case.         *)
(*  * step traces: lines are linearised steps of a protocol; the trace    *)
(*    spec supplies one action per event name (IsEvent) and TLC searches  *)
(*    for a behaviour of the property-level spec that explains them.      *)
(*    The high-water mark of l is kept in TLC register 1.                 *)
(***************************************************************************)
EXTENDS Json, IOUtils, TLC, Sequences, Naturals, FiniteSets

TraceFile == IF "VERIF_TRACE" \in DOMAIN IOEnv THEN IOEnv.VERIF_TRACE ELSE "trace.ndjson"
Trace == ndJsonDeserialize(TraceFile)
TraceLen == Len(Trace)

Has(e, k) == k \in DOMAIN e
Get(e, k, d) == IF k \in DOMAIN e THEN e[k] ELSE d

(* JSON arrays arrive as sequences (tuples); an empty array is <<>>.  *)
Range(s) == { s[i] : i \in DOMAIN s }
IsSeq(s) == DOMAIN s = 1..Len(s)

(* ---- case traces ---- *)
CaseReject(l, e, clauses) ==
    IF clauses = {} THEN TRUE
    ELSE PrintT(<<"REJECT", l, e["case"], clauses>>)

(* ---- step traces ---- *)
HighWater == TLCGet(1)
NoteProgress(l) == IF l > TLCGet(1) THEN TLCSet(1, l) ELSE TRUE
=============================================================================
