------------------------------ MODULE C20Trace ------------------------------
(***************************************************************************)
(* Leg C for C20.  One trace line per (ketama ring without zones, added    *)
(* endpoint) run on the REAL NewMultiHashring:                             *)
(*   in.eps   the endpoints before the addition, in.add the new endpoint,  *)
(*   in.rf    replication factor                                           *)
(*   built    both rings were built (otherwise nothing is judged: the      *)
(*            statement says nothing about errors, DESIGN 2.2)             *)
(*   obs      distinct observations over (tenant, series):                 *)
(*              b  replica list GetN(0..rf-1) before the addition          *)
(*              a  replica list after the addition                         *)
(*            endpoints as 1-based indices into in.eps, the new endpoint   *)
(*            is Len(in.eps) + 1, an unknown address 0                     *)
(* Statement: "adding one endpoint changes the replica set of a series at  *)
(* most by introducing the new endpoint in place of another one; series    *)
(* never move between pre-existing nodes".                                 *)
(***************************************************************************)
EXTENDS TraceLib, Hashring

NewIdx(e) == Len(e.in.eps) + 1
Judge(e) ==
    IF ~e.built THEN {}
    ELSE UNION { C20Clauses(e.obs[k].b, e.obs[k].a, NewIdx(e)) : k \in DOMAIN e.obs }

VARIABLE l
TraceInit == l = 1
TraceNext == /\ l <= TraceLen
             /\ CaseReject(l, Trace[l], Judge(Trace[l]))
             /\ l' = l + 1
TraceSpec == TraceInit /\ [][TraceNext]_l
TraceAccepted == TLCGet("stats").diameter = TraceLen + 1
=============================================================================
