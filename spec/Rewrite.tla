------------------------------- MODULE Rewrite -------------------------------
(***************************************************************************)
(* Bucket rewrite with deletion requests (pkg/compactv2: Compactor.        *)
(* WriteSeries + WithDeletionModifier: delModifierSeriesSet.Next,          *)
(* delGenericSeriesIterator.next, delChunkSeriesIterator.Next).            *)
(*                                                                         *)
(* Shapes (model, generated cases and trace):                              *)
(*   series   [labels |-> Seq([n, v]), chunks |-> Seq(Seq([t, v]))]        *)
(*            chunks non-empty, times strictly increasing through the      *)
(*            series                                                       *)
(*   request  [matchers |-> Seq([name, type, alts]), ivs |-> Seq([lo, hi])]*)
(*            matcher types EQ / NEQ / RE / NRE; EQ/NEQ compare with       *)
(*            alts[1], RE/NRE are anchored alternations of the literals;   *)
(*            ivs = <<>> means "delete the whole series"; intervals are    *)
(*            closed                                                       *)
(*   output   Seq(series)                                                  *)
(*                                                                         *)
(* Property C48: a sample is never removed unless some request's selectors *)
(* match its series and (the request has no intervals or the sample's time *)
(* is inside one of them); it is removed whenever such a request exists    *)
(* whose label names the series all carries.                               *)
(***************************************************************************)
EXTENDS Integers, Sequences, FiniteSets, SequencesExt

WRan(s) == { s[i] : i \in DOMAIN s }

(* ======================= property level ======================= *)
WLabelVal(ls, name) ==
    IF \E i \in DOMAIN ls : ls[i].n = name THEN ls[CHOOSE i \in DOMAIN ls : ls[i].n = name].v ELSE ""
WMatcherHolds(m, v) ==
    CASE m.type = "EQ"  -> v = m.alts[1]
      [] m.type = "NEQ" -> v # m.alts[1]
      [] m.type = "RE"  -> v \in WRan(m.alts)
      [] m.type = "NRE" -> v \notin WRan(m.alts)
(* "a series the selectors match" (Prometheus semantics: a missing label reads "") *)
WMatches(req, ls) == \A i \in DOMAIN req.matchers : WMatcherHolds(req.matchers[i], WLabelVal(ls, req.matchers[i].name))
(* "carry all labels named in the selectors" *)
WCarriesAll(req, ls) == \A i \in DOMAIN req.matchers : \E k \in DOMAIN ls : ls[k].n = req.matchers[i].name
(* "inside the requested time intervals" / whole-series deletion *)
WInIntervals(req, t) == req.ivs = <<>> \/ \E k \in DOMAIN req.ivs : req.ivs[k].lo <= t /\ t <= req.ivs[k].hi

MayDelete(reqs, ls, t) == \E r \in DOMAIN reqs : WMatches(reqs[r], ls) /\ WInIntervals(reqs[r], t)
MustDelete(reqs, ls, t) == \E r \in DOMAIN reqs : WMatches(reqs[r], ls) /\ WCarriesAll(reqs[r], ls) /\ WInIntervals(reqs[r], t)

LabelSet(ls) == { <<ls[i].n, ls[i].v>> : i \in DOMAIN ls }
Flat(chs) == FoldLeft(LAMBDA acc, c : acc \o c, <<>>, chs)
(* samples <<t, v>> of a series; of all series of a list that carry the label set lset *)
SeriesSamples(s) == UNION { { <<s.chunks[c][k].t, s.chunks[c][k].v>> : k \in DOMAIN s.chunks[c] } : c \in DOMAIN s.chunks }
SamplesWith(ss, lsets, lset) == UNION { SeriesSamples(ss[i]) : i \in { j \in DOMAIN ss : lsets[j] = lset } }

(* The clauses of C48 violated by answering `out` to (series, reqs).  *)
WViolations(series, reqs, out) ==
    LET outL == [a \in DOMAIN out |-> LabelSet(out[a].labels)]     \* label sets of the written series
        PerSeries(s) ==
          LET lset == LabelSet(s.labels)
              left == SamplesWith(out, outL, lset)
              leftT == { x[1] : x \in left }
              may == { r \in DOMAIN reqs : WMatches(reqs[r], s.labels) }
              must == { r \in may : WCarriesAll(reqs[r], s.labels) }
              mine == SeriesSamples(s)
          IN
          (* "never removes a sample outside the requested time intervals or from a series the selectors do not match" *)
          (IF \A x \in mine : x \in left \/ \E r \in may : WInIntervals(reqs[r], x[1])
             THEN {} ELSE {"sample-outside-requests-kept"})
          \cup
          (* "removes every sample inside the intervals of series that match and carry all labels named in the selectors" *)
          (IF \A x \in mine : x[1] \notin leftT \/ \A r \in must : ~WInIntervals(reqs[r], x[1])
             THEN {} ELSE {"requested-sample-removed"})
          \cup
          (* "deletes exactly the requested data": what is left of the series is data of the series *)
          (IF left \subseteq mine THEN {} ELSE {"only-block-data-written"})
    IN
    UNION { PerSeries(series[i]) : i \in DOMAIN series }
    \cup
    (IF \A a \in DOMAIN out : \E i \in DOMAIN series : LabelSet(series[i].labels) = outL[a]
       THEN {} ELSE {"only-block-data-written"})
    \cup
    (* each kept sample once, in time order, one output series per label set *)
    (IF /\ \A a, b \in DOMAIN out : a # b => outL[a] # outL[b]
        /\ \A a \in DOMAIN out : LET f == Flat(out[a].chunks) IN \A k \in 1..(Len(f) - 1) : f[k].t < f[k + 1].t
       THEN {} ELSE {"each-kept-sample-once-in-order"})

(* ======================= algorithm level ======================= *)
(* DeletionsLoop: a request applies when every matcher finds a non-empty value that it matches. *)
WAlgoApplies(req, ls) == \A i \in DOMAIN req.matchers :
                            LET v == WLabelVal(ls, req.matchers[i].name) IN v # "" /\ WMatcherHolds(req.matchers[i], v)
WAlgoWhole(reqs, ls) == \E r \in DOMAIN reqs : WAlgoApplies(reqs[r], ls) /\ reqs[r].ivs = <<>>

(* tombstones.Intervals.Add: sorted, overlapping or adjacent (1 apart) intervals merged *)
WAdd(ivs, n) ==
    LET touch == { i \in DOMAIN ivs : ivs[i].hi >= n.lo - 1 /\ ivs[i].lo <= n.hi + 1 }
        lo == IF \E i \in touch : ivs[i].lo < n.lo THEN ivs[CHOOSE i \in touch : \A j \in touch : ivs[i].lo <= ivs[j].lo].lo ELSE n.lo
        hi == IF \E i \in touch : ivs[i].hi > n.hi THEN ivs[CHOOSE i \in touch : \A j \in touch : ivs[i].hi >= ivs[j].hi].hi ELSE n.hi
        rest == { ivs[i] : i \in DOMAIN ivs \ touch }
    IN SortSeq(SetToSeq(rest \cup {[lo |-> lo, hi |-> hi]}), LAMBDA a, b : a.lo < b.lo)
WAlgoIntervals(reqs, ls) ==
    FoldLeft(LAMBDA acc, r : IF WAlgoApplies(r, ls) THEN FoldLeft(WAdd, acc, r.ivs) ELSE acc, <<>>, reqs)

(* delGenericSeriesIterator.next + delChunkSeriesIterator.Next on one chunk:               *)
(*   "drop"  the chunk's [min,max] lies inside ONE merged interval                          *)
(*   "keep"  no interval overlaps the chunk: copied                                         *)
(*   "part"  re-encoded without the samples inside the overlapping intervals; when nothing  *)
(*           is left (several intervals cover all samples of a sparse chunk) the chunk is   *)
(*           skipped like a dropped one                                                     *)
WChunkMin(c) == c[1].t
WChunkMax(c) == c[Len(c)].t
WAlgoChunk(c, ivs) ==
    IF \E k \in DOMAIN ivs : ivs[k].lo <= WChunkMin(c) /\ WChunkMin(c) <= ivs[k].hi /\ ivs[k].lo <= WChunkMax(c) /\ WChunkMax(c) <= ivs[k].hi
      THEN [kind |-> "drop", samples |-> <<>>]
    ELSE LET ov == { k \in DOMAIN ivs : WChunkMin(c) <= ivs[k].hi /\ ivs[k].lo <= WChunkMax(c) } IN
         IF ov = {} THEN [kind |-> "keep", samples |-> c]
         ELSE [kind |-> "part", samples |-> SelectSeq(c, LAMBDA s : \A k \in ov : ~(ivs[k].lo <= s.t /\ s.t <= ivs[k].hi))]

(* the whole rewrite as a function (the step-wise machine is RewriteMC); used by the trace spec for   *)
(* model conformance                                                                                  *)
WAlgoSeries(s, reqs) ==
    IF WAlgoWhole(reqs, s.labels) THEN <<>>
    ELSE LET ivs == WAlgoIntervals(reqs, s.labels)
             res == [c \in DOMAIN s.chunks |-> WAlgoChunk(s.chunks[c], ivs).samples]
         IN SelectSeq(res, LAMBDA x : x # <<>>)
WAlgoOut(series, reqs) ==
    LET all == [i \in DOMAIN series |-> [labels |-> series[i].labels, chunks |-> WAlgoSeries(series[i], reqs)]]
    IN SelectSeq(all, LAMBDA x : x.chunks # <<>>)
(* ======================= phase 2: relabel + deletion, change log, dry run ======================= *)
(* `thanos tools bucket rewrite` applies the relabel modifier first and the deletion modifier to its    *)
(* result.  A series record then carries `to`: the label set relabelling gives it (<<>> = dropped);    *)
(* series with the same `to` are merged into one.  The deletion requests select on the NEW labels.     *)
(* C48 lifted to the composition: of the samples of the merged series exactly the requested ones are   *)
(* removed, nothing is invented, dropped series are gone.  When two merged series have a sample at the *)
(* same time either value may be kept (one sample per time).                                           *)
WTargets(series) == { LabelSet(series[i].to) : i \in { j \in DOMAIN series : series[j].to # <<>> } }
WToSeq(series, lset) == series[CHOOSE i \in DOMAIN series : LabelSet(series[i].to) = lset].to
WMergedSamples(series, lset) == UNION { SeriesSamples(series[i]) : i \in { j \in DOMAIN series : LabelSet(series[j].to) = lset /\ series[j].to # <<>> } }

WViolationsR(series, reqs, out) ==
    LET outL == [a \in DOMAIN out |-> LabelSet(out[a].labels)]
        PerTarget(lset) ==
          LET ls == WToSeq(series, lset)
              mine == WMergedSamples(series, lset)
              left == SamplesWith(out, outL, lset)
              leftT == { x[1] : x \in left }
              may == { r \in DOMAIN reqs : WMatches(reqs[r], ls) }
              must == { r \in may : WCarriesAll(reqs[r], ls) }
          IN
          (IF \A x \in mine : x[1] \in leftT \/ \E r \in may : WInIntervals(reqs[r], x[1])
             THEN {} ELSE {"sample-outside-requests-kept"})
          \cup (IF \A x \in mine : x[1] \notin leftT \/ \A r \in must : ~WInIntervals(reqs[r], x[1])
                  THEN {} ELSE {"requested-sample-removed"})
          \cup (IF left \subseteq mine THEN {} ELSE {"only-block-data-written"})
    IN
    UNION { PerTarget(l) : l \in WTargets(series) }
    \cup (IF \A a \in DOMAIN out : outL[a] \in WTargets(series) THEN {} ELSE {"only-block-data-written"})
    \cup (IF /\ \A a, b \in DOMAIN out : a # b => outL[a] # outL[b]
           /\ \A c \in DOMAIN out : LET f == Flat(out[c].chunks) IN \A k \in 1..(Len(f) - 1) : f[k].t < f[k + 1].t
          THEN {} ELSE {"each-kept-sample-once-in-order"})

(* The change log (ChangeLogger.DeleteSeries entries: [labels, ivs]) of a deletion-only rewrite: every  *)
(* series that lost a sample is logged, and each lost sample's time lies in a logged interval of its   *)
(* series.  (The log may name more: it records interval x chunk overlaps, also where no sample was.)    *)
WLogClauses(series, out, log) ==
    LET outL == [a \in DOMAIN out |-> LabelSet(out[a].labels)]
        Lost(s) == { x[1] : x \in SeriesSamples(s) \ SamplesWith(out, outL, LabelSet(s.labels)) }
        Logged(s) == UNION { { log[k].ivs[j] : j \in DOMAIN log[k].ivs } : k \in { m \in DOMAIN log : LabelSet(log[m].labels) = LabelSet(s.labels) } }
    IN IF \A i \in DOMAIN series : \A t \in Lost(series[i]) : \E iv \in Logged(series[i]) : iv.lo <= t /\ t <= iv.hi
         THEN {} ELSE {"removed-samples-are-in-the-change-log"}
(* A dry run reports the same changes and writes nothing. *)
WDryRunClauses(log, dry) ==
    (IF { <<LabelSet(log[k].labels), log[k].ivs>> : k \in DOMAIN log } = { <<LabelSet(dry.log[k].labels), dry.log[k].ivs>> : k \in DOMAIN dry.log }
       THEN {} ELSE {"dry-run-reports-the-same-changes"})
    \cup (IF dry.wrote THEN {"dry-run-writes-nothing"} ELSE {})

(* algorithm level: the relabel modifier merges the series of one target into a series with a single   *)
(* chunk (the model's series are far below the 120-sample chunk cut), one sample per time; then the    *)
(* deletion algorithm runs on it.  Used for model conformance on times only.                           *)
WAlgoMerged(series) ==
    LET mk(lset) == LET pts == { x[1] : x \in WMergedSamples(series, lset) }
                        ts == SortSeq(SetToSeq(pts), LAMBDA a, b : a < b)
                    IN [labels |-> WToSeq(series, lset), chunks |-> << [k \in DOMAIN ts |-> [t |-> ts[k], v |-> 0]] >>]
    IN SetToSeq({ mk(l) : l \in WTargets(series) })
WTimesOf(ss) == { <<LabelSet(ss[i].labels), [c \in DOMAIN ss[i].chunks |-> [k \in DOMAIN ss[i].chunks[c] |-> ss[i].chunks[c][k].t]]>> : i \in DOMAIN ss }
=============================================================================
