\* C19 leg A thorough: <= 6 endpoints (1 section each) and <= 4 endpoints with 2 sections each,
\* <= 4 zones, all layouts / ring orders / rf; cases: zone vectors up to 12 endpoints
SPECIFICATION Spec
CONSTANTS MaxN = 6
          MaxZones = 4
          SecChoices = {1, 2}
          MaxSecs = 8
          Rule = "fixed"
          CaseMaxN = 12
INVARIANT C19_NoIdleLap
INVARIANT C19_TypeOK
PROPERTY C19_Terminates
CHECK_DEADLOCK FALSE
