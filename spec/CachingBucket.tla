---------------------------- MODULE CachingBucket ----------------------------
(***************************************************************************)
(* The store gateway's caching bucket                                      *)
(* (pkg/store/cache/caching_bucket.go: CachingBucket).                     *)
(*                                                                         *)
(* An object is an immutable sequence of bytes; a bucket maps names to     *)
(* objects (or Absent).  The caching bucket answers GetRange / Get /       *)
(* Exists / Attributes / Iter from a best-effort cache (a partial map that *)
(* may lose any entry at any time) and from the underlying bucket.         *)
(*                                                                         *)
(* Property C14: every answer equals the underlying bucket's answer, for   *)
(* every subrange size, every request-merging limit and every cache        *)
(* content (that the caching bucket itself produced, minus arbitrary       *)
(* losses).                                                                *)
(*                                                                         *)
(* Offsets are 0-based as in the code; sequences are 1-based.              *)
(***************************************************************************)
EXTENDS Integers, Sequences, FiniteSets

MinI(a, b) == IF a < b THEN a ELSE b

(* ======================= property level ======================= *)
(* What the underlying bucket answers -- the reference every read through  *)
(* the caching bucket has to reproduce.                                    *)
Absent == <<-1>>                       \* "no such object" (object bytes are >= 0)
NotFound == [kind |-> "notfound"]
Data(d) == [kind |-> "data", data |-> d]

(* bytes [off, off+len) of obj, clipped to the object; empty when off is at or beyond the end *)
RangeOf(obj, off, len) ==
    IF off >= Len(obj) \/ len <= 0 THEN <<>> ELSE SubSeq(obj, off + 1, MinI(off + len, Len(obj)))

BktGetRange(bkt, x, off, len) == IF bkt[x] = Absent THEN NotFound ELSE Data(RangeOf(bkt[x], off, len))
(* Get, reading k bytes and closing (k < 0: reading to the end) *)
BktGet(bkt, x, k) ==
    IF bkt[x] = Absent THEN NotFound ELSE Data(IF k < 0 THEN bkt[x] ELSE RangeOf(bkt[x], 0, k))
BktExists(bkt, x) == [kind |-> "bool", val |-> bkt[x] # Absent]
BktAttrs(bkt, x) == IF bkt[x] = Absent THEN NotFound ELSE [kind |-> "size", val |-> Len(bkt[x])]
BktIter(bkt) == [kind |-> "names", val |-> { x \in DOMAIN bkt : bkt[x] # Absent }]

(* C14: "returns the same bytes and answers as the underlying bucket".  *)
Transparent(got, want) == got = want

(* ======================= algorithm level ======================= *)
(* cachedGetRange / fetchMissingSubranges / mergeRanges / subrangesReader.  *)
AlignDown(x, S) == (x \div S) * S

(* mergeRanges(input, limit): fold from the left, merging a range into the previous one when  *)
(* the gap between them is <= limit.                                                          *)
RECURSIVE MergeFrom(_, _, _, _)
MergeFrom(acc, input, ix, limit) ==
    IF ix > Len(input) THEN acc
    ELSE LET lastR == acc[Len(acc)] IN
         IF input[ix].start - lastR.end <= limit
           THEN MergeFrom([acc EXCEPT ![Len(acc)] = [start |-> lastR.start, end |-> input[ix].end]],
                          input, ix + 1, limit)
           ELSE MergeFrom(Append(acc, input[ix]), input, ix + 1, limit)
MergeRanges(input, limit) ==
    IF Len(input) = 0 THEN input ELSE MergeFrom(<<input[1]>>, input, 2, limit)

(* `for limit := S; M > 0 && len(missing) > M; limit *= 2 { missing = mergeRanges(missing, limit) }` *)
RECURSIVE MergeLoop(_, _, _)
MergeLoop(missing, limit, M) ==
    IF M > 0 /\ Len(missing) > M THEN MergeLoop(MergeRanges(missing, limit), limit * 2, M) ELSE missing

(* subrange-aligned offsets in [o, endR) that are not cached, ascending, one rng of length S each *)
RECURSIVE MissingFrom(_, _, _, _)
MissingFrom(o, endR, S, hitset) ==
    IF o >= endR THEN <<>>
    ELSE (IF o \in hitset THEN <<>> ELSE <<[start |-> o, end |-> o + S]>>) \o MissingFrom(o + S, endR, S, hitset)

(* The plan of one GetRange(off, len0) with off >= 0, len0 > 0 on an existing object of `size`   *)
(* bytes, subrange size S, at most M sub-requests (0 = unlimited), hitset = cached subrange      *)
(* start offsets.  pass = the request is handed to the underlying bucket unchanged (offset at    *)
(* or beyond the end of the object: there is nothing the cache could hold).                      *)
Plan(size, S, M, off, len0, hitset) ==
    LET len == IF off + len0 > size THEN size - off ELSE len0
        startR == AlignDown(off, S)
        endR == AlignDown(off + len, S) + (IF (off + len) % S > 0 THEN S ELSE 0)
        lastOff == IF endR > size THEN AlignDown(size, S) ELSE endR - S
        lastLen == IF endR > size THEN size - AlignDown(size, S) ELSE S
    IN [pass |-> off >= size, len |-> len, startR |-> startR, endR |-> endR,
        lastOff |-> lastOff, lastLen |-> lastLen,
        missing |-> IF off >= size THEN <<>>
                    ELSE MergeLoop(MergeRanges(MissingFrom(startR, endR, S, hitset), 0), S, M)]

(* the GetRange calls the plan sends to the underlying bucket, as <<offset, length>> pairs *)
PlanReqs(p, off, len0) ==
    IF p.pass THEN {<<off, len0>>}
    ELSE { <<p.missing[i].start, p.missing[i].end - p.missing[i].start>> : i \in DOMAIN p.missing }

BufSize(p, S, m) ==
    IF p.lastOff >= m.end THEN m.end - m.start ELSE ((m.end - m.start) - S) + p.lastLen

(* subrangesReader.Read until EOF: [ok, data]; ok = FALSE is a read error *)
RECURSIVE ReadAll(_, _, _, _)
ReadAll(subs, S, ro, rem) ==
    IF rem <= 0 THEN [ok |-> TRUE, data |-> <<>>]
    ELSE LET cur == AlignDown(ro, S) IN
         IF cur \notin DOMAIN subs THEN [ok |-> FALSE, data |-> <<>>]
         ELSE LET sub == subs[cur]
                  offIn == ro - cur
                  avail == Len(sub) - offIn
              IN IF avail <= 0 THEN [ok |-> FALSE, data |-> <<>>]
                 ELSE LET k == MinI(avail, rem)
                          rest == ReadAll(subs, S, ro + k, rem - k)
                      IN [ok |-> rest.ok, data |-> SubSeq(sub, offIn + 1, offIn + k) \o rest.data]

(* cachedGetRange on an existing object.  `size` is the (possibly cached) attribute value, hits  *)
(* the cached subranges (function start offset -> bytes).  Result: res = the answer, subs = the  *)
(* subranges known after the call (hits + newly stored ones), reqs = bucket sub-requests.        *)
AlgoGetRange(obj, size, S, M, off, len0, hits) ==
    LET p == Plan(size, S, M, off, len0, DOMAIN hits)
        Fetched(m) == RangeOf(obj, m.start, m.end - m.start)          \* what the bucket returns
        FetchOK(m) == BufSize(p, S, m) >= 0 /\ Len(Fetched(m)) >= BufSize(p, S, m)   \* io.ReadFull
        SliceLen(o) == IF o = p.lastOff THEN p.lastLen ELSE S
        SliceOK(m) == \A k \in 0..(((m.end - m.start) \div S) - 1) :
                         LET o == m.start + k * S IN (o - m.start) + SliceLen(o) <= BufSize(p, S, m)
        Slice(m, o) == SubSeq(Fetched(m), (o - m.start) + 1, (o - m.start) + SliceLen(o))
        Covered == { o \in { p.startR + k * S : k \in 0..(((p.endR - p.startR) \div S) - 1) } :
                       \E i \in DOMAIN p.missing : p.missing[i].start <= o /\ o < p.missing[i].end }
        RangeAt(o) == p.missing[CHOOSE i \in DOMAIN p.missing : p.missing[i].start <= o /\ o < p.missing[i].end]
        allOK == \A i \in DOMAIN p.missing : FetchOK(p.missing[i]) /\ SliceOK(p.missing[i])
        subs == [o \in DOMAIN hits \cup Covered |-> IF o \in DOMAIN hits THEN hits[o] ELSE Slice(RangeAt(o), o)]
    IN IF p.pass THEN [res |-> Data(RangeOf(obj, off, len0)), subs |-> hits, reqs |-> PlanReqs(p, off, len0)]
       ELSE IF ~allOK THEN [res |-> [kind |-> "error"], subs |-> hits, reqs |-> PlanReqs(p, off, len0)]
       ELSE LET r == ReadAll(subs, S, off, p.len) IN
            [res |-> IF r.ok THEN Data(r.data) ELSE [kind |-> "error"], subs |-> subs,
             reqs |-> PlanReqs(p, off, len0)]
=============================================================================
