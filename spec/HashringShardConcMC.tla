------------------------- MODULE HashringShardConcMC -------------------------
(***************************************************************************)
(* Leg A for C21, concurrent part: two getTenantShard calls (cache misses  *)
(* of concurrent GetN requests) run at the same time.  A call is a         *)
(* multi-step action: for each zone in turn it SEEDS a pseudo-random       *)
(* generator with (tenant, zone) and then DRAWS `take` positions from it,  *)
(* each draw followed by the (purely local) walk to the first endpoint of  *)
(* the zone not selected yet.                                              *)
(*                                                                         *)
(* The generator is uninterpreted: a generator state is (seed, number of   *)
(* values drawn since seeding) and the value drawn is PRF[seed][count+1],  *)
(* for EVERY function PRF (chosen in Init).                                *)
(*                                                                         *)
(* SharedGen = FALSE  each call owns its generator -- `rand.New(           *)
(*                    rand.NewSource(seed))` inside the call: the code.    *)
(*                    This is the checked configuration.                   *)
(* SharedGen = TRUE   one generator shared by all calls and re-seeded per  *)
(*                    (tenant, zone): variant configuration              *)
(*                    HashringShardConcMC_sharedgen_mustfail.cfg, run by   *)
(*                    hand: TLC must report C21_ConcStable violated.       *)
(***************************************************************************)
EXTENDS Hashring, TLC
CONSTANTS SharedGen, MaxTake, MaxV, MaxEndpoints, Procs, TenantIds

(* zone layouts: (2), (3), (1,1), (2,2) endpoints per zone *)
Layouts == { a \in {<<1, 1>>, <<1, 1, 1>>, <<1, 2>>, <<1, 1, 2, 2>>} : Len(a) <= MaxEndpoints }

VARIABLES az, take, prf,                \* configuration
          gen,                          \* generator state(s): proc -> [seed, n]  (index 0 = the shared one)
          pc, ten, zone, i, sel, result \* per call
vars == <<az, take, prf, gen, pc, ten, zone, i, sel, result>>

Zones == ZoneSet(az)
NodesIn(z) == { k \in DOMAIN az : az[k] = z }
(* the zone's ring: its endpoints in increasing order (one section each; ring orders are    *)
(* covered by HashringShardMC)                                                               *)
RECURSIVE AscSeq(_)
AscSeq(S) == IF S = {} THEN <<>> ELSE LET m == HMin(S) IN <<m>> \o AscSeq(S \ {m})
ZRing(z) == AscSeq(NodesIn(z))
Seeds == TenantIds \X (1..4)
NoSeed == <<0, 0>>
PosOf(v, z) == ((v - 1) % Len(ZRing(z))) + 1
G(p) == IF SharedGen THEN 0 ELSE p

Init == /\ az \in Layouts
        /\ take \in 1..MaxTake
        /\ \A z \in ZoneSet(az) : take <= ZoneCap(az, z)
        /\ prf \in [{ sd \in Seeds : sd[2] \in ZoneSet(az) } -> [1..MaxTake -> 1..MaxV]]
        /\ gen = [g \in Procs \cup {0} |-> [seed |-> NoSeed, n |-> 0]]
        /\ pc = [p \in Procs |-> "idle"]
        /\ ten = [p \in Procs |-> 0]
        /\ zone = [p \in Procs |-> 0]
        /\ i = [p \in Procs |-> 0]
        /\ sel = [p \in Procs |-> {}]
        /\ result = [p \in Procs |-> {}]

(* a GetN cache miss for some tenant starts computing its shard *)
Start(p) == /\ pc[p] = "idle"
            /\ \E t \in TenantIds : ten' = [ten EXCEPT ![p] = t]
            /\ zone' = [zone EXCEPT ![p] = HMin(Zones)]
            /\ pc' = [pc EXCEPT ![p] = "seed"]
            /\ UNCHANGED <<az, take, prf, gen, i, sel, result>>
(* `r := rand.New(rand.NewSource(ShuffleShardSeed(tenant, az)))`  /  shared: `r.Seed(...)` *)
Seed(p) == /\ pc[p] = "seed"
           /\ gen' = [gen EXCEPT ![G(p)] = [seed |-> <<ten[p], zone[p]>>, n |-> 0]]
           /\ i' = [i EXCEPT ![p] = 0] /\ sel' = [sel EXCEPT ![p] = {}]
           /\ pc' = [pc EXCEPT ![p] = "draw"]
           /\ UNCHANGED <<az, take, prf, ten, zone, result>>
(* `randomPos := r.Uint64()` + the local walk to the first endpoint not selected yet *)
Draw(p) == /\ pc[p] = "draw" /\ i[p] < take
           /\ LET g == gen[G(p)]
                  v == prf[g.seed][(g.n % MaxTake) + 1]       \* counts beyond MaxTake (shared variant only) wrap
                  nd == ShardWalk(ZRing(zone[p]), sel[p], PosOf(v, zone[p]), Len(ZRing(zone[p])))
              IN /\ gen' = [gen EXCEPT ![G(p)] = [g EXCEPT !.n = @ + 1]]
                 /\ sel' = [sel EXCEPT ![p] = @ \cup {nd}]
                 /\ result' = [result EXCEPT ![p] = @ \cup {nd}]
           /\ i' = [i EXCEPT ![p] = @ + 1]
           /\ UNCHANGED <<az, take, prf, pc, ten, zone>>
NextZone(p) == /\ pc[p] = "draw" /\ i[p] = take
               /\ LET rest == { z \in Zones : z > zone[p] }
                  IN IF rest = {} THEN pc' = [pc EXCEPT ![p] = "done"] /\ UNCHANGED zone
                     ELSE pc' = [pc EXCEPT ![p] = "seed"] /\ zone' = [zone EXCEPT ![p] = HMin(rest)]
               /\ UNCHANGED <<az, take, prf, gen, ten, i, sel, result>>

Next == \E p \in Procs : Start(p) \/ Seed(p) \/ Draw(p) \/ NextZone(p)
Spec == Init /\ [][Next]_vars /\ WF_vars(Next)

(* what a call computes when it runs alone: C21 "the same set of nodes every time" *)
SeqShard(t) == UNION { ZoneShard(ZRing(z), [k \in 1..take |-> PosOf(prf[<<t, z>>][k], z)]) : z \in Zones }
C21_ConcStable == \A p \in Procs : pc[p] = "done" => result[p] = SeqShard(ten[p])
C21_ConcSize == \A p \in Procs : pc[p] = "done" => ShardSizeOK(result[p], take * Cardinality(Zones), az, TRUE)
C21_ConcTerminates == <>(\A p \in Procs : pc[p] = "done")
=============================================================================
