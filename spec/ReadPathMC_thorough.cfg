\* C04 leg A thorough: 4 grid points, <= 2 identical replicas with every cut into <= 2 (possibly overlapping) chunks on
\* 2 stores, 3 identical replicas with disjoint cuts (N3 = 4), steps 1 s / 10 s; two-series worlds; non-identical
\* replicas on 3 grid points (gaps, 300 ms offset)
SPECIFICATION Spec
CONSTANTS N = 4
          MaxRep = 2
          MaxChunks = 2
          Steps = {1000, 10000}
          NC = 3
          N3 = 4
          CaseCap = 4000
          FrameCuts = {0, 1}
INVARIANTS ProxySortedUnique FramesRejoined ChainsDisjoint C04_OneSeriesPerLset C04_ExactWhenIdentical C04_Provenance OutIncreasing MaxResAsked
PROPERTY Terminates
CHECK_DEADLOCK FALSE
