------------------------------ MODULE C03Trace ------------------------------
(***************************************************************************)
(* Leg C for C03.  One trace line per world:                               *)
(*   in.stores[i]   [frames: <<[ls, chunks]>>, strips, batch]  what store  *)
(*                  i streamed (label sets as <<name,value>> integer       *)
(*                  pairs, chunks as [mint, maxt, f, h]); a frame with     *)
(*                  k = "h" / "w" is a hints / warning message between the *)
(*                  series; with fail = [kind "after", k] the stream ends  *)
(*                  with an error after k messages                         *)
(*   in.strategy    "ABORT", or "WARN" when the world has warning messages *)
(*                  or a breaking stream                                   *)
(*   in.without     replica label names the request asked to drop          *)
(*   in.cfgs[k]     [retr: "lazy"|"eager", buf, rb]: the configurations    *)
(*                  the world was run through on a real ProxyStore         *)
(*   outs[g]        the distinct results: [cfgs: configurations that gave  *)
(*                  it, series: <<[ls, chunks]>>, err, nwarn]              *)
(* Judged with the property-level operators of ProxyFanout only.           *)
(***************************************************************************)
EXTENDS TraceLib, ProxyFanout

Judge(e) ==
    LET w == e.in
        O == e.outs
    IN (* every clause of the statement, for every configuration's result *)
       UNION { C03Clauses(w, O[g].series) : g \in DOMAIN O }
       \cup
       (* the stores did not fail, so the request must not *)
       (IF \A g \in DOMAIN O : O[g].err = "" THEN {} ELSE {"request-succeeds"})
       \cup
       (* "The result is the same for lazy and eager retrieval, any buffer size and any response *)
       (* batch size"                                                                            *)
       (* (judged when no stream breaks: what a broken stream contributes is C06's subject)       *)
       (IF NoStoreFails(w) => \A g \in DOMAIN O : SameResult(O[g].series, O[1].series) THEN {} ELSE {"same-result-in-every-configuration"})

(* Model conformance (never a verdict): the functional algorithm-level description predicts    *)
(* the response up to the order of chunks with equal time range.                                *)
Drift(e) == \E g \in DOMAIN e.outs :
               /\ e.outs[g].err = ""
               /\ LET o == e.outs[g].series
                      a == AlgoOutput(e.in)
                  IN ~(SameResult(o, a) /\ \A i \in DOMAIN o : Len(o[i].chunks) = Len(a[i].chunks))

VARIABLE l
TraceInit == l = 1
TraceNext == /\ l <= TraceLen
             /\ CaseReject(l, Trace[l], Judge(Trace[l]))
             /\ (IF Drift(Trace[l]) THEN PrintT(<<"DRIFT", l, Trace[l]["case"]>>) ELSE TRUE)
             /\ l' = l + 1
TraceSpec == TraceInit /\ [][TraceNext]_l
TraceAccepted == TLCGet("stats").diameter = TraceLen + 1
=============================================================================
