\* C39 leg A quick: Base 2 (lengths 1 = one digit, 2 and 3 = two digits), one byte value; 4^5 patterns x 5 types
SPECIFICATION Spec
CONSTANTS Base = 2
          Bytes = {1}
          Lens = {1, 2, 3}
INVARIANT C39_GetMatchesExpected
PROPERTY C39_Terminates
CHECK_DEADLOCK FALSE
