\* C39 leg A quick: bytes {1,2}, sub-chunk data length 1; 3^5 patterns x 5 types
SPECIFICATION Spec
CONSTANTS Bytes = {1, 2}
          MaxLen = 1
INVARIANT C39_GetMatchesExpected
PROPERTY C39_Terminates
CHECK_DEADLOCK FALSE
