------------------------------ MODULE C46Trace ------------------------------
(***************************************************************************)
(* Leg C for C46 (step trace).  Events, linearised by hooks that fire      *)
(* under the queue's mutex after the state change:                         *)
(*   case  header of a scenario: in.cap, in.maxbatch                       *)
(*   Push  batch (ids surviving relabelling, in push order), queue (ids    *)
(*         after the push), morec (0/1 occupancy of the signal channel)    *)
(*   Pop   popped (ids returned), queue (ids left), morec                  *)
(*   End   stall: a popper stayed blocked for the stall timeout although   *)
(*         len > 0 alerts were queued                                      *)
(* The spec replays the property-level queue (AlertQueue.tla) next to the  *)
(* recording; the logged queue must equal the replayed one after every     *)
(* step.  The channel occupancy is only judged in single-threaded        *)
(* scenarios: with concurrent poppers a receive (outside the mutex) may    *)
(* legitimately empty the channel before the hook reads it; there the      *)
(* Pop-side clause is judged only when the scenario has a single popper   *)
(* (nobody else can receive while it is inside Pop), and the              *)
(* wake-up clause is judged by the End event.  After a mismatch it re-synchronises on the logged queue so the   *)
(* rest of the scenario is still examined.                                 *)
(***************************************************************************)
EXTENDS TraceLib, AlertQueue

VARIABLES l, queue, cap, maxb, seq,   \* seq: the scenario is single-threaded (TLC op sequence)
          one                        \* one: exactly one popper goroutine exists in the scenario
tvars == <<l, queue, cap, maxb, seq, one>>

TraceInit == l = 1 /\ queue = <<>> /\ cap = 0 /\ maxb = 0 /\ seq = FALSE /\ one = FALSE

IsEvent(n) == l <= TraceLen /\ Trace[l].ev = n /\ l' = l + 1

Header == /\ IsEvent("case")
          /\ queue' = <<>> /\ cap' = Trace[l].in.cap /\ maxb' = Trace[l].in.maxbatch
          /\ seq' = Has(Trace[l].in, "ops")
          /\ one' = (Has(Trace[l].in, "ops") \/ Get(Trace[l].in, "single_popper", FALSE))

PushClauses(e) ==
    (IF e.queue = AfterPush(queue, e.batch, cap) THEN {} ELSE {"push-keeps-order-drops-oldest"})
    \cup (IF Len(e.queue) <= cap THEN {} ELSE {"never-above-capacity"})
    \cup (IF seq /\ e.queue # <<>> /\ e.morec = 0 THEN {"push-signals-waiting-sender"} ELSE {})
Push == /\ IsEvent("Push")
        /\ CaseReject(l, Trace[l], PushClauses(Trace[l]))
        /\ queue' = Trace[l].queue /\ UNCHANGED <<cap, maxb, seq, one>>

PopClauses(e) ==
    (IF e.popped = PopBatch(queue, maxb) THEN {} ELSE {"pop-returns-oldest-first"})
    \cup (IF Len(e.popped) <= maxb THEN {} ELSE {"batch-at-most-max"})
    \cup (IF e.queue = AfterPop(queue, maxb) THEN {} ELSE {"pop-leaves-the-rest"})
    \cup (IF one /\ e.queue # <<>> /\ e.morec = 0 THEN {"pop-resignals-when-alerts-remain"} ELSE {})
Pop == /\ IsEvent("Pop")
       /\ CaseReject(l, Trace[l], PopClauses(Trace[l]))
       /\ queue' = Trace[l].queue /\ UNCHANGED <<cap, maxb, seq, one>>

(* Sync: a sampled trace skipped steps; resynchronise on the recorded queue contents.  *)
Sync == /\ IsEvent("Sync")
        /\ queue' = Trace[l].queue /\ UNCHANGED <<cap, maxb, seq, one>>

End == /\ IsEvent("End")
       /\ CaseReject(l, Trace[l], IF Trace[l].stall /\ Trace[l].len > 0 THEN {"waiting-sender-woken-while-alerts-queued"} ELSE {})
       /\ UNCHANGED <<queue, cap, maxb, seq, one>>

TraceNext == Header \/ Push \/ Pop \/ Sync \/ End
TraceSpec == TraceInit /\ [][TraceNext]_tvars
TraceAccepted == TLCGet("stats").diameter = TraceLen + 1
=============================================================================
