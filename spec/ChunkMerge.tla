----------------------------- MODULE ChunkMerge -----------------------------
(***************************************************************************)
(* Offline (compactor) deduplication of the chunks of one series           *)
(* (pkg/dedup/chunk_iter.go: dedupChunksIterator, overlappingMerger,       *)
(* aggrChunkIterator), for downsampled series: every chunk is an aggregate *)
(* chunk carrying a count aggregate and further aggregates (sum, min, max, *)
(* counter) over the same timestamps.                                      *)
(*                                                                         *)
(* A chunk is [ts, agg, tag]: ts = timestamps of its count aggregate,      *)
(* agg = timestamps of a further aggregate (one representative: the code   *)
(* treats sum, min, max, counter alike), tag = content identity (equal     *)
(* bytes <=> equal ts, agg and tag).  Input chunks have agg = ts.          *)
(*                                                                         *)
(* Part 1 - property level (C40).  Part 2 - algorithm level: overlapping   *)
(* chunks are expanded, merged per aggregate with the penalty algorithm of *)
(* module Dedup, the merged count aggregate is cut into chunks of K        *)
(* samples by the encoder, and every other aggregate is re-read for the    *)
(* range of each count chunk through ONE underlying iterator shared by all *)
(* output chunks.  The state machine around these operators (heap of chunk *)
(* iterators, overlap detection) is ChunkMergeMC.                          *)
(***************************************************************************)
EXTENDS Dedup

CONSTANT K        \* samples per chunk written by the encoder (120 in the code)

SeqSet(s) == { s[i] : i \in DOMAIN s }
MinT(c) == c.ts[1]
MaxT(c) == c.ts[Len(c.ts)]

(* ======================= Part 1: property level ======================= *)
(* C40 "every aggregate of the result has a sample at each timestamp where the merged count *)
(* aggregate has one": cntTimes / aggTimes = the sets of timestamps that the count aggregate / *)
(* the aggregate in question has anywhere in the result.                                      *)
HasEveryCountTimestamp(cntTimes, aggTimes) == cntTimes \subseteq aggTimes
(* timestamps of a sequence (one entry per chunk) of timestamp sequences *)
TimesOf(perChunk) == UNION { SeqSet(perChunk[i]) : i \in DOMAIN perChunk }

(* ====================== Part 2: algorithm level ======================= *)
(* samplesMergeFunc folded over the expanded chunks of one aggregate: the penalty merge of   *)
(* Dedup (no counter adjustment) over sample iterators; only timestamps matter here.         *)
MergeTimes(tss) ==
    LET reps == [r \in DOMAIN tss |-> [j \in DOMAIN tss[r] |-> <<tss[r][j], r>>]]
        m == RunNext(reps, FALSE)
    IN [j \in DOMAIN m |-> T(m[j])]

(* storage.NewSeriesToChunkEncoder: the count stream is read completely and cut every K samples *)
NumCountChunks(mc) == (Len(mc) + K - 1) \div K
CountChunk(mc, c) == SubSeq(mc, (c - 1) * K + 1, IF c * K < Len(mc) THEN c * K ELSE Len(mc))

(* aggrChunkIterator.toChunk for one further aggregate whose merged stream is ma.  apos = index *)
(* of the shared iterator in ma (0 before the first Next, Len+1 exhausted); pend = the sample   *)
(* at apos was read while building the previous chunk but lies beyond that chunk's maxt and is  *)
(* still to be written.  Reads on while t <= maxt, keeps t >= mint.                              *)
ToChunk(ma, apos, pend, mint, maxt) ==
    LET s == IF pend THEN apos ELSE apos + 1
        n == Cardinality({ j \in s..Len(ma) : ma[j] <= maxt })      \* ma is increasing: a prefix
        e == s + n                                                  \* first index not written
    IN [ts |-> SelectSeq(SubSeq(ma, s, e - 1), LAMBDA t : t >= mint),
        apos |-> IF e <= Len(ma) THEN e ELSE Len(ma) + 1,
        pend |-> e <= Len(ma)]

(* Iterators over chunks:                                                                      *)
(*  [k = "in", chunks, i]                input series, positioned at chunk i                   *)
(*  [k = "aggr", mc, ma, c, apos, pend, cur]  merged chunks, c produced so far, cur = current  *)
NewAggr(chks) == [k |-> "aggr",
                  mc |-> MergeTimes([r \in DOMAIN chks |-> chks[r].ts]),
                  ma |-> MergeTimes([r \in DOMAIN chks |-> chks[r].agg]),
                  c |-> 0, apos |-> 0, pend |-> FALSE, cur |-> <<>>]

CAt(it) == IF it.k = "in" THEN it.chunks[it.i] ELSE it.cur

(* chunks.Iterator.Next: [it, ok] *)
CNext(it) ==
    IF it.k = "in" THEN [it |-> [it EXCEPT !.i = @ + 1], ok |-> it.i + 1 <= Len(it.chunks)]
    ELSE IF it.c >= NumCountChunks(it.mc) THEN [it |-> it, ok |-> FALSE]
    ELSE LET cc == CountChunk(it.mc, it.c + 1)
             tc == ToChunk(it.ma, it.apos, it.pend, cc[1], cc[Len(cc)])
         IN [it |-> [it EXCEPT !.c = @ + 1, !.apos = tc.apos, !.pend = tc.pend,
                               !.cur = [ts |-> cc, agg |-> tc.ts, tag |-> 0]],
             ok |-> TRUE]
=============================================================================
