\* C30 leg A quick, planner "tsdb": ranges 1/2/4 on the grid -1..4 (negative times, misaligned blocks), <= 3 blocks
\* of length <= 4, <= 1 no-compact mark, <= 1 block with 10 % tombstones; cases for the harness: all layouts of
\* <= 4 plain blocks and of <= 2 flagged blocks
SPECIFICATION Spec
CONSTANTS Ranges <- R124
          LoNeg = 1
          Hi = 4
          MaxLen = 4
          MaxBlocks = 3
          MaxNC = 1
          MaxTomb = 1
          MaxFailed = 0
          TombVals = {0, 2}
          Sizes = {1}
          Modes <- ModesTsdb
          CaseBlocks = 4
          CaseFlagBlocks = 2
INVARIANTS PlanSafe FixpointOK SortedInput
PROPERTIES Variant
VIEW View
CHECK_DEADLOCK FALSE
