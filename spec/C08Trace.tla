------------------------------ MODULE C08Trace ------------------------------
(***************************************************************************)
(* Leg C for C08 (stores present external labels consistently).            *)
(* One trace line per executed case (see harness/storeapis/common.go):     *)
(*   in.world  W, head = [ext, series], blocks = <<[ext, series], ...>>;   *)
(*             label sets are sequences of <<name, value>> pairs           *)
(*   in.req    ms (matchers), rl (replica labels to drop), mint, maxt      *)
(*   tsdb / bucket / proxy / prom (sidecar) / recv (receiver)              *)
(*             [kind: "ok"|"error"|"panic", code, ls: one label-pair       *)
(*              sequence per frame in arrival order, nc, warn]             *)
(* Every store's answer is judged with the property-level operator         *)
(* C08Clauses of StoreAPIs (whatever frames arrived are judged, also when  *)
(* the call ended with an error).  A panic is a harness-visible crash and  *)
(* is reported as its own clause.                                          *)
(***************************************************************************)
EXTENDS TraceLib, StoreAPIs

Kinds == <<"tsdb", "bucket", "proxy", "prom", "recv">>
NK == 5

SeriesOf(j) == { [l |-> LsOf(s.l), slots |-> SaRange(s.slots)] : s \in SaRange(j.series) }
SourceOf(j) == [ext |-> LsOf(j.ext), series |-> SeriesOf(j)]
HeadOf(e) == SourceOf(e.in.world.head)
BlocksOf(e) == { SourceOf(b) : b \in SaRange(e.in.world.blocks) }
(* phase 2: receiver tenants (external labels = the head's, overridden by tlabel = tenant id) *)
TenantsOf(e) == { [ext |-> TenantExt(LsOf(e.in.world.head.ext), e.in.world.recv.tlabel, t.id), series |-> SeriesOf(t)] :
                    t \in SaRange(e.in.world.recv.tenants) }
WorldOf(e) == [W |-> e.in.world.W, head |-> HeadOf(e), blocks |-> BlocksOf(e), tenants |-> TenantsOf(e)]
OptOf(e) == [skip |-> e.in.cfg.skip, samples |-> e.in.cfg.samples, pmatch |-> ~e.in.cfg.promold]
ReqOf(e) == [ms |-> SaRange(e.in.req.ms), rl |-> SaRange(e.in.req.rl), mint |-> e.in.req.mint, maxt |-> e.in.req.maxt]

Tag(kind, clauses) == { kind \o ":" \o c : c \in clauses }

JudgeStore(e, kind) ==
    LET o == e[kind]
        req == ReqOf(e)
    IN Tag(kind, C08Clauses(SourcesW(kind, WorldOf(e)), req.ms, req.rl, o.ls)
                 \cup (IF o.kind = "panic" THEN {"store-panicked"} ELSE {}))

Judge(e) == UNION { JudgeStore(e, Kinds[i]) : i \in 1..NK }

(* Model conformance (never a verdict): the algorithm-level model predicts exactly which label  *)
(* sets come back and whether the call is refused as invalid.                                    *)
DriftStore(e, kind) ==
    LET o == e[kind]
        p == AlgoSeriesW(kind, WorldOf(e), ReqOf(e), OptOf(e))
    IN o.kind # "panic" /\
       ~( /\ (p.kind = "invalid") = (o.code = "InvalidArgument")
          /\ (\A i \in DOMAIN o.ls : NoDupNames(o.ls[i]))
          /\ { LsOf(o.ls[i]) : i \in DOMAIN o.ls } = p.out )
(* worlds with really downsampled blocks: the downsampler re-cuts chunks (one aggregate chunk may span
   several slots), which the slot model of the algorithm level does not describe: no prediction *)
HasDownsampled(e) == \E i \in DOMAIN e.in.world.blocks : e.in.world.blocks[i].res > 0
Drift(e) == ~HasDownsampled(e) /\ \E i \in 1..NK : DriftStore(e, Kinds[i])

VARIABLE l
TraceInit == l = 1
TraceNext == /\ l <= TraceLen
             /\ CaseReject(l, Trace[l], Judge(Trace[l]))
             /\ (IF Drift(Trace[l]) THEN PrintT(<<"DRIFT", l, Trace[l]["case"]>>) ELSE TRUE)
             /\ l' = l + 1
TraceSpec == TraceInit /\ [][TraceNext]_l
TraceAccepted == TLCGet("stats").diameter = TraceLen + 1
=============================================================================
