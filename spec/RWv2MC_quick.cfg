\* C26 leg A quick: tables of 0..2 symbols, refs 0..3, up to 2 lists of up to 3 refs (odd lengths included).
\* cases: 0..2 symbols, refs 0..2, label lists <= 3 refs, at most one exemplar with <= 2 refs (1 680 cases)
SPECIFICATION Spec
CONSTANTS MaxSym = 2
          MaxRef = 3
          MaxLen = 3
          MaxLists = 2
          BoundsChecked = TRUE
          CaseMaxSym = 2
          CaseMaxRef = 2
          CaseLabelLen = 3
          CaseExLen = 2
INVARIANTS NeverPanics BadRefsRejected RejectsOnlyBad Faithful_
PROPERTIES Terminates
CHECK_DEADLOCK FALSE
