------------------------------ MODULE C16Trace ------------------------------
(***************************************************************************)
(* Leg C for C16 (step trace).  Events of one scenario (case):             *)
(*   case    header; in = the replayable scenario                          *)
(*   Load    gen: load() stored a freshly opened BinaryReader in r.reader  *)
(*           (hook under the write lock)                                   *)
(*   Unload  gen: unloadIfIdleSince closed the BinaryReader (hook under    *)
(*           the write lock, after Close)                                  *)
(*   Use     gen: a Reader call is about to use r.reader (hook under the   *)
(*           read lock, after load() succeeded); gen = 0: r.reader is nil  *)
(*   UseEnd  gen: that call finished using it (hook still under the read   *)
(*           lock)                                                         *)
(*   Result  call, kind (ok | error | panic | dangling), got, ref: outcome  *)
(*           of one call as seen by the caller, and the always-loaded      *)
(*           header's answer to the same call (lists of strings);          *)
(*           dangling: the call returned strings that faulted when the     *)
(*           caller read them right after the call (they alias the mmap of *)
(*           a header that was unloaded in between)                        *)
(*   End     stall: some call did not return within the stall timeout      *)
(* Load / Unload / Use / UseEnd are emitted while holding the readerMx     *)
(* lock that protects r.reader, so their order in the trace is the order   *)
(* in which they happened.  Result lines are judged on their own.          *)
(* The spec replays the property-level bookkeeping of LazyHeader.tla:      *)
(* which header is loaded, which were closed, how many calls use which.    *)
(***************************************************************************)
EXTENDS TraceLib, LazyHeader

VARIABLES l, cur, closed, inuse
tvars == <<l, cur, closed, inuse>>

TraceInit == l = 1 /\ cur = None /\ closed = {} /\ inuse = EmptyBag

IsEvent(n) == l <= TraceLen /\ Trace[l].ev = n /\ l' = l + 1

Header == /\ IsEvent("case")
          /\ cur' = None /\ closed' = {} /\ inuse' = EmptyBag

Load == /\ IsEvent("Load")
        /\ cur' = Trace[l].gen /\ UNCHANGED <<closed, inuse>>

(* "never answers from a closed header": a header is closed only while no call is using it *)
Unload == /\ IsEvent("Unload")
          /\ CaseReject(l, Trace[l], IF CloseOK(Trace[l].gen, inuse) THEN {} ELSE {"header-closed-only-while-no-call-uses-it"})
          /\ closed' = closed \cup {Trace[l].gen}
          /\ cur' = IF cur = Trace[l].gen THEN None ELSE cur
          /\ UNCHANGED inuse

(* "... answers as from an always-loaded header": a call only uses the loaded, open header *)
Use == /\ IsEvent("Use")
       /\ CaseReject(l, Trace[l], IF UseOK(Trace[l].gen, cur, closed) THEN {} ELSE {"call-uses-only-the-loaded-open-header"})
       /\ inuse' = Inc(inuse, Trace[l].gen) /\ UNCHANGED <<cur, closed>>

UseEnd == /\ IsEvent("UseEnd")
          /\ inuse' = Dec(inuse, Trace[l].gen) /\ UNCHANGED <<cur, closed>>

(* "always get the same answers as from an always-loaded header or a clean error" *)
Result == /\ IsEvent("Result")
          /\ CaseReject(l, Trace[l], IF ResultOK(Trace[l].kind, Trace[l].got, Trace[l].ref) THEN {}
                                     ELSE IF Trace[l].kind = "dangling" THEN {"answer-not-from-a-closed-header-when-read"}
                                     ELSE {"same-answer-as-always-loaded-header-or-clean-error"})
          /\ UNCHANGED <<cur, closed, inuse>>

(* "always get ...": every call returns *)
End == /\ IsEvent("End")
       /\ CaseReject(l, Trace[l], IF Trace[l].stall THEN {"every-call-returns"} ELSE {})
       /\ UNCHANGED <<cur, closed, inuse>>

TraceNext == Header \/ Load \/ Unload \/ Use \/ UseEnd \/ Result \/ End
TraceSpec == TraceInit /\ [][TraceNext]_tvars
TraceAccepted == TLCGet("stats").diameter = TraceLen + 1
=============================================================================
