------------------------------ MODULE C21Trace ------------------------------
(***************************************************************************)
(* Leg C for C21.  One trace line per shuffle-sharded ketama hashring run  *)
(* on the REAL NewMultiHashring (LRU cache of 1 sub-ring, so tenants evict *)
(* each other):                                                            *)
(*   in.eps (sequence of [a, z]), in.rf, in.ss [size, nozone, ...]         *)
(*   built   the constructor accepted the configuration                    *)
(*   ovc     the overrides [size, type "exact"|"glob"|"", tenants] with    *)
(*           every pattern as a sequence of characters                     *)
(*   tn      per tenant: tc (name as characters), ok (every shard lookup   *)
(*           succeeded; otherwise the tenant is not judged: an error is    *)
(*           always an allowed answer),                                    *)
(*           shards = node sets (sorted 1-based indices into in.eps, 0 =   *)
(*             unknown address) observed, in this order: cached lookup,    *)
(*             cached lookup after the other tenants evicted it, fresh     *)
(*             computation, lookup on a second hashring instance built     *)
(*             from the same configuration,                                *)
(*           reps = distinct replica lists GetN(0..rf-1) of the tenant's   *)
(*             series (asked before and after eviction)                    *)
(*   Concurrent scenarios (in.kind = "conc") use the same shape: shards =  *)
(*   <<computed sequentially on a fresh instance, read (cached path) by    *)
(*   the tenant's goroutine in round 1, ..., round R>> where in every      *)
(*   round one goroutine per tenant, all released together, asks GetN on a *)
(*   fresh cold instance (sub-ring cache of 1 entry or large); reps = the  *)
(*   replica lists those concurrent GetN calls returned.  So "concurrent   *)
(*   result = sequential result = the same in every repetition" is the     *)
(*   clause same-set-of-nodes-every-time.                                  *)
(* Clauses (Hashring!C21Clauses): "assigned the same set of nodes every    *)
(* time (cached or not)", "the set contains the configured number of nodes *)
(* per availability zone (or the configured total without zone             *)
(* awareness)" with the size an override (exact / glob; a missing matcher  *)
(* type means exact) or the default selects, "all replicas of the tenant's *)
(* series are placed inside that set".                                     *)
(***************************************************************************)
EXTENDS TraceLib, Hashring

AzOf(e) == [k \in DOMAIN e.in.eps |-> e.in.eps[k].z]
ZoneAware(e) == ~e.in.ss.nozone
Sets(ss) == [k \in DOMAIN ss |-> HSeqRange(ss[k])]

JudgeTenant(e, t) ==
    IF ~t.ok THEN {}
    ELSE C21Clauses(Sets(t.shards), t.reps, AcceptedShardSizes(e.in.ss.size, e.ovc, t.tc), AzOf(e), ZoneAware(e))
Judge(e) == IF ~e.built THEN {} ELSE UNION { JudgeTenant(e, e.tn[k]) : k \in DOMAIN e.tn }

(* Model conformance (never a verdict): size selection (first matching override), the number  *)
(* of nodes taken, and when the real code answers with an error.                               *)
PredictOK(e, t) ==
    LET az == AzOf(e)
        sz == ShardSizeAlgo(e.in.ss.size, e.ovc, t.tc)
        tk == ShardTake(sz, az, ZoneAware(e))
        total == IF ZoneAware(e) THEN tk * Cardinality(ZoneSet(az)) ELSE tk
    IN /\ (IF ZoneAware(e) THEN \A z \in ZoneSet(az) : tk <= ZoneCap(az, z) ELSE tk <= Len(e.in.eps))
       /\ total >= e.in.rf /\ total > 0
DriftTenant(e, t) ==
    \/ t.ok # PredictOK(e, t)
    \/ t.ok /\ LET az == AzOf(e)
                   tk == ShardTake(ShardSizeAlgo(e.in.ss.size, e.ovc, t.tc), az, ZoneAware(e))
               IN Len(t.shards[1]) # (IF ZoneAware(e) THEN tk * Cardinality(ZoneSet(az)) ELSE tk)
Drift(e) == e.built /\ \E k \in DOMAIN e.tn : DriftTenant(e, e.tn[k])

VARIABLE l
TraceInit == l = 1
TraceNext == /\ l <= TraceLen
             /\ CaseReject(l, Trace[l], Judge(Trace[l]))
             /\ (IF Drift(Trace[l]) THEN PrintT(<<"DRIFT", l, Trace[l]["case"]>>) ELSE TRUE)
             /\ l' = l + 1
TraceSpec == TraceInit /\ [][TraceNext]_l
TraceAccepted == TLCGet("stats").diameter = TraceLen + 1
=============================================================================
