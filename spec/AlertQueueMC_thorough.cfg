\* C46 leg A thorough: cap 3, batch 2, 2 pushers x 3 pushes of size 1..4, 2 poppers; all interleavings
SPECIFICATION Spec
CONSTANTS Cap = 3
          MaxBatch = 2
          Pushers = {"p1", "p2"}
          Poppers = {"c1", "c2"}
          PushSizes = {1, 2, 4}
          PushesEach = 3
INVARIANTS Bounded FifoDropOldest PoppedInOrder NoLostWakeup
PROPERTIES PushRefines PopRefines EventuallyDrained
VIEW View
CHECK_DEADLOCK FALSE
