\* C15 leg A with block matchers, thorough: instants 0..2, layouts of <= 3 blocks, every subset of the blocks matching
SPECIFICATION Spec
CONSTANTS Grid = 2
          MaxBlocks = 3
          CaseBlocks = 0
          WithMatchers = TRUE
INVARIANT C15_SelectionSatisfiesProperty
INVARIANT FunctionalFormAgrees
INVARIANT StackBounded
INVARIANT C15_Terminates
CHECK_DEADLOCK TRUE
