\* C40 leg A, 3 series (merged chunks of two series overlapping a third; K = 2): any non-empty
\* subset of a 4-point grid with at most 3 samples, one or two chunks (28 chunkings per series;
\* 21 952 triples + 784 with series 2 a byte-identical copy of series 1)
SPECIFICATION Spec
CONSTANTS InitPen = 1
          K = 2
          Grid = {0, 1, 2, 3}
          NSeries = 3
          MaxLen = 3
INVARIANTS C40_EveryAggregateSampleKept EachChunkComplete NothingInvented ChunksInOrder OnlyDoneIsFinal
CHECK_DEADLOCK FALSE
