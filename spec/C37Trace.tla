------------------------------ MODULE C37Trace ------------------------------
(***************************************************************************)
(* Leg C for C37 (case trace).  One line per executed case:                *)
(*   in.series[i]      raw counter series [ts, vs, ks] (offsets from an    *)
(*                     hour-aligned base, integer values, kind tokens)     *)
(*   in.mode, nc1, nc2 "chunks": many 5 m chunks (one per segment of       *)
(*                     in.sizes samples) re-aggregated with nc2;           *)
(*                     "loop": the two batching loops with given chunk     *)
(*                     counts; "block": downsample.Downsample on real      *)
(*                     blocks, raw -> 5 m -> 1 h                           *)
(*   in.seek           -1, or the offset the iterator was first sought to  *)
(*   obs[i].em1, em2   [ts, vs] yielded by the querier's counter iterator  *)
(*                     (chunkSeries.Iterator -> reset-applying iterator)   *)
(*                     over the 5 m chunks / over the 1 h chunks           *)
(*   obs[i].err1, err2 iterator error ("" = none)                          *)
(*   obs[i].c1, c2     decoded aggregate chunks of both levels             *)
(*   got.kind          "ok" | "error" | "panic"                            *)
(* Judged with the property-level operators of Downsample only.            *)
(***************************************************************************)
EXTENDS TraceLib, Downsample

SeriesClauses(raw, o, seek) ==
    \* "Reading the counter aggregate of downsampled data, after one or two levels of
    \*  downsampling" must be possible at all
    (IF o.err1 = "" /\ o.err2 = "" THEN {} ELSE {"counter-readable"})
    \* "yields at every emitted timestamp the raw counter value adjusted for all counter resets
    \*  up to the last raw sample at or before that timestamp, including resets that fall
    \*  between chunks" -- after one level
    \cup (IF EmittedAdjusted(raw, o.em1) THEN {} ELSE {"level1-emits-reset-adjusted-raw-value"})
    \* -- after two levels
    \cup (IF EmittedAdjusted(raw, o.em2) THEN {} ELSE {"level2-emits-reset-adjusted-raw-value"})
    \* non-vacuity: a counter with data yields data (only judged for full reads)
    \cup (IF seek = -1 /\ ~(EmittedNonEmpty(raw, o.em1) /\ EmittedNonEmpty(raw, o.em2))
            THEN {"counter-with-data-yields-data"} ELSE {})
    \* title: the raw counter's increase is preserved -- a full read ends on the fully adjusted
    \* last raw value (a downsampled series that stops early loses part of the increase)
    \cup (IF IncreasePreserved(raw, o.em1) /\ IncreasePreserved(raw, o.em2)
            THEN {} ELSE {"raw-increase-preserved"})

Judge(e) ==
    IF e.got.kind # "ok" THEN {"downsampling-succeeds"}
    ELSE UNION { SeriesClauses(e.in.series[i], e.obs[i], e.in.seek) : i \in DOMAIN e.in.series }

(* Model conformance (never a verdict): chunks and emitted values as the transcription       *)
(* predicts (loop mode without seek, where the chunk counts are known).                       *)
Drift(e) ==
    /\ e.got.kind = "ok" /\ e.ok /\ e.in.mode = "loop" /\ e.in.seek = -1
    /\ LET raw == e.in.series[1]  o == e.obs[1]
           p1 == AlgoRaw(raw, 300000, e.in.nc1)
           p2 == IF p1 = <<>> THEN <<>> ELSE AlgoAggr(p1, 3600000, Min2(e.in.nc2, Len(p1)))
       IN ~(o.c1 = p1 /\ o.c2 = p2 /\ o.em1 = CounterIter(p1) /\ o.em2 = CounterIter(p2))

VARIABLE l
TraceInit == l = 1
TraceNext == /\ l <= TraceLen
             /\ CaseReject(l, Trace[l], Judge(Trace[l]))
             /\ (IF Drift(Trace[l]) THEN PrintT(<<"DRIFT", l, Trace[l]["case"]>>) ELSE TRUE)
             /\ l' = l + 1
TraceSpec == TraceInit /\ [][TraceNext]_l
TraceAccepted == TLCGet("stats").diameter = TraceLen + 1
=============================================================================
