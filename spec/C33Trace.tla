------------------------------ MODULE C33Trace ------------------------------
(***************************************************************************)
(* Leg C for C33 (step trace).  The harness builds the compactor the way   *)
(* cmd/thanos/compact.go does (real fetcher + filters, Syncer, grouper,    *)
(* planner, TSDB compactor, BlocksCleaner, BucketCompactor) over a         *)
(* recording bucket holding a world in which every stage has work to do,   *)
(* runs two iterations of the compactMainFn sequence and makes ONE read    *)
(* inside a sync of the first iteration fail.  Events (emitted under the   *)
(* bucket wrapper's mutex, or by the driver goroutine for Iter/Sync):      *)
(*   case      header                                                      *)
(*   Iter      an iteration begins                                         *)
(*   SyncBegin / SyncEnd(ok)   MetadataFetcher.Fetch entered / returned    *)
(*   ReadFail  a bucket read failed (kind, b, f; insync)                   *)
(*   Mut       a mutating bucket call (op, b, f, ok)                       *)
(*   IterEnd(ok)  the iteration returned                                   *)
(*   End       summary                                                     *)
(* Verdict: C33_Forbidden of BlockLifecycle - a mutation while the latest  *)
(* sync had a failed read.                                                 *)
(***************************************************************************)
EXTENDS TraceLib, BlockLifecycle

VARIABLES l, dirty
tvars == <<l, dirty>>
TraceInit == l = 1 /\ dirty = FALSE

(* no-mutation-after-failed-sync-read: "If reading any block's metadata or markers fails in a sync, the compactor  *)
(*    neither compacts, marks nor deletes any block in that iteration."                                            *)
Step == /\ l <= TraceLen /\ l' = l + 1
        /\ LET e == Trace[l] IN
           /\ CaseReject(l, e, IF C33_Forbidden(dirty, e) THEN {"no-mutation-after-failed-sync-read"} ELSE {})
           (* model conformance: today's code makes the sync and the iteration fail *)
           /\ (IF dirty /\ (e.ev = "SyncEnd" \/ e.ev = "IterEnd") /\ e.ok THEN PrintT(<<"DRIFT", l, e["case"]>>) ELSE TRUE)
           /\ dirty' = IF e.ev = "case" THEN FALSE ELSE C33_DirtyAfter(dirty, e)

TraceSpec == TraceInit /\ [][Step]_tvars
TraceAccepted == TLCGet("stats").diameter = TraceLen + 1
=============================================================================
