\* C14 leg A thorough, second run (bounded histories from the empty cache): object sizes 0..4,
\* subrange sizes 1..3, max sub-requests 0..2, <= 3 reads interleaved with arbitrary evictions.
\* (Emits no cases: HistLen = 0, Sizes-based RngCases are re-emitted but unused.)
SPECIFICATION Spec
CONSTANTS Sizes = {0, 1, 2, 3, 4}
          SubSizes = {1, 2, 3}
          MaxSubs = {0, 1, 2}
          MaxCacheables = {2, 8}
          MaxOps = 3
          Inductive = FALSE
          Procs = {}
          HistSizes = {}
          HistLen = 0
INVARIANTS CacheSound TransparentInv
PROPERTY TransparentStep
VIEW View
CHECK_DEADLOCK FALSE
