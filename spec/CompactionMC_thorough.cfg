\* C29 leg A thorough: layouts aligned5, gap4, replica, twolevel (ranges 1/2/4, three compactions), replica3;
\* delete delay 4 ticks (sync filter 2), store-gateway ignore delay 2, <= 1 crash at any action, any downtime
SPECIFICATION Spec
CONSTANTS Layouts <- LayoutsThorough
          DeleteDelay = 4
          IgnoreDelay = 2
          MaxCrashes = 1
          MaxId = 10
          MarkFirst = FALSE
INVARIANTS C29_AllServed C29_ExactlyOnceWhenQuiet C29_ResultsExact MetaImpliesData NeverHalts IdsSuffice
PROPERTY C29_RunsFinish
CHECK_DEADLOCK FALSE
