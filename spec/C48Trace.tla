------------------------------ MODULE C48Trace ------------------------------
(***************************************************************************)
(* Leg C for C48.  One trace line per executed case = one rewritten block  *)
(* holding a group of generated inputs (n of them; each input's series and *)
(* requests carry their own case label / case matcher):                    *)
(*   series   the series written into the input block (concrete labels     *)
(*            incl. the harness's case label, chunks of [t, v] samples)    *)
(*   reqs     the deletion requests given to WithDeletionModifier          *)
(*            (concrete matchers incl. the case matcher, closed intervals) *)
(*   relabel  "none" or the kind of relabel modifier that ran first; then   *)
(*            series[i].to is the label set relabelling gives the series   *)
(*   got.log  the ChangeLogger.DeleteSeries entries; dry = the same        *)
(*            rewrite as a dry run (ran, log, wrote)                       *)
(*   got.err  "" or the error of WriteSeries / Flush / reading the result  *)
(*   got.series  the series of the rewritten block, chunk by chunk          *)
(* Judged with the property-level operator WViolations of Rewrite.tla.     *)
(***************************************************************************)
EXTENDS TraceLib, Rewrite

Judge(e) ==
    IF e.got.err # "" THEN {"rewrite-completes"}      \* every generated request is valid: nothing allows refusing it
    ELSE (IF e.relabel = "none"
            THEN WViolations(e.series, e.reqs, e.got.series) \cup WLogClauses(e.series, e.got.series, e.got.log)
            (* phase 2: a relabel modifier ran before the deletion modifier; series[i].to is the relabelled label set *)
            ELSE WViolationsR(e.series, e.reqs, e.got.series))
         (* phase 2: the same rewrite was also done as a dry run *)
         \cup (IF e.dry.ran THEN WDryRunClauses(e.got.log, e.dry) ELSE {})

(* Model conformance (never a verdict): the algorithm-level model predicts the rewritten series chunk by chunk *)
(* (times only when series were merged by relabelling).                                                        *)
Drift(e) == e.got.err = "" /\
            IF e.relabel = "none"
              THEN LET p == WAlgoOut(e.series, e.reqs)
                       norm(ss) == { <<LabelSet(ss[i].labels), ss[i].chunks>> : i \in DOMAIN ss }
                   IN norm(p) # norm(e.got.series)
              ELSE WTimesOf(WAlgoOut(WAlgoMerged(e.series), e.reqs)) # WTimesOf(e.got.series)

VARIABLE l
TraceInit == l = 1
TraceNext == /\ l <= TraceLen
             /\ CaseReject(l, Trace[l], Judge(Trace[l]))
             /\ (IF Drift(Trace[l]) THEN PrintT(<<"DRIFT", l, Trace[l]["case"]>>) ELSE TRUE)
             /\ l' = l + 1
TraceSpec == TraceInit /\ [][TraceNext]_l
TraceAccepted == TLCGet("stats").diameter = TraceLen + 1
=============================================================================
