\* C01/C02 leg A thorough, liveness: every reader finishes (<> pc = "done") under weak fairness;
\* 3 nested counter replicas, <= 2 samples each on {1,7,13}, readers with at most one Seek
SPECIFICATION FairSpec
CONSTANTS InitPen = 5
          Grid = {1, 7, 13}
          NumReps = 3
          MaxLen = 2
          Ctr = TRUE
          Starts = {0, 3}
          Incs = {5}
          Targets = {7}
          EmitMod = 1
          MaxSeeks = 1
          Kinds = {"f"}
INVARIANTS C02_CounterNeverDecreases BoundedOutput
PROPERTY Terminates
CHECK_DEADLOCK FALSE
