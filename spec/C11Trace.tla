------------------------------ MODULE C11Trace ------------------------------
(***************************************************************************)
(* Leg C for C11.  One line per executed case (in = the replayable case:   *)
(* world, sampling rate k, lazy or plain reader, label name, sorted        *)
(* request list W; absn/absW = the abstract TLC case, 0/<<>> otherwise).   *)
(*   kind = "lookup":                                                      *)
(*     got     PostingsOffsets(name, W...) of the index-header, <<s,e>>    *)
(*     single  PostingsOffset(name, W[j]) for every j (<<-1,-1>> when      *)
(*             NotFoundRangeErr)                                           *)
(*     ref     location of the posting list of (name, W[j]) in the full    *)
(*             index (prometheus index.Reader.PostingsRanges), <<-1,-1>>   *)
(*             when the full index has no such value                       *)
(*     absent  the full index does not have the label name at all          *)
(*     size    size of the index file; lastname: name is the last label    *)
(*     goterr  error / panic text of the index-header, "" when none        *)
(*   kind = "meta": names_got/names_ref, vals = [name, got, ref] per label *)
(*     name (plus one absent name), syms_got/syms_ref (LookupSymbol(i) for *)
(*     every i vs. the symbol table), sym_beyond_err (lookup past the      *)
(*     table fails, as in the full index)                                  *)
(* Judged with the property-level operators of IndexHeader.tla.            *)
(***************************************************************************)
EXTENDS TraceLib, IndexHeader

Rng(p) == [start |-> p[1], end |-> p[2]]
Rngs(ps) == [x \in 1..Len(ps) |-> Rng(ps[x])]

(* clauses of "for any sorted list of requested values ... the same posting-list locations as   *)
(* the full index, with missing values reported as not found", for one answer list               *)
LookupClauses(got, refs, size) ==
    IF Len(got) # Len(refs) THEN {"one-location-per-requested-value"}
    ELSE (IF \E j \in 1..Len(refs) : refs[j] = NF /\ got[j] # NF THEN {"missing-value-reported-not-found"} ELSE {})
         \cup (IF \E j \in 1..Len(refs) : refs[j] # NF /\ ~RangeOK(got[j], refs[j], size)
                 THEN {"same-posting-list-location-as-full-index"} ELSE {})

Judge(e) ==
    IF e.goterr # "" THEN {"index-header-answers-like-full-index-without-failing"}
    ELSE IF e.kind = "lookup" THEN
        IF e.absent
          THEN (IF AbsentNameOK(Rngs(e.got)) /\ AbsentNameOK(Rngs(e.single)) THEN {} ELSE {"absent-label-name-has-no-postings"})
          ELSE LookupClauses(Rngs(e.got), Rngs(e.ref), e.size) \cup LookupClauses(Rngs(e.single), Rngs(e.ref), e.size)
    ELSE (IF e.names_got = e.names_ref THEN {} ELSE {"same-label-names"})
         \cup (IF \A j \in 1..Len(e.vals) : e.vals[j].got = e.vals[j].ref THEN {} ELSE {"same-values-for-every-label"})
         \cup (IF e.syms_got = e.syms_ref /\ e.sym_beyond_err THEN {} ELSE {"same-symbols"})

(* Model conformance (never a verdict): the transcribed loop, run on the abstract table of the   *)
(* TLC case, finds / misses the same positions, and the real answer is then exactly the full     *)
(* index's range (the end of the very last posting list of the index may overshoot).             *)
Drift(e) ==
    /\ e.kind = "lookup" /\ e.goterr = "" /\ e.in.absn > 0
    /\ LET a == Algo(e.in.absn, e.in.k, e.in.absW)
           got == Rngs(e.got)
           ref == Rngs(e.ref)
       IN \/ a.err
          \/ Len(a.rngs) # Len(got)
          \/ \E j \in 1..Len(got) :
                \/ (a.rngs[j] = NF) # (got[j] = NF)
                \/ /\ a.rngs[j] # NF
                   /\ \/ got[j].start # ref[j].start
                      \/ got[j].end # ref[j].end /\ ~(e.lastname /\ e.in.absW[j] = 2 * e.in.absn)

VARIABLE l
TraceInit == l = 1
TraceNext == /\ l <= TraceLen
             /\ CaseReject(l, Trace[l], Judge(Trace[l]))
             /\ (IF Drift(Trace[l]) THEN PrintT(<<"DRIFT", l, Trace[l]["case"]>>) ELSE TRUE)
             /\ l' = l + 1
TraceSpec == TraceInit /\ [][TraceNext]_l
TraceAccepted == TLCGet("stats").diameter = TraceLen + 1
=============================================================================
