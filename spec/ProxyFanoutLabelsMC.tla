-------------------------- MODULE ProxyFanoutLabelsMC --------------------------
(***************************************************************************)
(* Leg A of C06 for the label APIs: ProxyStore.LabelNames / LabelValues    *)
(* fan the unary call out to every store in an errgroup; the answers come  *)
(* back in any order.  ABORT (or the deprecated disabled flag): the first  *)
(* store error is returned by g.Wait() and the response is dropped; WARN:  *)
(* a store error becomes a warning, the names of the others are merged.    *)
(***************************************************************************)
EXTENDS ProxyFanout, TLC
CONSTANTS NStores

ChunkOf(i) == [mint |-> 0, maxt |-> 10, f |-> <<i, 0, 0, 0, 0, 0>>]
FramesOfStore(i) == << [ls |-> << <<1, 1>>, <<2, i>> >>, chunks |-> <<ChunkOf(i)>>],
                       [ls |-> << <<1, 1 + i>>, <<3 + i, 1>> >>, chunks |-> <<ChunkOf(i)>>] >>
FailOpts == { [kind |-> "none", k |-> 0], [kind |-> "open", k |-> 0] }
WorldOf(fails, strips, wo) == [stores |-> [i \in 1..NStores |-> [frames |-> FramesOfStore(i), strips |-> strips[i], fail |-> fails[i]]], without |-> wo]

VARIABLES w, strategy, api, answered, got, nwarn, named, err, done
vars == <<w, strategy, api, answered, got, nwarn, named, err, done>>

Init == /\ \E fails \in [1..NStores -> FailOpts], strips \in [1..NStores -> BOOLEAN], wo \in {<<>>, <<2>>} : w = WorldOf(fails, strips, wo)
        /\ strategy \in {"ABORT", "WARN"} /\ api \in {"names", "values"}
        /\ answered = {} /\ got = {} /\ nwarn = 0 /\ named = [i \in 1..NStores |-> FALSE] /\ err = "" /\ done = FALSE

Answer(i) ==
    /\ ~done /\ i \notin answered
    /\ answered' = answered \cup {i}
    /\ IF w.stores[i].fail.kind # "none"
         THEN IF strategy = "ABORT" THEN err' = "fetch labels" /\ UNCHANGED <<got, nwarn, named>>     \* first error wins, rest cancelled
              ELSE nwarn' = nwarn + 1 /\ named' = [named EXCEPT ![i] = TRUE] /\ UNCHANGED <<got, err>>
         ELSE got' = got \cup (IF api = "names" THEN StoreNames(w, w.stores[i]) ELSE StoreValues(w.stores[i])) /\ UNCHANGED <<nwarn, named, err>>
    /\ UNCHANGED <<w, strategy, api, done>>
(* g.Wait(): with an error the response is nil *)
Return == /\ ~done /\ (answered = 1..NStores \/ err # "")
          /\ done' = TRUE /\ got' = (IF err # "" THEN {} ELSE got)
          /\ UNCHANGED <<w, strategy, api, answered, nwarn, named, err>>
Finished == done /\ UNCHANGED vars
Next == (\E i \in 1..NStores : Answer(i)) \/ Return \/ Finished
Spec == Init /\ [][Next]_vars

C06_LabelsStrategyHonoured == done => C06LabelClauses(w, strategy, api, err, nwarn, named, got) = {}
=============================================================================
