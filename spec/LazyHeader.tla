------------------------------ MODULE LazyHeader ------------------------------
(***************************************************************************)
(* Lazily loaded index-headers with idle unloading                         *)
(* (pkg/block/indexheader/lazy_binary_reader.go: LazyBinaryReader,         *)
(* reader_pool.go: ReaderPool.closeIdleReaders).                           *)
(*                                                                         *)
(* A LazyBinaryReader owns at most one loaded BinaryReader (an mmap of the *)
(* index-header file).  Every Reader call takes the read lock, loads the   *)
(* header if necessary (upgrading to the write lock and re-checking),      *)
(* uses it and releases the read lock.  The pool's sweeper and Close take  *)
(* the write lock, close the BinaryReader (unmapping the file) and forget  *)
(* it.  Loaded headers are numbered 1, 2, 3, ... in load order ("gen").    *)
(*                                                                         *)
(* Property C16: concurrent readers always get the same answers as from    *)
(* an always-loaded header or a clean error, never answers from a closed   *)
(* header.                                                                 *)
(*                                                                         *)
(* This constant module holds the property-level bookkeeping shared by the *)
(* model (LazyHeaderMC) and the trace spec (C16Trace): which header is     *)
(* loaded, which were closed, and which calls are using which header.      *)
(***************************************************************************)
EXTENDS Integers, Sequences, FiniteSets

None == 0                                   \* no header loaded

(* ---------- property level ---------- *)
(* A call may start using header g only if g is the loaded header and has not been closed.   *)
UseOK(g, loaded, closed) == g # None /\ g = loaded /\ g \notin closed
(* A header may be closed only while no call is using it ("never answers from a closed header"). *)
CloseOK(g, inuse) == \A u \in DOMAIN inuse : inuse[u] = 0 \/ u # g
(* A finished call answered like the always-loaded header, or failed cleanly (an error value,  *)
(* no panic, no fault).                                                                          *)
ResultOK(kind, got, ref) == kind = "error" \/ (kind = "ok" /\ got = ref)

(* bag of in-flight uses: header gen -> number of calls currently using it *)
Inc(bag, g) == [x \in DOMAIN bag \cup {g} |-> IF x = g THEN (IF g \in DOMAIN bag THEN bag[g] ELSE 0) + 1 ELSE bag[x]]
Dec(bag, g) == [x \in DOMAIN bag \cup {g} |-> IF x = g THEN (IF g \in DOMAIN bag THEN bag[g] ELSE 0) - 1 ELSE bag[x]]
EmptyBag == [x \in {} |-> 0]
=============================================================================
