---------------------------- MODULE IndexHeaderMC ----------------------------
(***************************************************************************)
(* Leg A for C11: the multi-value lookup loop of BinaryReader.             *)
(* postingsOffset, one loop iteration per step, for every table size n,    *)
(* every sampling rate k and every sorted request list W (duplicates,      *)
(* absent values before / between / after the present ones) in small       *)
(* scope.  TLC checks that the loop terminates, never reads past the       *)
(* entries of its label name, and answers exactly what the full index      *)
(* would (Expected).                                                       *)
(***************************************************************************)
EXTENDS IndexHeader, TLC, Json, IOUtils, SequencesExt
CONSTANTS MaxN, Ks, MaxW

VARIABLES n, k, W, s
vars == <<n, k, W, s>>

SortedLists(top, m) == { w \in [1..m -> 1..top] : \A a \in 1..m, b \in 1..m : a < b => w[a] <= w[b] }
(* long requests, as issued by lazy expanded postings (all values of a label at once): every     *)
(* value present and absent, all present, all absent, and the same with every value twice          *)
Twice(w) == [x \in 1..(2 * Len(w)) |-> w[(x + 1) \div 2]]
LongLists(nn) == LET all == [x \in 1..(2 * nn + 1) |-> x]
                     evens == [x \in 1..nn |-> 2 * x]
                     odds == [x \in 1..(nn + 1) |-> 2 * x - 1]
                 IN {all, evens, odds, Twice(all), Twice(evens), Twice(odds)}
Requests(nn) == UNION { SortedLists(2 * nn + 1, m) : m \in 1..MaxW } \cup LongLists(nn)

Init == /\ n \in 1..MaxN /\ k \in Ks
        /\ W \in Requests(n)
        /\ s = Start0

Iterate == /\ s.pc # "done"
           /\ s' = Step(s, n, k, W)
           /\ UNCHANGED <<n, k, W>>
Next == Iterate
Spec == Init /\ [][Next]_vars /\ WF_vars(Next)

(* ---- C11 (lookup part) ---- *)
AnswersLikeFullIndex == s.pc = "done" => ~s.err /\ s.rngs = Expected(n, W)
(* the algorithm's exact answer also satisfies the (weaker) property-level relation *)
AnswersAcceptable == s.pc = "done" => RangesOK(s.rngs, Expected(n, W), PO(n + 1))
NeverOverAnswers == Len(s.rngs) + Len(s.same) <= Len(W) /\ s.d <= n + 1
Terminates == <>(s.pc = "done")
(* LabelValues returns every value of the label, in order, for every sampling rate *)
LabelValuesComplete == LET r == AlgoLabelValues(n, k) IN ~r.err /\ r.vals = [j \in 1..n |-> Val(j)]

(* symbols: every history of 4 lookups over 4 refs through a 2-slot cache answers like the table *)
ASSUME \A h \in [1..4 -> 0..3] : SymLookups(2, h) = [x \in 1..4 |-> Sym(h[x])]

(* ---- leg B: every (n, k, W) is looked up in a real index-header ---- *)
CasesFile == IF "VERIF_CASES" \in DOMAIN IOEnv THEN IOEnv.VERIF_CASES ELSE "cases.ndjson"
CaseSet == UNION { { [n |-> nn, k |-> kk, W |-> w] : kk \in Ks, w \in Requests(nn) } : nn \in 1..MaxN }
ASSUME ndJsonSerialize(CasesFile, SetToSeq(CaseSet))
=============================================================================
