----------------------------- MODULE Compaction -----------------------------
(***************************************************************************)
(* Compaction of block groups in an object-store bucket, as far as a       *)
(* store gateway can observe it (pkg/compact/compact.go, the fetcher       *)
(* filters of pkg/block/fetcher.go, pkg/compact/blocks_cleaner.go).        *)
(*                                                                         *)
(* Observable state of one block in the bucket (a record):                 *)
(*   id        integer name; ids grow in creation (ULID) order             *)
(*   grp       compaction group (external labels + resolution)             *)
(*   src       set of ids of the original (level-1) blocks it was made of  *)
(*             (meta.json Compaction.Sources); {id} for an original block  *)
(*   meta      meta.json present (the block is visible to fetchers)        *)
(*   complete  every file listed in meta.json is present                   *)
(*   markAge   NoMark, or the age of its deletion-mark.json                *)
(* Samples are tokens; smp[id] is the set of tokens block id holds.        *)
(*                                                                         *)
(* This module is the PROPERTY level of C29 (and the store-gateway view    *)
(* shared with C34): which blocks a store gateway serves and what C29      *)
(* demands of them.  The algorithm level (the compactor's cycle with       *)
(* crashes) is the state machine in CompactionMC.                          *)
(***************************************************************************)
EXTENDS Integers, Sequences, FiniteSets

NoMark == -1

(* ---- the store gateway's selection (cmd/thanos/store.go: IgnoreDeletionMarkFilter(delay), then ---- *)
(* ---- DeduplicateFilter) on the blocks whose meta.json is in the bucket                           ---- *)
Visible(b) == b.meta
(* "hide deletion-marked blocks after a delay": marked longer ago than ignoreDelay *)
MarkHidden(b, ignoreDelay) == b.markAge # NoMark /\ b.markAge > ignoreDelay
Candidates(B, ignoreDelay) == { b \in B : Visible(b) /\ ~MarkHidden(b, ignoreDelay) }
(* A block is hidden as a duplicate when another candidate of its group was made of a superset of    *)
(* its sources (equal source sets: the older block, i.e. the smaller id, stays).                      *)
Covers(p, c) == /\ p.id # c.id /\ p.grp = c.grp /\ c.src \subseteq p.src
                /\ (Cardinality(p.src) > Cardinality(c.src) \/ (p.src = c.src /\ p.id < c.id))
Kept(C) == { b \in C : ~\E p \in C : Covers(p, b) }
SGServes(B, ignoreDelay) == Kept(Candidates(B, ignoreDelay))

(* how many served blocks hold token x (a block that lost files serves nothing) *)
ServedCount(B, ignoreDelay, smp, x) ==
    Cardinality({ b \in SGServes(B, ignoreDelay) : b.complete /\ x \in smp[b.id] })

(* ---- C29 ---- *)
(* "at every moment the blocks a store gateway would serve still contain every original sample" *)
AllServed(B, ignoreDelay, smp, universe) == \A x \in universe : ServedCount(B, ignoreDelay, smp, x) >= 1
(* "once compaction finishes each sample is served exactly once" *)
ExactlyOnce(B, ignoreDelay, smp, universe) == \A x \in universe : ServedCount(B, ignoreDelay, smp, x) = 1
(* "Compacting a group of blocks produces blocks holding exactly the samples of the sources" *)
HoldsExactlySources(b, smp) == smp[b.id] = UNION { smp[s] : s \in b.src }
=============================================================================
