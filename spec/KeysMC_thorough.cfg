\* C13 leg A thorough: alphabet { : ; = ~ ! " \ a b } (+ digit 1 for the conversion cache), strings of
\* length <= 2, 2 blocks x 2 compression schemes; list slice: values up to 5 characters over { " ; = a \ },
\* types = and =~; harness groups over every 3-character subset of the alphabet.
SPECIFICATION Spec
CONSTANTS Sigma <- SigmaFull
          MaxLen = 2
          ConvSigma <- ConvSigmaFull
          ListSigma <- ListSigma5
          ListValLen = 5
          ListTypes = {"EQ", "RE"}
          Blocks = {"B1", "B2"}
          Comps <- CompsBoth
          SeriesIds = {0, 1, 10, 11}
          Legacy = {}
          GroupSyms = 3
          RecvValLen = 4
INVARIANTS C13_NoConflation
CHECK_DEADLOCK FALSE
