---------------------------- MODULE StoreAPIsMC ----------------------------
(***************************************************************************)
(* Leg A for C07 and C08 (and the generator of leg B's abstract worlds and *)
(* requests).  For every world (stored series with colliding external      *)
(* labels, a head and one or two blocks with their own external labels),   *)
(* every request (matcher sets of all four types incl. empty-matching and  *)
(* set regexes, replica-label lists that hit stored and external labels,   *)
(* time ranges) and every store kind, the three API calls are made on the  *)
(* ALGORITHM-level model of StoreAPIs (one action per call) and TLC checks *)
(* that the answers satisfy the PROPERTY-level relations of C08 and C07.   *)
(***************************************************************************)
EXTENDS StoreAPIs, TLC, Json, IOUtils, SequencesExt, FiniteSetsExt

CONSTANTS SNames,      \* label names stored series may carry
          SVals,       \* their values
          ENames,      \* names external labels may use (overlapping SNames = collisions)
          EVals,       \* external label values (overlapping SVals = equal-valued collisions)
          RNames,      \* names a request may ask to drop as replica labels
          MNames,      \* names matchers may use
          MVals,       \* literals of EQ/NEQ matchers ("" is always added)
          AltSeqs,     \* alternations of RE/NRE matchers (sequences of literals, "" allowed)
          MaxSeries, MaxMatchers,
          SlotSets,    \* possible slot sets of a series
          Ranges,      \* request time ranges <<mint, maxt>>
          TwoBlocks,   \* TRUE: the bucket holds a second block with other external labels
          W,           \* slot width
          KindSet,     \* store kinds to explore: tsdb, bucket, proxy, prom (sidecar), recv (receiver)
          PromOpts,    \* option records explored for the sidecar (SkipChunks, sampled read, old label calls)
          TLabel,      \* tenant label name of the receiver (collides with external / replica labels)
          TenantIds    \* tenant ids of the receiver; every tenant holds the head's series

VARIABLES kind, opt, head, blocks, req,     \* the case (never change)
          pc, series, names, values    \* progress and the answers of the three calls
vars == <<kind, opt, head, blocks, req, pc, series, names, values>>

(* values the .cfg files cannot write (tuples): substituted with `X <- Name` *)
MC_Alts == { <<"x", "e">>, <<"x", "">> }
MC_AltOne == { <<"x", "">> }
MC_AltsMore == { <<"x", "e">>, <<"x", "">>, <<"y">>, <<"">> }
MC_OneRange == { <<0, W>> }
MC_Ranges == { <<0, 2 * W>>,                               \* everything
               <<ChunkMax(W, 0), ChunkMax(W, 0)>>,          \* the last sample of slot 0
               <<ChunkMax(W, 0) + 1, ChunkMin(W, 1) - 1>>,  \* between the chunks of slots 0 and 1
               <<ChunkMin(W, 1), 2 * W>> }                  \* from the first sample of slot 1

NoOpt == [skip |-> FALSE, samples |-> FALSE, pmatch |-> TRUE]
MC_PromOptsAll == { [skip |-> sk, samples |-> sa, pmatch |-> pm] : sk \in BOOLEAN, sa \in BOOLEAN, pm \in BOOLEAN }
MC_PromOptsFew == { [skip |-> TRUE, samples |-> FALSE, pmatch |-> TRUE],       \* SkipChunks through /series
                    [skip |-> FALSE, samples |-> FALSE, pmatch |-> TRUE],      \* streamed read, label calls with matchers
                    [skip |-> FALSE, samples |-> TRUE, pmatch |-> FALSE] }     \* sampled read, label calls through /series

MC_PromOptsTwo == { [skip |-> TRUE, samples |-> FALSE, pmatch |-> TRUE],       \* SkipChunks through /series
                    [skip |-> FALSE, samples |-> TRUE, pmatch |-> FALSE] }     \* sampled read, label calls through /series

(* ---------------- universe ---------------- *)
LabelMaps(ns, vs) == UNION { [d -> vs] : d \in SUBSET ns }
StoredLsets == LabelMaps(SNames, SVals) \ {<<>>}
ExtLsets == LabelMaps(ENames, EVals)
UpTo(S, k) == UNION { kSubset(i, S) : i \in 0..k }      \* never enumerate SUBSET of a big set
SeriesSets == UpTo(StoredLsets, MaxSeries)
Matchers ==
    { [n |-> n, t |-> t, k |-> "set", alts |-> <<v>>] : n \in MNames, t \in {"EQ", "NEQ"}, v \in MVals \cup {""} }
    \cup { [n |-> n, t |-> t, k |-> "set", alts |-> a] : n \in MNames, t \in {"RE", "NRE"}, a \in AltSeqs }
    \cup { [n |-> n, t |-> t, k |-> kk, alts |-> <<>>] : n \in MNames, t \in {"RE", "NRE"}, kk \in {"any", "nonempty"} }
MatcherSets == UpTo(Matchers, MaxMatchers)
AllNames == SNames \cup ENames \cup RNames \cup MNames \cup {TLabel}

(* all placements of slot sets on a set of label sets *)
Placed(ss) == { { [l |-> ls, slots |-> f[ls]] : ls \in ss } : f \in [ss -> SlotSets] }

(* the world as the entry points of StoreAPIs take it; receiver tenants all hold the head's series *)
Tenants == { [ext |-> TenantExt(head.ext, TLabel, id), series |-> head.series] : id \in TenantIds }
WD == [W |-> W, head |-> head, blocks |-> blocks, tenants |-> Tenants]

Init ==
    /\ kind \in KindSet
    /\ opt \in (IF kind = "prom" THEN PromOpts ELSE {NoOpt})
    /\ \E ss \in SeriesSets, e \in ExtLsets :
         /\ head \in { [ext |-> e, series |-> p] : p \in Placed(ss) }
         /\ IF TwoBlocks
              THEN \E e2 \in ExtLsets \ {<<>>} :
                     blocks \in { { [ext |-> e, series |-> p], [ext |-> e2, series |-> p] } : p \in Placed(ss) }
              ELSE blocks \in { { [ext |-> e, series |-> p] } : p \in Placed(ss) }
    /\ \E ms \in MatcherSets, rl \in SUBSET RNames, r \in Ranges :
         req = [ms |-> ms, rl |-> rl, mint |-> r[1], maxt |-> r[2]]
    /\ pc = "series" /\ series = [kind |-> "none", out |-> {}] /\ names = {} /\ values = <<>>

(* ---------------- one action per API call (algorithm level) ---------------- *)
CallSeries == /\ pc = "series"
              /\ series' = AlgoSeriesW(kind, WD, req, opt)
              /\ pc' = "names" /\ UNCHANGED <<kind, opt, head, blocks, req, names, values>>
CallLabelNames == /\ pc = "names"
                  /\ names' = AlgoNamesW(kind, WD, req, opt)
                  /\ pc' = "values" /\ UNCHANGED <<kind, opt, head, blocks, req, series, values>>
CallLabelValues == /\ pc = "values"
                   /\ values' = [ n \in AllNames |-> AlgoValuesW(kind, WD, req, n, opt) ]
                   /\ pc' = "done" /\ UNCHANGED <<kind, opt, head, blocks, req, series, names>>
Next == CallSeries \/ CallLabelNames \/ CallLabelValues
Spec == Init /\ [][Next]_vars

(* ---------------- the properties, stated with the PROPERTY-level operators ---------------- *)
Srcs == SourcesW(kind, WD)
(* C08 sentence 1: every returned label set is a stored one overridden by the external labels,  *)
(* minus the replica labels                                                                      *)
C08_ExtLabelsOverride == pc # "series" => \A ls \in series.out : ls \in C08Presentable(Srcs, req.rl)
(* C08 sentence 2: selectors contradicting the external labels return nothing                    *)
C08_ContradictionEmpty == pc # "series" => \A ls \in series.out : ls \in C08Allowed(Srcs, req.ms, req.rl)
C08_AllContradictedNothing ==
    pc # "series" /\ (\A s \in Srcs : Contradicts(req.ms, s.ext)) => series.out = {}
(* the algorithm's presentation equals the property-level one                                    *)
C08_PresentRefines ==
    \A s \in head.series : AlgoPresent(s.l, head.ext, req.rl) = Present(s.l, head.ext, req.rl)
(* C07: names and values of every returned series are covered by the label APIs                  *)
(* (the sidecar's label calls are refused by Prometheus for selector sets matching the empty label *)
(* set; a refused call gives no answer, see C07Trace)                                              *)
C07_Covered == pc = "done" /\ ~(kind = "prom" /\ PromRefuses(req.ms, head.ext)) => C07Covered(series.out, names, values)
(* replica labels never show up on series (so C07 never has to look for them)                    *)
C07_ReplicaLabelsDropped == pc # "series" => \A ls \in series.out : DOMAIN ls \cap req.rl = {}

(* non-vacuity: TLC must be able to reach these (checked by hand with their negations) *)
SomeSeriesReturned == pc = "done" /\ series.out # {}

(* ---------------- leg B: abstract worlds and requests for the harness ---------------- *)
CasesFile == IF "VERIF_CASES" \in DOMAIN IOEnv THEN IOEnv.VERIF_CASES ELSE "cases.ndjson"
PairSeq(ls) == SetToSeq(LsPairs(ls))
WorldCases == { [kind |-> "world", series |-> SetToSeq({ PairSeq(ls) : ls \in ss }), ext |-> PairSeq(e)] :
                  ss \in SeriesSets \ {{}}, e \in ExtLsets }
ReqCases == { [kind |-> "req", ms |-> SetToSeq(ms), rl |-> SetToSeq(rl)] : ms \in MatcherSets, rl \in SUBSET RNames }
ASSUME ndJsonSerialize(CasesFile, SetToSeq(WorldCases) \o SetToSeq(ReqCases))
=============================================================================
