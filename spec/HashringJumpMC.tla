---------------------------- MODULE HashringJumpMC ----------------------------
(***************************************************************************)
(* Leg A for C49 "memcached key placement is consistent".                  *)
(*                                                                         *)
(* The machine runs the loop of jumpHash (pkg/cacheutil/jump_hash.go), one *)
(* iteration per step, on words of W bits, for every key hash, and records *)
(* in res[n] what the loop returns for every bucket count n <= MaxB (the   *)
(* jumps do not depend on n; n only says where to stop).  On top of it the *)
(* selector (servers kept in natural sort order, servers = 1..n+1 by       *)
(* rank): a server of rank p is added to the n others.                     *)
(*                                                                         *)
(*   C49_Monotone        res[n+1] is res[n] or the new last bucket n       *)
(*   C49_AddLast         a new server that sorts LAST only takes keys over *)
(*   C49_Range, C49_Function, C49_Terminates                               *)
(* Known finding (KNOWN_FINDINGS.jsonl, key added-server-not-last): a new  *)
(* server that does not sort last shifts the ranks of the servers after    *)
(* it, so keys move between old servers.  C49_AddLast carries the guard    *)
(* ~KnownFindingCase, which excludes exactly that class; C49_AddAnywhere   *)
(* is the unguarded statement: checked by hand, TLC shows the              *)
(* counterexample (not in any cfg the driver runs).  A is the real         *)
(* multiplier 2862933555777941757 reduced mod 2^W.                         *)
(***************************************************************************)
EXTENDS Hashring, TLC, Json, IOUtils, SequencesExt
CONSTANTS W, S, A, MaxB, CaseMaxN

VARIABLES key0, key, b, j, res, n, p, done
vars == <<key0, key, b, j, res, n, p, done>>

Init == /\ key0 \in 0..(2 ^ W - 1) /\ key = key0
        /\ b = -1 /\ j = 0
        /\ res = [m \in 1..MaxB |-> -1]
        /\ n \in 1..(MaxB - 1)              \* servers before the addition
        /\ p \in 1..MaxB /\ p <= n + 1      \* natural-sort rank of the added server among all n+1
        /\ done = FALSE

(* one iteration of `for j < int64(numBuckets)` run up to MaxB buckets *)
Step == /\ ~done /\ j < MaxB
        /\ b' = j
        /\ key' = JumpLcg(key, W, A)
        /\ j' = JumpTo(j, key', S, W - S)
        (* every bucket count m with j < m <= j' stops here and returns b' *)
        /\ res' = [m \in 1..MaxB |-> IF j < m /\ m <= JumpTo(j, key', S, W - S) THEN j ELSE res[m]]
        /\ UNCHANGED <<key0, n, p, done>>
Finish == /\ ~done /\ j >= MaxB /\ done' = TRUE /\ UNCHANGED <<key0, key, b, j, res, n, p>>
Next == Step \/ Finish
Spec == Init /\ [][Next]_vars /\ WF_vars(Next)

C49_Terminates == <>done
C49_Progress == j > b                               \* the loop variable strictly grows
C49_Range == done => \A m \in 1..MaxB : res[m] \in 0..(m - 1)
C49_Function == done => \A m \in 1..MaxB : res[m] = JumpHashModel(key0, m, W, S, A)
C49_Monotone == done => \A m \in 1..(MaxB - 1) : res[m + 1] \in {res[m], m}

(* the selector: ranks 1..n+1; the added server has rank p; old servers keep their order *)
OldServers == [k \in 1..n |-> IF k < p THEN k ELSE k + 1]       \* sorted old list, as ranks in the new list
NewServers == [k \in 1..(n + 1) |-> k]
Before == IF n = 1 THEN OldServers[1] ELSE OldServers[res[n] + 1]
After == NewServers[res[n + 1] + 1]
KnownFindingCase == p # n + 1                                     \* the added server does not sort last
C49_AddLast == done /\ ~KnownFindingCase => After \in {Before, p}
C49_AddAnywhere == done => After \in {Before, p}                  \* violated: the known finding

(* listing order does not matter: the selector sorts before use (sorting abstracted) *)
ASSUME \A f \in Permutations(1..3) : SortSeq([k \in 1..3 |-> f[k]], LAMBDA x, y : x < y) = <<1, 2, 3>>

(* Leg B: server count x natural-sort rank of the added server *)
Cases == { [n |-> m, pos |-> q] : m \in 1..CaseMaxN, q \in 1..(CaseMaxN + 1) }
CaseSel == { c \in Cases : c.pos <= c.n + 1 }
CasesFile == IF "VERIF_CASES" \in DOMAIN IOEnv THEN IOEnv.VERIF_CASES ELSE "cases.ndjson"
ASSUME ndJsonSerialize(CasesFile, SetToSeq(CaseSel))
=============================================================================
