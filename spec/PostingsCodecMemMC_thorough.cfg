\* C12 leg A (cached bytes) thorough: lists of <= 4 values in 0..5, 2-byte varints from difference 2, chunks of at most
\* 1..4 bytes, every compressed/uncompressed assignment, two interleaved decoders of the same bytes
SPECIFICATION Spec
CONSTANTS MaxVal = 5
          MaxLen = 4
          Ks = {1, 2, 3, 4}
          W2 = 2
INVARIANT C12_EveryDecodeGivesTheList
INVARIANT CachedBytesIntact
CHECK_DEADLOCK FALSE
