\* C27 reload, thorough: 6 catalogue configurations + unloadable content, 2 rewrites of the file,
\* 2 request processes, 3 requests (safety only)
SPECIFICATION Spec
CONSTANTS MaxWrites = 2
          Procs = {1, 2}
          MaxReqs = 3
          CatalogSize = 6
          SharedCache = FALSE
INVARIANT C27_Reload
INVARIANT C27_NoGap
INVARIANT C27_InForce
CHECK_DEADLOCK FALSE
