\* C11 leg A thorough: tables of 1..5 values, sampling 1,2,3,5, sorted requests of <= 4 values over 1..2n+1
SPECIFICATION Spec
CONSTANTS MaxN = 5
          Ks = {1, 2, 3, 5}
          MaxW = 4
INVARIANTS AnswersLikeFullIndex AnswersAcceptable NeverOverAnswers LabelValuesComplete
PROPERTY Terminates
CHECK_DEADLOCK FALSE
