------------------------------ MODULE C30Trace ------------------------------
(***************************************************************************)
(* Leg C for C30.  One trace line per executed case = one plan/apply       *)
(* history of one compaction group on the REAL planner:                    *)
(*   ranges     compaction ranges (time units of the case)                 *)
(*   kind, thr, ds   planner stack, index-size threshold, downsampled      *)
(*   n          number of initial blocks (ids 1..n; the block produced by  *)
(*              applying the plan of step k has id n+k)                    *)
(*   steps[k]   blocks: the planner's input in the order it was given      *)
(*              (records id,mint,maxt,nc,tomb,ser,failed,isz; nc = marked  *)
(*              no-compact when the planner was called), plan: ids named   *)
(*              by the returned plan, marked: ids carrying a no-compact    *)
(*              mark in the bucket after the call, err: "" or error/panic  *)
(*   converged  the last step returned an empty plan without error         *)
(* Judged with the property-level operators of Planner only.               *)
(***************************************************************************)
EXTENDS TraceLib, Planner

(* the input of a step with the marks present when the plan was returned *)
StepSet(st) == { [id |-> b.id, mint |-> b.mint, maxt |-> b.maxt, nc |-> (b.id \in Range(st.marked)),
                  tomb |-> b.tomb, ser |-> b.ser, failed |-> b.failed, isz |-> b.isz] : b \in Range(st.blocks) }
Proj(B) == { <<b.id, b.mint, b.maxt, b.tomb>> : b \in B }

Judge(e) ==
    LET K == Len(e.steps)
        perPlan == UNION { PlanClauses(StepSet(e.steps[k]), e.ranges, e.steps[k].plan) : k \in 1..K }
        (* the recorded history really is "repeatedly planning and applying plans" *)
        chainBad == \E k \in 1..(K - 1) :
                       /\ "plan-names-blocks-of-the-group" \notin PlanClauses(StepSet(e.steps[k]), e.ranges, e.steps[k].plan)
                       /\ Proj(Range(e.steps[k + 1].blocks)) # Proj(ApplySet(StepSet(e.steps[k]), e.steps[k].plan, e.n + k))
    IN  perPlan
        \cup (IF chainBad THEN {"history-is-plan-apply-chain"} ELSE {})
        (* "Repeatedly planning and applying plans ends after finitely many steps": the loop (bounded by   *)
        (* 2n+4 steps, more than any sequence of valid plans can take) ended with an empty plan, no error  *)
        \cup (IF e.converged /\ K >= 1 /\ e.steps[K].plan = <<>> /\ e.steps[K].err = "" THEN {} ELSE {"planning-ends-at-a-fixpoint"})
        (* "... with non-overlapping blocks" *)
        \cup (IF e.converged /\ K >= 1 THEN FinalClauses(StepSet(e.steps[K])) ELSE {})

(* Model conformance (never a verdict): the transcribed algorithm predicts every plan and every mark. *)
Drift(e) ==
    \E k \in 1..Len(e.steps) :
        LET st == e.steps[k] IN
        /\ st.err = ""
        /\ LET r == PlanAlgo(e.kind, e.ranges, st.blocks, e.thr, e.ds)
               pre == { st.blocks[i].id : i \in { j \in DOMAIN st.blocks : st.blocks[j].nc } }
           IN  IdsOf(r.plan) # st.plan \/ (pre \cup r.marks) # Range(st.marked)

VARIABLE l
TraceInit == l = 1
TraceNext == /\ l <= TraceLen
             /\ CaseReject(l, Trace[l], Judge(Trace[l]))
             /\ (IF Drift(Trace[l]) THEN PrintT(<<"DRIFT", l, Trace[l]["case"]>>) ELSE TRUE)
             /\ l' = l + 1
TraceSpec == TraceInit /\ [][TraceNext]_l
TraceAccepted == TLCGet("stats").diameter = TraceLen + 1
=============================================================================
