\* C03 leg A (ring protocol) thorough: 2 stores x 2 frames, ring capacity 2, streams may fail; all interleavings
SPECIFICATION Spec
CONSTANTS NP = 2
          N = 2
          K = 2
          MayFail = TRUE
INVARIANTS OrderPreserved NothingLost RingBounded CloseAfterProducer AllClosed
PROPERTIES RequestReturns ProducersEnd
CHECK_DEADLOCK TRUE
