\* C39 leg A thorough: Base 2, lengths 1, 2, 4, 5 (one, two and three digits), 5^5 patterns x 5 types
SPECIFICATION Spec
CONSTANTS Base = 2
          Bytes = {1}
          Lens = {1, 2, 4, 5}
INVARIANT C39_GetMatchesExpected
PROPERTY C39_Terminates
CHECK_DEADLOCK FALSE
