\* C39 leg A thorough: bytes {1,2}, data length 1..2; 7^5 patterns x 5 types
SPECIFICATION Spec
CONSTANTS Bytes = {1, 2}
          MaxLen = 2
INVARIANT C39_GetMatchesExpected
PROPERTY C39_Terminates
CHECK_DEADLOCK FALSE
