\* C35 leg A quick, second configuration (phase 2): 2 local blocks; one crash anywhere; one block may APPEAR LATE
\* (backfill / a compacted block becoming eligible); MultiTSDB pruning of the directory and the local TSDB retention
\* may run at any moment, guarded only by the shipper file
SPECIFICATION Spec
CONSTANTS N = 2
          MaxCrashes = 1
          Features = {"crash", "prune", "late"}
          MaxFails = 0
          MtLen = 0
          CaseN = 2
          CaseCrashes = 1
          CaseKinds = {"L1", "L2"}
          CasePre = {"absent", "complete"}
INVARIANTS C35_PrunedOnlyWhenShipped C35_LocalDeleteOnlyWhenShipped C35_RecordedWereSeenComplete C35_SuccessfulSyncShippedAll C28_Holds
PROPERTIES EventuallyShipped
CHECK_DEADLOCK FALSE
