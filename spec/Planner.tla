------------------------------- MODULE Planner -------------------------------
(***************************************************************************)
(* Compaction planning (pkg/compact/planner.go).                           *)
(*                                                                         *)
(* A block of one compaction group is a record                             *)
(*   [id, mint, maxt, nc, tomb, ser, failed, isz]                          *)
(* id: integer name; [mint, maxt): time range (mint < maxt); nc: the block *)
(* carries a no-compact mark; tomb / ser: NumTombstones / NumSeries of its *)
(* stats; failed: meta.Compaction.Failed; isz: size of its index file.     *)
(* The planner input is a SEQUENCE of blocks sorted by mint (ties in any   *)
(* order: Group.AppendMeta sorts with an unstable sort on MinTime only).   *)
(* `ranges` is the configured list of compaction ranges, ascending.        *)
(*                                                                         *)
(* Part 1 is the property level: what C30 demands, written from its        *)
(* statement.  Part 2 transcribes what planner.go does.                    *)
(***************************************************************************)
EXTENDS Integers, Sequences, FiniteSets

MaxOf(S) == CHOOSE x \in S : \A y \in S : y <= x
MinOf(S) == CHOOSE x \in S : \A y \in S : x <= y
SeqSet(s) == { s[i] : i \in DOMAIN s }
RangeSet(ranges) == { ranges[i] : i \in DOMAIN ranges }

(***************************************************************************)
(* Part 1 -- property level                                                *)
(***************************************************************************)
Overlap(a, b) == a.mint < b.maxt /\ b.mint < a.maxt
PairwiseDisjoint(B) == \A a, b \in B : a.id # b.id => ~Overlap(a, b)

(* The aligned window of size r that contains t starts at Window(t, r)     *)
(* (floor division, also for negative t).  [lo, hi) "fits into one         *)
(* configured range" when it lies inside one aligned window of some r.     *)
Window(t, r) == r * (t \div r)
Fits(lo, hi, r) == hi <= Window(lo, r) + r
FitsSome(lo, hi, ranges) == \E r \in RangeSet(ranges) : Fits(lo, hi, r)

(* "non-overlapping aligned blocks": no two blocks of the input overlap    *)
(* and every block lies inside an aligned window of a configured range.    *)
AlignedInput(B, ranges) == PairwiseDisjoint(B) /\ \A b \in B : FitsSome(b.mint, b.maxt, ranges)

Newest(B) == { b \in B : \A c \in B : c.mint <= b.mint }
SpanLo(P) == MinOf({ b.mint : b \in P })
SpanHi(P) == MaxOf({ b.maxt : b \in P })

(* The clauses of C30 about ONE plan.  B: the planner's input (set of      *)
(* blocks, nc = marks present when the plan was returned), pids: the       *)
(* sequence of ids the plan names.  Result: names of violated clauses.     *)
PlanClauses(B, ranges, pids) ==
    LET idset == { pids[i] : i \in DOMAIN pids }
        P == { b \in B : b.id \in idset }
    IN  IF pids = <<>> THEN {}
        (* "A compaction plan names blocks of one group" (the input is one group)  *)
        ELSE IF ~(idset \subseteq { b.id : b \in B } /\ Cardinality(idset) = Len(pids))
          THEN {"plan-names-blocks-of-the-group"}
        ELSE
        (* "that are at least two (or a single block with many tombstones)"; weakest  *)
        (* reading of "many": the single block has tombstones at all                  *)
        (IF Cardinality(P) >= 2 \/ (\E b \in P : b.tomb > 0) THEN {} ELSE {"at-least-two-or-single-with-tombstones"})
        (* "never includes blocks marked no-compact"  *)
        \cup (IF \E b \in P : b.nc THEN {"never-includes-no-compact-block"} ELSE {})
        (* "for non-overlapping aligned blocks, never includes the newest block"  *)
        \cup (IF AlignedInput(B, ranges) /\ P \cap Newest(B) # {} THEN {"aligned-never-includes-newest"} ELSE {})
        (* "and always fits into one configured time range"  *)
        \cup (IF AlignedInput(B, ranges) /\ ~FitsSome(SpanLo(P), SpanHi(P), ranges) THEN {"aligned-fits-one-range"} ELSE {})
        (* "blocks no longer than the largest range": a block produced from non-overlapping  *)
        (* sources (horizontal plan); a vertical plan may produce the union of its inputs     *)
        \cup (IF Cardinality(P) >= 2 /\ PairwiseDisjoint(P) /\ SpanHi(P) - SpanLo(P) > MaxOf(RangeSet(ranges))
                THEN {"horizontal-result-within-largest-range"} ELSE {})

(* Applying a plan: the planned blocks are replaced by one block covering  *)
(* their union; compaction drops deleted data, so it has no tombstones.    *)
RECURSIVE SumIsz(_)
SumIsz(S) == IF S = {} THEN 0 ELSE LET x == CHOOSE y \in S : TRUE IN x.isz + SumIsz(S \ {x})
Merged(P, newid) ==
    [id |-> newid, mint |-> SpanLo(P), maxt |-> SpanHi(P), nc |-> FALSE, tomb |-> 0,
     ser |-> MaxOf({ b.ser : b \in P }), failed |-> FALSE,
     isz |-> SumIsz(P)]
ApplySet(B, pids, newid) ==
    LET P == { b \in B : b.id \in { pids[i] : i \in DOMAIN pids } } IN (B \ P) \cup {Merged(P, newid)}

(* "ends ... with non-overlapping blocks": at the fixpoint the blocks the  *)
(* planner may touch (not marked no-compact) do not overlap.               *)
FinalClauses(B) ==
    IF PairwiseDisjoint({ b \in B : ~b.nc }) THEN {} ELSE {"fixpoint-blocks-non-overlapping"}

(* Variant that proves "ends after finitely many steps": every plan either *)
(* reduces the number of blocks or clears the tombstones of one block.     *)
Measure(B) == 2 * Cardinality(B) + Cardinality({ b \in B : b.tomb > 0 })

(***************************************************************************)
(* Part 2 -- algorithm level (transcription of planner.go)                 *)
(***************************************************************************)
Max2(a, b) == IF a >= b THEN a ELSE b
AllButLast(s) == SubSeq(s, 1, Len(s) - 1)
NotExcluded(s) == SelectSeq(s, LAMBDA b : ~b.nc)

(* Go's integer division truncates towards zero.  *)
GoDiv(a, b) == IF a >= 0 THEN a \div b ELSE -((-a) \div b)
(* splitByRange: t0 = start of the aligned range closest to the block's start  *)
GoWindow(t, tr) == IF t >= 0 THEN tr * GoDiv(t, tr) ELSE tr * GoDiv(t - tr + 1, tr)

(* selectOverlappingMetas: the first run of overlapping blocks.  *)
RECURSIVE SelOv(_, _, _, _)
SelOv(s, i, acc, gmax) ==
    IF i > Len(s) THEN acc
    ELSE IF s[i].mint < gmax
           THEN SelOv(s, i + 1, (IF acc = <<>> THEN <<s[i - 1]>> ELSE acc) \o <<s[i]>>, Max2(gmax, s[i].maxt))
         ELSE IF acc # <<>> THEN acc
         ELSE SelOv(s, i + 1, acc, Max2(gmax, s[i].maxt))
SelectOverlapping(s) == IF Len(s) < 2 THEN <<>> ELSE SelOv(s, 2, <<>>, s[1].maxt)

(* splitByRange  *)
RECURSIVE RunEnd(_, _, _)
RunEnd(s, j, lim) == IF j < Len(s) /\ s[j + 1].maxt <= lim THEN RunEnd(s, j + 1, lim) ELSE j
RECURSIVE Split(_, _, _)
Split(s, tr, i) ==
    IF i > Len(s) THEN <<>>
    ELSE LET t0 == GoWindow(s[i].mint, tr) IN
         IF s[i].maxt > t0 + tr THEN Split(s, tr, i + 1)
         ELSE LET j == RunEnd(s, i, t0 + tr) IN <<SubSeq(s, i, j)>> \o Split(s, tr, j + 1)
SplitByRange(s, tr) == Split(s, tr, 1)

(* the exclusion scan of selectMetas: first run of >= 2 unmarked blocks of the part  *)
RECURSIVE ExclScan(_, _, _)
ExclScan(p, lastEx, i) ==
    IF i > Len(p) THEN (IF Len(p) - lastEx > 1 THEN SubSeq(p, lastEx + 1, Len(p)) ELSE <<>>)
    ELSE IF ~p[i].nc THEN ExclScan(p, lastEx, i + 1)
    ELSE IF (i - 1) - lastEx > 1 THEN SubSeq(p, lastEx + 1, i - 1)
    ELSE ExclScan(p, i, i + 1)

PartResult(p, iv, highTime) ==
    IF \E k \in DOMAIN p : p[k].failed THEN <<>>
    ELSE IF Len(p) < 2 THEN <<>>
    ELSE IF p[Len(p)].maxt - p[1].mint # iv /\ p[Len(p)].maxt > highTime THEN <<>>
    ELSE ExclScan(p, 0, 1)

RECURSIVE FirstPart(_, _, _, _)
FirstPart(parts, k, iv, highTime) ==
    IF k > Len(parts) THEN <<>>
    ELSE LET r == PartResult(parts[k], iv, highTime) IN
         IF r # <<>> THEN r ELSE FirstPart(parts, k + 1, iv, highTime)

RECURSIVE OverRanges(_, _, _, _)
OverRanges(ranges, ri, s, highTime) ==
    IF ri > Len(ranges) THEN <<>>
    ELSE LET r == FirstPart(SplitByRange(s, ranges[ri]), 1, ranges[ri], highTime) IN
         IF r # <<>> THEN r ELSE OverRanges(ranges, ri + 1, s, highTime)

SelectMetas(ranges, s) ==
    IF Len(ranges) < 2 \/ Len(s) < 1 THEN <<>>
    ELSE OverRanges(ranges, 2, s, s[Len(s)].mint)

(* "Compact any blocks with big enough time range that have >5% tombstones":       *)
(* float64(NumTombstones)/float64(NumSeries+1) > 0.05  <=>  20*tomb > ser+1.       *)
ManyTombstones(b) == 20 * b.tomb > b.ser + 1
RECURSIVE TombScan(_, _, _)
TombScan(ne, i, minLen) ==
    IF i < 1 THEN <<>>
    ELSE IF ne[i].maxt - ne[i].mint < minLen THEN <<>>
    ELSE IF ManyTombstones(ne[i]) THEN <<ne[i]>>
    ELSE TombScan(ne, i - 1, minLen)

(* tsdbBasedPlanner.plan (s non-empty; the code indexes s[len(s)-1])  *)
PlanBlocks(ranges, s) ==
    LET ne == NotExcluded(s)
        ov == SelectOverlapping(ne)
    IN  IF ov # <<>> THEN ov
        ELSE LET ne2 == IF ~s[Len(s)].nc THEN AllButLast(ne) ELSE ne
                 hm == SelectMetas(ranges, AllButLast(s))
             IN  IF hm # <<>> THEN hm
                 ELSE TombScan(ne2, Len(ne2), ranges[(Len(ranges) \div 2) + 1])

IdsOf(p) == [i \in DOMAIN p |-> p[i].id]
WithMarks(s, extra) == [i \in DOMAIN s |-> [s[i] EXCEPT !.nc = s[i].nc \/ s[i].id \in extra]]
WithMarksSet(B, extra) == { [b EXCEPT !.nc = b.nc \/ b.id \in extra] : b \in B }

(* largeTotalIndexSizeFilter.plan: plan; walk the plan summing index sizes; when the   *)
(* running total reaches thr (= int64(0.85 * limit)), mark the biggest block seen so   *)
(* far no-compact (in the bucket and in a copy of the mark map local to this call)     *)
(* and plan again.  thr = 0 stands for "no limit configured" in this model.            *)
(* Result: [plan |-> blocks, marks |-> ids marked in the bucket by this call].         *)
RECURSIVE HitIndex(_, _, _, _)
HitIndex(p, k, total, thr) ==
    IF k > Len(p) THEN 0
    ELSE IF total + p[k].isz >= thr THEN k ELSE HitIndex(p, k + 1, total + p[k].isz, thr)
RECURSIVE BiggestUpTo(_, _, _, _)
BiggestUpTo(p, k, hit, best) ==        \* first maximum of isz among p[1..hit]
    IF k > hit THEN best
    ELSE BiggestUpTo(p, k + 1, hit, IF p[best].isz < p[k].isz THEN k ELSE best)
RECURSIVE SizePlan(_, _, _, _, _)
SizePlan(ranges, s, extra, own, thr) ==
    LET p == PlanBlocks(ranges, WithMarks(s, extra \cup own))
        hit == IF thr = 0 THEN 0 ELSE HitIndex(p, 1, 0, thr)
    IN  IF hit = 0 THEN [plan |-> p, marks |-> own]
        ELSE SizePlan(ranges, s, extra, own \cup {p[BiggestUpTo(p, 1, hit, 1)].id}, thr)

(* verticalCompactionDownsampleFilter.Plan: while the plan overlaps and the group is   *)
(* downsampled (ds), mark every planned block no-compact and plan again.  The inner    *)
(* size filter adds the marks it makes to the outer planner's mark map (vmarks), so    *)
(* every later round excludes them too.  (Before the fix of C30 the inner marks of an  *)
(* earlier round lived only in the bucket and a later round could plan such a block:   *)
(* blocks [0,2) and 3 x [2,4), sizes 1, threshold 3, downsampled group.)               *)
RECURSIVE VPlan(_, _, _, _, _, _)
VPlan(ranges, s, vmarks, bucketMarks, thr, ds) ==
    LET r == SizePlan(ranges, s, vmarks, {}, thr)
        bm == bucketMarks \cup r.marks
    IN  IF SelectOverlapping(r.plan) = <<>> \/ ~ds THEN [plan |-> r.plan, marks |-> bm]
        ELSE LET ids == { r.plan[i].id : i \in DOMAIN r.plan } IN
             VPlan(ranges, s, vmarks \cup r.marks \cup ids, bm \cup ids, thr, ds)

(* kind: "tsdb" (NewPlanner), "size" (WithLargeTotalIndexSizeFilter), "vdown"          *)
(* (WithVerticalCompactionDownsampleFilter).  Result [plan, marks].                    *)
PlanAlgo(kind, ranges, s, thr, ds) ==
    IF kind = "tsdb" THEN [plan |-> PlanBlocks(ranges, s), marks |-> {}]
    ELSE IF kind = "size" THEN SizePlan(ranges, s, {}, {}, thr)
    ELSE VPlan(ranges, s, {}, {}, thr, ds)
=============================================================================
