------------------------------ MODULE C26Trace ------------------------------
(***************************************************************************)
(* Leg C for C26 (case trace).  One line per remote-write 2.0 request sent *)
(* to the real handler:                                                    *)
(*   req.symbols          the symbol table (strings)                       *)
(*   req.series[i]        lrefs, samples [[t,v]..], hists [[ints]..],      *)
(*                        exemplars [{lrefs, v, t}..]                      *)
(*   got.kind             "ingested" (2xx) | "rejected" | "panic"          *)
(*   got.status           HTTP status (0 for panic)                        *)
(*   got.series[i]        what the handler forwarded for ingestion:        *)
(*                        labels [[name,value]..], samples, hists,         *)
(*                        exemplars [{labels, v, t}..]                     *)
(*   got.written          the three ...-Written response headers (-1 =      *)
(*                        absent); compared with the model only (DRIFT)    *)
(* Timestamps are relative, values doubled (integers); a negative          *)
(* reference n stands for uint32(n).                                       *)
(***************************************************************************)
EXTENDS TraceLib, RWv2

Judge(e) == C26Violations(e.req, e.got)

(* model conformance (never a verdict) *)
Drift(e) == LET p == TranslateAlgo(e.req) IN
            ~(p.kind = e.got.kind /\ p.status = e.got.status /\ p.series = e.got.series /\ p.written = e.got.written)

VARIABLE l
TraceInit == l = 1
TraceNext == /\ l <= TraceLen
             /\ \A c \in Judge(Trace[l]) : CaseReject(l, Trace[l], {c})
             /\ (IF Drift(Trace[l]) THEN PrintT(<<"DRIFT", l, Trace[l]["case"]>>) ELSE TRUE)
             /\ l' = l + 1
TraceSpec == TraceInit /\ [][TraceNext]_l
TraceAccepted == TLCGet("stats").diameter = TraceLen + 1
=============================================================================
