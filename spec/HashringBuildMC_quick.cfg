\* C19 leg A quick: <= 4 endpoints (1 section each) and <= 3 endpoints with 2 sections each,
\* <= 4 zones, all layouts / ring orders / rf; cases: zone vectors up to 8 endpoints
SPECIFICATION Spec
CONSTANTS MaxN = 4
          MaxZones = 4
          SecChoices = {1, 2}
          MaxSecs = 6
          Rule = "fixed"
          CaseMaxN = 8
INVARIANT C19_NoIdleLap
INVARIANT C19_TypeOK
PROPERTY C19_Terminates
CHECK_DEADLOCK FALSE
