------------------------------ MODULE C49Trace ------------------------------
(***************************************************************************)
(* Leg C for C49.  Two kinds of trace lines, both recorded from the REAL   *)
(* MemcachedJumpHashSelector.  Servers are reported as their rank (1-based)*)
(* in the natural sort order of all servers of the case, 0 = an address    *)
(* that is not one of them.                                                *)
(*  in.kind = "place": one server list.                                    *)
(*     single[k]  PickServer(key k)                                        *)
(*     batch[k]   the server under which PickServerForKeys(all keys) lists *)
(*                key k                                                    *)
(*     perm[k]    PickServer(key k) of a selector given the same servers   *)
(*                in another order                                         *)
(*     lex[k]     ... given the same servers in lexicographic order        *)
(*  in.kind = "add": in.n servers, then one more whose rank among all is   *)
(*     in.pos.  before[k] / after[k] = PickServer(key k) before / after    *)
(*     SetServers with the added server; new = its rank (= in.pos).        *)
(*  ok = FALSE when SetServers or a pick returned an error: nothing is     *)
(*     judged (the statement says nothing about errors, DESIGN 2.2).       *)
(* Statement: "Each cache key is sent to the same memcached server whether *)
(* it is looked up alone or in a batch and regardless of the order servers *)
(* are listed in, and adding a server only moves keys onto the new server."*)
(***************************************************************************)
EXTENDS TraceLib, Hashring

(*  in.kind = "conc" (phase 2): one selector; a goroutine keeps calling SetServers with list A,  *)
(*     list B and a list that does not resolve (which must change nothing), while others call  *)
(*     PickServer, PickServerForKeys and Each.  Servers are ids 1..m over the union of A and B *)
(*     (0 = the "no servers" error).  pick_a / pick_b: the pick of every key under A / B       *)
(*     (computed beforehand, sequentially, by the real selector); picks = distinct observed    *)
(*     [k, s]; batches = distinct whole PickServerForKeys answers; eachs = distinct Each()     *)
(*     visiting orders; list_a / list_b = Each() order under A / B; crashes = recovered panics.*)
Judge(e) ==
    IF ~e.ok THEN {}
    ELSE IF e.in.kind = "place" THEN C49PlaceClauses(e.single, e.batch, e.perm) \cup C49PlaceClauses(e.single, e.batch, e.lex)
    ELSE IF e.in.kind = "conc" THEN C49ConcClauses(e.pick_a, e.pick_b, e.picks, e.batches, e.eachs, e.list_a, e.list_b, e.crashes)
    ELSE C49AddClauses(e.before, e.after, e.new)

VARIABLE l
TraceInit == l = 1
TraceNext == /\ l <= TraceLen
             /\ CaseReject(l, Trace[l], Judge(Trace[l]))
             /\ l' = l + 1
TraceSpec == TraceInit /\ [][TraceNext]_l
TraceAccepted == TLCGet("stats").diameter = TraceLen + 1
=============================================================================
