\* C30 leg A thorough, planners "size" (thresholds 3, 4) and "vdown" (raw / downsampled group, thresholds 0, 3, 4):
\* ranges 1/2/4 on the grid 0..4, <= 4 blocks with index size 1..2, no pre-existing marks
SPECIFICATION Spec
CONSTANTS Ranges <- R124
          LoNeg = 0
          Hi = 4
          MaxLen = 4
          MaxBlocks = 4
          MaxNC = 0
          MaxTomb = 0
          MaxFailed = 0
          TombVals = {0}
          Sizes = {1, 2}
          Modes <- ModesFiltersT
          CaseBlocks = 3
          CaseFlagBlocks = 2
INVARIANTS PlanSafe FixpointOK SortedInput
PROPERTIES Variant
VIEW View
CHECK_DEADLOCK FALSE
