\* C14 leg A thorough (inductive): object sizes 0..6, subrange sizes 1..4, max sub-requests 0..2
\* (0 = unlimited), max cacheable Get size 2 or 8; one read (any op, any offset/length) from EVERY
\* sound cache content, plus evictions
SPECIFICATION Spec
CONSTANTS Sizes = {0, 1, 2, 3, 4, 5, 6}
          SubSizes = {1, 2, 3, 4}
          MaxSubs = {0, 1, 2}
          MaxCacheables = {2, 8}
          MaxOps = 1
          Inductive = TRUE
          Procs = {}
          HistSizes = {0, 3}
          HistLen = 3
INVARIANTS CacheSound TransparentInv
PROPERTY TransparentStep
VIEW View
CHECK_DEADLOCK FALSE
