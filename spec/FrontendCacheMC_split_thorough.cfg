\* C42 leg A thorough (2): several intervals (grid 0..8, split intervals 4 and 6), steps {1,2,4},
\* worlds 2,3,5, every history of at most 3 queries (+ cache losses)
SPECIFICATION Spec
CONSTANTS T = 8
          StepSet = {1, 2, 4}
          Common = {1, 2, 4}
          Ivs = {4, 6}
          MinExt = 100
          WorldIds = {2, 3, 5}
          GridFix = TRUE
          Unaligned = FALSE
          MaxHist = 3
          HistLen = 2
          CaseWorlds = {2, 5}
INVARIANTS RespIsDirect C42_ExtentsHoldDirectData C42_ExtentsOrdered
PROPERTIES C42_ResponsesAreDirect
VIEW View
CHECK_DEADLOCK FALSE
