\* C22 leg A thorough (1): one series rf 1..4 with all six outcomes and a local replica (rf 5: see _rf5.cfg), two series rf 2 on 3 nodes, 4 outcomes, timeout at any moment.
\* cases: one series rf 1..5 (all multisets x arrangements = 4^rf runs), replicated, two series rf 2 on 3 nodes
\* (every assignment x every order)
SPECIFICATION Spec
CONSTANTS RF1 = {1, 2, 3, 4}
          RF2 = {2}
          N2 = 3
          Outcomes = {"ok", "conflict", "unavailable", "other", "noconn", "notready"}
          Outcomes2 = {"ok", "conflict", "unavailable", "other", "noconn"}
          ReplThresholdIsQuorum = FALSE
          StaleMapReused = FALSE
          WithTimeout = TRUE
          CaseRF1 = {1, 2, 3, 4, 5}
          CaseRFLocal = {1, 2, 3, 4}
          CaseRF2 = {2}
          CaseOutcomes = {"ok", "conflict", "unavailable", "other", "noconn"}
INVARIANTS C22Inv C23Inv OrderIndependent EarlyOnlyWhenDetermined
PROPERTIES Terminates
CHECK_DEADLOCK FALSE
