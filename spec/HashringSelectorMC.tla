-------------------------- MODULE HashringSelectorMC --------------------------
(***************************************************************************)
(* Leg A for C49, phase 2: MemcachedJumpHashSelector under concurrent      *)
(* SetServers (DNS refresh) and lookups                                    *)
(* (pkg/cacheutil/memcached_server_selector.go).                           *)
(*   Setter   SetServers(list): sort + resolve OUTSIDE the lock (a list    *)
(*            with an unresolvable name fails here and changes nothing),   *)
(*            then Lock; addrs = new; Unlock                               *)
(*   Reader   PickServer(key): RLock; n = len(addrs); n = 0 -> error;      *)
(*            n = 1 -> addrs[0]; else addrs[jumpHash(key, n)]; RUnlock     *)
(*            -- modelled in two steps (read the length, then index) that  *)
(*            are one critical section when Locked = TRUE (the code) and   *)
(*            two when Locked = FALSE (variant, must fail, run by hand     *)
(*            with HashringSelectorMC_nolock_mustfail.cfg)                 *)
(*   Each     visits the servers of one list (same protocol)               *)
(* Lists are sorted sequences of server ranks; jump hash on 8-bit words.   *)
(***************************************************************************)
EXTENDS Hashring, TLC, Json, IOUtils, SequencesExt
CONSTANTS Locked, MaxServers, Readers, MaxSets, Keys

W == 8
S == 4
A == 253
Lists == { [k \in 1..n |-> k + off] : n \in 0..MaxServers, off \in 0..1 }     \* <<>>, <<1>>, <<2>>, <<1,2>>, <<2,3>>, ...

VARIABLES addrs, staged, spc, nsets,        \* selector, setter
          rpc, rkey, rlen, rlist, rans,     \* readers
          lock                              \* 0 free, -1 writer, n > 0 readers
vars == <<addrs, staged, spc, nsets, rpc, rkey, rlen, rlist, rans, lock>>

Init == /\ addrs \in Lists /\ staged = <<>> /\ spc = "idle" /\ nsets = 0
        /\ rpc = [r \in Readers |-> "idle"] /\ rkey = [r \in Readers |-> 0]
        /\ rlen = [r \in Readers |-> 0] /\ rlist = [r \in Readers |-> <<>>] /\ rans = [r \in Readers |-> -1]
        /\ lock = 0

(* SetServers: prepare (may fail: no change), then swap under the write lock *)
Prepare == /\ spc = "idle" /\ nsets < MaxSets
           /\ nsets' = nsets + 1
           /\ \/ \E l \in Lists : staged' = l /\ spc' = "swap"
              \/ UNCHANGED <<staged, spc>>                       \* resolve error: `return err`
           /\ UNCHANGED <<addrs, rpc, rkey, rlen, rlist, rans, lock>>
Swap == /\ spc = "swap" /\ (Locked => lock = 0)
        /\ addrs' = staged /\ spc' = "idle"
        /\ UNCHANGED <<staged, nsets, rpc, rkey, rlen, rlist, rans, lock>>

(* PickServer, step 1: (RLock) read the length *)
ReadLen(r) == /\ rpc[r] = "idle" /\ (Locked => spc # "swap")      \* sync.RWMutex: a pending Lock() blocks new readers
              /\ \E k \in Keys : rkey' = [rkey EXCEPT ![r] = k]
              /\ rlen' = [rlen EXCEPT ![r] = Len(addrs)]
              /\ rlist' = [rlist EXCEPT ![r] = addrs]            \* history: the list in force at this moment
              /\ lock' = IF Locked THEN lock + 1 ELSE lock
              /\ rpc' = [rpc EXCEPT ![r] = "index"]
              /\ UNCHANGED <<addrs, staged, spc, nsets, rans>>
(* step 2: index the CURRENT slice with the bucket computed from the length read; (RUnlock) *)
Index(r) == /\ rpc[r] = "index"
            /\ LET n == rlen[r]
                   b == IF n = 0 THEN 0 ELSE IF n = 1 THEN 1 ELSE JumpHashModel(rkey[r], n, W, S, A) + 1
               IN rans' = [rans EXCEPT ![r] = IF n = 0 THEN 0                      \* ErrNoServers
                                               ELSE IF b > Len(addrs) THEN -2      \* index out of range: crash
                                               ELSE addrs[b]]
            /\ lock' = IF Locked THEN lock - 1 ELSE lock
            /\ rpc' = [rpc EXCEPT ![r] = "done"]
            /\ UNCHANGED <<addrs, staged, spc, nsets, rkey, rlen, rlist>>
Again(r) == /\ rpc[r] = "done" /\ rpc' = [rpc EXCEPT ![r] = "idle"]
            /\ UNCHANGED <<addrs, staged, spc, nsets, rkey, rlen, rlist, rans, lock>>

Next == Prepare \/ Swap \/ \E r \in Readers : ReadLen(r) \/ Index(r) \/ Again(r)
Spec == Init /\ [][Next]_vars /\ WF_vars(Swap) /\ \A r \in Readers : WF_vars(Index(r))

PickOf(l, k) == IF Len(l) = 0 THEN 0 ELSE PickModel(l, k, W, S, A)
(* C49 (phase 2): a finished lookup was answered from ONE list that was in force during it *)
C49_OldOrNew == \A r \in Readers : rpc[r] = "done" => rans[r] = PickOf(rlist[r], rkey[r])
C49_NoCrash == \A r \in Readers : rans[r] # -2
C49_LockSane == lock >= 0 /\ lock <= Cardinality(Readers)
C49_SetTakesEffect == [](spc = "swap" => <>(spc = "idle"))

(* Leg B: pairs of server lists for the concurrent scenarios: sizes and overlap *)
Pairs == { [na |-> x, nb |-> y, shared |-> z] : x \in 0..4, y \in 0..4, z \in 0..4 }
PairSel == { c \in Pairs : c.shared <= c.na /\ c.shared <= c.nb /\ (c.na # c.nb \/ c.shared < c.na) }
CasesFile == IF "VERIF_CASES" \in DOMAIN IOEnv THEN IOEnv.VERIF_CASES ELSE "cases.ndjson"
ASSUME ndJsonSerialize(CasesFile, SetToSeq(PairSel))
=============================================================================
