---------------------------- MODULE PoolsBudgetMC ----------------------------
(***************************************************************************)
(* Leg A of C17 (b): BucketedPool.Get / Put accounting for every sequence  *)
(* of operations within small bounds.  Users do not grow the slices they   *)
(* got (the pool's documented expectation).                                *)
(***************************************************************************)
EXTENDS Pools, TLC, Json, IOUtils, SequencesExt
CONSTANTS Sizes,      \* bucket sizes, ascending, as a set
          Maxes,      \* budgets tried (0 = unlimited)
          ReqSizes,   \* sizes asked for
          MaxOut,     \* at most that many buffers outstanding
          MaxOps,     \* operations per run
          CaseLen     \* length of the operation sequences handed to the harness

SizeSeq == SetToSeq(Sizes)   \* TLC enumerates integer sets in ascending order
SortedSizes == CHOOSE s \in { t \in [1..Cardinality(Sizes) -> Sizes] : \A i \in 1..(Cardinality(Sizes) - 1) : t[i] < t[i + 1] } : TRUE

VARIABLES max, used, outs, nops, steps
vars == <<max, used, outs, nops, steps>>

Init == max \in Maxes /\ used = 0 /\ outs = <<>> /\ nops = 0 /\ steps = <<>>

Get(sz) ==
    /\ nops < MaxOps /\ Len(outs) < MaxOut
    /\ LET r == AlgoGet(SortedSizes, max, used, sz) IN
         /\ used' = r.used
         /\ outs' = IF r.ok THEN Append(outs, r.cap) ELSE outs
         /\ steps' = Append(steps, [op |-> "get", sz |-> sz, ok |-> r.ok, cap |-> r.cap, used |-> r.used])
    /\ nops' = nops + 1 /\ UNCHANGED max
Put(i) ==
    /\ nops < MaxOps /\ i \in DOMAIN outs
    /\ used' = AlgoPut(used, outs[i])
    /\ outs' = [k \in 1..(Len(outs) - 1) |-> IF k < i THEN outs[k] ELSE outs[k + 1]]
    /\ steps' = Append(steps, [op |-> "put", sz |-> 0, ok |-> TRUE, cap |-> outs[i], used |-> used'])
    /\ nops' = nops + 1 /\ UNCHANGED max
Stop == nops = MaxOps /\ UNCHANGED vars
Next == (\E sz \in ReqSizes : Get(sz)) \/ (\E i \in 1..MaxOut : Put(i)) \/ Stop
Spec == Init /\ [][Next]_vars

SumOuts == LET f[n \in 0..Len(outs)] == IF n = 0 THEN 0 ELSE f[n - 1] + outs[n] IN f[Len(outs)]
(* C17 (b), directly and through the clauses the trace spec uses *)
C17_WithinMaximum == max > 0 => SumOuts <= max
C17_ZeroWhenAllReturned == outs = <<>> => used = 0
C17_AccountingExact == used = SumOuts
C17_BudgetClausesHold == BudgetClauses(max, steps) = {}
View == <<max, used, outs, nops>>

(* leg B: operation sequences; "put" names the position of the outstanding buffer to return  *)
(* (taken modulo the number outstanding; skipped when none is)                                  *)
CasesFile == IF "VERIF_CASES" \in DOMAIN IOEnv THEN IOEnv.VERIF_CASES ELSE "cases.ndjson"
OpU == { [op |-> "get", n |-> sz] : sz \in ReqSizes } \cup { [op |-> "put", n |-> i] : i \in 1..2 }
CaseSeq == SetToSeq({ [kind |-> "budget", sizes |-> SortedSizes, max |-> m, ops |-> o] : m \in Maxes, o \in [1..CaseLen -> OpU] })
ASSUME ndJsonSerialize(CasesFile, CaseSeq)
=============================================================================
