------------------------------ MODULE C31Trace ------------------------------
(***************************************************************************)
(* Leg C for C31 (case trace).  One line per block set:                    *)
(*   in.blocks[i] = [src = list of source numbers, grp = group number];    *)
(*       the position i is the block's id and its rank in ULID order       *)
(*   outs = the DISTINCT outcomes [kept, dups] observed when the real      *)
(*       DefaultDeduplicateFilter was run on that set several times for    *)
(*       every concurrency level (every run uses a fresh Go map, whose     *)
(*       iteration order - the "listing order" - is random); kept = ids    *)
(*       left in the metas map, dups = DuplicateIDs()                      *)
(*   runs = number of runs                                                 *)
(*   eff[i] = the compaction group block i effectively belongs to: its     *)
(*       case group, or 1 for every block when the groups differ only in   *)
(*       the replica label and the real ReplicaLabelRemover runs before    *)
(*       the duplicate filter (the compactor's chain, phase 2)             *)
(*   mutated = the filter chain modified the metas it was given in place   *)
(*       or left the replica label in its output (informational)           *)
(* Judged with the property-level operators C31_* of BlockLifecycle.       *)
(***************************************************************************)
EXTENDS TraceLib, BlockLifecycle

AllOf(e) == { [id |-> i, src |-> Range(e.in.blocks[i].src), grp |-> e.eff[i]] : i \in DOMAIN e.in.blocks }

(* hidden-only-if-covered: "hides a block only if another block kept in the same compaction     *)
(*    group was built from all of the hidden block's sources" (a block is hidden when it is not *)
(*    left in the metas, and also when it is reported by DuplicateIDs(), which the compactor's  *)
(*    garbage collection deletes)                                                               *)
(* kept-cover-every-source: "the kept blocks together still cover every source"                 *)
(* outcome-independent: "the outcome does not depend on listing order or filter concurrency"    *)
OutClauses(all, o) ==
    LET kept == Range(o.kept)  dups == Range(o.dups) IN
    (IF C31_HiddenUncovered(all, kept) = {} /\ C31_HiddenUncovered(all, { b.id : b \in all } \ dups) = {}
        /\ kept \subseteq { b.id : b \in all }
       THEN {} ELSE {"hidden-only-if-covered"})
    \cup (IF C31_SourcesLost(all, kept) = {} THEN {} ELSE {"kept-cover-every-source"})
Judge(e) ==
    LET all == AllOf(e) IN
    UNION { OutClauses(all, e.outs[k]) : k \in DOMAIN e.outs }
    \cup (IF Len(e.outs) = 1 THEN {} ELSE {"outcome-independent"})

Drift(e) == e.mutated \/ \E k \in DOMAIN e.outs : Range(e.outs[k].kept) # AlgoDedupKeptIds(AllOf(e))

VARIABLE l
TraceInit == l = 1
TraceNext == /\ l <= TraceLen
             /\ CaseReject(l, Trace[l], Judge(Trace[l]))
             /\ (IF Drift(Trace[l]) THEN PrintT(<<"DRIFT", l, Trace[l]["case"]>>) ELSE TRUE)
             /\ l' = l + 1
TraceSpec == TraceInit /\ [][TraceNext]_l
TraceAccepted == TLCGet("stats").diameter = TraceLen + 1
=============================================================================
