---------------------------- MODULE HashringAddMC ----------------------------
(***************************************************************************)
(* Leg A for C20 "adding a node to a ketama ring only moves series onto    *)
(* the new node" (no availability zones).                                  *)
(*                                                                         *)
(* The machine first lays out the ring AFTER the addition section by       *)
(* section (phase "place": every order of the sections of n endpoints, s   *)
(* sections each; endpoint n is the new one; the old endpoints are named   *)
(* in order of first appearance, which loses nothing), then picks rf and   *)
(* the section a series hashes to (phase "walk"), and walks the successor  *)
(* search of ketama GetN / calculateSectionReplicas on both rings in lock  *)
(* step, one loop iteration per step.  The ring BEFORE the addition is the *)
(* new ring without the new endpoint's sections; the series then starts at *)
(* the next old section.                                                   *)
(***************************************************************************)
EXTENDS Hashring, TLC, Json, IOUtils, SequencesExt
CONSTANTS MaxN, SecChoices, MaxSecs, MaxRF, CaseMaxN

VARIABLES phase, n, s, nring, rf, startN, posN, repsN, posO, repsO
vars == <<phase, n, s, nring, rf, startN, posN, repsN, posO, repsO>>

New == n
Count(r, k) == Cardinality({ p \in DOMAIN r : r[p] = k })
ORing == SelectSeq(nring, LAMBDA x : x # New)                 \* the ring before the addition
(* old-ring position of the first old section at or after new-ring position p (cyclically) *)
OldStart(p) == LET before == Cardinality({ q \in 1..(p - 1) : nring[q] # New })
               IN IF before + 1 > Len(ORing) THEN 1 ELSE before + 1

Init == /\ phase = "place" /\ nring = <<>> /\ rf = 0
        /\ n \in 2..MaxN /\ s \in SecChoices /\ n * s <= MaxSecs
        /\ startN = 0 /\ posN = 0 /\ repsN = <<>> /\ posO = 0 /\ repsO = <<>>

Place == /\ phase = "place" /\ Len(nring) < n * s
         /\ \E k \in 1..n :
              /\ Count(nring, k) < s
              /\ (k < New /\ k > 1 => Count(nring, k - 1) > 0)   \* old endpoints in first-appearance order
              /\ nring' = Append(nring, k)
         /\ UNCHANGED <<phase, n, s, rf, startN, posN, repsN, posO, repsO>>

Choose == /\ phase = "place" /\ Len(nring) = n * s
          /\ \E r \in 1..MaxRF, p \in 1..(n * s) :
               /\ r <= n - 1                                      \* the old ring must have rf endpoints
               /\ rf' = r /\ startN' = p /\ posN' = p /\ posO' = OldStart(p)
          /\ phase' = "walk"
          /\ UNCHANGED <<n, s, nring, repsN, repsO>>

RunN == Len(repsN) < rf
RunO == Len(repsO) < rf
Walk == /\ phase = "walk" /\ (RunN \/ RunO)
        /\ IF RunN THEN /\ repsN' = IF nring[posN] \in HSeqRange(repsN) THEN repsN ELSE Append(repsN, nring[posN])
                        /\ posN' = (posN % Len(nring)) + 1
                   ELSE UNCHANGED <<repsN, posN>>
        /\ IF RunO THEN /\ repsO' = IF ORing[posO] \in HSeqRange(repsO) THEN repsO ELSE Append(repsO, ORing[posO])
                        /\ posO' = (posO % Len(ORing)) + 1
                   ELSE UNCHANGED <<repsO, posO>>
        /\ UNCHANGED <<phase, n, s, nring, rf, startN>>

Next == Place \/ Choose \/ Walk
Spec == Init /\ [][Next]_vars /\ WF_vars(Next)

Done == phase = "walk" /\ ~RunN /\ ~RunO
(* C20 as stated *)
C20_OnlyOntoNew == Done => C20Clauses(repsO, repsN, New) = {}
(* why it holds: the new walk meets the old endpoints in the same order as the old walk *)
C20_SameOrder == Done => IsPrefix(SelectSeq(repsN, LAMBDA x : x # New), repsO)
(* the lock-step walk computes what the functional form (no zones) computes *)
NoAz(m) == [k \in 1..m |-> ""]
C20_Function == Done => /\ repsN = SectionReplicas(nring, NoAz(n), rf, startN)
                        /\ repsO = SectionReplicas(ORing, NoAz(n), rf, OldStart(startN))
C20_Terminates == <>Done

(* Leg B: ring sizes x rf x address style / position of the new name *)
Cases == { [n |-> m, rf |-> r, style |-> st] : m \in 1..CaseMaxN, r \in 1..5, st \in 0..3 }
CaseSel == { c \in Cases : c.rf <= c.n }
CasesFile == IF "VERIF_CASES" \in DOMAIN IOEnv THEN IOEnv.VERIF_CASES ELSE "cases.ndjson"
ASSUME ndJsonSerialize(CasesFile, SetToSeq(CaseSel))
=============================================================================
