\* C07/C08 leg A thorough (labels): stored names {a,b} x value {x}, <=2 series; external labels over
\* {a,r} x {x,e}; replica lists over {a,r}; <=2 matchers over {a,b,r} of all four types incl. set
\* regexes with an empty alternative (x|), .* and .+; one slot, one range; one block.  ~1.4M states.
SPECIFICATION Spec
CONSTANTS SNames = {"a", "b"}
          SVals = {"x"}
          ENames = {"a", "r"}
          EVals = {"x", "e"}
          RNames = {"a", "r"}
          MNames = {"a", "b", "r"}
          MVals = {"x"}
          AltSeqs <- MC_AltOne
          MaxSeries = 2
          MaxMatchers = 2
          SlotSets = {{0}}
          Ranges <- MC_OneRange
          TwoBlocks = FALSE
          W = 7200000
          KindSet = {"tsdb", "bucket", "proxy"}
          PromOpts <- MC_PromOptsFew
          TLabel = "r"
          TenantIds = {"x", "e"}
INVARIANTS C08_ExtLabelsOverride C08_ContradictionEmpty C08_AllContradictedNothing C08_PresentRefines
           C07_Covered C07_ReplicaLabelsDropped
CHECK_DEADLOCK FALSE
