--------------------------- MODULE BlockSetLemmaMC ---------------------------
(***************************************************************************)
(* Leg A for C15, second part (thorough tier): the closed forms that the   *)
(* property-level operators of BlockSet use on millisecond timestamps      *)
(* (Overlaps; coverage holes looked for at candidate instants only) are    *)
(* exact.  Checked for every layout of <= 2 blocks on the grid, EVERY      *)
(* subset as selection (not only what getFor returns) and every query,     *)
(* against the definition over all instants.  A pure ASSUME: no behaviour. *)
(***************************************************************************)
EXTENDS BlockSet, TLC, SequencesExt
CONSTANTS Grid

ResSet == { Resolutions[i] : i \in 1..3 }
Types == { [res |-> r, min |-> a, max |-> b] : r \in ResSet, a \in 0..Grid, b \in 0..Grid }
TypeSeq == SetToSeq({ ty \in Types : ty.min < ty.max })
T == Len(TypeSeq)
RECURSIVE NonDec(_, _)
NonDec(n, lo) == IF n = 0 THEN {<<>>}
                 ELSE UNION { { <<ty>> \o s : s \in NonDec(n - 1, ty) } : ty \in lo..T }
Layout(s) == { [id |-> k, res |-> TypeSeq[s[k]].res, min |-> TypeSeq[s[k]].min, max |-> TypeSeq[s[k]].max] : k \in DOMAIN s }
LayoutsUpTo(n) == UNION { { Layout(s) : s \in NonDec(m, 1) } : m \in 0..n }
Queries == { [mint |-> m, maxt |-> n, maxres |-> r] : m \in 0..Grid, n \in 0..Grid, r \in ResSet }

Instants == (0 - 1)..(Grid + 1)
ReductionSound ==
    \A bl \in LayoutsUpTo(2) : \A sb \in SUBSET bl : \A qq \in Queries :
        /\ CoverageHole(bl, sb, qq) <=> \E t \in Instants : UncoveredAt(bl, sb, qq, t)
        /\ \A b \in bl : Overlaps(b, qq) <=> \E t \in Instants : (qq.mint <= t /\ t <= qq.maxt /\ Covers(b, t))
ASSUME ReductionSound

VARIABLE x
Init == x = 0
Next == UNCHANGED x
Spec == Init /\ [][Next]_x
=============================================================================
