\* C42 leg A thorough (3): min-extent filter active (extents shorter than 1 tick = zero-length extents are
\* ignored by longer requests), steps {1,2,4} of which only {1,2} are "common"; grid 0..8, interval 4,
\* histories of at most 3 queries
SPECIFICATION Spec
CONSTANTS T = 8
          StepSet = {1, 2, 4}
          Common = {1, 2}
          Ivs = {4}
          MinExt = 1
          WorldIds = {2, 5}
          GridFix = TRUE
          Unaligned = FALSE
          MaxHist = 3
          HistLen = 2
          CaseWorlds = {2}
INVARIANTS RespIsDirect C42_ExtentsHoldDirectData C42_ExtentsOrdered
PROPERTIES C42_ResponsesAreDirect
VIEW View
CHECK_DEADLOCK FALSE
