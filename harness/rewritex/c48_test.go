package rewritex

import (
	"context"
	"fmt"
	"io"
	"math/rand"
	"os"
	"path/filepath"
	"sort"
	"strings"
	"testing"

	"github.com/go-kit/log"
	"github.com/oklog/ulid/v2"
	"github.com/prometheus/common/model"
	"github.com/prometheus/prometheus/model/labels"
	"github.com/prometheus/prometheus/model/relabel"
	"github.com/prometheus/prometheus/storage"
	"github.com/prometheus/prometheus/tsdb"
	"github.com/prometheus/prometheus/tsdb/chunkenc"
	"github.com/prometheus/prometheus/tsdb/chunks"
	"github.com/prometheus/prometheus/tsdb/index"
	"github.com/prometheus/prometheus/tsdb/tombstones"

	"github.com/thanos-io/thanos/pkg/block"
	"github.com/thanos-io/thanos/pkg/block/metadata"
	"github.com/thanos-io/thanos/pkg/compactv2"
	"github.com/thanos-io/thanos/pkg/logutil"

	"verif/harness/vt"
)

type sample struct {
	t int64
	v float64
}
type cseries struct {
	lset   labels.Labels
	chunks [][]sample
}

// relabelConfigs: the relabel modifier placed before the deletion modifier (phase 2).
func relabelConfigs(kind string) []*relabel.Config {
	mk := func(a relabel.Action, src, re, target, repl string) *relabel.Config {
		c := &relabel.Config{Action: a, Regex: relabel.MustNewRegexp(re), TargetLabel: target, Replacement: repl, NameValidationScheme: model.UTF8Validation}
		if src != "" {
			c.SourceLabels = model.LabelNames{model.LabelName(src)}
		}
		return c
	}
	switch kind {
	case "dropb":
		return []*relabel.Config{mk(relabel.LabelDrop, "", "b", "", "")}
	case "mapa":
		return []*relabel.Config{mk(relabel.Replace, "a", "1|2", "a", "0")}
	case "dropa2":
		return []*relabel.Config{mk(relabel.Drop, "a", "2", "", "")}
	case "dropenv":
		return []*relabel.Config{mk(relabel.LabelDrop, "", "env", "", "")}
	case "mapjob":
		return []*relabel.Config{mk(relabel.Replace, "job", "api|db", "job", "svc")}
	case "dropdev":
		return []*relabel.Config{mk(relabel.Drop, "env", "dev", "", "")}
	}
	return nil
}

const caseLabel = "zcase" // sorts after every generated label name

// concrete is one abstract input made concrete: series and requests carry a case label/matcher so that
// several inputs can share one block and one rewrite.
type concrete struct {
	in     vt.Case
	key    string
	series []cseries
	reqs   []metadata.DeletionRequest
	jser   []any // series as recorded in the trace
	jreq   []any // requests as recorded in the trace
}

func matcherOf(name, typ string, alts []string) *labels.Matcher {
	mt := map[string]labels.MatchType{"EQ": labels.MatchEqual, "NEQ": labels.MatchNotEqual, "RE": labels.MatchRegexp, "NRE": labels.MatchNotRegexp}[typ]
	val := alts[0]
	if typ == "RE" || typ == "NRE" {
		val = strings.Join(alts, "|")
	}
	return labels.MustNewMatcher(mt, name, val)
}

// concretise turns an abstract case (grid times; TLC's or random) into real series and requests.
// scale 1 keeps the grid as is (so adjacent abstract intervals stay adjacent); otherwise grid point t
// becomes 60000 + t*scale ms and interval ends are widened by a seeded amount below scale/2, which
// keeps exactly the same grid points inside.
func concretise(c vt.Case, key string) *concrete {
	scale := vt.Int64(c["scale"])
	r := rand.New(rand.NewSource(vt.Int64(c["cseed"])))
	T := func(t int64) int64 {
		if scale == 1 {
			return t
		}
		return 60000 + t*scale
	}
	out := &concrete{in: c, key: key}
	for i, x := range vt.List(c["series"]) {
		s := vt.Map(x)
		b := labels.NewBuilder(labels.EmptyLabels())
		jl := []any{}
		for _, l := range vt.List(s["labels"]) {
			m := vt.Map(l)
			b.Set(vt.Str(m["n"]), vt.Str(m["v"]))
		}
		b.Set(caseLabel, key)
		cs := cseries{lset: b.Labels()}
		cs.lset.Range(func(l labels.Label) { jl = append(jl, map[string]any{"n": l.Name, "v": l.Value}) })
		jch := []any{}
		for _, ch := range vt.List(s["chunks"]) {
			var smp []sample
			js := []any{}
			for _, t := range vt.List(ch) {
				ts := T(vt.Int64(t))
				v := float64(1000*(i+1)) + float64(vt.Int64(t)%1000)
				smp = append(smp, sample{ts, v})
				js = append(js, map[string]any{"t": ts, "v": int64(v)})
			}
			cs.chunks = append(cs.chunks, smp)
			jch = append(jch, js)
		}
		out.series = append(out.series, cs)
		// what relabelling gives this series: Prometheus' relabel.Process is the (trusted) oracle
		jt := []any{}
		to := cs.lset
		if rc := relabelConfigs(vt.Str(c["relabel"])); rc != nil {
			to, _ = relabel.Process(cs.lset.Copy(), rc...)
		}
		to.Range(func(l labels.Label) { jt = append(jt, map[string]any{"n": l.Name, "v": l.Value}) })
		out.jser = append(out.jser, map[string]any{"labels": jl, "chunks": jch, "to": jt})
	}
	for _, x := range vt.List(c["reqs"]) {
		q := vt.Map(x)
		// the case matcher goes first (order is irrelevant to the semantics; it lets the judge discard
		// other inputs' requests after one matcher)
		req := metadata.DeletionRequest{Matchers: metadata.Matchers{labels.MustNewMatcher(labels.MatchEqual, caseLabel, key)}}
		jm := []any{map[string]any{"name": caseLabel, "type": "EQ", "alts": []string{key}}}
		for _, y := range vt.List(q["matchers"]) {
			m := vt.Map(y)
			req.Matchers = append(req.Matchers, matcherOf(vt.Str(m["name"]), vt.Str(m["type"]), vt.Strs(m["alts"])))
			jm = append(jm, map[string]any{"name": vt.Str(m["name"]), "type": vt.Str(m["type"]), "alts": vt.Strs(m["alts"])})
		}
		ji := []any{}
		for _, y := range vt.List(q["ivs"]) {
			iv := vt.Map(y)
			lo, hi := T(vt.Int64(iv["lo"])), T(vt.Int64(iv["hi"]))
			if scale > 1 {
				lo -= r.Int63n(scale / 2)
				hi += r.Int63n(scale / 2)
			}
			req.Intervals = append(req.Intervals, tombstones.Interval{Mint: lo, Maxt: hi})
			ji = append(ji, map[string]any{"lo": lo, "hi": hi})
		}
		out.reqs = append(out.reqs, req)
		out.jreq = append(out.jreq, map[string]any{"matchers": jm, "ivs": ji})
	}
	if out.jser == nil {
		out.jser = []any{}
	}
	if out.jreq == nil {
		out.jreq = []any{}
	}
	return out
}

func createBlock(bDir string, in []cseries) error {
	d, err := block.NewDiskWriter(context.Background(), log.NewNopLogger(), bDir)
	if err != nil {
		return err
	}
	sort.Slice(in, func(i, j int) bool { return labels.Compare(in[i].lset, in[j].lset) < 0 })
	syms := map[string]struct{}{}
	for _, s := range in {
		s.lset.Range(func(l labels.Label) { syms[l.Name] = struct{}{}; syms[l.Value] = struct{}{} })
	}
	ss := make([]string, 0, len(syms))
	for s := range syms {
		ss = append(ss, s)
	}
	sort.Strings(ss)
	for _, s := range ss {
		if err := d.AddSymbol(s); err != nil {
			return err
		}
	}
	var ref storage.SeriesRef
	for _, s := range in {
		var chks []chunks.Meta
		for _, chk := range s.chunks {
			x := chunkenc.NewXORChunk()
			a, err := x.Appender()
			if err != nil {
				return err
			}
			for _, sa := range chk {
				a.Append(sa.t, sa.v)
			}
			chks = append(chks, chunks.Meta{Chunk: x, MinTime: chk[0].t, MaxTime: chk[len(chk)-1].t})
		}
		if err := d.WriteChunks(chks...); err != nil {
			return err
		}
		if err := d.AddSeries(ref, s.lset, chks...); err != nil {
			return err
		}
		ref++
	}
	_, err = d.Flush()
	return err
}

// readBlock returns the series of a block grouped by the value of the case label.
func readBlock(bDir string) (map[string][]any, error) {
	out := map[string][]any{}
	indexr, err := index.NewFileReader(filepath.Join(bDir, block.IndexFilename), index.DecodePostingsRaw)
	if err != nil {
		return nil, err
	}
	defer indexr.Close()
	chunkr, err := chunks.NewDirReader(filepath.Join(bDir, block.ChunksDirname), nil)
	if err != nil {
		return nil, err
	}
	defer chunkr.Close()
	k, v := index.AllPostingsKey()
	all, err := indexr.Postings(context.Background(), k, v)
	if err != nil {
		return nil, err
	}
	all = indexr.SortedPostings(all)
	var builder labels.ScratchBuilder
	var chks []chunks.Meta
	for all.Next() {
		if err := indexr.Series(all.At(), &builder, &chks); err != nil {
			return nil, err
		}
		lset := builder.Labels()
		jl := []any{}
		lset.Range(func(l labels.Label) { jl = append(jl, map[string]any{"n": l.Name, "v": l.Value}) })
		jch := []any{}
		for _, c := range chks {
			ch, _, err := chunkr.ChunkOrIterable(c)
			if err != nil {
				return nil, err
			}
			js := []any{}
			it := ch.Iterator(nil)
			for it.Next() != chunkenc.ValNone {
				t, v := it.At()
				js = append(js, map[string]any{"t": t, "v": int64(v)})
			}
			if err := it.Err(); err != nil {
				return nil, err
			}
			jch = append(jch, js)
		}
		key := lset.Get(caseLabel)
		out[key] = append(out[key], map[string]any{"labels": jl, "chunks": jch})
	}
	return out, all.Err()
}

// changes records the ChangeLogger calls of one rewrite.
type changes struct{ del []any }

func (c *changes) DeleteSeries(l labels.Labels, ivs tombstones.Intervals) {
	jl, ji := []any{}, []any{}
	l.Range(func(x labels.Label) { jl = append(jl, map[string]any{"n": x.Name, "v": x.Value}) })
	for _, iv := range ivs {
		ji = append(ji, map[string]any{"lo": iv.Mint, "hi": iv.Maxt})
	}
	c.del = append(c.del, map[string]any{"labels": jl, "ivs": ji})
}
func (c *changes) ModifySeries(labels.Labels, labels.Labels) {}

// rewrite runs the real compactv2 rewrite with the deletion modifier over one block holding the
// series of all the given cases and returns, per case key, the series of the rewritten block.
func rewrite(dir string, cs []*concrete, relabelKind string, withDry bool) (res map[string][]any, clog []any, dry map[string]any, err error) {
	dry = map[string]any{"ran": false, "log": []any{}, "wrote": false}
	clog = []any{}
	defer func() {
		if r := recover(); r != nil {
			err = fmt.Errorf("panic: %v", r)
		}
	}()
	logger := log.NewNopLogger()
	var all []cseries
	var reqs []metadata.DeletionRequest
	for _, c := range cs {
		all = append(all, c.series...)
		reqs = append(reqs, c.reqs...)
	}
	res = map[string][]any{}
	if len(all) == 0 {
		return res, clog, dry, nil
	}
	inID, outID := ulid.MustNew(1, nil), ulid.MustNew(2, nil)
	inDir, outDir := filepath.Join(dir, inID.String()), filepath.Join(dir, outID.String())
	if err := os.MkdirAll(inDir, 0o755); err != nil {
		return nil, clog, dry, err
	}
	if err := createBlock(inDir, all); err != nil {
		return nil, clog, dry, fmt.Errorf("harness: create block: %w", err)
	}
	if err := (metadata.Meta{BlockMeta: tsdb.BlockMeta{Version: 1, ULID: inID}}).WriteToDir(logger, inDir); err != nil {
		return nil, clog, dry, err
	}
	pool := chunkenc.NewPool()
	b, err := tsdb.OpenBlock(logutil.GoKitLogToSlog(logger), inDir, pool, nil)
	if err != nil {
		return nil, clog, dry, fmt.Errorf("harness: open block: %w", err)
	}
	defer b.Close()
	// as `thanos tools bucket rewrite` does: relabel modifier first, deletion modifier second
	var mods []compactv2.Modifier
	if rc := relabelConfigs(relabelKind); rc != nil {
		mods = append(mods, compactv2.WithRelabelModifier(rc...))
	}
	mods = append(mods, compactv2.WithDeletionModifier(reqs...))
	d, err := block.NewDiskWriter(context.Background(), logger, outDir)
	if err != nil {
		return nil, clog, dry, err
	}
	ch := &changes{}
	comp := compactv2.New(dir, logger, ch, pool)
	p := compactv2.NewProgressLogger(logger, len(all))
	if err := comp.WriteSeries(context.Background(), []block.Reader{b}, d, p, mods...); err != nil {
		_, _ = d.Flush()
		return nil, clog, dry, fmt.Errorf("WriteSeries: %w", err)
	}
	if err := os.MkdirAll(outDir, 0o755); err != nil {
		return nil, clog, dry, err
	}
	if _, err := d.Flush(); err != nil {
		return nil, clog, dry, fmt.Errorf("Flush: %w", err)
	}
	if ch.del != nil {
		clog = ch.del
	}
	if withDry {
		// the same rewrite as a dry run: same change log, nothing written
		dryID := ulid.MustNew(3, nil)
		dryDir := filepath.Join(dir, dryID.String())
		dd, err := block.NewDiskWriter(context.Background(), logger, dryDir)
		if err != nil {
			return nil, clog, dry, err
		}
		dch := &changes{}
		dcomp := compactv2.NewDryRun(dir, logger, dch, pool)
		if err := dcomp.WriteSeries(context.Background(), []block.Reader{b}, dd, compactv2.NewProgressLogger(logger, len(all)), mods...); err != nil {
			_, _ = dd.Flush()
			return nil, clog, dry, fmt.Errorf("dry run WriteSeries: %w", err)
		}
		_ = os.MkdirAll(dryDir, 0o755)
		st, ferr := dd.Flush()
		dl := []any{}
		if dch.del != nil {
			dl = dch.del
		}
		dry = map[string]any{"ran": true, "log": dl, "wrote": ferr == nil && (st.NumSeries > 0 || st.NumSamples > 0 || st.NumChunks > 0)}
	}
	res, err = readBlock(outDir)
	return res, clog, dry, err
}

var _ = io.Discard

// ---- random concrete cases ----
func randCase(r *rand.Rand, big bool) vt.Case {
	names := []string{"job", "instance", "env"}
	vals := []string{"api", "db", "prod", "dev"}
	var series []any
	used := map[string]bool{}
	for n := 1 + r.Intn(3); n > 0; n-- {
		var ls []any
		key := ""
		for _, nm := range names {
			if r.Intn(3) > 0 {
				v := vals[r.Intn(len(vals))]
				ls = append(ls, map[string]any{"n": nm, "v": v})
				key += nm + "=" + v + ","
			}
		}
		if used[key] {
			continue
		}
		used[key] = true
		var chs []any
		t := int64(r.Intn(5))
		maxPer := 12
		if big {
			maxPer = 130 // realistic chunk sizes (120 samples and more)
		}
		for k := 1 + r.Intn(3); k > 0; k-- {
			var ch []any
			for m := 1 + r.Intn(maxPer); m > 0; m-- {
				ch = append(ch, t)
				t += 1 + int64(r.Intn(3))
			}
			chs = append(chs, ch)
		}
		if ls == nil {
			ls = []any{}
		}
		series = append(series, map[string]any{"labels": ls, "chunks": chs})
	}
	var reqs []any
	for n := 1 + r.Intn(3); n > 0; n-- {
		var ms []any
		for k := 1 + r.Intn(2); k > 0; k-- {
			typ := []string{"EQ", "EQ", "NEQ", "RE", "NRE"}[r.Intn(5)]
			alts := []any{vals[r.Intn(len(vals))]}
			if r.Intn(10) == 0 {
				alts = []any{""}
			}
			if typ == "RE" || typ == "NRE" {
				for j := r.Intn(3); j > 0; j-- {
					alts = append(alts, vals[r.Intn(len(vals))])
				}
			}
			ms = append(ms, map[string]any{"name": names[r.Intn(len(names))], "type": typ, "alts": alts})
		}
		ivs := []any{}
		horizon := int64(40)
		if big {
			horizon = 600
		}
		for k := r.Intn(4); k > 0; k-- {
			lo := r.Int63n(horizon)
			ivs = append(ivs, map[string]any{"lo": lo, "hi": lo + r.Int63n(1+horizon/4)})
		}
		reqs = append(reqs, map[string]any{"matchers": ms, "ivs": ivs})
	}
	if series == nil {
		series = []any{}
	}
	return vt.Case{"series": series, "reqs": reqs}
}

// scratchBase prefers a memory-backed directory (block writers fsync every file, which dominates the
// run time on a busy disk); everything created is removed again.
func scratchBase(t *testing.T) string {
	if d, err := os.MkdirTemp("/dev/shm", "verif-c48-"); err == nil {
		t.Cleanup(func() { os.RemoveAll(d) })
		return d
	}
	return t.TempDir()
}

// TestC48 rewrites real blocks with compactv2 + WithDeletionModifier and records the samples of the
// rewritten block. A case is a group of abstract inputs that share one block and one rewrite (each
// input's series and requests carry their own case label / case matcher); the group is the unit that
// is judged and replayed, so any influence of one input's requests on another input's series is part
// of the judged observation.
func TestC48(t *testing.T) {
	tr := vt.Open(t)
	defer tr.Close()
	base := scratchBase(t)
	rnd := vt.Rand()
	caseID := 0
	runGroup := func(g vt.Case) {
		caseID++
		g = vt.Normalize(g)
		dir := filepath.Join(base, fmt.Sprint("b", caseID))
		defer os.RemoveAll(dir)
		var cs []*concrete
		jser, jreq := []any{}, []any{}
		relabelKind := "none"
		if k := vt.Str(g["relabel"]); k != "" {
			relabelKind = k
		}
		for i, c := range vt.List(g["cases"]) {
			cc := vt.Case(vt.Map(c))
			cc["relabel"] = relabelKind
			x := concretise(cc, fmt.Sprint("c", i))
			cs = append(cs, x)
			jser = append(jser, x.jser...)
			jreq = append(jreq, x.jreq...)
		}
		res, log, dry, err := rewrite(dir, cs, relabelKind, caseID%6 == 1)
		got := map[string]any{"err": "", "series": []any{}, "log": log}
		if err != nil {
			got["err"] = err.Error()
		} else {
			all := []any{}
			keys := make([]string, 0, len(res))
			for k := range res {
				keys = append(keys, k)
			}
			sort.Strings(keys)
			for _, k := range keys {
				all = append(all, res[k]...)
			}
			got["series"] = all
		}
		tr.Emit(vt.Event{"ev": "case", "case": caseID, "in": g, "kf": "", "n": len(cs), "relabel": relabelKind, "series": jser, "reqs": jreq, "got": got, "dry": dry})
	}
	if rc := vt.Replay(t); rc != nil {
		runGroup(rc)
		return
	}
	var group []any
	groupRelabel := "none"
	flush := func() {
		if len(group) > 0 {
			runGroup(vt.Case{"cases": group, "relabel": groupRelabel})
			group = nil
		}
	}
	add := func(c vt.Case, size int) {
		if _, ok := c["scale"]; !ok {
			c["scale"] = []int{1, 15000}[rnd.Intn(2)]
		}
		c["cseed"] = rnd.Int63n(1 << 30)
		delete(c, "relabel") // the group carries it
		group = append(group, map[string]any(c))
		if len(group) >= size {
			flush()
		}
	}
	for _, c := range vt.TLCCases(t) {
		add(c, 40)
	}
	flush()
	if p := os.Getenv("VERIF_CASES_REWRITEMCLABELS"); p != "" {
		cs, err := vt.ReadNDJSON(p)
		if err != nil {
			t.Fatal(err)
		}
		for _, c := range cs {
			add(c, 40)
		}
	}
	flush()
	// phase 2: relabel modifier before the deletion modifier (one TLC family per relabel kind)
	for _, kind := range []string{"mapa", "dropb", "dropa2"} {
		if p := os.Getenv("VERIF_CASES_REWRITEMCRELABEL" + strings.ToUpper(kind)); p != "" {
			cs, err := vt.ReadNDJSON(p)
			if err != nil {
				t.Fatal(err)
			}
			groupRelabel = kind
			for _, c := range cs {
				add(c, 40)
			}
			flush()
		}
	}
	groupRelabel = "none"
	for i, n := 0, vt.Pick(300, 1500); i < n; i++ {
		add(randCase(rnd, false), 10)
	}
	flush()
	for _, kind := range []string{"dropenv", "mapjob", "dropdev"} {
		groupRelabel = kind
		for i, n := 0, vt.Pick(60, 300); i < n; i++ {
			add(randCase(rnd, false), 10)
		}
		flush()
	}
	groupRelabel = "none"
	for i, n := 0, vt.Pick(10, 60); i < n; i++ {
		add(randCase(rnd, true), 1)
	}
	flush()
	if caseID == 0 {
		t.Fatal("no cases")
	}
}
