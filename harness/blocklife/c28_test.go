package blocklife

import (
	"context"
	"fmt"
	"math/rand"
	"os"
	"path"
	"path/filepath"
	"strings"
	"testing"

	"github.com/oklog/ulid/v2"
	"github.com/prometheus/client_golang/prometheus"
	"github.com/prometheus/prometheus/model/labels"
	"github.com/thanos-io/objstore"

	"github.com/thanos-io/thanos/pkg/block"
	"github.com/thanos-io/thanos/pkg/block/metadata"
	"github.com/thanos-io/thanos/pkg/replicate"
	"github.com/thanos-io/thanos/pkg/shipper"

	"verif/harness/bucketrec"
	"verif/harness/vt"
)

// C28: a block is visible (meta.json present) only when complete; a block being deleted keeps its
// deletion mark until everything else is gone - at every prefix of the bucket operation sequence of
// upload, shipper upload, replication and deletion, i.e. after a crash at any point, including
// re-runs of the procedure on the state the crash left.
//
// Case: proc upload|ship|replicate|delete, segs[i] = chunk segment files of block i, conc = upload
// concurrency > 1, pres[i] = state of block i in the target bucket before the procedure,
// crashes[r] = in run r the bucket goes away before the crashes[r]-th mutating call (the run then
// fails through its error paths; a fresh run follows); deny = {obj, times}: in the first run the
// uploads of that object (a chunk segment or the index, of every block) are refused - every time
// (times = 99) or the first `times` attempts - while every other bucket call succeeds; a final run
// has no fault. The C28 clauses are judged on every resulting bucket state whatever the procedure
// returned.
func TestC28(t *testing.T) {
	tr := vt.Open(t)
	defer tr.Close()
	defer CleanupFastScratch()
	var id int64
	run := func(c vt.Case) {
		id++
		runC28(t, tr, id, vt.Normalize(c))
	}
	if rc := vt.Replay(t); rc != nil {
		run(rc)
		return
	}
	rnd := vt.Rand()
	for _, c := range vt.TLCCases(t) {
		c = vt.Normalize(c)
		run(vt.Case{"proc": c["proc"], "conc": c["conc"], "segs": []int{vt.Int(c["nseg"])}, "pres": []string{vt.Str(c["pre"])},
			"crashes": c["crashes"], "deny": c["deny"], "bseed": rnd.Int63n(1 << 40), "src": "tlc"})
	}
	procs := []string{"upload", "upload_prom", "ship", "replicate", "delete"}
	dpres := []string{"complete", "complete+mark", "partial", "partial+mark", "complete+marks", "partial+marks"}
	n := vt.Pick(80, 2500)
	for i := 0; i < n; i++ {
		proc := procs[rnd.Intn(len(procs))]
		nb := 1 + rnd.Intn(3)
		segs, pres := make([]int, nb), make([]string, nb)
		total := 0
		for k := range segs {
			segs[k] = 1 + rnd.Intn(5)
			total += segs[k] + 4
			pres[k] = "empty"
			if proc == "delete" {
				pres[k] = dpres[rnd.Intn(len(dpres))]
			}
		}
		crashes := []int{}
		for k := rnd.Intn(3); k > 0; k-- {
			crashes = append(crashes, 1+rnd.Intn(total))
		}
		deny := map[string]any{"obj": "none", "times": 0}
		if proc != "delete" && rnd.Intn(3) == 0 {
			obj := "index"
			if rnd.Intn(3) > 0 {
				obj = fmt.Sprintf("chunks/%06d", 1+rnd.Intn(segs[0]))
			}
			deny = map[string]any{"obj": obj, "times": []int{99, 1, 2, 3}[rnd.Intn(4)]}
		}
		run(vt.Case{"proc": proc, "conc": (proc == "upload" || proc == "upload_prom" || proc == "ship") && rnd.Intn(2) == 0, "segs": segs, "pres": pres,
			"crashes": crashes, "deny": deny, "bseed": rnd.Int63n(1 << 40), "src": "rand"})
	}
}

func runC28(t *testing.T, tr *vt.Tracer, caseID int64, c vt.Case) {
	ctx := context.Background()
	logger := NopLogger()
	proc := vt.Str(c["proc"])
	conc := vt.Bool(c["conc"])
	segs := vt.Ints(c["segs"])
	pres := vt.Strs(c["pres"])
	crashes := vt.Ints(c["crashes"])
	rnd := rand.New(rand.NewSource(vt.Int64(c["bseed"])))

	dir, err := os.MkdirTemp(FastScratchDir(), "c28-")
	if err != nil {
		t.Fatal(err)
	}
	defer os.RemoveAll(dir)

	al := NewAliases()
	ext := map[string]string{"cluster": "c1", "replica": "r1"}
	var ids []ulid.ULID
	var bdirs []string
	files := []Obj{}
	for i, n := range segs {
		bid := NewULID(uint64(1700000000000+int64(i)*7200000), rnd)
		al.Add(bid, fmt.Sprintf("b%d", i+1))
		lbls := ext
		if proc == "upload_prom" {
			lbls = nil // a plain Prometheus block: no Thanos external labels (block.Upload would refuse it)
		}
		bd, err := CloneBlock(dir, BlockSpec{ID: bid, NSeg: n, MinT: int64(i) * 7200000, MaxT: int64(i+1) * 7200000,
			Labels: lbls, Source: metadata.SidecarSource})
		if err != nil {
			t.Fatal(err)
		}
		ids = append(ids, bid)
		bdirs = append(bdirs, bd)
		files = append(files, LocalFiles(bd, al.Of(bid.String()))...)
	}

	inner := objstore.NewInMemBucket()
	target := bucketrec.New(inner)
	target.RecordReads(false)

	// origin bucket of the replication, and the pre-state of the target for deletions: built with the
	// real block.Upload / MarkForDeletion on the bare buckets (not recorded, not judged)
	origin := objstore.NewInMemBucket()
	for i, bd := range bdirs {
		if proc == "replicate" {
			if err := block.Upload(ctx, logger, origin, bd, metadata.NoneFunc); err != nil {
				t.Fatal(err)
			}
		}
		pre := "empty"
		if i < len(pres) {
			pre = pres[i]
		}
		if pre == "empty" {
			continue
		}
		if err := block.Upload(ctx, logger, inner, bd, metadata.NoneFunc); err != nil {
			t.Fatal(err)
		}
		if strings.Contains(pre, "+mark") {
			if err := block.MarkForDeletion(ctx, logger, inner, ids[i], "verif", prometheus.NewCounter(prometheus.CounterOpts{})); err != nil {
				t.Fatal(err)
			}
		}
		if strings.HasSuffix(pre, "+marks") { // further markers next to the deletion mark (phase 2)
			if err := block.MarkForNoCompact(ctx, logger, inner, ids[i], metadata.ManualNoCompactReason, "verif", prometheus.NewCounter(prometheus.CounterOpts{})); err != nil {
				t.Fatal(err)
			}
			if err := block.MarkForNoDownsample(ctx, logger, inner, ids[i], metadata.ManualNoDownsampleReason, "verif", prometheus.NewCounter(prometheus.CounterOpts{})); err != nil {
				t.Fatal(err)
			}
		}
		if strings.HasPrefix(pre, "partial") {
			if err := inner.Delete(ctx, path.Join(ids[i].String(), MetaFile)); err != nil {
				t.Fatal(err)
			}
		}
	}

	s0 := TakeSnapshot(inner, al)
	tr.Emit(vt.Event{"ev": "case", "case": caseID, "in": c, "kf": "", "objs0": s0.Objs, "files": files})

	runNo := 0
	target.Observe(func(op bucketrec.Op) {
		if !op.IsMutation() {
			return
		}
		s := TakeSnapshot(inner, al)
		b, f := al.Split(op.Name)
		tr.Emit(vt.Event{"ev": "Mut", "case": caseID, "run": runNo, "op": op.Kind, "b": b, "f": f, "ok": op.OK,
			"injected": op.Injected, "objs": s.Objs, "listed": s.Listed})
	})

	var upOpts []objstore.UploadOption
	if conc {
		upOpts = append(upOpts, objstore.WithUploadConcurrency(4))
	}
	once := func() error {
		switch proc {
		case "upload":
			for _, bd := range bdirs {
				if err := block.Upload(ctx, logger, target, bd, metadata.NoneFunc, upOpts...); err != nil {
					return err
				}
			}
			return nil
		case "upload_prom":
			for _, bd := range bdirs {
				if err := block.UploadPromBlock(ctx, logger, target, bd, metadata.NoneFunc, upOpts...); err != nil {
					return err
				}
			}
			return nil
		case "ship":
			root, err := os.OpenRoot(dir)
			if err != nil {
				t.Fatal(err)
			}
			opts := []shipper.Option{shipper.WithSource(metadata.SidecarSource),
				shipper.WithLabels(func() labels.Labels { return labels.FromMap(ext) })}
			if conc {
				opts = append(opts, shipper.WithUploadConcurrency(4))
			}
			sh := shipper.New(target, root, opts...)
			defer sh.Close()
			_, err = sh.Sync(ctx)
			return err
		case "replicate":
			return replicate.VerifReplicate(ctx, logger, objstore.WithNoopInstr(origin), target, func(*metadata.Meta) bool { return true }, false)
		case "delete":
			for _, bid := range ids {
				if err := block.Delete(ctx, logger, target, bid); err != nil {
					return err
				}
			}
			return nil
		}
		t.Fatalf("unknown proc %q", proc)
		return nil
	}

	denyObj, denyTimes := "none", 0
	if d, ok := c["deny"]; ok && d != nil {
		denyObj, denyTimes = vt.Str(vt.Map(d)["obj"]), vt.Int(vt.Map(d)["times"])
		if denyTimes == 99 {
			denyTimes = -1
		}
	}
	errs := []string{}
	plan := append([]int{}, crashes...)
	if denyObj != "none" && len(plan) == 0 {
		plan = append(plan, 0) // a run of its own for the denial
	}
	for r, k := range append(plan, 0) {
		runNo++
		target.OutageFromMutation(k)
		if r == 0 && denyObj != "none" {
			target.DenyUploads(func(name string) bool { return strings.HasSuffix(name, "/"+denyObj) }, denyTimes)
		}
		err := once()
		target.Heal()
		if err != nil {
			errs = append(errs, "error")
		} else {
			errs = append(errs, "ok")
		}
	}
	// a failing fault-free run is recorded (End.runs), not fatal: C28 judges bucket states, whatever the
	// procedures return
	se := TakeSnapshot(inner, al)
	tr.Emit(vt.Event{"ev": "End", "case": caseID, "runs": errs, "objs": se.Objs})
	_ = filepath.Join
}
