package blocklife

import (
	"context"
	"encoding/json"
	"fmt"
	"math/rand"
	"os"
	"path"
	"path/filepath"
	"strings"
	"sync"
	"sync/atomic"
	"testing"
	"time"

	"github.com/oklog/ulid/v2"
	"github.com/prometheus/client_golang/prometheus"
	"github.com/prometheus/common/promslog"
	"github.com/prometheus/prometheus/model/labels"
	"github.com/prometheus/prometheus/storage"
	"github.com/prometheus/prometheus/tsdb"
	"github.com/thanos-io/objstore"

	"github.com/thanos-io/thanos/pkg/block"
	"github.com/thanos-io/thanos/pkg/block/metadata"
	"github.com/thanos-io/thanos/pkg/compact"
	"github.com/thanos-io/thanos/pkg/compact/downsample"
	"github.com/thanos-io/thanos/pkg/testutil/e2eutil"

	"verif/harness/bucketrec"
	"verif/harness/vt"
)

// C33: if a read of block metadata / markers / the listing fails in a sync, the compactor neither
// compacts, marks nor deletes anything in that iteration.
//
// Case: lister concurrent|recursive, kind list|exists|meta|delmark|nocompact|none: the j-th read
// call of that kind issued INSIDE a sync (MetadataFetcher.Fetch) of the first iteration fails once;
// kind meta_body|delmark_body|nocompact_body: the j-th such Get succeeds but the reader it returns
// fails at pos zero|mid|last (before the first byte, after half the bytes, before the last byte).

type c33World struct {
	objs    map[string][]byte
	oldObjs map[string]bool // objects whose last-modified is set far in the past (aborted partial upload)
	al      *Aliases
}

var (
	c33Once  sync.Once
	c33W     *c33World
	c33Err   error
	c33Range = []int64{1000, 4000, 16000}
)

func counter() prometheus.Counter { return prometheus.NewCounter(prometheus.CounterOpts{Name: "x"}) }

// c33BuildWorld creates, once, the bucket content every case starts from:
//
//	group a: five REAL 1 s blocks a1..a5 ([0,1s) .. [4s,5s)) - the planner compacts a1..a4
//	group b: d (level 2, sources s1,s2) with its sources s1, s2 still present - garbage collection marks s1, s2
//	group c: mo (deletion mark 100 h old - the cleaner deletes it), mn (fresh deletion mark), nc (no-compact mark)
//	po: an aborted partial upload (no meta.json), untouched for 100 h - partial-upload cleanup deletes it
//
// Retention (raw: 24 h) then marks every block that is left (all sample times are near the epoch).
func c33BuildWorld() (*c33World, error) {
	c33Once.Do(func() {
		ctx := context.Background()
		logger := NopLogger()
		dir, err := os.MkdirTemp(ScratchDir(), "c33world-")
		if err != nil {
			c33Err = err
			return
		}
		defer os.RemoveAll(dir)
		bkt := objstore.NewInMemBucket()
		al := NewAliases()
		w := &c33World{oldObjs: map[string]bool{}, al: al}
		rnd := rand.New(rand.NewSource(33))
		series := []labels.Labels{labels.FromStrings("__name__", "m", "i", "1"), labels.FromStrings("__name__", "m", "i", "2")}
		for i := 0; i < 5; i++ {
			id, err := e2eutil.CreateBlock(ctx, dir, series, 4, int64(i)*1000, int64(i+1)*1000, labels.FromStrings("cluster", "a"), 0, metadata.NoneFunc, nil)
			if err != nil {
				c33Err = err
				return
			}
			al.Add(id, fmt.Sprintf("a%d", i+1))
			if err := block.Upload(ctx, logger, bkt, filepath.Join(dir, id.String()), metadata.NoneFunc); err != nil {
				c33Err = err
				return
			}
		}
		clone := func(alias string, lbl string, mint, maxt int64, level int, sources []ulid.ULID, idOverride *ulid.ULID) (ulid.ULID, error) {
			id := NewULID(uint64(1700000000000+rnd.Intn(1000000)), rnd)
			if idOverride != nil {
				id = *idOverride
			}
			al.Add(id, alias)
			bd, err := CloneBlock(dir, BlockSpec{ID: id, NSeg: 1, MinT: mint, MaxT: maxt, Level: level, Sources: sources,
				Labels: map[string]string{"cluster": lbl}, Source: metadata.SidecarSource})
			if err != nil {
				return id, err
			}
			return id, block.Upload(ctx, logger, bkt, bd, metadata.NoneFunc)
		}
		s1 := NewULID(1700000001000, rnd)
		s2 := NewULID(1700000002000, rnd)
		steps := []func() error{
			func() error { _, err := clone("s1", "b", 10000, 11000, 1, nil, &s1); return err },
			func() error { _, err := clone("s2", "b", 11000, 12000, 1, nil, &s2); return err },
			func() error { _, err := clone("d", "b", 10000, 12000, 2, []ulid.ULID{s1, s2}, nil); return err },
			func() error {
				id, err := clone("mo", "c", 20000, 21000, 1, nil, nil)
				if err != nil {
					return err
				}
				return uploadDeletionMark(ctx, bkt, id, time.Now().Add(-100*time.Hour))
			},
			func() error {
				id, err := clone("mn", "c", 21000, 22000, 1, nil, nil)
				if err != nil {
					return err
				}
				return uploadDeletionMark(ctx, bkt, id, time.Now())
			},
			func() error {
				id, err := clone("nc", "c", 22000, 23000, 1, nil, nil)
				if err != nil {
					return err
				}
				return block.MarkForNoCompact(ctx, logger, bkt, id, metadata.ManualNoCompactReason, "verif", counter())
			},
			func() error {
				id, err := clone("po", "c", 23000, 24000, 1, nil, nil)
				if err != nil {
					return err
				}
				if err := bkt.Delete(ctx, path.Join(id.String(), MetaFile)); err != nil {
					return err
				}
				for name := range bkt.Objects() {
					if strings.HasPrefix(name, id.String()+"/") {
						w.oldObjs[name] = true
					}
				}
				return nil
			},
		}
		for _, f := range steps {
			if err := f(); err != nil {
				c33Err = err
				return
			}
		}
		w.objs = bkt.Objects()
		c33W = w
	})
	return c33W, c33Err
}

func uploadDeletionMark(ctx context.Context, bkt objstore.Bucket, id ulid.ULID, at time.Time) error {
	b, err := json.Marshal(metadata.DeletionMark{ID: id, DeletionTime: at.Unix(), Version: metadata.DeletionMarkVersion1, Details: "verif"})
	if err != nil {
		return err
	}
	return bkt.Upload(ctx, path.Join(id.String(), MarkFile), strings.NewReader(string(b)))
}

// syncMarkFetcher wraps the MetadataFetcher handed to the Syncer: Fetch = one sync.
type syncMarkFetcher struct {
	inner  block.MetadataFetcher
	inSync *atomic.Bool
	begin  func()
	end    func(err error)
}

func (f *syncMarkFetcher) Fetch(ctx context.Context) (map[ulid.ULID]*metadata.Meta, map[ulid.ULID]error, error) {
	f.begin()
	f.inSync.Store(true)
	m, p, err := f.inner.Fetch(ctx)
	f.inSync.Store(false)
	f.end(err)
	return m, p, err
}
func (f *syncMarkFetcher) UpdateOnChange(l func([]metadata.Meta, error)) { f.inner.UpdateOnChange(l) }

func c33Kind(op bucketrec.Op) string {
	if op.Kind == "get_body" { // the body of a successful Get failed while being read
		if k := c33Kind(bucketrec.Op{Kind: "get", Name: op.Name}); k != "" {
			return k + "_body"
		}
		return ""
	}
	switch {
	case (op.Kind == "iter" || op.Kind == "iter_attrs") && op.Name == "":
		return "list"
	case op.Kind == "exists" && strings.HasSuffix(op.Name, "/"+MetaFile):
		return "exists"
	case op.Kind == "get" && strings.HasSuffix(op.Name, "/"+MetaFile):
		return "meta"
	case op.Kind == "get" && strings.HasSuffix(op.Name, "/"+MarkFile):
		return "delmark"
	case op.Kind == "get" && strings.HasSuffix(op.Name, "/"+metadata.NoCompactMarkFilename):
		return "nocompact"
	}
	return ""
}

func TestC33(t *testing.T) {
	tr := vt.Open(t)
	defer tr.Close()
	defer CleanupFastScratch()
	var id int64
	run := func(c vt.Case) {
		id++
		runC33(t, tr, id, vt.Normalize(c))
	}
	if rc := vt.Replay(t); rc != nil {
		run(rc)
		return
	}
	// reference runs without a fault (also show that every stage mutates when the view is complete)
	for _, ls := range []string{"concurrent", "recursive"} {
		run(vt.Case{"lister": ls, "kind": "none", "j": 0, "pos": "none", "src": "ref"})
	}
	for _, c := range vt.TLCCases(t) {
		c["src"] = "tlc"
		run(c)
	}
	// seeded random: later positions and different fetch concurrency
	rnd := vt.Rand()
	kinds := []string{"list", "exists", "meta", "delmark", "nocompact", "meta_body", "delmark_body", "nocompact_body", "meta_body"}
	n := vt.Pick(12, 150)
	for i := 0; i < n; i++ {
		k := kinds[rnd.Intn(len(kinds))]
		ls := []string{"concurrent", "recursive"}[rnd.Intn(2)]
		if k == "exists" {
			ls = "concurrent"
		}
		pos := "none"
		if strings.HasSuffix(k, "_body") {
			pos = []string{"zero", "mid", "last"}[rnd.Intn(3)]
		}
		run(vt.Case{"lister": ls, "kind": k, "j": 1 + rnd.Intn(45), "pos": pos, "fconc": 1 + rnd.Intn(8), "src": "rand"})
	}
}

func runC33(t *testing.T, tr *vt.Tracer, caseID int64, c vt.Case) {
	ctx := context.Background()
	logger := NopLogger()
	w, err := c33BuildWorld()
	if err != nil {
		t.Fatal(err)
	}
	lister, kind, j := vt.Str(c["lister"]), vt.Str(c["kind"]), vt.Int(c["j"])
	fconc := 4
	if v, ok := c["fconc"]; ok {
		fconc = vt.Int(v)
	}

	inner := objstore.NewInMemBucket()
	for name, b := range w.objs {
		if err := inner.Upload(ctx, name, strings.NewReader(string(b))); err != nil {
			t.Fatal(err)
		}
		// EVERY object is older than the partial-upload threshold (48 h): a healthy block that a sync wrongly
		// classifies as partial (no / corrupted meta.json) is deleted by the partial-upload cleanup
		if err := inner.ChangeLastModified(name, time.Now().Add(-100*time.Hour)); err != nil {
			t.Fatal(err)
		}
	}
	rec := bucketrec.New(inner)
	var inSync atomic.Bool
	var muts atomic.Int64
	al := w.al

	tr.Emit(vt.Event{"ev": "case", "case": caseID, "in": c, "kf": "", "triv": kind == "none"})
	rec.Observe(func(op bucketrec.Op) {
		if op.IsMutation() {
			b, f := al.Split(op.Name)
			if op.OK {
				muts.Add(1)
			}
			tr.Emit(vt.Event{"ev": "Mut", "case": caseID, "op": op.Kind, "b": b, "f": f, "ok": op.OK})
			return
		}
		if op.Injected {
			b, f := al.Split(op.Name)
			tr.Emit(vt.Event{"ev": "ReadFail", "case": caseID, "kind": c33Kind(op), "b": b, "f": f, "insync": inSync.Load()})
		}
	})

	const deleteDelay = 48 * time.Hour
	ignoreDel := block.NewIgnoreDeletionMarkFilter(logger, rec, deleteDelay/2, fconc)
	dedup := block.NewDeduplicateFilter(fconc)
	noCompact := compact.NewGatherNoCompactionMarkFilter(logger, rec, fconc)
	var bl block.Lister
	if lister == "recursive" {
		bl = block.NewRecursiveLister(logger, rec)
	} else {
		bl = block.NewConcurrentLister(logger, rec)
	}
	base, err := block.NewBaseFetcher(logger, fconc, rec, bl, "", nil)
	if err != nil {
		t.Fatal(err)
	}
	cf := base.NewMetaFetcher(nil, []block.MetadataFilter{
		block.NewLabelShardedMetaFilter(nil),
		block.NewConsistencyDelayMetaFilter(logger, 0, nil),
		ignoreDel,
		block.NewReplicaLabelRemover(logger, nil),
		dedup,
		noCompact,
	})
	fetcher := &syncMarkFetcher{inner: cf, inSync: &inSync,
		begin: func() { tr.Emit(vt.Event{"ev": "SyncBegin", "case": caseID}) },
		end:   func(err error) { tr.Emit(vt.Event{"ev": "SyncEnd", "case": caseID, "ok": err == nil}) }}
	sy, err := compact.NewMetaSyncer(logger, nil, rec, fetcher, dedup, ignoreDel, counter(), counter(), 0)
	if err != nil {
		t.Fatal(err)
	}
	work, err := os.MkdirTemp(FastScratchDir(), "c33-")
	if err != nil {
		t.Fatal(err)
	}
	defer os.RemoveAll(work)
	comp, err := tsdb.NewLeveledCompactor(ctx, nil, promslog.NewNopLogger(), c33Range, downsample.NewPool(),
		storage.NewCompactingChunkSeriesMerger(storage.ChainedSeriesMerge))
	if err != nil {
		t.Fatal(err)
	}
	grouper := compact.NewDefaultGrouper(logger, rec, false, false, nil, counter(), counter(), counter(), metadata.NoneFunc, 1, 1)
	planner := compact.NewPlanner(logger, c33Range, noCompact)
	cleaner := compact.NewBlocksCleaner(logger, rec, ignoreDel, deleteDelay, counter(), counter())
	bc, err := compact.NewBucketCompactor(logger, sy, grouper, planner, comp, filepath.Join(work, "compact"), rec, 1, false, cleaner)
	if err != nil {
		t.Fatal(err)
	}
	retention := map[compact.ResolutionLevel]time.Duration{compact.ResolutionLevelRaw: 24 * time.Hour}

	// the sequence of compactMainFn in cmd/thanos/compact.go, downsampling disabled
	mainFn := func() error {
		if err := bc.Compact(ctx); err != nil {
			return err
		}
		if err := sy.SyncMetas(ctx); err != nil {
			return err
		}
		if err := compact.ApplyRetentionPolicyByResolution(ctx, logger, rec, sy.Metas(), retention, counter()); err != nil {
			return err
		}
		compact.BestEffortCleanAbortedPartialUploads(ctx, logger, sy.Partial(), rec, counter(), counter(), counter(), ignoreDel.DeletionMarkBlocks())
		return nil
	}

	switch {
	case kind == "none":
	case strings.HasSuffix(kind, "_body"):
		// the Get succeeds, the reader it returns fails at byte 0 / in the middle / before the last byte
		base := strings.TrimSuffix(kind, "_body")
		rec.FailBody(func(k, name string) bool { return c33Kind(bucketrec.Op{Kind: k, Name: name}) == base }, j, vt.Str(c["pos"]), inSync.Load)
	default:
		rec.FailRead(func(k, name string) bool { return c33Kind(bucketrec.Op{Kind: k, Name: name}) == kind }, j, inSync.Load)
	}
	var mutsPer [2]int64
	fired := false
	for it := 1; it <= 2; it++ {
		tr.Emit(vt.Event{"ev": "Iter", "case": caseID, "it": it})
		before := muts.Load()
		err := mainFn()
		mutsPer[it-1] = muts.Load() - before
		tr.Emit(vt.Event{"ev": "IterEnd", "case": caseID, "it": it, "ok": err == nil})
		if it == 1 {
			fired = rec.ReadFaultFired() || rec.BodyFaultFired()
			rec.Heal()
		}
	}
	tr.Emit(vt.Event{"ev": "End", "case": caseID, "fired": fired, "muts1": mutsPer[0], "muts2": mutsPer[1]})
}
