package blocklife

import (
	"context"
	"fmt"
	"math/rand"
	"sort"
	"strings"
	"testing"

	"github.com/oklog/ulid/v2"
	"github.com/prometheus/client_golang/prometheus"
	"github.com/prometheus/prometheus/tsdb"

	"github.com/thanos-io/thanos/pkg/block"
	"github.com/thanos-io/thanos/pkg/block/metadata"

	"verif/harness/vt"
)

// C31: the duplicate-block filter hides a block only if a kept block of the same compaction group
// was built from all its sources; kept blocks cover every source; the outcome is independent of
// listing order and concurrency.
//
// Case: blocks[i] = {src: [source numbers], grp: group number}; position = ULID rank. gmode says
// how groups differ (labels | resolution | replica), useed seeds the ULID entropy.
//
// gmode "replica" (phase 2) is the compactor's real chain with --deduplication.replica-label: the
// blocks of different "groups" differ ONLY in the replica label, ReplicaLabelRemover runs before the
// duplicate filter (as in cmd/thanos/compact.go), so they all fall into ONE compaction group; the
// line's eff[i] is the effective group of block i that the judge uses. The metas given to the chain
// are shared with the fetcher's cache in production, so the harness also reports whether the chain
// modified them in place (mutated; informational, DRIFT).
func TestC31(t *testing.T) {
	rnd := vt.Rand()
	gen := func(yield func(vt.Case)) {
		for _, c := range vt.TLCCases(t) {
			c["gmode"] = []string{"labels", "resolution", "replica"}[rnd.Intn(3)]
			c["useed"] = rnd.Int63n(1 << 40)
			yield(c)
		}
		n := vt.Pick(300, 6000)
		for i := 0; i < n; i++ {
			nb := 2 + rnd.Intn(7)
			nsrc := 2 + rnd.Intn(5)
			ngrp := 1 + rnd.Intn(3)
			bl := make([]map[string]any, nb)
			for k := range bl {
				var src []int
				for s := 1; s <= nsrc; s++ {
					if rnd.Intn(2) == 0 {
						src = append(src, s)
					}
				}
				if len(src) == 0 {
					src = []int{1 + rnd.Intn(nsrc)}
				}
				if k > 0 && rnd.Intn(5) == 0 { // identical source lists are the interesting tie
					src = append([]int(nil), bl[rnd.Intn(k)]["src"].([]int)...)
				}
				bl[k] = map[string]any{"src": src, "grp": 1 + rnd.Intn(ngrp)}
			}
			yield(vt.Case{"blocks": bl, "gmode": []string{"labels", "resolution", "replica"}[rnd.Intn(3)], "useed": rnd.Int63n(1 << 40)})
		}
	}
	reps := vt.Pick(3, 5)
	vt.Run(t, gen, nil, func(c vt.Case) vt.Event {
		ur := rand.New(rand.NewSource(vt.Int64(c["useed"])))
		gmode := vt.Str(c["gmode"])
		srcID := map[int]ulid.ULID{}
		type blk struct {
			id  ulid.ULID
			src []ulid.ULID
			grp int
		}
		var blks []blk
		rank := map[ulid.ULID]int{}
		for i, x := range vt.List(c["blocks"]) {
			m := vt.Map(x)
			b := blk{id: NewULID(uint64(1700000000000+i), ur), grp: vt.Int(m["grp"])}
			for _, s := range vt.Ints(m["src"]) {
				if _, ok := srcID[s]; !ok {
					srcID[s] = NewULID(uint64(1600000000000+s), ur)
				}
				b.src = append(b.src, srcID[s])
			}
			// the order of the Sources list in meta.json is not significant
			ur.Shuffle(len(b.src), func(a, z int) { b.src[a], b.src[z] = b.src[z], b.src[a] })
			rank[b.id] = i + 1
			blks = append(blks, b)
		}
		seen := map[string]bool{}
		mutated := false
		ferrs := 0
		eff := []int{}
		for _, b := range blks {
			if gmode == "replica" {
				eff = append(eff, 1)
			} else {
				eff = append(eff, b.grp)
			}
		}
		outs := []map[string]any{}
		runs := 0
		for conc := 1; conc <= 4; conc++ {
			for r := 0; r < reps; r++ {
				runs++
				metas := map[ulid.ULID]*metadata.Meta{}
				for _, b := range blks {
					m := &metadata.Meta{BlockMeta: tsdb.BlockMeta{ULID: b.id, Version: 1}}
					m.Compaction.Sources = append([]ulid.ULID(nil), b.src...)
					m.Compaction.Level = 1 + len(b.src)
					m.Thanos.Labels = map[string]string{"cluster": "c"}
					switch gmode {
					case "labels":
						m.Thanos.Labels["g"] = fmt.Sprint(b.grp)
					case "replica":
						m.Thanos.Labels["replica"] = fmt.Sprint(b.grp)
					default:
						m.Thanos.Downsample.Resolution = int64(b.grp-1) * 300000
					}
					metas[b.id] = m
				}
				orig := map[ulid.ULID]*metadata.Meta{}
				for id, m := range metas {
					orig[id] = m
				}
				f := block.NewDeduplicateFilter(conc)
				g := prometheus.NewGaugeVec(prometheus.GaugeOpts{Name: "x"}, []string{"state"})
				if gmode == "replica" {
					if err := block.NewReplicaLabelRemover(NopLogger(), []string{"replica"}).Filter(context.Background(), metas, g, g); err != nil {
						ferrs++ // recorded; what is left in the map is judged as it is
					}
				}
				if err := f.Filter(context.Background(), metas, g, g); err != nil {
					ferrs++ // recorded; what is left in the map is judged as it is
				}
				if gmode == "replica" {
					for _, b := range blks {
						if orig[b.id].Thanos.Labels["replica"] != fmt.Sprint(b.grp) {
							mutated = true // the chain changed a meta it shares with the fetcher's cache
						}
						if m, ok := metas[b.id]; ok {
							if _, has := m.Thanos.Labels["replica"]; has {
								mutated = true // the view handed on still carries the replica label
							}
						}
					}
				}
				kept, dups := []int{}, []int{}
				for id := range metas {
					kept = append(kept, rank[id])
				}
				for _, id := range f.DuplicateIDs() {
					dups = append(dups, rank[id])
				}
				sort.Ints(kept)
				sort.Ints(dups)
				key := strings.Join([]string{fmt.Sprint(kept), fmt.Sprint(dups)}, "|")
				if !seen[key] {
					seen[key] = true
					outs = append(outs, map[string]any{"kept": kept, "dups": dups})
				}
			}
		}
		return vt.Event{"outs": outs, "runs": runs, "eff": eff, "mutated": mutated, "filter_errors": ferrs}
	})
}
