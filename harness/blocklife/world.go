// Package blocklife holds the conformance harnesses of the BlockLifecycle specification
// (C28, C31, C32, C33, C35): real thanos block upload / shipper / replication / deletion /
// retention / cleanup / fetcher-filter code driven over a recording bucket (harness/bucketrec).
package blocklife

import (
	"bytes"
	"context"
	"encoding/json"
	"fmt"
	"io"
	"math/rand"
	"os"
	"path"
	"path/filepath"
	"sort"
	"strings"
	"sync"
	"time"

	"github.com/go-kit/log"
	"github.com/oklog/ulid/v2"
	"github.com/prometheus/prometheus/model/labels"
	"github.com/prometheus/prometheus/tsdb"
	"github.com/thanos-io/objstore"

	"github.com/thanos-io/thanos/pkg/block"
	"github.com/thanos-io/thanos/pkg/block/metadata"
	"github.com/thanos-io/thanos/pkg/testutil/e2eutil"

	"verif/harness/bucketrec"
)

const (
	MetaFile = block.MetaFilename
	MarkFile = metadata.DeletionMarkFilename
)

// NewULID returns a ULID with the given millisecond timestamp and entropy from rnd.
func NewULID(ms uint64, rnd *rand.Rand) ulid.ULID {
	var e [10]byte
	for i := range e {
		e[i] = byte(rnd.Intn(256))
	}
	return ulid.MustNew(ms, bytes.NewReader(e[:]))
}

// BlockSpec describes a block to materialise on disk.
type BlockSpec struct {
	ID         ulid.ULID // required
	NSeg       int       // number of chunk segment files (>= 1)
	MinT, MaxT int64
	Level      int         // compaction level (default 1)
	Sources    []ulid.ULID // default: [ID]
	Empty      bool        // Stats.NumSamples = 0
	Labels     map[string]string
	Resolution int64
	Source     metadata.SourceType
}

var (
	tmplOnce sync.Once
	tmplDir  string
	tmplErr  error
	tmplMeta *metadata.Meta
)

// template creates, once per process, one REAL tsdb block (real index, real chunk segment) that
// CloneBlock copies under new ids. The procedures driven with cloned blocks (upload, shipper,
// replication, deletion, retention, cleaning) treat block files as opaque objects.
func template(scratch string) (string, *metadata.Meta, error) {
	tmplOnce.Do(func() {
		dir, err := os.MkdirTemp(scratch, "blocktmpl-")
		if err != nil {
			tmplErr = err
			return
		}
		series := []labels.Labels{
			labels.FromStrings("__name__", "m", "i", "1"),
			labels.FromStrings("__name__", "m", "i", "2"),
			labels.FromStrings("__name__", "m", "i", "3"),
		}
		id, err := e2eutil.CreateBlock(context.Background(), dir, series, 20, 0, 7200000, labels.FromStrings("tmpl", "1"), 0, metadata.NoneFunc, nil)
		if err != nil {
			tmplErr = err
			return
		}
		tmplDir = filepath.Join(dir, id.String())
		tmplMeta, tmplErr = metadata.ReadFromDir(tmplDir)
	})
	return tmplDir, tmplMeta, tmplErr
}

// ScratchDir returns the directory harness files may be created in ($VERIF_SCRATCH or os.TempDir).
func ScratchDir() string {
	if s := os.Getenv("VERIF_SCRATCH"); s != "" {
		return s
	}
	return os.TempDir()
}

var (
	fastOnce sync.Once
	fastDir  string
)

// FastScratchDir returns a per-process directory for the many small, short-lived block directories
// of the shipper / upload cases. The code under test fsyncs meta files (about 13 ms per file+directory
// pair on the work disk, more than everything else a case does), so a RAM-backed directory
// (/dev/shm/verif-bl-<pid>) is preferred when available; otherwise ScratchDir() is used. Call
// CleanupFastScratch (deferred) from the test. Stale directories of killed runs (older than two
// hours) are swept on first use.
func FastScratchDir() string {
	fastOnce.Do(func() {
		fastDir = ScratchDir()
		const base = "/dev/shm"
		if fi, err := os.Stat(base); err != nil || !fi.IsDir() {
			return
		}
		if des, err := os.ReadDir(base); err == nil {
			for _, de := range des {
				if !strings.HasPrefix(de.Name(), "verif-bl-") {
					continue
				}
				if fi, err := de.Info(); err == nil && time.Since(fi.ModTime()) > 2*time.Hour {
					os.RemoveAll(filepath.Join(base, de.Name()))
				}
			}
		}
		d := filepath.Join(base, fmt.Sprintf("verif-bl-%d", os.Getpid()))
		if err := os.MkdirAll(d, 0o750); err == nil {
			fastDir = d
		}
	})
	return fastDir
}

// CleanupFastScratch removes the directory FastScratchDir created in /dev/shm (if any).
func CleanupFastScratch() {
	if strings.HasPrefix(fastDir, "/dev/shm/verif-bl-") {
		os.RemoveAll(fastDir)
	}
}

func copyFile(src, dst string) error {
	in, err := os.Open(src)
	if err != nil {
		return err
	}
	defer in.Close()
	out, err := os.Create(dst)
	if err != nil {
		return err
	}
	if _, err := io.Copy(out, in); err != nil {
		out.Close()
		return err
	}
	return out.Close()
}

// CloneBlock materialises dir/<spec.ID> from the template block: same index and first chunk
// segment, NSeg-1 further segment files (copies of the first one with a few extra bytes each so that
// sizes differ), and a meta.json describing spec.
func CloneBlock(dir string, spec BlockSpec) (string, error) {
	tdir, tmeta, err := template(ScratchDir())
	if err != nil {
		return "", err
	}
	bdir := filepath.Join(dir, spec.ID.String())
	if err := os.MkdirAll(filepath.Join(bdir, block.ChunksDirname), 0o750); err != nil {
		return "", err
	}
	if err := copyFile(filepath.Join(tdir, block.IndexFilename), filepath.Join(bdir, block.IndexFilename)); err != nil {
		return "", err
	}
	nseg := spec.NSeg
	if nseg < 1 {
		nseg = 1
	}
	seg1 := filepath.Join(tdir, block.ChunksDirname, "000001")
	for i := 1; i <= nseg; i++ {
		dst := filepath.Join(bdir, block.ChunksDirname, fmt.Sprintf("%06d", i))
		if err := copyFile(seg1, dst); err != nil {
			return "", err
		}
		if i > 1 {
			f, err := os.OpenFile(dst, os.O_APPEND|os.O_WRONLY, 0)
			if err != nil {
				return "", err
			}
			_, _ = f.Write(bytes.Repeat([]byte{0}, i))
			f.Close()
		}
	}
	m := *tmeta
	m.ULID = spec.ID
	m.MinTime, m.MaxTime = spec.MinT, spec.MaxT
	m.Compaction.Level = spec.Level
	if m.Compaction.Level == 0 {
		m.Compaction.Level = 1
	}
	m.Compaction.Sources = spec.Sources
	if len(spec.Sources) == 0 {
		m.Compaction.Sources = []ulid.ULID{spec.ID}
	}
	m.Compaction.Parents = nil
	if spec.Empty {
		m.Stats = tsdb.BlockStats{}
	}
	m.Thanos = metadata.Thanos{
		Labels:     map[string]string{},
		Downsample: metadata.ThanosDownsample{Resolution: spec.Resolution},
		Source:     spec.Source,
	}
	for k, v := range spec.Labels {
		m.Thanos.Labels[k] = v
	}
	if err := writeMeta(bdir, &m); err != nil {
		return "", err
	}
	return bdir, nil
}

// writeMeta writes meta.json without the fsyncs of Meta.WriteToDir (scratch data).
func writeMeta(bdir string, m *metadata.Meta) error {
	var buf bytes.Buffer
	if err := m.Write(&buf); err != nil {
		return err
	}
	return os.WriteFile(filepath.Join(bdir, MetaFile), buf.Bytes(), 0o640)
}

// Aliases maps block ULIDs to short stable names ("b1", "b2", ...) used in trace lines.
type Aliases struct {
	mu sync.Mutex
	m  map[string]string
	n  int
}

func NewAliases() *Aliases { return &Aliases{m: map[string]string{}} }

func (a *Aliases) Add(id ulid.ULID, name string) {
	a.mu.Lock()
	defer a.mu.Unlock()
	a.m[id.String()] = name
}

// Of returns the alias of a ULID string, creating "x<n>" for unknown blocks (e.g. compaction results).
func (a *Aliases) Of(id string) string {
	a.mu.Lock()
	defer a.mu.Unlock()
	if s, ok := a.m[id]; ok {
		return s
	}
	a.n++
	s := fmt.Sprintf("x%d", a.n)
	a.m[id] = s
	return s
}

// Split splits an object name "<ulid>/<rest>" into (alias, rest); objects outside block
// directories get alias "".
func (a *Aliases) Split(name string) (string, string) {
	i := strings.Index(name, "/")
	if i < 0 {
		return "", name
	}
	if _, err := ulid.Parse(name[:i]); err != nil {
		return "", name
	}
	return a.Of(name[:i]), name[i+1:]
}

// Obj is one bucket object in trace form.
type Obj struct {
	B string `json:"b"` // block alias
	F string `json:"f"` // file path inside the block directory
	S int64  `json:"s"` // size in bytes
}

// Snapshot is the observable bucket state after a mutation.
type Snapshot struct {
	Objs   []Obj // every object
	Listed []Obj // for every block whose meta.json is present: the files that meta.json lists (without meta.json itself)
	Labels map[string]map[string]string
}

// metaCache avoids re-parsing unchanged meta.json contents.
type metaCache struct {
	mu sync.Mutex
	m  map[string]*metadata.Meta
}

func (c *metaCache) parse(b []byte) *metadata.Meta {
	c.mu.Lock()
	defer c.mu.Unlock()
	if c.m == nil {
		c.m = map[string]*metadata.Meta{}
	}
	if m, ok := c.m[string(b)]; ok {
		return m
	}
	var m metadata.Meta
	if err := json.Unmarshal(b, &m); err != nil {
		c.m[string(b)] = nil
		return nil
	}
	c.m[string(b)] = &m
	return &m
}

var sharedMetaCache metaCache

// TakeSnapshot reads the state of bkt (the INNER bucket: nothing is recorded). Safe to call from a
// bucketrec mutation observer.
func TakeSnapshot(bkt objstore.Bucket, al *Aliases) Snapshot {
	l := bucketrec.Listing(bkt)
	s := Snapshot{Objs: []Obj{}, Listed: []Obj{}, Labels: map[string]map[string]string{}}
	for _, name := range bucketrec.SortedNames(l) {
		b, f := al.Split(name)
		s.Objs = append(s.Objs, Obj{B: b, F: f, S: l[name]})
		if b != "" && f == MetaFile {
			rc, err := bkt.Get(context.Background(), name)
			if err != nil {
				continue
			}
			raw, _ := io.ReadAll(rc)
			rc.Close()
			m := sharedMetaCache.parse(raw)
			if m == nil {
				continue
			}
			for _, fl := range m.Thanos.Files {
				if fl.RelPath == MetaFile {
					continue
				}
				s.Listed = append(s.Listed, Obj{B: b, F: filepath.ToSlash(fl.RelPath), S: fl.SizeBytes})
			}
			s.Labels[b] = m.Thanos.Labels
		}
	}
	sort.Slice(s.Listed, func(i, j int) bool {
		if s.Listed[i].B != s.Listed[j].B {
			return s.Listed[i].B < s.Listed[j].B
		}
		return s.Listed[i].F < s.Listed[j].F
	})
	return s
}

// LocalFiles lists the data files (index + chunk segments) of a local block directory with sizes.
func LocalFiles(bdir, alias string) []Obj {
	out := []Obj{}
	if fi, err := os.Stat(filepath.Join(bdir, block.IndexFilename)); err == nil {
		out = append(out, Obj{B: alias, F: block.IndexFilename, S: fi.Size()})
	}
	des, _ := os.ReadDir(filepath.Join(bdir, block.ChunksDirname))
	for _, de := range des {
		if fi, err := de.Info(); err == nil {
			out = append(out, Obj{B: alias, F: path.Join(block.ChunksDirname, de.Name()), S: fi.Size()})
		}
	}
	sort.Slice(out, func(i, j int) bool { return out[i].F < out[j].F })
	return out
}

// NopLogger is the logger handed to thanos code.
func NopLogger() log.Logger { return log.NewNopLogger() }
