package blocklife

import (
	"context"
	"encoding/json"
	"fmt"
	"math/rand"
	"os"
	"os/exec"
	"path"
	"path/filepath"
	"sort"
	"testing"

	"github.com/oklog/ulid/v2"
	"github.com/prometheus/prometheus/model/labels"
	"github.com/thanos-io/objstore"
	"github.com/thanos-io/objstore/providers/filesystem"

	"github.com/thanos-io/thanos/pkg/block"
	"github.com/thanos-io/thanos/pkg/block/metadata"
	"github.com/thanos-io/thanos/pkg/shipper"

	"verif/harness/bucketrec"
	"verif/harness/vt"
)

// C35: after a successful Shipper.Sync every eligible local block is complete in the bucket with the
// current external labels, also when earlier syncs crashed at any point; the shipper file never
// lists a block that was not seen complete in the bucket.
//
// Case: blocks[i] = {kind L1|E|L2, pre absent|partial|complete} (local blocks, oldest first, and
// their state in the bucket before the first sync), uc = upload compacted, ooo = allow out-of-order
// uploads, crashes[r] = run r dies before its crashes[r]-th mutating bucket call, mode = "outage"
// (bucket unavailable from that call on; in-process) | "death" (child process os.Exit before that
// call; filesystem bucket), stale = local meta.json carries outdated external labels.

type c35Block struct {
	id    ulid.ULID
	alias string
	dir   string
	kind  string
	pre   string
	files []Obj
}

var c35Ext = map[string]string{"cluster": "c1", "replica": "r1"}

func c35Labels() labels.Labels { return labels.FromMap(c35Ext) }

func labelObjs(al map[string]map[string]string) []map[string]string {
	out := []map[string]string{}
	bs := make([]string, 0, len(al))
	for b := range al {
		bs = append(bs, b)
	}
	sort.Strings(bs)
	for _, b := range bs {
		ns := make([]string, 0, len(al[b]))
		for n := range al[b] {
			ns = append(ns, n)
		}
		sort.Strings(ns)
		for _, n := range ns {
			out = append(out, map[string]string{"b": b, "n": n, "v": al[b][n]})
		}
	}
	return out
}

func TestC35(t *testing.T) {
	tr := vt.Open(t)
	defer tr.Close()
	defer CleanupFastScratch()
	var id int64
	run := func(c vt.Case) {
		id++
		runC35(t, tr, id, vt.Normalize(c))
	}
	if rc := vt.Replay(t); rc != nil {
		run(rc)
		return
	}
	rnd := vt.Rand()
	deathBudget := vt.Pick(0, 25)
	cases := vt.TLCCases(t)
	for i, c := range cases {
		c = vt.Normalize(c)
		mode := "outage"
		// thorough: every k-th crashing TLC case is also run with real process death
		if deathBudget > 0 && len(vt.List(c["crashes"])) > 0 && (i+int(vt.Seed()))%(len(cases)/25+1) == 0 {
			mode = "death"
			deathBudget--
		}
		run(vt.Case{"blocks": c["blocks"], "uc": c["uc"], "ooo": c["ooo"], "crashes": c["crashes"],
			"mode": mode, "stale": rnd.Intn(3) == 0, "conc": rnd.Intn(2) == 0, "bseed": rnd.Int63n(1 << 40), "src": "tlc"})
	}
	kinds := []string{"L1", "L1", "E", "L2"}
	pres := []string{"absent", "absent", "partial", "complete"}
	n := vt.Pick(60, 600)
	for i := 0; i < n; i++ {
		nb := 1 + rnd.Intn(4)
		bl := make([]map[string]string, nb)
		for k := range bl {
			bl[k] = map[string]string{"kind": kinds[rnd.Intn(len(kinds))], "pre": pres[rnd.Intn(len(pres))]}
		}
		crashes := []int{}
		for k := rnd.Intn(4); k > 0; k-- {
			crashes = append(crashes, 1+rnd.Intn(4*nb))
		}
		mode := "outage"
		if vt.Thorough() && len(crashes) > 0 && rnd.Intn(25) == 0 {
			mode = "death"
		}
		run(vt.Case{"blocks": bl, "uc": rnd.Intn(2) == 0, "ooo": rnd.Intn(2) == 0, "crashes": crashes, "mode": mode,
			"stale": rnd.Intn(3) == 0, "conc": rnd.Intn(2) == 0, "bseed": rnd.Int63n(1 << 40), "src": "rand"})
	}
}

// c35Child is the configuration handed to the child process of the process-death mode.
type c35Child struct {
	Dir       string            `json:"dir"`     // local TSDB dir of the shipper
	BucketDir string            `json:"bucket"`  // filesystem bucket
	OpLog     string            `json:"oplog"`   // NDJSON of Mut events (appended, unbuffered)
	Result    string            `json:"result"`  // written when Sync returned: "ok" | "error"
	UC        bool              `json:"uc"`
	OOO       bool              `json:"ooo"`
	Conc      bool              `json:"conc"`
	ExitAt    int               `json:"exit_at"` // os.Exit(77) before this mutating call (0 = never)
	Aliases   map[string]string `json:"aliases"`
}

func c35NewShipper(bkt objstore.Bucket, dir string, uc, ooo, conc bool) (*shipper.Shipper, error) {
	root, err := os.OpenRoot(dir)
	if err != nil {
		return nil, err
	}
	opts := []shipper.Option{shipper.WithSource(metadata.SidecarSource), shipper.WithLabels(c35Labels),
		shipper.WithUploadCompacted(uc), shipper.WithAllowOutOfOrderUploads(ooo)}
	if conc {
		opts = append(opts, shipper.WithUploadConcurrency(3))
	}
	return shipper.New(bkt, root, opts...), nil
}

func mutEvent(op bucketrec.Op, s Snapshot, al *Aliases) vt.Event {
	b, f := al.Split(op.Name)
	return vt.Event{"ev": "Mut", "op": op.Kind, "b": b, "f": f, "ok": op.OK, "injected": op.Injected,
		"objs": s.Objs, "listed": s.Listed, "blabels": labelObjs(s.Labels)}
}

// TestC35Child runs one Shipper.Sync in a child process that dies (os.Exit) before the chosen
// mutating bucket call. It does nothing unless started by TestC35.
func TestC35Child(t *testing.T) {
	cfgPath := os.Getenv("VERIF_C35_CHILD")
	if cfgPath == "" {
		t.Skip("only runs as a child of TestC35")
	}
	raw, err := os.ReadFile(cfgPath)
	if err != nil {
		t.Fatal(err)
	}
	var cfg c35Child
	if err := json.Unmarshal(raw, &cfg); err != nil {
		t.Fatal(err)
	}
	al := NewAliases()
	for id, a := range cfg.Aliases {
		al.m[id] = a
	}
	fsb, err := filesystem.NewBucket(cfg.BucketDir)
	if err != nil {
		t.Fatal(err)
	}
	lf, err := os.OpenFile(cfg.OpLog, os.O_APPEND|os.O_CREATE|os.O_WRONLY, 0o640)
	if err != nil {
		t.Fatal(err)
	}
	rec := bucketrec.New(fsb)
	rec.RecordReads(false)
	rec.Observe(func(op bucketrec.Op) {
		if !op.IsMutation() {
			return
		}
		b, _ := json.Marshal(mutEvent(op, TakeSnapshot(fsb, al), al))
		lf.Write(append(b, '\n')) // unbuffered: in the kernel before the next bucket call
	})
	rec.ExitBeforeMutation(cfg.ExitAt, 77)
	sh, err := c35NewShipper(rec, cfg.Dir, cfg.UC, cfg.OOO, cfg.Conc)
	if err != nil {
		t.Fatal(err)
	}
	_, serr := sh.Sync(context.Background())
	res := "ok"
	if serr != nil {
		res = "error"
	}
	if err := os.WriteFile(cfg.Result, []byte(res), 0o640); err != nil {
		t.Fatal(err)
	}
}

func readShipperFile(dir string, al *Aliases) map[string]any {
	m, err := shipper.ReadMetaFile(filepath.Join(dir, shipper.DefaultMetaFilename))
	if err != nil {
		return map[string]any{"present": false, "uploaded": []string{}}
	}
	up := []string{}
	for _, id := range m.Uploaded {
		up = append(up, al.Of(id.String()))
	}
	sort.Strings(up)
	return map[string]any{"present": true, "uploaded": up}
}

func runC35(t *testing.T, tr *vt.Tracer, caseID int64, c vt.Case) {
	ctx := context.Background()
	logger := NopLogger()
	uc, ooo, conc, stale := vt.Bool(c["uc"]), vt.Bool(c["ooo"]), vt.Bool(c["conc"]), vt.Bool(c["stale"])
	mode := vt.Str(c["mode"])
	crashes := vt.Ints(c["crashes"])
	rnd := rand.New(rand.NewSource(vt.Int64(c["bseed"])))

	work, err := os.MkdirTemp(FastScratchDir(), "c35-")
	if err != nil {
		t.Fatal(err)
	}
	defer os.RemoveAll(work)
	dir := filepath.Join(work, "tsdb")
	if err := os.MkdirAll(dir, 0o750); err != nil {
		t.Fatal(err)
	}

	var inner objstore.Bucket
	if mode == "death" {
		fsb, err := filesystem.NewBucket(filepath.Join(work, "bucket"))
		if err != nil {
			t.Fatal(err)
		}
		inner = fsb
	} else {
		inner = objstore.NewInMemBucket()
	}

	al := NewAliases()
	var blocks []c35Block
	local := []map[string]any{}
	for i, x := range vt.List(c["blocks"]) {
		bm := vt.Map(x)
		b := c35Block{kind: vt.Str(bm["kind"]), pre: vt.Str(bm["pre"]), alias: fmt.Sprintf("b%d", i+1)}
		b.id = NewULID(uint64(1700000000000+int64(i)*7200000), rnd)
		al.Add(b.id, b.alias)
		lbls := map[string]string{}
		if stale {
			lbls = map[string]string{"cluster": "old", "gone": "x"}
		}
		spec := BlockSpec{ID: b.id, NSeg: 1 + rnd.Intn(2), MinT: int64(i) * 7200000, MaxT: int64(i+1) * 7200000,
			Level: 1, Empty: b.kind == "E", Labels: lbls, Source: metadata.SidecarSource}
		if b.kind == "L2" {
			spec.Level = 2
			spec.Sources = []ulid.ULID{NewULID(1600000000000, rnd), NewULID(1600000000001, rnd)}
		}
		if b.dir, err = CloneBlock(dir, spec); err != nil {
			t.Fatal(err)
		}
		b.files = LocalFiles(b.dir, b.alias)
		blocks = append(blocks, b)
		local = append(local, map[string]any{"b": b.alias, "level": spec.Level, "empty": spec.Empty, "files": b.files})

		// state of the block in the bucket before the first sync: what an earlier shipper with the same
		// external labels left (real block.Upload of a copy carrying the current labels)
		if b.pre == "absent" {
			continue
		}
		pdir := filepath.Join(work, "pre")
		pb, err := CloneBlock(pdir, func() BlockSpec { s := spec; s.Labels = c35Ext; return s }())
		if err != nil {
			t.Fatal(err)
		}
		// identical data files as the local block
		for _, f := range b.files {
			if err := copyFile(filepath.Join(b.dir, f.F), filepath.Join(pb, f.F)); err != nil {
				t.Fatal(err)
			}
		}
		if err := block.Upload(ctx, logger, inner, pb, metadata.NoneFunc); err != nil {
			t.Fatal(err)
		}
		if b.pre == "partial" {
			for _, f := range []string{MetaFile, block.IndexFilename} {
				if err := inner.Delete(ctx, path.Join(b.id.String(), f)); err != nil {
					t.Fatal(err)
				}
			}
		}
	}

	cur := []map[string]string{}
	for _, n := range []string{"cluster", "replica"} {
		cur = append(cur, map[string]string{"n": n, "v": c35Ext[n]})
	}
	s0 := TakeSnapshot(inner, al)
	tr.Emit(vt.Event{"ev": "case", "case": caseID, "in": c, "kf": "", "local": local, "uc": uc, "cur": cur,
		"objs0": s0.Objs, "listed0": s0.Listed, "file0": readShipperFile(dir, al)})

	runNo := 0
	emitSync := func(ok, crashed bool) {
		s := TakeSnapshot(inner, al)
		tr.Emit(vt.Event{"ev": "Sync", "case": caseID, "run": runNo, "ok": ok, "crashed": crashed, "file": readShipperFile(dir, al),
			"objs": s.Objs, "listed": s.Listed, "blabels": labelObjs(s.Labels)})
	}

	syncOutage := func(k int) bool {
		rec := bucketrec.New(inner)
		rec.RecordReads(false)
		rec.Observe(func(op bucketrec.Op) {
			if !op.IsMutation() {
				return
			}
			ev := mutEvent(op, TakeSnapshot(inner, al), al)
			ev["case"], ev["run"] = caseID, runNo
			tr.Emit(ev)
		})
		rec.OutageFromMutation(k)
		sh, err := c35NewShipper(rec, dir, uc, ooo, conc)
		if err != nil {
			t.Fatal(err)
		}
		defer sh.Close()
		_, serr := sh.Sync(ctx)
		emitSync(serr == nil, rec.InOutage())
		return serr == nil
	}

	syncDeath := func(k int) bool {
		cfg := c35Child{Dir: dir, BucketDir: filepath.Join(work, "bucket"), OpLog: filepath.Join(work, fmt.Sprintf("oplog-%d", runNo)),
			Result: filepath.Join(work, fmt.Sprintf("result-%d", runNo)), UC: uc, OOO: ooo, Conc: conc, ExitAt: k, Aliases: map[string]string{}}
		for _, b := range blocks {
			cfg.Aliases[b.id.String()] = b.alias
		}
		raw, _ := json.Marshal(cfg)
		cfgPath := filepath.Join(work, fmt.Sprintf("child-%d.json", runNo))
		if err := os.WriteFile(cfgPath, raw, 0o640); err != nil {
			t.Fatal(err)
		}
		cmd := exec.Command(os.Args[0], "-test.run=^TestC35Child$", "-test.count=1")
		cmd.Env = append(os.Environ(), "VERIF_C35_CHILD="+cfgPath)
		out, err := cmd.CombinedOutput()
		code := 0
		if ee, ok := err.(*exec.ExitError); ok {
			code = ee.ExitCode()
		} else if err != nil {
			t.Fatalf("child: %v", err)
		}
		if code != 0 && code != 77 {
			t.Fatalf("child failed (exit %d):\n%s", code, out)
		}
		if evs, err := vt.ReadNDJSON(cfg.OpLog); err == nil {
			for _, e := range evs {
				ev := vt.Event(e)
				ev["case"], ev["run"] = caseID, runNo
				tr.Emit(ev)
			}
		}
		res, _ := os.ReadFile(cfg.Result)
		ok := code == 0 && string(res) == "ok"
		emitSync(ok, code == 77)
		return ok
	}

	sync := func(k int) bool {
		runNo++
		if mode == "death" {
			return syncDeath(k)
		}
		return syncOutage(k)
	}

	for _, k := range crashes {
		sync(k)
	}
	// fault-free syncs until one succeeds (bounded: a sync that keeps failing without faults is
	// recorded as such, it is not a verdict of C35, which speaks about successful syncs)
	okFinal := false
	for i := 0; i < 3 && !okFinal; i++ {
		okFinal = sync(0)
	}
	tr.Emit(vt.Event{"ev": "End", "case": caseID, "final_ok": okFinal})
}
