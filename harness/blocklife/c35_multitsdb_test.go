package blocklife

import (
	"context"
	"fmt"
	"os"
	"path/filepath"
	"sort"
	"strings"
	"sync"
	"testing"
	"time"

	"github.com/oklog/ulid/v2"
	"github.com/prometheus/client_golang/prometheus"
	"github.com/prometheus/prometheus/model/labels"
	"github.com/prometheus/prometheus/tsdb"
	"github.com/thanos-io/objstore"

	"github.com/thanos-io/thanos/pkg/block/metadata"
	"github.com/thanos-io/thanos/pkg/receive"

	"verif/harness/bucketrec"
	"verif/harness/vt"
)

// Phase 2 extension of C35: the receiver's multi-TSDB shipping path. receive.MultiTSDB runs one TSDB
// and one Shipper per tenant; idle tenants are pruned (their directory is removed) and the local
// TSDB retention deletes old local blocks - both only consult the shipper file. So the two C35
// guarantees compose into: a tenant directory / a local block is never removed while a non-empty
// block in it was not yet seen complete in the bucket.
//
// Case (mt = true): tenants[i] = number of ~1 s blocks worth of samples of tenant i, ops = sequence of
//
//	"sync:k"  MultiTSDB.SyncAllTenants with a bucket outage from the k-th mutating call (0 = none)
//	"prune"   MultiTSDB.Prune (WithGCImmediately: an idle tenant whose blocks are all recorded as
//	          uploaded is deleted at once)
//	"append"  newer samples for every remaining tenant + wait for the periodic head compaction, after
//	          which the TSDB retention may delete old local blocks (only those recorded as uploaded)
//
// All waiting is for progress of the code's own periodic goroutines (head compaction every
// max-block-duration = 1 s); a wait that exceeds its generous deadline fails the harness (exit 2),
// it never produces a verdict.

const (
	mtBlockMs     = 1000
	mtRetentionMs = 3000
)

type mtBlock struct {
	id    ulid.ULID
	alias string
	files []Obj
	empty bool
	level int
}

// mtLocal lists the block directories (with a meta.json) of one tenant directory.
func mtLocal(dir, tenant string, al *Aliases) []mtBlock {
	out := []mtBlock{}
	des, err := os.ReadDir(filepath.Join(dir, tenant))
	if err != nil {
		return out
	}
	for _, de := range des {
		id, err := ulid.Parse(de.Name())
		if err != nil || !de.IsDir() {
			continue
		}
		bd := filepath.Join(dir, tenant, de.Name())
		m, err := metadata.ReadFromDir(bd)
		if err != nil {
			continue
		}
		a := al.Of(id.String())
		out = append(out, mtBlock{id: id, alias: a, files: LocalFiles(bd, a), empty: m.Stats.NumSamples == 0, level: m.Compaction.Level})
	}
	sort.Slice(out, func(i, j int) bool { return out[i].alias < out[j].alias })
	return out
}

func mtLocalEvent(bl []mtBlock) []map[string]any {
	out := []map[string]any{}
	for _, b := range bl {
		out = append(out, map[string]any{"b": b.alias, "level": b.level, "empty": b.empty, "files": b.files})
	}
	return out
}

// waitFor polls cond until it holds or the (generous) deadline passes. A timeout is reported to the caller,
// which abandons the scenario and records that (End.aborted): it is neither a verdict nor a harness crash.
func waitFor(what string, d time.Duration, cond func() bool) bool {
	deadline := time.Now().Add(d)
	for !cond() {
		if time.Now().After(deadline) {
			return false
		}
		time.Sleep(20 * time.Millisecond)
	}
	return true
}

// mtAbort is panicked (and recovered in runC35Multi) to abandon a scenario.
type mtAbort struct{ why string }

// caseBuffer collects the events of one scenario; scenarios run concurrently (they mostly wait for the
// code's 1 s head-compaction ticker) and the trace spec needs the lines of a case to be contiguous.
type caseBuffer struct {
	mu  sync.Mutex
	evs []vt.Event
}

func (b *caseBuffer) Emit(ev vt.Event) { b.mu.Lock(); b.evs = append(b.evs, ev); b.mu.Unlock() }

// runC35MultiAll runs the scenarios with bounded parallelism and writes their events case by case.
func runC35MultiAll(t *testing.T, tr *vt.Tracer, firstID int64, cases []vt.Case) int64 {
	par := 8
	bufs := make([]*caseBuffer, len(cases))
	sem := make(chan struct{}, par)
	var wg sync.WaitGroup
	for i := range cases {
		bufs[i] = &caseBuffer{}
		wg.Add(1)
		sem <- struct{}{}
		go func(i int) {
			defer wg.Done()
			defer func() { <-sem }()
			runC35Multi(t, bufs[i], firstID+int64(i), vt.Normalize(cases[i]))
		}(i)
	}
	wg.Wait()
	for _, b := range bufs {
		for _, ev := range b.evs {
			tr.Emit(ev)
		}
	}
	return firstID + int64(len(cases))
}

type emitter interface{ Emit(vt.Event) }

func runC35Multi(t *testing.T, tr emitter, caseID int64, c vt.Case) {
	headerDone := false
	defer func() {
		// a scenario that cannot go on (the code under test did not make the expected progress, returned an
		// unexpected error, ...) is recorded, never fatal: what was observed up to here is still judged
		if r := recover(); r != nil {
			a, ok := r.(mtAbort)
			if !ok {
				panic(r)
			}
			if !headerDone {
				tr.Emit(vt.Event{"ev": "case", "case": caseID, "in": c, "kf": "", "local": []any{}, "uc": false, "cur": []any{},
					"objs0": []any{}, "listed0": []any{}, "file0": map[string]any{"present": false, "uploaded": []string{}}})
			}
			tr.Emit(vt.Event{"ev": "End", "case": caseID, "final_ok": false, "aborted": a.why})
		}
	}()
	abort := func(format string, args ...any) { panic(mtAbort{fmt.Sprintf(format, args...)}) }
	ctx := context.Background()
	ntb := vt.Ints(c["tenants"])
	ops := vt.Strs(c["ops"])

	work, err := os.MkdirTemp(FastScratchDir(), "c35m-")
	if err != nil {
		t.Fatal(err)
	}
	defer os.RemoveAll(work)
	root, err := os.OpenRoot(work)
	if err != nil {
		t.Fatal(err)
	}
	inner := objstore.NewInMemBucket()
	rec := bucketrec.New(inner)
	rec.RecordReads(false)
	al := NewAliases()
	ext := labels.FromStrings("replica", "r1")

	opts := &tsdb.Options{
		RetentionDuration: mtRetentionMs,
		MinBlockDuration:  mtBlockMs,
		MaxBlockDuration:  mtBlockMs,
		NoLockfile:        true,
	}
	m := receive.NewMultiTSDB(root, NopLogger(), prometheus.NewRegistry(), opts, ext, "tenant_id", rec, vt.Bool(c["ooo"]), false,
		metadata.NoneFunc, receive.WithGCImmediately())
	defer m.Close()

	tenants := []string{}
	for i := range ntb {
		tenants = append(tenants, fmt.Sprintf("t%d", i+1))
	}
	curOf := func(tn string) []map[string]string {
		return []map[string]string{{"n": "replica", "v": "r1"}, {"n": "tenant_id", "v": tn}}
	}

	// header: no local blocks yet (they are produced by the code's own head compaction)
	tr.Emit(vt.Event{"ev": "case", "case": caseID, "in": c, "kf": "", "local": []any{}, "uc": false, "cur": []any{},
		"objs0": []any{}, "listed0": []any{}, "file0": map[string]any{"present": false, "uploaded": []string{}}})
	headerDone = true

	rec.Observe(func(op bucketrec.Op) {
		if !op.IsMutation() {
			return
		}
		ev := mutEvent(op, TakeSnapshot(inner, al), al)
		ev["case"], ev["run"] = caseID, 0
		tr.Emit(ev)
	})

	// appendSamples writes nblocks seconds worth of samples. The periodic head compaction advances an idle
	// tenant's head window by one block per tick (it is wall-clock driven), so the oldest appendable time
	// follows the clock at about the distance of the tenant's latest batch. The n-th batch of a tenant
	// therefore starts (block aligned) 30 - 6n seconds ago (n = 0, 1, 2, 3): each batch is well inside the
	// window the previous one left, and still far enough in the past for the tenant to count as idle (3 s).
	batches := map[string]int{}
	lastEnd := map[string]int64{}
	appendSamples := func(tn string, nblocks int) {
		app, err := m.TenantAppendable(tn)
		if err != nil {
			abort("TenantAppendable(%s): %v", tn, err)
		}
		lag := 30 - 6*batches[tn]
		if lag < 8 {
			lag = 8
		}
		batches[tn]++
		start := time.Now().Add(-time.Duration(lag) * time.Second).UnixMilli()
		start -= start % mtBlockMs
		if le, ok := lastEnd[tn]; ok && start < le+mtBlockMs {
			start = le + mtBlockMs
		}
		end := start + int64(nblocks)*mtBlockMs
		lastEnd[tn] = end
		appended := waitFor("tenant TSDB ready", 30*time.Second, func() bool {
			ap, err := app.Appender(ctx)
			if err != nil {
				return false
			}
			for ts := start + 100; ts < end; ts += 300 {
				if _, err := ap.Append(0, labels.FromStrings("__name__", "m", "tenant", tn), ts, float64(ts%1000)); err != nil {
					abort("append: %v (tenant %s ts %d start %d end %d now %d)", err, tn, ts, start, end, time.Now().UnixMilli())
				}
			}
			if err := ap.Commit(); err != nil {
				t.Fatalf("commit: %v", err)
			}
			return true
		})
		if !appended {
			abort("tenant %s TSDB not ready within 30 s", tn)
		}
	}
	for i, tn := range tenants {
		appendSamples(tn, ntb[i])
	}
	// the code's periodic head compaction (every max-block-duration) cuts the blocks
	for i, tn := range tenants {
		want := ntb[i]
		if !waitFor("periodic head compaction of "+tn, 60*time.Second, func() bool { return len(mtLocal(work, tn, al)) >= want }) {
			abort("no periodic head compaction of %s within 60 s", tn)
		}
	}
	time.Sleep(50 * time.Millisecond) // lastSuccessfulHeadCompaction is stored right after the block appears

	present := func(tn string) bool {
		_, err := os.Stat(filepath.Join(work, tn))
		return err == nil
	}
	known := map[string][]mtBlock{} // last observed local blocks per tenant
	observeLocal := func() {
		// local blocks that disappeared while their tenant directory stayed: deleted by the TSDB retention
		gone := []string{}
		for _, tn := range tenants {
			if !present(tn) {
				continue
			}
			now := mtLocal(work, tn, al)
			have := map[string]bool{}
			for _, b := range now {
				have[b.alias] = true
			}
			for _, b := range known[tn] {
				if !have[b.alias] {
					gone = append(gone, b.alias)
				}
			}
			known[tn] = now
		}
		s := TakeSnapshot(inner, al)
		tr.Emit(vt.Event{"ev": "Local", "case": caseID, "gone": gone, "objs": s.Objs, "listed": s.Listed})
	}
	observeLocal()

	for _, op := range ops {
		switch {
		case strings.HasPrefix(op, "sync:"):
			k := 0
			fmt.Sscanf(op, "sync:%d", &k)
			rec.OutageFromMutation(k)
			_, serr := m.SyncAllTenants(ctx)
			crashed := rec.InOutage()
			rec.Heal()
			tr.Emit(vt.Event{"ev": "MSync", "case": caseID, "ok": serr == nil, "crashed": crashed})
			observeLocal()
		case op == "prune":
			before := map[string][]mtBlock{}
			for _, tn := range tenants {
				if present(tn) {
					before[tn] = mtLocal(work, tn, al)
				}
			}
			if err := m.Prune(ctx); err != nil {
				abort("prune: %v", err)
			}
			pruned := []map[string]any{}
			for _, tn := range tenants {
				if bl, was := before[tn]; was && !present(tn) {
					pruned = append(pruned, map[string]any{"t": tn, "local": mtLocalEvent(bl), "cur": curOf(tn)})
					delete(known, tn)
				}
			}
			s := TakeSnapshot(inner, al)
			tr.Emit(vt.Event{"ev": "Prune", "case": caseID, "pruned": pruned, "objs": s.Objs, "listed": s.Listed, "blabels": labelObjs(s.Labels)})
		case op == "append":
			for _, tn := range tenants {
				if !present(tn) {
					continue
				}
				seen := map[string]bool{}
				for _, b := range mtLocal(work, tn, al) {
					seen[b.alias] = true
				}
				appendSamples(tn, 1)
				// wait until the new block was cut (the block reload that follows applies the TSDB retention)
				cut := waitFor("head compaction after append of "+tn, 60*time.Second, func() bool {
					for _, b := range mtLocal(work, tn, al) {
						if !seen[b.alias] {
							return true
						}
					}
					return false
				})
				if !cut {
					abort("no head compaction after append of %s within 60 s", tn)
				}
			}
			time.Sleep(100 * time.Millisecond)
			observeLocal()
		default:
			abort("unknown op %q", op)
		}
	}
	tr.Emit(vt.Event{"ev": "End", "case": caseID, "final_ok": true})
}
