package blocklife

import (
	"context"
	"fmt"
	"math/rand"
	"path"
	"sort"
	"strings"
	"testing"
	"time"

	"github.com/oklog/ulid/v2"
	"github.com/prometheus/client_golang/prometheus"
	"github.com/prometheus/prometheus/tsdb"
	"github.com/thanos-io/objstore"

	"github.com/thanos-io/thanos/pkg/block"
	"github.com/thanos-io/thanos/pkg/block/metadata"
	"github.com/thanos-io/thanos/pkg/compact"

	"verif/harness/vt"
)

// C32: retention marks only blocks whose newest sample is older than the retention of their
// resolution; the cleaner deletes only blocks whose deletion mark is older than the delete delay;
// partial uploads are removed only when untouched for the threshold and not marked.
//
// The code reads the wall clock, so blocks are built relative to time.Now() and every call is
// bracketed by clock readings (see C32Trace.tla).
//
// Case: proc retention|cleaner|partial, res (resolution the boundary offsets are applied to), cfg
// (configuration variant), unit + offs (boundary offsets = offs[i]*unit ms, from the TLA+ model),
// dseed (seed of the additional dense / random offsets), lim (retention / delay in ms; 0 = default).
func TestC32(t *testing.T) {
	rnd := vt.Rand()
	gen := func(yield func(vt.Case)) {
		for _, c := range vt.TLCCases(t) {
			c["dseed"] = rnd.Int63n(1 << 40)
			c["lim"] = 0
			yield(c)
		}
		procs := []string{"retention", "retention", "cleaner", "partial"}
		n := vt.Pick(60, 1500)
		for i := 0; i < n; i++ {
			p := procs[rnd.Intn(len(procs))]
			c := vt.Case{"proc": p, "res": []int{0, 300000, 3600000}[rnd.Intn(3)], "unit": 1 + rnd.Intn(1500),
				"offs": []int{-2, -1, 0, 1, 2}, "dseed": rnd.Int63n(1 << 40), "lim": 0}
			switch p {
			case "retention":
				c["cfg"] = []string{"only", "all", "others"}[rnd.Intn(3)]
				c["lim"] = int64(1+rnd.Intn(10*24*60)) * 60000 // 1 min .. 10 days
			case "cleaner":
				c["cfg"] = []string{"whole", "frac"}[rnd.Intn(2)]
				c["lim"] = int64(1+rnd.Intn(72*3600))*1000 + int64(rnd.Intn(1000))*int64(rnd.Intn(2))
			case "partial":
				c["cfg"] = []string{"plain", "marked"}[rnd.Intn(2)]
			}
			yield(c)
		}
	}
	vt.Run(t, gen, nil, func(c vt.Case) vt.Event {
		switch vt.Str(c["proc"]) {
		case "retention":
			return c32Retention(t, c)
		case "cleaner":
			return c32Cleaner(t, c)
		case "partial":
			return c32Partial(t, c)
		}
		t.Fatalf("unknown proc %v", c["proc"])
		return nil
	})
}

// c32Offsets returns the boundary offsets (ms) of a case: the model's offs*unit plus a dense,
// seeded set between -3 s and +3 s (every region of the sub-second range is hit).
func c32Offsets(c vt.Case) []int64 {
	unit := vt.Int64(c["unit"])
	set := map[int64]bool{}
	for _, o := range vt.Ints(c["offs"]) {
		set[int64(o)*unit] = true
	}
	r := rand.New(rand.NewSource(vt.Int64(c["dseed"])))
	for _, d := range []int64{3, 7, 20, 50, 100, 200, 300, 400, 500, 600, 700, 800, 900, 999, 1001, 1200, 1500, 2500} {
		set[d], set[-d] = true, true
	}
	for i := 0; i < 24; i++ {
		set[int64(r.Intn(6001))-3000] = true
	}
	out := make([]int64, 0, len(set))
	for o := range set {
		out = append(out, o)
	}
	sort.Slice(out, func(i, j int) bool { return out[i] < out[j] })
	return out
}

func msFloor(t time.Time) int64 { return t.UnixMilli() }
func msCeil(t time.Time) int64  { return t.UnixMilli() + 1 }

func c32Retention(t *testing.T, c vt.Case) vt.Event {
	ctx := context.Background()
	res := vt.Int64(c["res"])
	cfg := vt.Str(c["cfg"])
	lim := vt.Int64(c["lim"])
	if lim == 0 {
		lim = 3600000
	}
	all := []int64{0, 300000, 3600000}
	ret := map[int64]int64{}
	for i, r := range all {
		switch cfg {
		case "only": // retention only for the case's resolution
			if r == res {
				ret[r] = lim
			}
		case "all": // a different retention for every resolution
			ret[r] = lim + int64(i)*5400000
		case "others": // the case's resolution has no retention, the others do
			if r != res {
				ret[r] = lim + int64(i)*5400000
			}
		}
	}
	byRes := map[compact.ResolutionLevel]time.Duration{}
	for r, v := range ret {
		byRes[compact.ResolutionLevel(r)] = time.Duration(v) * time.Millisecond
	}
	bkt := objstore.NewInMemBucket()
	r := rand.New(rand.NewSource(vt.Int64(c["dseed"])))
	offs := c32Offsets(c)
	base := time.Now().UnixMilli()
	type blk struct {
		id   ulid.ULID
		maxt int64
		lim  int64
	}
	var blks []blk
	metas := map[ulid.ULID]*metadata.Meta{}
	for _, rr := range all {
		// boundary of this resolution: its own retention; where retention is disabled the blocks sit
		// around the boundary the OTHER configuration would imply (they must never be marked)
		bound := ret[rr]
		if bound == 0 {
			bound = lim
		}
		for _, o := range offs {
			if rr != res && r.Intn(3) != 0 {
				continue // fewer blocks for the other resolutions
			}
			b := blk{id: NewULID(uint64(base), r), maxt: base - bound - o, lim: ret[rr]}
			m := &metadata.Meta{BlockMeta: tsdb.BlockMeta{ULID: b.id, MinTime: b.maxt - 7200000, MaxTime: b.maxt, Version: 1}}
			m.Thanos.Downsample.Resolution = rr
			m.Thanos.Labels = map[string]string{"cluster": "c"}
			metas[b.id] = m
			blks = append(blks, b)
		}
	}
	tb := time.Now()
	err := compact.ApplyRetentionPolicyByResolution(ctx, NopLogger(), bkt, metas, byRes, prometheus.NewCounter(prometheus.CounterOpts{Name: "x"}))
	ta := time.Now()
	// an error of the procedure is recorded; whatever it did to the bucket is judged
	objs := bkt.Objects()
	out := make([]map[string]any, 0, len(blks))
	for _, b := range blks {
		_, marked := objs[path.Join(b.id.String(), MarkFile)]
		out = append(out, map[string]any{"age": msFloor(tb) - b.maxt, "lim": b.lim, "flag": false, "did": marked})
	}
	return vt.Event{"proc": "retention", "dt": msCeil(ta) - msFloor(tb), "blocks": out, "err": err != nil}
}

func c32Cleaner(t *testing.T, c vt.Case) vt.Event {
	ctx := context.Background()
	cfg := vt.Str(c["cfg"])
	delay := vt.Int64(c["lim"])
	if delay == 0 {
		delay = 7200000
		if cfg == "frac" {
			delay += 437
		}
		switch vt.Int64(c["unit"]) {
		case 1:
			delay += 1
		case 500:
			delay += 500
		}
	}
	bkt := objstore.NewInMemBucket()
	r := rand.New(rand.NewSource(vt.Int64(c["dseed"])))
	type blk struct {
		id ulid.ULID
		dt int64 // DeletionTime, seconds
	}
	var blks []blk
	metas := map[ulid.ULID]*metadata.Meta{}
	nowS := time.Now().Unix()
	ks := map[int64]bool{}
	for _, o := range vt.Ints(c["offs"]) {
		ks[int64(o)] = true
	}
	for _, k := range []int64{-3, 3, -10, 10, -60, 60, -3600, 3600} {
		ks[k] = true
	}
	for k := range ks {
		// mark age at call time ~ delay + k seconds (+ the sub-second parts of the clock and of the delay)
		b := blk{id: NewULID(uint64(nowS*1000), r), dt: nowS - delay/1000 - k}
		for _, f := range []string{MetaFile, block.IndexFilename, "chunks/000001"} {
			if err := bkt.Upload(ctx, path.Join(b.id.String(), f), strings.NewReader("x")); err != nil {
				t.Fatal(err)
			}
		}
		if err := uploadDeletionMark(ctx, bkt, b.id, time.Unix(b.dt, 0)); err != nil {
			t.Fatal(err)
		}
		metas[b.id] = &metadata.Meta{BlockMeta: tsdb.BlockMeta{ULID: b.id, Version: 1}}
		blks = append(blks, b)
	}
	// the cleaner takes its deletion marks from the fetcher's IgnoreDeletionMarkFilter, as in the compactor
	f := block.NewIgnoreDeletionMarkFilter(NopLogger(), objstore.WithNoopInstr(bkt), time.Duration(delay/2)*time.Millisecond, 4)
	g := prometheus.NewGaugeVec(prometheus.GaugeOpts{Name: "x"}, []string{"state"})
	if err := f.Filter(ctx, metas, g, g); err != nil {
		t.Fatal(err)
	}
	cl := compact.NewBlocksCleaner(NopLogger(), bkt, f, time.Duration(delay)*time.Millisecond,
		prometheus.NewCounter(prometheus.CounterOpts{Name: "x"}), prometheus.NewCounter(prometheus.CounterOpts{Name: "y"}))
	tb := time.Now()
	_, err := cl.DeleteMarkedBlocks(ctx)
	ta := time.Now()
	// an error of the procedure is recorded; whatever it did to the bucket is judged
	objs := bkt.Objects()
	out := make([]map[string]any, 0, len(blks))
	for _, b := range blks {
		n := 0
		for name := range objs {
			if strings.HasPrefix(name, b.id.String()+"/") {
				n++
			}
		}
		out = append(out, map[string]any{"age": msFloor(tb) - b.dt*1000, "lim": delay, "flag": false, "did": n < 4})
	}
	return vt.Event{"proc": "cleaner", "dt": msCeil(ta) - msFloor(tb), "blocks": out, "err": err != nil}
}

func c32Partial(t *testing.T, c vt.Case) vt.Event {
	ctx := context.Background()
	cfg := vt.Str(c["cfg"])
	thr := compact.PartialUploadThresholdAge.Milliseconds()
	bkt := objstore.NewInMemBucket()
	r := rand.New(rand.NewSource(vt.Int64(c["dseed"])))
	type blk struct {
		id     ulid.ULID
		lm     int64
		marked bool
	}
	var blks []blk
	partial := map[ulid.ULID]error{}
	marks := map[ulid.ULID]*metadata.DeletionMark{}
	base := time.Now().UnixMilli()
	for _, o := range c32Offsets(c) {
		// a young ULID: the fallback to the ULID time (when no last-modified is available) must not matter here
		b := blk{id: NewULID(uint64(base), r), lm: base - thr - o}
		b.marked = cfg == "marked" && r.Intn(4) != 0
		files := []string{block.IndexFilename, "chunks/000001", "chunks/000002"}
		for i, f := range files {
			name := path.Join(b.id.String(), f)
			if err := bkt.Upload(ctx, name, strings.NewReader("x")); err != nil {
				t.Fatal(err)
			}
			// the newest object decides; the others are older
			lm := b.lm - int64(i)*int64(r.Intn(100000))
			if err := bkt.ChangeLastModified(name, time.UnixMilli(lm)); err != nil {
				t.Fatal(err)
			}
		}
		if b.marked {
			if err := uploadDeletionMark(ctx, bkt, b.id, time.UnixMilli(b.lm-1000)); err != nil {
				t.Fatal(err)
			}
			if err := bkt.ChangeLastModified(path.Join(b.id.String(), MarkFile), time.UnixMilli(b.lm-1000)); err != nil {
				t.Fatal(err)
			}
			marks[b.id] = &metadata.DeletionMark{ID: b.id, DeletionTime: (b.lm - 1000) / 1000, Version: metadata.DeletionMarkVersion1}
		}
		partial[b.id] = fmt.Errorf("no meta")
		blks = append(blks, b)
	}
	before := bkt.Objects()
	cnt := func() prometheus.Counter { return prometheus.NewCounter(prometheus.CounterOpts{Name: "x"}) }
	tb := time.Now()
	compact.BestEffortCleanAbortedPartialUploads(ctx, NopLogger(), partial, bkt, cnt(), cnt(), cnt(), marks)
	ta := time.Now()
	after := bkt.Objects()
	out := make([]map[string]any, 0, len(blks))
	for _, b := range blks {
		nb, na := 0, 0
		for name := range before {
			if strings.HasPrefix(name, b.id.String()+"/") {
				nb++
			}
		}
		for name := range after {
			if strings.HasPrefix(name, b.id.String()+"/") {
				na++
			}
		}
		out = append(out, map[string]any{"age": msFloor(tb) - b.lm, "lim": thr, "flag": b.marked, "did": na < nb})
	}
	return vt.Event{"proc": "partial", "dt": msCeil(ta) - msFloor(tb), "blocks": out, "err": false}
}
