package storeapis

import (
	"context"
	"fmt"
	"testing"
	"time"

	"github.com/thanos-io/objstore"
	"verif/harness/vt"
	"verif/harness/world"
)

func TestProbeTiming(t *testing.T) {
	rnd := vt.Rand()
	for i := 0; i < 5; i++ {
		w := concretise(rnd, randWorld(rnd))
		dir := t.TempDir()
		t0 := time.Now()
		db, err := world.OpenTSDB(dir+"/tsdb", world.Head{Ext: w.Head.ext(), Series: w.Head.series(), ChunkRange: slotW})
		if err != nil {
			t.Fatal(err)
		}
		t1 := time.Now()
		bkt := objstore.NewInMemBucket()
		var blocks []world.Block
		for _, ab := range w.Blocks {
			blocks = append(blocks, world.Block{Ext: ab.ext(), Series: ab.series(), ChunkRange: slotW})
		}
		if _, err := world.UploadBlocks(context.Background(), bkt, dir, blocks); err != nil {
			t.Fatal(err)
		}
		t2 := time.Now()
		bs, err := world.NewBucketStore(context.Background(), bkt, dir+"/bs", world.BucketOpts{})
		if err != nil {
			t.Fatal(err)
		}
		t3 := time.Now()
		bs.Close()
		db.Close()
		t4 := time.Now()
		fmt.Println("open", t1.Sub(t0), "blocks", len(blocks), t2.Sub(t1), "bstore", t3.Sub(t2), "close", t4.Sub(t3))
	}
}
