package storeapis

import (
	"context"
	"math/rand"
	"testing"

	"verif/harness/vt"
	"verif/harness/world"
)

// TestC08: stores present external labels consistently.
//
// Every case = one world (a real TSDB head behind store.NewTSDBStore, real blocks behind
// store.NewBucketStore, a ProxyStore over both) and one Series request (selectors, replica labels
// to drop, time range); cfg.frame = 1 makes the TSDB store put every chunk into its own frame.
// Recorded per store: gRPC code and the label list of every frame in arrival order. C08Trace.tla
// judges them with the property-level operators of StoreAPIs.tla.
func TestC08(t *testing.T) {
	rnd := vt.Rand()
	cache := &worldCache{}
	defer cache.close()
	gen := func(yield func(vt.Case)) {
		cfg := func(rnd *rand.Rand) map[string]any {
			return map[string]any{"frame": []int{0, 1, 1, 200}[rnd.Intn(4)], "rbatch": []int{0, 0, 1, 2}[rnd.Intn(4)]}
		}
		genWorldCases(t, rnd, vt.Pick(25, 200), vt.Pick(15, 100), vt.Pick(40, 30), vt.Pick(25, 20), cfg, yield)
	}
	vt.Run(t, gen, nil, func(c vt.Case) vt.Event {
		w := decode[aWorld](c["world"])
		req := decode[aReq](c["req"])
		cfg := vt.Map(c["cfg"])
		b, err := cache.get(w)
		if err != nil {
			t.Fatalf("building world: %v", err)
		}
		ts := b.tsdbStore(vt.Int(cfg["frame"]))
		bs, err := b.bucketStore(world.BucketOpts{})
		if err != nil {
			t.Fatalf("bucket store: %v", err)
		}
		px := b.proxy(ts, bs)
		ctx := context.Background()
		rb := vt.Int(cfg["rbatch"])
		return vt.Event{
			"tsdb":   seriesObs(world.CallSeries(ctx, ts, seriesReq(req, rb))),
			"bucket": seriesObs(world.CallSeries(ctx, bs, seriesReq(req, rb))),
			"proxy":  seriesObs(world.CallSeries(ctx, px, seriesReq(req, rb))),
		}
	})
}
