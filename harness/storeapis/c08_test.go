package storeapis

import (
	"context"
	"math/rand"
	"testing"

	"github.com/thanos-io/thanos/pkg/store/storepb"

	"verif/harness/vt"
	"verif/harness/world"
)

// TestC08: stores present external labels consistently.
//
// Every case = one world (a real TSDB head behind store.NewTSDBStore, real blocks behind
// store.NewBucketStore, a ProxyStore over both; phase 2: a PrometheusStore in front of the real
// Prometheus API over the same head = sidecar, and a MultiTSDB with two tenants behind the
// receiver's proxy) and one Series request (selectors, replica labels to drop, time range);
// cfg.frame = 1 makes the TSDB store put every chunk into its own frame, cfg.skip sets SkipChunks,
// cfg.hints adds query hints, cfg.promold / cfg.samples select the Prometheus generation.
// Recorded per store: gRPC code and the label list of every frame in arrival order. C08Trace.tla
// judges them with the property-level operators of StoreAPIs.tla.
func TestC08(t *testing.T) {
	rnd := vt.Rand()
	cache := &worldCache{}
	defer cache.close()
	gen := func(yield func(vt.Case)) {
		cfg := func(rnd *rand.Rand) map[string]any {
			return map[string]any{"frame": []int{0, 1, 1, 200}[rnd.Intn(4)], "rbatch": []int{0, 0, 1, 2}[rnd.Intn(4)],
				"skip": rnd.Intn(4) == 0, "setext": rnd.Intn(3) == 0, "hints": rnd.Intn(3) == 0, "promold": rnd.Intn(3) == 0, "samples": rnd.Intn(3) == 0}
		}
		genWorldCases(t, rnd, vt.Pick(20, 200), vt.Pick(10, 100), vt.Pick(24, 30), vt.Pick(16, 20), cfg, yield)
	}
	vt.Run(t, gen, nil, func(c vt.Case) vt.Event {
		w := decode[aWorld](c["world"])
		req := decode[aReq](c["req"])
		cfg := vt.Map(c["cfg"])
		b, err := cache.get(w)
		if err != nil {
			t.Fatalf("building world: %v", err)
		}
		ts := b.tsdbStoreExt(vt.Int(cfg["frame"]), vt.Bool(cfg["setext"]))
		bs, err := b.bucketStore(world.BucketOpts{})
		if err != nil {
			t.Fatalf("bucket store: %v", err)
		}
		px := b.proxy(ts, bs)
		ps, err := b.promStore(vt.Bool(cfg["promold"]), vt.Bool(cfg["samples"]))
		if err != nil {
			t.Fatalf("prometheus store: %v", err)
		}
		rc, err := b.receiver()
		if err != nil {
			t.Fatalf("receiver: %v", err)
		}
		ctx := context.Background()
		rb := vt.Int(cfg["rbatch"])
		sr := func() *storepb.SeriesRequest {
			return seriesReqOpt(req, rb, vt.Bool(cfg["skip"]), vt.Bool(cfg["hints"]))
		}
		return vt.Event{
			"tsdb":   seriesObs(world.CallSeries(ctx, ts, sr())),
			"bucket": seriesObs(world.CallSeries(ctx, bs, sr())),
			"proxy":  seriesObs(world.CallSeries(ctx, px, sr())),
			"prom":   seriesObs(world.CallSeries(ctx, ps, sr())),
			"recv":   seriesObs(world.CallSeries(ctx, rc.Proxy, sr())),
		}
	})
}
