package storeapis

import (
	"context"
	"fmt"
	"math/rand"
	"testing"

	"google.golang.org/grpc/status"

	"github.com/thanos-io/thanos/pkg/store/storepb"

	"verif/harness/vt"
	"verif/harness/world"
)

func callObs(vals []string, err error, pan string) map[string]any {
	kind, code, errs := "ok", "OK", ""
	if pan != "" {
		kind, code, errs = "panic", "Unknown", pan
	} else if err != nil {
		kind, code, errs = "error", status.Code(err).String(), err.Error()
	}
	if len(errs) > 300 {
		errs = errs[:300]
	}
	if vals == nil {
		vals = []string{}
	}
	return map[string]any{"kind": kind, "code": code, "err": errs, "vals": append([]string{}, vals...)}
}

func labelNamesObs(ctx context.Context, srv storepb.StoreServer, r aReq) (out map[string]any) {
	defer func() {
		if p := recover(); p != nil {
			out = callObs(nil, nil, fmt.Sprint(p))
		}
	}()
	resp, err := srv.LabelNames(ctx, &storepb.LabelNamesRequest{
		Start: r.Mint, End: r.Maxt, Matchers: r.matchers(), WithoutReplicaLabels: r.Rl,
	})
	if err != nil {
		return callObs(nil, err, "")
	}
	return callObs(resp.Names, nil, "")
}

func labelValuesObs(ctx context.Context, srv storepb.StoreServer, r aReq, name string) (out map[string]any) {
	defer func() {
		if p := recover(); p != nil {
			out = callObs(nil, nil, fmt.Sprint(p))
			out["n"] = name
		}
	}()
	resp, err := srv.LabelValues(ctx, &storepb.LabelValuesRequest{
		Label: name, Start: r.Mint, End: r.Maxt, Matchers: r.matchers(), WithoutReplicaLabels: r.Rl,
	})
	if err != nil {
		out = callObs(nil, err, "")
	} else {
		out = callObs(resp.Values, nil, "")
	}
	out["n"] = name
	return out
}

// storeObs makes the three calls of C07 on one store with the same selectors, time range and
// replica-label list: Series, LabelNames, and LabelValues for every name of the universe.
func storeObs(ctx context.Context, srv storepb.StoreServer, r aReq, rbatch int, skip bool) map[string]any {
	vals := make([]map[string]any, 0, len(allNames))
	for _, n := range allNames {
		vals = append(vals, labelValuesObs(ctx, srv, r, n))
	}
	return map[string]any{
		"series": seriesObs(world.CallSeries(ctx, srv, seriesReqOpt(r, rbatch, skip, false))),
		"names":  labelNamesObs(ctx, srv, r),
		"values": vals,
	}
}

// TestC07: label name/value APIs cover every label seen by Series, on the TSDB store, the bucket
// store (lazy expanded postings on/off), the proxy over both, and (phase 2) the PrometheusStore in
// front of a real Prometheus API (old/new label calls, streamed/sampled remote read) and the
// receiver's MultiTSDB proxy; SkipChunks on/off.
func TestC07(t *testing.T) {
	rnd := vt.Rand()
	cache := &worldCache{}
	defer cache.close()
	gen := func(yield func(vt.Case)) {
		cfg := func(rnd *rand.Rand) map[string]any {
			return map[string]any{"frame": 0, "rbatch": []int{0, 0, 1, 2}[rnd.Intn(4)], "lazy": rnd.Intn(2) == 0,
				"skip": rnd.Intn(4) == 0, "setext": rnd.Intn(3) == 0, "promold": rnd.Intn(3) == 0, "samples": rnd.Intn(3) == 0}
		}
		genWorldCases(t, rnd, vt.Pick(20, 200), vt.Pick(10, 100), vt.Pick(18, 30), vt.Pick(12, 20), cfg, yield)
	}
	vt.Run(t, gen, nil, func(c vt.Case) vt.Event {
		w := decode[aWorld](c["world"])
		req := decode[aReq](c["req"])
		cfg := vt.Map(c["cfg"])
		b, err := cache.get(w)
		if err != nil {
			t.Fatalf("building world: %v", err)
		}
		ts := b.tsdbStoreExt(vt.Int(cfg["frame"]), vt.Bool(cfg["setext"]))
		bs, err := b.bucketStore(world.BucketOpts{LazyPostings: vt.Bool(cfg["lazy"])})
		if err != nil {
			t.Fatalf("bucket store: %v", err)
		}
		px := b.proxy(ts, bs)
		ps, err := b.promStore(vt.Bool(cfg["promold"]), vt.Bool(cfg["samples"]))
		if err != nil {
			t.Fatalf("prometheus store: %v", err)
		}
		rc, err := b.receiver()
		if err != nil {
			t.Fatalf("receiver: %v", err)
		}
		ctx := context.Background()
		rb, skip := vt.Int(cfg["rbatch"]), vt.Bool(cfg["skip"])
		return vt.Event{
			"tsdb":   storeObs(ctx, ts, req, rb, skip),
			"bucket": storeObs(ctx, bs, req, rb, skip),
			"proxy":  storeObs(ctx, px, req, rb, skip),
			"prom":   storeObs(ctx, ps, req, rb, skip),
			"recv":   storeObs(ctx, rc.Proxy, req, rb, skip),
		}
	})
}
