// Package storeapis is the conformance harness of the StoreAPIs spec module (properties C07, C08,
// C09): abstract worlds and requests (from TLC's StoreAPIsMC and seeded random generation) are
// materialised as REAL thanos stores through verif/harness/world, the real Series / LabelNames /
// LabelValues calls are made, and what came back is recorded for the TLA+ trace specs.
//
// Case input ("in" of every trace line; self-contained, replayable):
//
//	world: {W, head: {ext: [[n,v]..], series: [{l: [[n,v]..], slots: [k..]}..]}, blocks: [{ext, series}..]}
//	req:   {ms: [{n, t: EQ|NEQ|RE|NRE, k: set|any|nonempty, alts: [..]}..], rl: [names], mint, maxt}
//	cfg:   {frame: TSDB store frame budget in bytes (0 = default 1 MiB), rbatch: response batch size, ...}
//
// A series has one chunk (two samples) per slot k, covering [k*W + W/4, k*W + W/2].
package storeapis

import (
	"context"
	"encoding/json"
	"fmt"
	"math"
	"math/rand"
	"net/http"
	"os"
	"sort"
	"strings"
	"testing"

	"github.com/prometheus/prometheus/tsdb"
	"github.com/thanos-io/objstore"

	"github.com/thanos-io/thanos/pkg/store"
	"github.com/thanos-io/thanos/pkg/store/labelpb"
	"github.com/thanos-io/thanos/pkg/store/storepb"

	"verif/harness/vt"
	"verif/harness/world"
)

const slotW = int64(7200000) // 2h in ms: chunk range of heads and blocks
const nSlots = 3

// ------------------------------------------------------------------------------------------
// abstract values (JSON shapes shared with the TLA+ specs)

type pair = [2]string

func pairsOf(m map[string]string) []pair {
	out := make([]pair, 0, len(m))
	for k, v := range m {
		out = append(out, pair{k, v})
	}
	sort.Slice(out, func(i, j int) bool { return out[i][0] < out[j][0] })
	return out
}

func mapOf(v any) map[string]string {
	out := map[string]string{}
	for _, p := range vt.List(v) {
		kv := vt.Strs(p)
		out[kv[0]] = kv[1]
	}
	return out
}

type aSeries struct {
	L     []pair `json:"l"`
	Slots []int  `json:"slots"`
}

type aSource struct {
	Ext    []pair    `json:"ext"`
	Series []aSeries `json:"series"`
	Res    int64     `json:"res"` // blocks only: 0 = raw, > 0 = downsampled to this resolution (ms)
}

// aTenant is one tenant of the receiver part of a world; aRecv the receiver: its external labels
// are the head's, every tenant's store adds tlabel=<tenant id> (overriding a same-named one).
type aTenant struct {
	ID     string    `json:"id"`
	Series []aSeries `json:"series"`
}

type aRecv struct {
	TLabel  string    `json:"tlabel"`
	Tenants []aTenant `json:"tenants"`
}

type aWorld struct {
	W      int64     `json:"W"`
	Head   aSource   `json:"head"`
	Blocks []aSource `json:"blocks"`
	Recv   aRecv     `json:"recv"`
}

type aMatcher struct {
	N    string   `json:"n"`
	T    string   `json:"t"`
	K    string   `json:"k"`
	Alts []string `json:"alts"`
}

type aReq struct {
	Ms     []aMatcher `json:"ms"`
	Rl     []string   `json:"rl"`
	Mint   int64      `json:"mint"`
	Maxt   int64      `json:"maxt"`
	MaxRes int64      `json:"maxres"` // max_resolution_window: 0 = raw data only
}

func chunkMin(k int) int64 { return int64(k)*slotW + slotW/4 }
func chunkMax(k int) int64 { return int64(k)*slotW + slotW/2 }

func decode[T any](v any) T {
	b, err := json.Marshal(v)
	if err != nil {
		panic(err)
	}
	var out T
	if err := json.Unmarshal(b, &out); err != nil {
		panic(fmt.Sprintf("decode %s: %v", b, err))
	}
	return out
}

func (m aMatcher) toProto() storepb.LabelMatcher {
	var typ storepb.LabelMatcher_Type
	switch m.T {
	case "EQ":
		typ = storepb.LabelMatcher_EQ
	case "NEQ":
		typ = storepb.LabelMatcher_NEQ
	case "RE":
		typ = storepb.LabelMatcher_RE
	case "NRE":
		typ = storepb.LabelMatcher_NRE
	default:
		panic("matcher type " + m.T)
	}
	val := ""
	switch m.K {
	case "set":
		if m.T == "EQ" || m.T == "NEQ" {
			if len(m.Alts) != 1 {
				panic("EQ/NEQ matcher needs exactly one literal")
			}
			val = m.Alts[0]
		} else {
			val = strings.Join(m.Alts, "|") // alternation of literals; an empty alternative matches ""
		}
	case "any":
		val = ".*"
	case "nonempty":
		val = ".+"
	default:
		panic("matcher kind " + m.K)
	}
	return storepb.LabelMatcher{Type: typ, Name: m.N, Value: val}
}

func (r aReq) matchers() []storepb.LabelMatcher {
	out := make([]storepb.LabelMatcher, 0, len(r.Ms))
	for _, m := range r.Ms {
		out = append(out, m.toProto())
	}
	return out
}

// ------------------------------------------------------------------------------------------
// abstract world -> real stores

func (s aSource) series() []world.Series {
	out := make([]world.Series, 0, len(s.Series))
	for _, as := range s.Series {
		ws := world.Series{Labels: map[string]string{}}
		for _, p := range as.L {
			ws.Labels[p[0]] = p[1]
		}
		sl := append([]int{}, as.Slots...)
		sort.Ints(sl)
		for _, k := range sl {
			ws.Samples = append(ws.Samples,
				world.Sample{T: chunkMin(k), V: float64(k + 1)},
				world.Sample{T: chunkMax(k), V: float64(k + 2)})
		}
		out = append(out, ws)
	}
	return out
}

func (s aSource) ext() map[string]string {
	out := map[string]string{}
	for _, p := range s.Ext {
		out[p[0]] = p[1]
	}
	return out
}

// built is one materialised world. Stores over the same data with other configurations are
// created on demand and cached until the world is closed.
type built struct {
	key     string
	dir     string
	w       aWorld
	db      *tsdb.DB
	bkt     objstore.Bucket
	tsdbs   map[int]*store.TSDBStore
	buckets map[string]*store.BucketStore
	nb      int
	promAPI http.Handler
	proms   map[string]*store.PrometheusStore
	rcv     *world.Receiver
}

func scratchRoot() string {
	if s := os.Getenv("VERIF_SCRATCH"); s != "" {
		return s
	}
	return os.TempDir()
}

func buildWorld(w aWorld) (*built, error) {
	if w.W != slotW {
		return nil, fmt.Errorf("world slot width %d, harness supports %d", w.W, slotW)
	}
	dir, err := os.MkdirTemp(scratchRoot(), "world-")
	if err != nil {
		return nil, err
	}
	b := &built{dir: dir, w: w, tsdbs: map[int]*store.TSDBStore{}, buckets: map[string]*store.BucketStore{}, proms: map[string]*store.PrometheusStore{}}
	ok := false
	defer func() {
		if !ok {
			b.Close()
		}
	}()
	b.db, err = world.OpenTSDB(dir+"/tsdb", world.Head{Ext: w.Head.ext(), Series: w.Head.series(), ChunkRange: slotW})
	if err != nil {
		return nil, fmt.Errorf("tsdb: %w", err)
	}
	b.bkt = objstore.NewInMemBucket()
	var blocks []world.Block
	for _, ab := range w.Blocks {
		blocks = append(blocks, world.Block{Ext: ab.ext(), Series: ab.series(), ChunkRange: slotW, Resolution: ab.Res})
	}
	if _, err := world.UploadBlocks(context.Background(), b.bkt, dir, blocks); err != nil {
		return nil, err
	}
	ok = true
	return b, nil
}

func (b *built) Close() {
	for _, s := range b.buckets {
		_ = s.Close()
	}
	if b.rcv != nil {
		b.rcv.Close()
	}
	if b.db != nil {
		_ = b.db.Close()
	}
	_ = os.RemoveAll(b.dir)
}

// tsdbStore returns the TSDB store with the given frame budget (0 = default).
func (b *built) tsdbStore(frame int) *store.TSDBStore { return b.tsdbStoreExt(frame, false) }

// tsdbStoreExt: with setext the store is constructed with OTHER external labels (other names) and
// gets the world's external labels through SetExtLset afterwards, as the receiver's MultiTSDB does at
// runtime (SetHashringConfig); every call after that must present the new ones.
func (b *built) tsdbStoreExt(frame int, setext bool) *store.TSDBStore {
	key := frame
	if setext {
		key = -1 - frame
	}
	if s, ok := b.tsdbs[key]; ok {
		return s
	}
	var opts []store.TSDBStoreOption
	if frame > 0 {
		opts = append(opts, store.VerifWithMaxBytesPerFrame(frame))
	}
	var s *store.TSDBStore
	if setext {
		s = world.NewTSDBStore(b.db, map[string]string{"initial": "1", "b": "init"}, opts...)
		s.SetExtLset(world.Lset(b.w.Head.ext()))
	} else {
		s = world.NewTSDBStore(b.db, b.w.Head.ext(), opts...)
	}
	b.tsdbs[key] = s
	return s
}

// promStore returns the sidecar layout: a PrometheusStore (external labels = the head's) in front
// of the real Prometheus API over the head's TSDB. old = Prometheus without matcher support in the
// label calls; samples = sampled instead of streamed remote read.
func (b *built) promStore(old, samples bool) (*store.PrometheusStore, error) {
	key := fmt.Sprintf("%v/%v", old, samples)
	if s, ok := b.proms[key]; ok {
		return s, nil
	}
	if b.promAPI == nil {
		b.promAPI = world.PrometheusAPI(b.db)
	}
	mint := int64(math.MaxInt64)
	for _, sr := range b.w.Head.Series {
		for _, k := range sr.Slots {
			if chunkMin(k) < mint {
				mint = chunkMin(k)
			}
		}
	}
	ver := "2.45.0"
	if old {
		ver = "2.20.0"
	}
	s, err := world.NewPrometheusStore(b.promAPI, b.w.Head.ext(), world.PromOpts{Version: ver, MinTime: mint})
	if err != nil {
		return nil, err
	}
	if samples {
		store.VerifRemoteReadSamplesOnly(s)
	}
	b.proms[key] = s
	return s, nil
}

// receiver returns the receiver layout of the world (built on first use).
func (b *built) receiver() (*world.Receiver, error) {
	if b.rcv != nil {
		return b.rcv, nil
	}
	var tenants []world.Tenant
	for _, t := range b.w.Recv.Tenants {
		tenants = append(tenants, world.Tenant{ID: t.ID, Series: aSource{Series: t.Series}.series()})
	}
	r, err := world.NewReceiver(b.dir+"/recv", b.w.Head.ext(), b.w.Recv.TLabel, slotW, tenants)
	if err != nil {
		return nil, err
	}
	b.rcv = r
	return r, nil
}

// bucketStore returns the (cached) bucket store with the given configuration.
func (b *built) bucketStore(o world.BucketOpts) (*store.BucketStore, error) {
	key := fmt.Sprintf("%d/%d/%v/%d", o.SeriesLimit, o.ChunksLimit, o.LazyPostings, o.BatchSize)
	if s, ok := b.buckets[key]; ok {
		return s, nil
	}
	b.nb++
	s, err := world.NewBucketStore(context.Background(), b.bkt, fmt.Sprintf("%s/bs-%d", b.dir, b.nb), o)
	if err != nil {
		return nil, err
	}
	b.buckets[key] = s
	return s, nil
}

// proxy over the TSDB store and the bucket store, announced the way the real components
// announce themselves (their own LabelSet() and TimeRange()).
func (b *built) proxy(ts *store.TSDBStore, bs *store.BucketStore) *store.ProxyStore {
	lsets := func(zs []labelpb.ZLabelSet) []map[string]string {
		var out []map[string]string
		for _, z := range zs {
			m := map[string]string{}
			for _, l := range z.Labels {
				m[l.Name] = l.Value
			}
			out = append(out, m)
		}
		return out
	}
	tmin, tmax := ts.TimeRange()
	bmin, bmax := bs.TimeRange()
	return world.NewProxy(store.EagerRetrieval,
		world.AsClient(ts, world.ClientOpts{Name: "tsdb", ExtLsets: lsets(ts.LabelSet()), MinTime: tmin, MaxTime: tmax, WithoutReplicaLabels: true}),
		world.AsClient(bs, world.ClientOpts{Name: "bucket", ExtLsets: lsets(bs.LabelSet()), MinTime: bmin, MaxTime: bmax, WithoutReplicaLabels: true}),
	)
}

// worldCache keeps the last built world: consecutive cases over the same world share it.
type worldCache struct {
	cur *built
}

func (c *worldCache) get(w aWorld) (*built, error) {
	kb, _ := json.Marshal(w)
	key := string(kb)
	if c.cur != nil && c.cur.key == key {
		return c.cur, nil
	}
	c.close()
	b, err := buildWorld(w)
	if err != nil {
		return nil, err
	}
	b.key = key
	c.cur = b
	return b, nil
}

func (c *worldCache) close() {
	if c.cur != nil {
		c.cur.Close()
		c.cur = nil
	}
}

// ------------------------------------------------------------------------------------------
// observations

func seriesObs(r world.SeriesResult) map[string]any {
	ls := make([][]pair, 0, len(r.Frames))
	nc := make([]int, 0, len(r.Frames))
	for _, f := range r.Frames {
		ps := make([]pair, 0, len(f.Labels))
		for _, l := range f.Labels {
			ps = append(ps, pair{l[0], l[1]})
		}
		ls = append(ls, ps)
		nc = append(nc, len(f.Chunks))
	}
	kind := "ok"
	errs := ""
	if r.Panic != "" {
		kind, errs = "panic", r.Panic
	} else if r.Err != nil {
		kind, errs = "error", r.Err.Error()
	}
	if len(errs) > 300 {
		errs = errs[:300]
	}
	return map[string]any{"kind": kind, "code": r.Code.String(), "err": errs, "ls": ls, "nc": nc, "warn": len(r.Warnings)}
}

func seriesReq(r aReq, rbatch int) *storepb.SeriesRequest {
	return &storepb.SeriesRequest{
		MinTime:              r.Mint,
		MaxTime:              r.Maxt,
		Matchers:             r.matchers(),
		WithoutReplicaLabels: r.Rl,
		ResponseBatchSize:    int64(rbatch),
	}
}

// seriesReqOpt additionally sets SkipChunks and (never result-changing) query hints.
func seriesReqOpt(r aReq, rbatch int, skip, hints bool) *storepb.SeriesRequest {
	q := seriesReq(r, rbatch)
	q.SkipChunks = skip
	// downsampled data allowed up to 1h resolution, all aggregates (what the querier sends with
	// --query.auto-downsampling); stores without downsampled data ignore both
	q.MaxResolutionWindow = r.MaxRes
	q.Aggregates = []storepb.Aggr{storepb.Aggr_COUNT, storepb.Aggr_SUM, storepb.Aggr_MIN, storepb.Aggr_MAX, storepb.Aggr_COUNTER}
	if hints {
		q.QueryHints = &storepb.QueryHints{StepMillis: 60000, Func: &storepb.Func{Name: "rate"}, Range: &storepb.Range{Millis: 300000},
			Grouping: &storepb.Grouping{By: true, Labels: []string{"a"}}}
	}
	return q
}

// ------------------------------------------------------------------------------------------
// generation: TLC's abstract worlds/requests + seeded random ones -> concrete cases

type absWorld struct {
	Series [][]pair `json:"series"`
	Ext    []pair   `json:"ext"`
}

type absReq struct {
	Ms []aMatcher `json:"ms"`
	Rl []string   `json:"rl"`
}

// tlcAbstract splits the TLC case file into abstract worlds and abstract requests.
func tlcAbstract(t testing.TB) (ws []absWorld, rs []absReq) {
	for _, c := range vt.TLCCases(t) {
		switch vt.Str(c["kind"]) {
		case "world":
			ws = append(ws, decode[absWorld](map[string]any(c)))
		case "req":
			rs = append(rs, decode[absReq](map[string]any(c)))
		}
	}
	return ws, rs
}

func randSlots(rnd *rand.Rand) []int {
	for {
		var out []int
		for k := 0; k < nSlots; k++ {
			if rnd.Intn(2) == 0 {
				out = append(out, k)
			}
		}
		if len(out) > 0 {
			return out
		}
	}
}

func subsetSeries(rnd *rand.Rand, ls [][]pair, keepAll bool) []aSeries {
	out := []aSeries{}
	for _, l := range ls {
		if keepAll || rnd.Intn(3) > 0 {
			out = append(out, aSeries{L: append([]pair{}, l...), Slots: randSlots(rnd)})
		}
	}
	return out
}

var extNames = []string{"a", "b", "c", "r"}
var allNames = []string{"__name__", "a", "b", "c", "r"}
var allVals = []string{"x", "y", "z", "e"}

// variantExt returns external labels differing from ext in one respect (other value, a label
// less, a label more): a second block of the same bucket with its own external labels.
func variantExt(rnd *rand.Rand, ext []pair) []pair {
	m := map[string]string{}
	for _, p := range ext {
		m[p[0]] = p[1]
	}
	switch rnd.Intn(4) {
	case 0: // same
	case 1:
		if len(ext) > 0 {
			p := ext[rnd.Intn(len(ext))]
			m[p[0]] = allVals[rnd.Intn(len(allVals))]
		}
	case 2:
		if len(ext) > 0 {
			delete(m, ext[rnd.Intn(len(ext))][0])
		}
	case 3:
		m[extNames[rnd.Intn(len(extNames))]] = allVals[rnd.Intn(len(allVals))]
	}
	return pairsOf(m)
}

// blockExt: thanos refuses to upload a block without external labels, so a block of a world
// without external labels gets the label c="e" (names and values of the common universe).
func blockExt(ext []pair) []pair {
	if len(ext) == 0 {
		return []pair{{"c", "e"}}
	}
	return append([]pair{}, ext...)
}

// concretise turns an abstract world (label sets + external labels) into a head and 1-2 blocks
// with seeded slot placement.
func concretise(rnd *rand.Rand, aw absWorld) aWorld {
	w := aWorld{W: slotW}
	ext := append([]pair{}, aw.Ext...)
	w.Head = aSource{Ext: ext, Series: subsetSeries(rnd, aw.Series, true)}
	w.Blocks = []aSource{{Ext: blockExt(ext), Series: subsetSeries(rnd, aw.Series, true)}}
	if rnd.Intn(2) == 0 {
		w.Blocks = append(w.Blocks, aSource{Ext: blockExt(variantExt(rnd, ext)), Series: subsetSeries(rnd, aw.Series, false)})
	}
	// phase 2: some blocks are really downsampled (5m aggregate chunks)
	for i := range w.Blocks {
		if rnd.Intn(4) == 0 {
			w.Blocks[i].Res = 300000
		}
	}
	// receiver: tenant label from the common universe (so that it collides with stored, external and
	// replica labels), tenant ids from the value universe; the second tenant may be empty
	w.Recv = aRecv{TLabel: []string{"c", "r", "a"}[rnd.Intn(3)], Tenants: []aTenant{
		{ID: "x", Series: subsetSeries(rnd, aw.Series, true)},
		{ID: "e", Series: subsetSeries(rnd, aw.Series, false)},
	}}
	return w
}

func randLabels(rnd *rand.Rand, names, vals []string) []pair {
	m := map[string]string{}
	for _, n := range names {
		if rnd.Intn(2) == 0 {
			m[n] = vals[rnd.Intn(len(vals))]
		}
	}
	return pairsOf(m)
}

// randWorld is a seeded random abstract world over a larger universe than TLC's.
func randWorld(rnd *rand.Rand) absWorld {
	aw := absWorld{Series: [][]pair{}, Ext: []pair{}}
	seen := map[string]bool{}
	n := 1 + rnd.Intn(6)
	for i := 0; i < n; i++ {
		l := randLabels(rnd, allNames, allVals[:3])
		if len(l) == 0 {
			continue
		}
		k := fmt.Sprint(l)
		if seen[k] {
			continue
		}
		seen[k] = true
		aw.Series = append(aw.Series, l)
	}
	if len(aw.Series) == 0 {
		aw.Series = append(aw.Series, []pair{{"a", "x"}})
	}
	if rnd.Intn(5) > 0 {
		for _, n := range extNames {
			if rnd.Intn(3) == 0 {
				aw.Ext = append(aw.Ext, pair{n, []string{"x", "e"}[rnd.Intn(2)]})
			}
		}
	}
	return aw
}

func randMatcher(rnd *rand.Rand) aMatcher {
	m := aMatcher{N: allNames[rnd.Intn(len(allNames))], T: []string{"EQ", "NEQ", "RE", "NRE"}[rnd.Intn(4)]}
	vals := append([]string{""}, allVals...)
	if m.T == "EQ" || m.T == "NEQ" {
		m.K, m.Alts = "set", []string{vals[rnd.Intn(len(vals))]}
		return m
	}
	switch rnd.Intn(4) {
	case 0:
		m.K, m.Alts = "any", []string{}
	case 1:
		m.K, m.Alts = "nonempty", []string{}
	default:
		m.K = "set"
		n := 1 + rnd.Intn(3)
		seen := map[string]bool{}
		for i := 0; i < n; i++ {
			v := vals[rnd.Intn(len(vals))]
			if !seen[v] {
				seen[v] = true
				m.Alts = append(m.Alts, v)
			}
		}
	}
	return m
}

func randReq(rnd *rand.Rand) absReq {
	r := absReq{Ms: []aMatcher{}, Rl: []string{}}
	n := rnd.Intn(4)
	for i := 0; i < n; i++ {
		r.Ms = append(r.Ms, randMatcher(rnd))
	}
	for _, nm := range allNames[1:] {
		if rnd.Intn(4) == 0 {
			r.Rl = append(r.Rl, nm)
		}
	}
	return r
}

// acceptingMatcher returns a matcher on name n that accepts value v ("" = label absent).
func acceptingMatcher(rnd *rand.Rand, n, v string) aMatcher {
	other := allVals[rnd.Intn(len(allVals))]
	for other == v {
		other = allVals[rnd.Intn(len(allVals))]
	}
	switch rnd.Intn(6) {
	case 0:
		return aMatcher{N: n, T: "NEQ", K: "set", Alts: []string{other}}
	case 1:
		return aMatcher{N: n, T: "RE", K: "set", Alts: []string{other, v}}
	case 2:
		return aMatcher{N: n, T: "NRE", K: "set", Alts: []string{other}}
	case 3:
		if v != "" {
			return aMatcher{N: n, T: "RE", K: "nonempty", Alts: []string{}}
		}
		return aMatcher{N: n, T: "NRE", K: "nonempty", Alts: []string{}}
	case 4:
		return aMatcher{N: n, T: "RE", K: "any", Alts: []string{}}
	default:
		return aMatcher{N: n, T: "EQ", K: "set", Alts: []string{v}}
	}
}

// worldReq builds a request aimed at the world: 1-3 matchers that accept one of its series as
// the store presents it (stored labels overridden by the source's external labels), sometimes
// with one random extra matcher, and replica labels drawn from the names in use.
func worldReq(rnd *rand.Rand, w aWorld) absReq {
	srcs := append([]aSource{w.Head}, w.Blocks...)
	src := srcs[rnd.Intn(len(srcs))]
	r := absReq{Ms: []aMatcher{}, Rl: []string{}}
	if len(src.Series) == 0 {
		return randReq(rnd)
	}
	sr := src.Series[rnd.Intn(len(src.Series))]
	eff := map[string]string{}
	for _, p := range sr.L {
		eff[p[0]] = p[1]
	}
	for _, p := range src.Ext {
		eff[p[0]] = p[1]
	}
	n := 1 + rnd.Intn(3)
	for i := 0; i < n; i++ {
		nm := allNames[rnd.Intn(len(allNames))]
		r.Ms = append(r.Ms, acceptingMatcher(rnd, nm, eff[nm]))
	}
	if rnd.Intn(4) == 0 {
		r.Ms = append(r.Ms, randMatcher(rnd))
	}
	for _, nm := range allNames[1:] {
		if rnd.Intn(4) == 0 {
			r.Rl = append(r.Rl, nm)
		}
	}
	return r
}

// timeRange picks a seeded request range: everything, one slot's chunk, or boundary points
// around a chunk (just before / on / just after its first and last sample).
func timeRange(rnd *rand.Rand) (int64, int64) {
	k := rnd.Intn(nSlots)
	switch rnd.Intn(8) {
	case 0, 1, 2:
		return 0, int64(nSlots) * slotW
	case 3:
		return chunkMin(k), chunkMax(k)
	case 4:
		return chunkMax(k), chunkMax(k)
	case 5:
		return chunkMax(k) + 1, chunkMin(k+1) - 1 // between two chunks
	case 6:
		return chunkMin(k), chunkMin(k)
	default:
		k2 := k + rnd.Intn(nSlots-k)
		return chunkMin(k) + int64(rnd.Intn(3)-1), chunkMax(k2) + int64(rnd.Intn(3)-1)
	}
}

func concretiseReq(rnd *rand.Rand, ar absReq) aReq {
	mint, maxt := timeRange(rnd)
	ms := ar.Ms
	if ms == nil {
		ms = []aMatcher{}
	}
	for i := range ms {
		if ms[i].Alts == nil {
			ms[i].Alts = []string{}
		}
	}
	rl := ar.Rl
	if rl == nil {
		rl = []string{}
	}
	return aReq{Ms: ms, Rl: rl, Mint: mint, Maxt: maxt, MaxRes: []int64{0, 300000, 3600000, 3600000}[rnd.Intn(4)]}
}

// genWorldCases yields (world, request) cases: nWorldsTLC worlds sampled from TLC's abstract
// worlds (all of them when there are fewer) and nWorldsRand seeded random worlds, each with
// reqsTLC requests sampled from TLC's abstract requests and reqsRand random ones. cfg decorates
// every case with its configuration.
func genWorldCases(t testing.TB, rnd *rand.Rand, nWorldsTLC, nWorldsRand, reqsTLC, reqsRand int,
	cfg func(rnd *rand.Rand) map[string]any, yield func(vt.Case)) {
	tw, tr := tlcAbstract(t)
	var worlds []absWorld
	if len(tw) <= nWorldsTLC {
		worlds = append(worlds, tw...)
	} else {
		for _, i := range rnd.Perm(len(tw))[:nWorldsTLC] {
			worlds = append(worlds, tw[i])
		}
	}
	for i := 0; i < nWorldsRand; i++ {
		worlds = append(worlds, randWorld(rnd))
	}
	for _, aw := range worlds {
		w := concretise(rnd, aw)
		var reqs []absReq
		if len(tr) <= reqsTLC {
			reqs = append(reqs, tr...)
		} else {
			for _, i := range rnd.Perm(len(tr))[:reqsTLC] {
				reqs = append(reqs, tr[i])
			}
		}
		for i := 0; i < reqsRand; i++ {
			if i%4 == 0 {
				reqs = append(reqs, randReq(rnd))
			} else {
				reqs = append(reqs, worldReq(rnd, w))
			}
		}
		for _, ar := range reqs {
			yield(vt.Case{"world": w, "req": concretiseReq(rnd, ar), "cfg": cfg(rnd)})
		}
	}
}
