package storeapis

import (
	"context"
	"fmt"
	"math/rand"
	"sync"
	"testing"

	"github.com/prometheus/client_golang/prometheus"

	"github.com/thanos-io/thanos/pkg/store"
	"github.com/thanos-io/thanos/pkg/store/storepb"

	"verif/harness/vt"
	"verif/harness/world"
)

// limiterWorkload is one abstract case of LimiterMC: per block the chunk counts of the series it
// contributes and the number of postings that match the selectors but have no chunk in range.
type limiterWorkload struct {
	Blocks [][]int `json:"blocks"`
	Extra  []int   `json:"extra"`
}

// workloadWorld materialises a LimiterMC workload: every series carries a="x" (the selector) and a
// unique b; a series with n chunks occupies slots 0..n-1; a "posting without series" occupies only
// slot 2, outside the request range [0, chunkMax(1)]. The head holds all series of all blocks.
func workloadWorld(wl limiterWorkload) (aWorld, aReq) {
	w := aWorld{W: slotW, Head: aSource{Ext: []pair{{"c", "e"}}, Series: []aSeries{}}, Blocks: []aSource{}}
	for i, blk := range wl.Blocks {
		src := aSource{Ext: []pair{{"c", "e"}}, Series: []aSeries{}}
		for j, n := range blk {
			slots := []int{}
			for k := 0; k < n && k < 2; k++ {
				slots = append(slots, k)
			}
			src.Series = append(src.Series, aSeries{L: []pair{{"a", "x"}, {"b", fmt.Sprintf("s%d_%d", i, j)}}, Slots: slots})
		}
		ex := 0
		if i < len(wl.Extra) {
			ex = wl.Extra[i]
		}
		for k := 0; k < ex; k++ {
			src.Series = append(src.Series, aSeries{L: []pair{{"a", "x"}, {"b", fmt.Sprintf("e%d_%d", i, k)}}, Slots: []int{2}})
		}
		if len(src.Series) == 0 {
			continue // tsdb cannot write an empty block
		}
		w.Blocks = append(w.Blocks, src)
		w.Head.Series = append(w.Head.Series, src.Series...)
	}
	// receiver layout: one tenant holding everything, a second one holding the first block's series
	w.Recv = aRecv{TLabel: "c", Tenants: []aTenant{{ID: "x", Series: w.Head.Series}, {ID: "e", Series: []aSeries{}}}}
	if len(w.Blocks) > 0 {
		w.Recv.Tenants[1].Series = w.Blocks[0].Series
	}
	req := aReq{Ms: []aMatcher{{N: "a", T: "EQ", K: "set", Alts: []string{"x"}}}, Rl: []string{}, Mint: 0, Maxt: chunkMax(1)}
	return w, req
}

type limMode struct {
	Mode string `json:"mode"` // "rel": true count + D; "abs": V; "off": unlimited
	D    int    `json:"d"`
	V    int    `json:"v"`
}

func (m limMode) value(trueCount int) uint64 {
	switch m.Mode {
	case "rel":
		if v := trueCount + m.D; v > 0 {
			return uint64(v)
		}
		return 0
	case "abs":
		return uint64(m.V)
	}
	return 0
}

var limModes = []limMode{{Mode: "rel", D: -1}, {Mode: "rel", D: 0}, {Mode: "rel", D: 1}, {Mode: "abs", V: 1}, {Mode: "off"}}

func randLimitCfg(rnd *rand.Rand) map[string]any {
	sl, cl := limModes[rnd.Intn(len(limModes))], limModes[rnd.Intn(len(limModes))]
	switch rnd.Intn(3) { // mostly vary one limit at a time
	case 0:
		sl = limMode{Mode: "off"}
	case 1:
		cl = limMode{Mode: "off"}
	}
	kind := "bucket"
	switch rnd.Intn(8) {
	case 0, 1:
		kind = "tsdbl"
	case 2:
		kind = "recvl"
	}
	return map[string]any{
		"store": kind, "lazy": rnd.Intn(2) == 0, "batch": []int{0, 1, 2}[rnd.Intn(3)],
		"rbatch": []int{0, 0, 1, 2}[rnd.Intn(4)], "sl": sl, "cl": cl,
		"skip": rnd.Intn(5) == 0, "conc": []int{1, 1, 3}[rnd.Intn(3)],
	}
}

func countObs(r world.SeriesResult) map[string]any {
	o := seriesObs(r)
	distinct := map[string]bool{}
	nc := 0
	for _, f := range r.Frames {
		distinct[fmt.Sprint(f.Labels)] = true
		nc += len(f.Chunks)
	}
	return map[string]any{"kind": o["kind"], "code": o["code"], "err": o["err"], "ns": len(distinct), "nc": nc, "frames": len(r.Frames)}
}

// TestC09: series / chunk request limits are enforced. Every case runs one Series request twice:
// on the store without limits (the true counts of the answer) and on the same store configured
// with limits derived from them (true-1, true, true+1, 1, off), lazy expanded postings on/off and
// series batch sizes 1, 2, default. Stores: BucketStore with limiter factories, and TSDBStore
// behind store.NewLimitedStoreServer (limit in samples = chunks * 120).
func TestC09(t *testing.T) {
	rnd := vt.Rand()
	cache := &worldCache{}
	defer cache.close()
	gen := func(yield func(vt.Case)) {
		var wls []limiterWorkload
		for _, c := range vt.TLCCases(t) {
			wls = append(wls, decode[limiterWorkload](map[string]any(c)))
		}
		nW := vt.Pick(16, 70)
		perWorld := vt.Pick(12, 20)
		if len(wls) > nW {
			p := rnd.Perm(len(wls))
			sel := make([]limiterWorkload, 0, nW)
			for _, i := range p[:nW] {
				sel = append(sel, wls[i])
			}
			wls = sel
		}
		for _, wl := range wls {
			w, req := workloadWorld(wl)
			if len(w.Blocks) == 0 {
				continue
			}
			for i := 0; i < perWorld; i++ {
				yield(vt.Case{"world": w, "req": req, "cfg": randLimitCfg(rnd)})
			}
		}
		// seeded random worlds with requests aimed at them
		for i := 0; i < vt.Pick(8, 40); i++ {
			w := concretise(rnd, randWorld(rnd))
			for j := 0; j < vt.Pick(3, 4); j++ {
				req := concretiseReq(rnd, worldReq(rnd, w))
				if j%2 == 0 {
					req.Mint, req.Maxt = 0, int64(nSlots)*slotW
				}
				for k := 0; k < vt.Pick(4, 5); k++ {
					yield(vt.Case{"world": w, "req": req, "cfg": randLimitCfg(rnd)})
				}
			}
		}
	}
	vt.Run(t, gen, nil, func(c vt.Case) vt.Event {
		w := decode[aWorld](c["world"])
		req := decode[aReq](c["req"])
		cfg := vt.Map(c["cfg"])
		slm, clm := decode[limMode](cfg["sl"]), decode[limMode](cfg["cl"])
		lazy, batch, rb := vt.Bool(cfg["lazy"]), vt.Int(cfg["batch"]), vt.Int(cfg["rbatch"])
		b, err := cache.get(w)
		if err != nil {
			t.Fatalf("building world: %v", err)
		}
		ctx := context.Background()
		skip, conc := vt.Bool(cfg["skip"]), vt.Int(cfg["conc"])
		var unlSrv storepb.StoreServer
		switch vt.Str(cfg["store"]) {
		case "recvl":
			rc, err := b.receiver()
			if err != nil {
				t.Fatalf("receiver: %v", err)
			}
			unlSrv = rc.Proxy
		case "bucket":
			unlSrv, err = b.bucketStore(world.BucketOpts{LazyPostings: lazy, BatchSize: batch})
			if err != nil {
				t.Fatalf("bucket store: %v", err)
			}
		case "tsdbl":
			unlSrv = b.tsdbStore(0)
		default:
			t.Fatalf("unknown store kind %v", cfg["store"])
		}
		unl := world.CallSeries(ctx, unlSrv, seriesReqOpt(req, rb, skip, false))
		uo := countObs(unl)
		sl, cl := slm.value(uo["ns"].(int)), clm.value(uo["nc"].(int))
		var limSrv storepb.StoreServer
		switch vt.Str(cfg["store"]) {
		case "bucket":
			limSrv, err = b.bucketStore(world.BucketOpts{SeriesLimit: sl, ChunksLimit: cl, LazyPostings: lazy, BatchSize: batch})
			if err != nil {
				t.Fatalf("bucket store: %v", err)
			}
		case "tsdbl":
			limSrv = store.NewLimitedStoreServer(b.tsdbStore(0), prometheus.NewRegistry(),
				store.SeriesSelectLimits{SeriesPerRequest: sl, SamplesPerRequest: cl * store.MaxSamplesPerChunk})
		case "recvl": // cmd/thanos/receive.go: the limited server wraps the proxy over the tenants' stores
			limSrv = store.NewLimitedStoreServer(unlSrv, prometheus.NewRegistry(),
				store.SeriesSelectLimits{SeriesPerRequest: sl, SamplesPerRequest: cl * store.MaxSamplesPerChunk})
		}
		// conc identical requests at the same time on the same limited store: a limit is per request,
		// so every one of them is judged on its own
		lims := make([]map[string]any, conc)
		var wg sync.WaitGroup
		for i := 0; i < conc; i++ {
			wg.Add(1)
			go func(i int) {
				defer wg.Done()
				lims[i] = countObs(world.CallSeries(ctx, limSrv, seriesReqOpt(req, rb, skip, false)))
			}(i)
		}
		wg.Wait()
		return vt.Event{"sl": int(sl), "cl": int(cl), "unl": uo, "lim": lims[0], "more": lims[1:]}
	})
}
