// Package capnpx: conformance harness of property C25 (the Cap'n Proto replication encoding of
// write requests is lossless) against pkg/receive/writecapnp and pkg/symboltable.
package capnpx

import (
	"context"
	"fmt"
	"math"
	"math/rand"
	"net"
	"strconv"
	"strings"
	"sync"
	"testing"
	"time"

	"capnproto.org/go/capnp/v3"
	"capnproto.org/go/capnp/v3/rpc"
	"github.com/go-kit/log"
	"crypto/sha256"

	"github.com/prometheus/client_golang/prometheus"
	"github.com/prometheus/prometheus/model/exemplar"
	"github.com/prometheus/prometheus/model/histogram"
	"github.com/prometheus/prometheus/model/labels"
	"github.com/prometheus/prometheus/model/metadata"
	"github.com/prometheus/prometheus/model/value"
	"github.com/prometheus/prometheus/storage"

	"github.com/thanos-io/thanos/pkg/receive"

	"github.com/thanos-io/thanos/pkg/receive/writecapnp"
	"github.com/thanos-io/thanos/pkg/store/labelpb"
	"github.com/thanos-io/thanos/pkg/store/storepb"
	"github.com/thanos-io/thanos/pkg/store/storepb/prompb"

	"verif/harness/vt"
)

// A case is one write request in the model's input form (CapnpWire.tla): a list of tenant tuples,
// every string a list of characters, every number a token (decimal / float literal, "NaN",
// "stale", "Inf"). The harness builds the protobuf request, encodes it with the REAL encoder on
// every path that exists in the code and decodes it with the REAL decoder:
//
//	build       writecapnp.Marshal (Build/BuildInto)      -> capnp.Unmarshal       -> NewRequest/At
//	packed      writecapnp.MarshalPacked                  -> capnp.UnmarshalPacked -> NewRequest/At
//	rpc         RemoteWriteClient.RemoteWrite (TimeseriesTenantData, one symbol table for all
//	            tenants) over a loopback Cap'n Proto RPC connection -> Writer server -> NewRequest/At
//	rpc-single  the same with the deprecated single-tenant layout  -> NewSingleTenantRequest/At
//
// and records, next to each other, `want` = the request as a receiver gets it when nothing is lost
// (the conversion of the protobuf replication path) and `got[path]` = the decoded series.
// C25Trace compares them field by field.

// ---------------------------------------------------------------------------------------------
// tokens -> numbers

func chars(v any) string {
	if s, ok := v.(string); ok {
		return s
	}
	var sb strings.Builder
	for _, c := range vt.List(v) {
		sb.WriteString(vt.Str(c))
	}
	return sb.String()
}

func tokF(v any) float64 {
	s := vt.Str(v)
	switch s {
	case "NaN":
		return math.NaN()
	case "stale":
		return math.Float64frombits(value.StaleNaN)
	case "Inf":
		return math.Inf(1)
	case "-Inf":
		return math.Inf(-1)
	case "-0":
		return math.Copysign(0, -1)
	}
	f, err := strconv.ParseFloat(s, 64)
	if err != nil {
		panic("bad float token " + s)
	}
	return f
}
func tokI(v any) int64 {
	i, err := strconv.ParseInt(vt.Str(v), 10, 64)
	if err != nil {
		panic("bad int token " + vt.Str(v))
	}
	return i
}
func tokU(v any) uint64 {
	i, err := strconv.ParseUint(vt.Str(v), 10, 64)
	if err != nil {
		panic("bad uint token " + vt.Str(v))
	}
	return i
}

func pbLabels(v any) []labelpb.ZLabel {
	out := []labelpb.ZLabel{}
	for _, l := range vt.List(v) {
		m := vt.Map(l)
		out = append(out, labelpb.ZLabel{Name: chars(m["n"]), Value: chars(m["v"])})
	}
	return out
}

func pbSpans(v any) []prompb.BucketSpan {
	var out []prompb.BucketSpan
	for _, s := range vt.List(v) {
		m := vt.Map(s)
		out = append(out, prompb.BucketSpan{Offset: int32(tokI(m["o"])), Length: uint32(tokU(m["l"]))})
	}
	return out
}
func ints(v any) []int64 {
	var out []int64
	for _, x := range vt.List(v) {
		out = append(out, tokI(x))
	}
	return out
}
func floats(v any) []float64 {
	var out []float64
	for _, x := range vt.List(v) {
		out = append(out, tokF(x))
	}
	return out
}

func pbHist(m map[string]any) prompb.Histogram {
	h := prompb.Histogram{
		Timestamp: tokI(m["ts"]), Sum: tokF(m["sum"]), Schema: int32(tokI(m["schema"])), ZeroThreshold: tokF(m["zt"]),
		ResetHint:     prompb.Histogram_ResetHint(tokI(m["hint"])),
		PositiveSpans: pbSpans(m["ps"]), NegativeSpans: pbSpans(m["ns"]),
		PositiveDeltas: ints(m["pd"]), NegativeDeltas: ints(m["nd"]),
		PositiveCounts: floats(m["pc"]), NegativeCounts: floats(m["nc"]),
		CustomValues: floats(m["cv"]),
	}
	switch vt.Str(m["ckind"]) {
	case "int":
		h.Count = &prompb.Histogram_CountInt{CountInt: tokU(m["count"])}
	case "float":
		h.Count = &prompb.Histogram_CountFloat{CountFloat: tokF(m["count"])}
	}
	switch vt.Str(m["zkind"]) {
	case "int":
		h.ZeroCount = &prompb.Histogram_ZeroCountInt{ZeroCountInt: tokU(m["zc"])}
	case "float":
		h.ZeroCount = &prompb.Histogram_ZeroCountFloat{ZeroCountFloat: tokF(m["zc"])}
	}
	return h
}

func pbSeries(m map[string]any) prompb.TimeSeries {
	ts := prompb.TimeSeries{Labels: pbLabels(m["labels"])}
	for _, s := range vt.List(m["samples"]) {
		sm := vt.Map(s)
		ts.Samples = append(ts.Samples, prompb.Sample{Timestamp: tokI(sm["t"]), Value: tokF(sm["v"])})
	}
	for _, h := range vt.List(m["hists"]) {
		ts.Histograms = append(ts.Histograms, pbHist(vt.Map(h)))
	}
	for _, e := range vt.List(m["exemplars"]) {
		em := vt.Map(e)
		ts.Exemplars = append(ts.Exemplars, prompb.Exemplar{Labels: pbLabels(em["labels"]), Value: tokF(em["value"]), Timestamp: tokI(em["ts"])})
	}
	return ts
}

func pbRequest(c vt.Case) []storepb.TimeSeriesTenantTuple {
	var out []storepb.TimeSeriesTenantTuple
	for _, t := range vt.List(c["req"]) {
		tm := vt.Map(t)
		tt := storepb.TimeSeriesTenantTuple{Tenant: chars(tm["tenant"])}
		for _, s := range vt.List(tm["series"]) {
			tt.Timeseries = append(tt.Timeseries, pbSeries(vt.Map(s)))
		}
		out = append(out, tt)
	}
	return out
}

// ---------------------------------------------------------------------------------------------
// dumps (decoded form): every number becomes a string (floats by their bits: NaN payloads count)

func fbits(f float64) string { return fmt.Sprintf("%016x", math.Float64bits(f)) }
func istr(i int64) string    { return strconv.FormatInt(i, 10) }
func ustr(u uint64) string   { return strconv.FormatUint(u, 10) }

// short logs a long string as its length and digest (trace lines stay small; equality is preserved
// up to sha256 collisions).
func short(s string) string {
	if len(s) <= 256 {
		return strings.Clone(s)
	}
	sum := sha256.Sum256([]byte(s))
	return fmt.Sprintf("<%d bytes, sha256 %x>", len(s), sum[:12])
}

func dumpLabels(ls labels.Labels) []any {
	out := []any{}
	ls.Range(func(l labels.Label) {
		out = append(out, map[string]any{"n": short(l.Name), "v": short(l.Value)})
	})
	return out
}
func dumpSpans(ss []histogram.Span) []any {
	out := []any{}
	for _, s := range ss {
		out = append(out, map[string]any{"o": istr(int64(s.Offset)), "l": ustr(uint64(s.Length))})
	}
	return out
}
func dumpF(fs []float64) []any {
	out := []any{}
	for _, f := range fs {
		out = append(out, fbits(f))
	}
	return out
}
func dumpI(is []int64) []any {
	out := []any{}
	for _, i := range is {
		out = append(out, istr(i))
	}
	return out
}

func dumpHist(ts int64, h *histogram.Histogram, fh *histogram.FloatHistogram) map[string]any {
	if h != nil {
		return map[string]any{"ts": istr(ts), "kind": "int", "count": ustr(h.Count), "zc": ustr(h.ZeroCount), "sum": fbits(h.Sum),
			"schema": istr(int64(h.Schema)), "zt": fbits(h.ZeroThreshold), "hint": istr(int64(h.CounterResetHint)),
			"ps": dumpSpans(h.PositiveSpans), "ns": dumpSpans(h.NegativeSpans),
			"pb": dumpI(h.PositiveBuckets), "nb": dumpI(h.NegativeBuckets), "cv": dumpF(h.CustomValues)}
	}
	if fh != nil {
		return map[string]any{"ts": istr(ts), "kind": "float", "count": fbits(fh.Count), "zc": fbits(fh.ZeroCount), "sum": fbits(fh.Sum),
			"schema": istr(int64(fh.Schema)), "zt": fbits(fh.ZeroThreshold), "hint": istr(int64(fh.CounterResetHint)),
			"ps": dumpSpans(fh.PositiveSpans), "ns": dumpSpans(fh.NegativeSpans),
			"pb": dumpF(fh.PositiveBuckets), "nb": dumpF(fh.NegativeBuckets), "cv": dumpF(fh.CustomValues)}
	}
	return map[string]any{"ts": istr(ts), "kind": "none", "count": "", "zc": "", "sum": "", "schema": "", "zt": "", "hint": "",
		"ps": []any{}, "ns": []any{}, "pb": []any{}, "nb": []any{}, "cv": []any{}}
}

// wantSeries: what a receiver gets over the protobuf replication path (pkg/receive/writer.go).
func wantSeries(ts prompb.TimeSeries) map[string]any {
	samples, hists, exs := []any{}, []any{}, []any{}
	for _, s := range ts.Samples {
		samples = append(samples, map[string]any{"t": istr(s.Timestamp), "v": fbits(s.Value)})
	}
	for _, hp := range ts.Histograms {
		if hp.IsFloatHistogram() {
			hists = append(hists, dumpHist(hp.Timestamp, nil, prompb.FloatHistogramProtoToFloatHistogram(hp)))
		} else {
			hists = append(hists, dumpHist(hp.Timestamp, prompb.HistogramProtoToHistogram(hp), nil))
		}
	}
	for _, e := range ts.Exemplars {
		exs = append(exs, map[string]any{"labels": dumpLabels(labelpb.ZLabelsToPromLabels(e.Labels)), "value": fbits(e.Value), "ts": istr(e.Timestamp)})
	}
	return map[string]any{"labels": dumpLabels(labelpb.ZLabelsToPromLabels(ts.Labels)), "samples": samples, "hists": hists, "exemplars": exs}
}

func gotSeries(s *writecapnp.Series) map[string]any {
	samples, hists, exs := []any{}, []any{}, []any{}
	for _, x := range s.Samples {
		samples = append(samples, map[string]any{"t": istr(x.Timestamp), "v": fbits(x.Value)})
	}
	for _, x := range s.Histograms {
		hists = append(hists, dumpHist(x.Timestamp, x.Histogram, x.FloatHistogram))
	}
	for _, e := range s.Exemplars {
		exs = append(exs, map[string]any{"labels": dumpLabels(e.Labels), "value": fbits(e.Value), "ts": istr(e.Ts)})
	}
	return map[string]any{"labels": dumpLabels(s.Labels), "samples": samples, "hists": hists, "exemplars": exs}
}

// drain decodes every series of one request with the real iterator.
func drain(req *writecapnp.Request) (series []any, err error) {
	defer func() {
		if r := recover(); r != nil {
			err = fmt.Errorf("panic: %v", r)
		}
	}()
	series = []any{}
	var s writecapnp.Series
	for req.Next() {
		if err := req.At(&s); err != nil {
			return series, err
		}
		series = append(series, gotSeries(&s))
	}
	return series, req.Close()
}

// decodeMessage mirrors the dispatch of receive.CapNProtoHandler.Write.
func decodeMessage(wr writecapnp.WriteRequest) (tenants []any, err error) {
	defer func() {
		if r := recover(); r != nil {
			err = fmt.Errorf("panic: %v", r)
		}
	}()
	tenants = []any{}
	if wr.HasTimeSeries() {
		t, err := wr.Tenant()
		if err != nil {
			return tenants, err
		}
		req, err := writecapnp.NewSingleTenantRequest(wr, t)
		if err != nil {
			return tenants, err
		}
		series, err := drain(req)
		tenants = append(tenants, map[string]any{"tenant": strings.Clone(t), "series": series})
		return tenants, err
	}
	data, err := wr.Data()
	if err != nil {
		return tenants, err
	}
	sym, err := wr.Symbols()
	if err != nil {
		return tenants, err
	}
	for i := 0; i < data.Len(); i++ {
		d := data.At(i)
		t, err := d.Tenant()
		if err != nil {
			return tenants, err
		}
		req, err := writecapnp.NewRequest(d, sym, t)
		if err != nil {
			return tenants, err
		}
		series, err := drain(req)
		tenants = append(tenants, map[string]any{"tenant": strings.Clone(t), "series": series})
		if err != nil {
			return tenants, err
		}
	}
	return tenants, nil
}

func errStr(err error) string {
	if err == nil {
		return ""
	}
	return err.Error()
}

// viaBytes: Marshal / MarshalPacked one tenant tuple at a time (Build holds one tuple).
func viaBytes(req []storepb.TimeSeriesTenantTuple, packed bool) (res map[string]any) {
	name := "build"
	if packed {
		name = "packed"
	}
	tenants := []any{}
	defer func() {
		if r := recover(); r != nil { // a panic of the encoder: nothing reaches the peer
			res = map[string]any{"path": name, "err": fmt.Sprintf("encode panic: %v", r), "tenants": tenants}
		}
	}()
	for _, tt := range req {
		var b []byte
		var err error
		var msg *capnp.Message
		if packed {
			b, err = writecapnp.MarshalPacked(tt.Tenant, tt.Timeseries)
			if err == nil {
				msg, err = capnp.UnmarshalPacked(b)
			}
		} else {
			b, err = writecapnp.Marshal(tt.Tenant, tt.Timeseries)
			if err == nil {
				msg, err = capnp.Unmarshal(b)
			}
		}
		if err != nil {
			return map[string]any{"path": name, "err": "encode: " + err.Error(), "tenants": tenants}
		}
		wr, err := writecapnp.ReadRootWriteRequest(msg)
		if err != nil {
			return map[string]any{"path": name, "err": err.Error(), "tenants": tenants}
		}
		ts, err := decodeMessage(wr)
		tenants = append(tenants, ts...)
		if err != nil {
			return map[string]any{"path": name, "err": err.Error(), "tenants": tenants}
		}
	}
	return map[string]any{"path": name, "err": "", "tenants": tenants}
}

// ---------------------------------------------------------------------------------------------
// the RPC peer

type peer struct {
	mu      sync.Mutex
	tenants []any
	err     error
}

func (p *peer) Write(_ context.Context, call writecapnp.Writer_write) error {
	wr, err := call.Args().Wr()
	if err != nil {
		return err
	}
	ts, derr := decodeMessage(wr)
	p.mu.Lock()
	p.tenants, p.err = ts, derr
	p.mu.Unlock()
	return nil
}

type rpcRig struct {
	ln     net.Listener
	peer   *peer
	client *writecapnp.RemoteWriteClient
}

func newRig(t *testing.T) *rpcRig {
	ln, err := net.Listen("tcp", "127.0.0.1:0")
	if err != nil {
		t.Fatalf("listen: %v", err)
	}
	p := &peer{}
	srv := writecapnp.Writer_ServerToClient(p)
	go func() {
		for {
			conn, err := ln.Accept()
			if err != nil {
				return
			}
			go func() {
				rc := rpc.NewConn(rpc.NewPackedStreamTransport(conn), &rpc.Options{BootstrapClient: capnp.Client(srv).AddRef()})
				<-rc.Done()
			}()
		}
	}()
	return &rpcRig{ln: ln, peer: p, client: writecapnp.NewRemoteWriteClient(writecapnp.NewTCPDialer(ln.Addr().String()), log.NewNopLogger())}
}

func (r *rpcRig) close() { _ = r.client.Close(); _ = r.ln.Close() }

func (r *rpcRig) send(name string, in *storepb.WriteRequest) (res map[string]any) {
	r.peer.mu.Lock()
	r.peer.tenants, r.peer.err = nil, fmt.Errorf("peer received nothing")
	r.peer.mu.Unlock()
	ctx, cancel := context.WithTimeout(context.Background(), 60*time.Second)
	defer cancel()
	defer func() {
		if p := recover(); p != nil { // a panic of the encoder inside the client: fresh connection for the next case
			res = map[string]any{"path": name, "err": fmt.Sprintf("encode panic: %v", p), "tenants": []any{}}
			r.client = writecapnp.NewRemoteWriteClient(writecapnp.NewTCPDialer(r.ln.Addr().String()), log.NewNopLogger())
		}
	}()
	_, err := r.client.RemoteWrite(ctx, in)
	r.peer.mu.Lock()
	defer r.peer.mu.Unlock()
	ts := r.peer.tenants
	if ts == nil {
		ts = []any{}
	}
	if err != nil && r.peer.err != nil {
		return map[string]any{"path": name, "err": "rpc: " + err.Error() + " / " + r.peer.err.Error(), "tenants": ts}
	}
	return map[string]any{"path": name, "err": errStr(r.peer.err), "tenants": ts}
}


// ---------------------------------------------------------------------------------------------
// end to end: the receiver's real Cap'n Proto server / handler / writer against the protobuf writer

// recStorage is a receive.TenantStorage whose appenders record what they are given, per tenant, as
// series records in decoded form (a new record starts whenever the label set changes).
type recStorage struct {
	mu      sync.Mutex
	tenants []any
}

func (s *recStorage) reset() { s.mu.Lock(); s.tenants = nil; s.mu.Unlock() }
func (s *recStorage) snapshot() []any {
	s.mu.Lock()
	defer s.mu.Unlock()
	if s.tenants == nil {
		return []any{}
	}
	return s.tenants
}

func (s *recStorage) TenantAppendable(tenant string) (receive.Appendable, error) {
	return &recAppendable{s: s, tenant: tenant}, nil
}

type recAppendable struct {
	s      *recStorage
	tenant string
}

func (a *recAppendable) Appender(context.Context) (storage.Appender, error) {
	return &recAppender{s: a.s, tenant: strings.Clone(a.tenant)}, nil
}

type recAppender struct {
	s      *recStorage
	tenant string
	series []any
	last   string
	cur    map[string]any
}

func (a *recAppender) rec(l labels.Labels) map[string]any {
	k := l.String()
	if a.cur == nil || k != a.last {
		a.cur = map[string]any{"labels": dumpLabels(l), "samples": []any{}, "hists": []any{}, "exemplars": []any{}}
		a.series = append(a.series, a.cur)
		a.last = k
	}
	return a.cur
}

func (a *recAppender) GetRef(labels.Labels, uint64) (storage.SeriesRef, labels.Labels) {
	return 0, labels.EmptyLabels()
}
func (a *recAppender) Append(_ storage.SeriesRef, l labels.Labels, t int64, v float64) (storage.SeriesRef, error) {
	r := a.rec(l)
	r["samples"] = append(r["samples"].([]any), map[string]any{"t": istr(t), "v": fbits(v)})
	return 1, nil
}
func (a *recAppender) AppendHistogram(_ storage.SeriesRef, l labels.Labels, t int64, h *histogram.Histogram, fh *histogram.FloatHistogram) (storage.SeriesRef, error) {
	r := a.rec(l)
	r["hists"] = append(r["hists"].([]any), dumpHist(t, h, fh))
	return 1, nil
}
func (a *recAppender) AppendExemplar(_ storage.SeriesRef, l labels.Labels, e exemplar.Exemplar) (storage.SeriesRef, error) {
	r := a.rec(l)
	r["exemplars"] = append(r["exemplars"].([]any), map[string]any{"labels": dumpLabels(e.Labels), "value": fbits(e.Value), "ts": istr(e.Ts)})
	return 1, nil
}
func (a *recAppender) AppendHistogramSTZeroSample(storage.SeriesRef, labels.Labels, int64, int64, *histogram.Histogram, *histogram.FloatHistogram) (storage.SeriesRef, error) {
	return 1, nil
}
func (a *recAppender) AppendSTZeroSample(storage.SeriesRef, labels.Labels, int64, int64) (storage.SeriesRef, error) {
	return 1, nil
}
func (a *recAppender) UpdateMetadata(storage.SeriesRef, labels.Labels, metadata.Metadata) (storage.SeriesRef, error) {
	return 1, nil
}
func (a *recAppender) SetOptions(*storage.AppendOptions) {}
func (a *recAppender) Rollback() error                   { return nil }
func (a *recAppender) Commit() error {
	series := a.series
	if series == nil {
		series = []any{}
	}
	a.s.mu.Lock()
	a.s.tenants = append(a.s.tenants, map[string]any{"tenant": a.tenant, "series": series})
	a.s.mu.Unlock()
	return nil
}

// e2eRig: receive.NewCapNProtoServer + CapNProtoHandler + CapNProtoWriter on a loopback listener,
// fed by the real RemoteWriteClient; and receive.NewWriter (protobuf replication path) as the
// reference, both writing into recording tenant storages.
type e2eRig struct {
	ln       net.Listener
	srv      *receive.CapNProtoServer
	client   *writecapnp.RemoteWriteClient
	capStore *recStorage
	pbStore  *recStorage
	pbWriter *receive.Writer
}

func newE2E(t *testing.T) *e2eRig {
	ln, err := net.Listen("tcp", "127.0.0.1:0")
	if err != nil {
		t.Fatalf("listen: %v", err)
	}
	r := &e2eRig{ln: ln, capStore: &recStorage{}, pbStore: &recStorage{}}
	logger := log.NewNopLogger()
	r.srv = receive.NewCapNProtoServer(ln, receive.NewCapNProtoHandler(prometheus.NewRegistry(), logger, receive.NewCapNProtoWriter(logger, r.capStore, nil)), logger)
	go func() { _ = r.srv.ListenAndServe() }()
	r.client = writecapnp.NewRemoteWriteClient(writecapnp.NewTCPDialer(ln.Addr().String()), logger)
	r.pbWriter = receive.NewWriter(logger, r.pbStore, nil)
	return r
}

func (r *e2eRig) close() { _ = r.client.Close(); _ = r.ln.Close() }

// run sends the request through both replication paths; returns the protobuf writer's appends
// (the reference) and the Cap'n Proto peer's appends.
func (r *e2eRig) run(req []storepb.TimeSeriesTenantTuple) (want2 []any, got map[string]any) {
	r.capStore.reset()
	r.pbStore.reset()
	pbErr := ""
	for _, tt := range req {
		// the protobuf writer re-allocates exemplar label strings in place: give it its own copy
		cp := make([]prompb.TimeSeries, len(tt.Timeseries))
		for i, ts := range tt.Timeseries {
			cp[i] = ts
			cp[i].Exemplars = append([]prompb.Exemplar(nil), ts.Exemplars...)
			for j := range cp[i].Exemplars {
				cp[i].Exemplars[j].Labels = append([]labelpb.ZLabel(nil), ts.Exemplars[j].Labels...)
			}
		}
		if err := r.pbWriter.Write(context.Background(), tt.Tenant, cp); err != nil {
			pbErr = "protobuf writer: " + err.Error()
		}
	}
	want2 = r.pbStore.snapshot()
	ctx, cancel := context.WithTimeout(context.Background(), 120*time.Second)
	defer cancel()
	errS := ""
	func() {
		defer func() {
			if p := recover(); p != nil {
				errS = fmt.Sprintf("encode panic: %v", p)
				r.client = writecapnp.NewRemoteWriteClient(writecapnp.NewTCPDialer(r.ln.Addr().String()), log.NewNopLogger())
			}
		}()
		if _, err := r.client.RemoteWrite(ctx, &storepb.WriteRequest{TimeseriesTenantData: req}); err != nil && pbErr == "" {
			errS = "capnp replication failed where protobuf replication succeeded: " + err.Error()
		}
	}()
	return want2, map[string]any{"path": "e2e-capnp-server", "ref": "proto-writer", "err": errS, "tenants": r.capStore.snapshot()}
}

// exemplarLabelsValid: the two writers treat exemplar label sets differently outside this domain
// (the Cap'n Proto writer validates and normalises them, the protobuf writer does not), which is
// not a matter of the encoding; the end-to-end comparison is restricted to requests whose exemplar
// label sets are non-empty, sorted, duplicate-free and without empty strings.
func exemplarLabelsValid(req []storepb.TimeSeriesTenantTuple) bool {
	for _, tt := range req {
		for _, ts := range tt.Timeseries {
			for _, e := range ts.Exemplars {
				if labelpb.ValidateLabels(e.Labels) != nil {
					return false
				}
			}
		}
	}
	return true
}

// ---------------------------------------------------------------------------------------------

func hasCustomValues(c vt.Case) bool {
	for _, t := range vt.List(c["req"]) {
		for _, s := range vt.List(vt.Map(t)["series"]) {
			for _, h := range vt.List(vt.Map(s)["hists"]) {
				if len(vt.List(vt.Map(h)["cv"])) > 0 {
					return true
				}
			}
		}
	}
	return false
}

func TestC25(t *testing.T) {
	rnd := vt.Rand()
	rig := newRig(t)
	defer rig.close()
	e2e := newE2E(t)
	defer e2e.close()
	gen := func(yield func(vt.Case)) {
		for _, c := range vt.TLCCases(t) {
			c["src"] = "tlc"
			c["model"] = true
			yield(c)
		}
		n := vt.Pick(150, 800)
		for i := 0; i < n; i++ {
			yield(randomRequest(rnd, i))
		}
		// well-formed requests (what a router really forwards) for the end-to-end comparison, some large
		n = vt.Pick(60, 300)
		for i := 0; i < n; i++ {
			yield(validRequest(rnd, i, "normal"))
		}
		for i, kind := range vt.Pick([]string{"longvalue", "manyseries"}, []string{"longvalue", "manyseries", "manysymbols", "longvalue", "manyseries", "manysymbols"}) {
			yield(validRequest(rnd, i, kind))
		}
	}
	kf := func(c vt.Case) string {
		if hasCustomValues(c) {
			return "histogram-custom-values"
		}
		return ""
	}
	vt.Run(t, gen, kf, func(c vt.Case) vt.Event {
		req := pbRequest(c)
		want := []any{}
		for _, tt := range req {
			series := []any{}
			for _, ts := range tt.Timeseries {
				series = append(series, wantSeries(ts))
			}
			want = append(want, map[string]any{"tenant": tt.Tenant, "series": series})
		}
		got := []any{viaBytes(req, false), viaBytes(req, true)}
		got = append(got, rig.send("rpc", &storepb.WriteRequest{TimeseriesTenantData: req}))
		if len(req) == 1 && len(req[0].Timeseries) > 0 {
			got = append(got, rig.send("rpc-single", &storepb.WriteRequest{Tenant: req[0].Tenant, Timeseries: req[0].Timeseries}))
		}
		want2 := []any{}
		if len(req) > 0 && exemplarLabelsValid(req) {
			var g map[string]any
			want2, g = e2e.run(req)
			got = append(got, g)
		}
		for _, g := range got {
			if m := g.(map[string]any); m["ref"] == nil {
				m["ref"] = "decoded"
			}
		}
		return vt.Event{"want": want, "want2": want2, "got": got}
	})
}

// ---------------------------------------------------------------------------------------------
// seeded random requests: realistic sizes, shared and distinct symbols, arbitrary UTF-8

var namePool = []string{"__name__", "job", "instance", "le", "pod", "namespace", "a", "b", "ab", "", "ünï", "日本", "trace_id", "x:y", "with space", "q\"uote", "a\x00b"}
var valuePool = []string{"up", "prometheus", "thanos", "", "a", "b", "ab", "0.5", "+Inf", "10.0.0.1:9090", "ünï", "日本語", "{}", "a,b", "line\nbreak", strings.Repeat("long", 40)}
var floatToks = []string{"0", "1", "-1", "0.5", "1e300", "-0", "NaN", "stale", "Inf", "-Inf", "12345.678", "5e-324"}
var intToks = []string{"0", "1", "-1", "1700000000000", "9223372036854775807", "-9223372036854775808", "42"}
var uintToks = []string{"0", "1", "12", "18446744073709551615", "1000000"}

func str(s string) []any {
	out := []any{}
	for _, r := range s {
		out = append(out, string(r))
	}
	return out
}
func pick(r *rand.Rand, p []string) string { return p[r.Intn(len(p))] }

func randLabels(r *rand.Rand, max int) []any {
	out := []any{}
	n := r.Intn(max + 1)
	for i := 0; i < n; i++ {
		name, val := pick(r, namePool), pick(r, valuePool)
		if r.Intn(6) == 0 {
			val = pick(r, namePool) // a string used both as a name and as a value
		}
		if r.Intn(8) == 0 {
			val = val + strconv.Itoa(r.Intn(50)) // distinct symbols
		}
		out = append(out, map[string]any{"n": str(name), "v": str(val)})
	}
	return out
}

func randSpans(r *rand.Rand) []any {
	out := []any{}
	for i, n := 0, r.Intn(3); i < n; i++ {
		out = append(out, map[string]any{"o": []string{"0", "1", "-3", "2147483647", "-2147483648"}[r.Intn(5)], "l": []string{"0", "1", "2", "4294967295"}[r.Intn(4)]})
	}
	return out
}
func randToks(r *rand.Rand, pool []string, max int) []any {
	out := []any{}
	for i, n := 0, r.Intn(max+1); i < n; i++ {
		out = append(out, pick(r, pool))
	}
	return out
}

func randHist(r *rand.Rand, custom bool) map[string]any {
	h := map[string]any{"ts": pick(r, intToks), "sum": pick(r, floatToks), "schema": []string{"0", "3", "8", "-4", "-53"}[r.Intn(5)], "zt": pick(r, floatToks),
		"hint": strconv.Itoa(r.Intn(4)), "ps": randSpans(r), "ns": randSpans(r),
		"pd": []any{}, "nd": []any{}, "pc": []any{}, "nc": []any{}, "cv": []any{}}
	switch r.Intn(7) {
	case 0: // count never set
		h["ckind"], h["count"], h["zkind"], h["zc"] = "unset", "0", "unset", "0"
		h["pd"], h["nd"] = randToks(r, intToks, 4), randToks(r, intToks, 4)
	case 1, 2, 3:
		h["ckind"], h["count"], h["zkind"], h["zc"] = "int", pick(r, uintToks), "int", pick(r, uintToks)
		h["pd"], h["nd"] = randToks(r, intToks, 5), randToks(r, intToks, 5)
	default:
		h["ckind"], h["count"], h["zkind"], h["zc"] = "float", pick(r, floatToks), "float", pick(r, floatToks)
		h["pc"], h["nc"] = randToks(r, floatToks, 5), randToks(r, floatToks, 5)
	}
	if r.Intn(10) == 0 { // zero count not set at all
		h["zkind"], h["zc"] = "unset", "0"
	}
	if custom {
		h["schema"] = "-53"
		h["cv"] = randToks(r, []string{"1", "2", "3", "0.5", "10", "Inf"}, 4)
		if len(h["cv"].([]any)) == 0 {
			h["cv"] = []any{"1", "2", "3"}
		}
	}
	return h
}

func randomRequest(r *rand.Rand, i int) vt.Case {
	custom := i%10 == 9 // one request in ten carries custom bucket boundaries (known finding class)
	nt := 1 + r.Intn(3)
	big := r.Intn(8) == 0
	req := []any{}
	for t := 0; t < nt; t++ {
		ns := r.Intn(5)
		if big {
			ns = 10 + r.Intn(40)
		}
		series := []any{}
		for s := 0; s < ns; s++ {
			samples := []any{}
			for k, n := 0, r.Intn(4)*r.Intn(4); k < n; k++ {
				samples = append(samples, map[string]any{"t": pick(r, intToks), "v": pick(r, floatToks)})
			}
			hists := []any{}
			for k, n := 0, r.Intn(3); k < n; k++ {
				hists = append(hists, randHist(r, custom && r.Intn(2) == 0))
			}
			exs := []any{}
			for k, n := 0, r.Intn(3); k < n; k++ {
				exs = append(exs, map[string]any{"labels": randLabels(r, 3), "value": pick(r, floatToks), "ts": pick(r, intToks)})
			}
			series = append(series, map[string]any{"labels": randLabels(r, 8), "samples": samples, "hists": hists, "exemplars": exs})
		}
		req = append(req, map[string]any{"tenant": str([]string{"", "default-tenant", "t1", "ténant", "a"}[r.Intn(5)]), "series": series})
	}
	c := vt.Case{"req": req, "src": "random", "model": false}
	if custom && !hasCustomValues(c) && nt > 0 {
		// make sure the class is really exercised
		s := map[string]any{"labels": randLabels(r, 3), "samples": []any{}, "hists": []any{randHist(r, true)}, "exemplars": []any{}}
		tm := req[0].(map[string]any)
		tm["series"] = append(tm["series"].([]any), s)
	}
	// the algorithm-level prediction (DRIFT) is evaluated by TLC with recursive operators: only for
	// requests with few, short strings
	nstr, maxlen := 0, 0
	var walk func(ls any)
	walk = func(ls any) {
		for _, l := range ls.([]any) {
			for _, k := range []string{"n", "v"} {
				nstr++
				if n := len(l.(map[string]any)[k].([]any)); n > maxlen {
					maxlen = n
				}
			}
		}
	}
	for _, t := range req {
		for _, s := range t.(map[string]any)["series"].([]any) {
			sm := s.(map[string]any)
			walk(sm["labels"])
			for _, e := range sm["exemplars"].([]any) {
				walk(e.(map[string]any)["labels"])
			}
		}
	}
	c["model"] = nstr <= 40 && maxlen <= 24
	return c
}

// validRequest: sorted, duplicate-free, non-empty label sets (series and exemplars), 1..3 tenants
// sharing symbols. kind "longvalue": label values of 70 KiB..200 KiB; "manyseries": thousands of
// series; "manysymbols": tens of thousands of distinct symbols.
func validRequest(r *rand.Rand, i int, kind string) vt.Case {
	names := []string{"__name__", "cluster", "instance", "job", "le", "namespace", "pod", "quantile", "zone", "ünï"}
	vals := []string{"up", "http_requests_total", "prometheus", "thanos", "eu-west-1", "10.0.0.1:9090", "0.99", "日本", "a", "ab"}
	sorted := func(n int, distinct func() string) []any {
		idx := r.Perm(len(names))[:n]
		for a := 0; a < len(idx); a++ { // sort the chosen names bytewise
			for b := a + 1; b < len(idx); b++ {
				if names[idx[b]] < names[idx[a]] {
					idx[a], idx[b] = idx[b], idx[a]
				}
			}
		}
		out := []any{}
		for _, k := range idx {
			v := pick(r, vals)
			if distinct != nil && r.Intn(3) == 0 {
				v = distinct()
			}
			out = append(out, map[string]any{"n": names[k], "v": v}) // plain strings: the model does not read these requests
		}
		return out
	}
	nt := 1 + r.Intn(3)
	nseries := func() int { return 1 + r.Intn(6) }
	var distinct func() string
	custom := kind == "normal" && i%12 == 11
	switch kind {
	case "longvalue":
		distinct = func() string { return strings.Repeat(pick(r, vals), 1)[:1] + strings.Repeat("x", 70000+r.Intn(vt.Pick(10000, 130000))) }
		nseries = func() int { return 1 + r.Intn(2) }
	case "manyseries":
		nseries = func() int { return vt.Pick(300, 1500) + r.Intn(vt.Pick(100, 1500)) }
		distinct = func() string { return "v" + strconv.Itoa(r.Intn(200)) }
	case "manysymbols":
		nseries = func() int { return 2000 + r.Intn(1000) }
		distinct = func() string { return "sym" + strconv.Itoa(r.Int()) }
	default:
		distinct = func() string { return "v" + strconv.Itoa(r.Intn(30)) }
	}
	req := []any{}
	for t := 0; t < nt; t++ {
		series := []any{}
		for k, n := 0, nseries(); k < n; k++ {
			samples := []any{}
			for j, m := 0, 1+r.Intn(3); j < m; j++ {
				samples = append(samples, map[string]any{"t": strconv.Itoa(1700000000000 + 15000*j), "v": pick(r, floatToks)})
			}
			hists := []any{}
			if r.Intn(4) == 0 && kind != "manysymbols" {
				hists = append(hists, randHist(r, custom))
			}
			exs := []any{}
			if r.Intn(3) == 0 {
				exs = append(exs, map[string]any{"labels": sorted(1+r.Intn(2), distinct), "value": pick(r, floatToks), "ts": strconv.Itoa(1700000000000 + r.Intn(1000))})
			}
			series = append(series, map[string]any{"labels": sorted(2+r.Intn(5), distinct), "samples": samples, "hists": hists, "exemplars": exs})
		}
		req = append(req, map[string]any{"tenant": []string{"default-tenant", "t1", "ténant", "a"}[r.Intn(4)] + strconv.Itoa(t), "series": series})
	}
	return vt.Case{"req": req, "src": "valid-" + kind, "model": false}
}
