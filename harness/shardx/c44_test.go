// Package shardx is the conformance harness of C44 (vertical query sharding).
//
// A query goes through the REAL frontend tripperware twice: with NumShards = n (real analyzer, real
// querySharder fan-out, real MergeResponse) and with sharding off.  The downstream "querier" evaluates
// every sub-request with the real Prometheus engine over the series of the case's world, filtered by
// the real storepb.ShardMatcher for the shard_info the sub-request carries - what stores do in
// production.  The trace records the analysis, the shard membership of every series and both results.
package shardx

import (
	"bytes"
	"context"
	"encoding/json"
	"fmt"
	"io"
	"math"
	"net/http"
	"net/url"
	"sort"
	"strconv"
	"strings"
	"sync"
	"testing"
	"time"

	"github.com/prometheus/prometheus/model/histogram"
	"github.com/prometheus/prometheus/model/labels"
	"github.com/prometheus/prometheus/promql"
	"github.com/prometheus/prometheus/storage"
	"github.com/prometheus/prometheus/tsdb/chunkenc"
	"github.com/prometheus/prometheus/tsdb/chunks"
	"github.com/prometheus/prometheus/util/annotations"
	"github.com/weaveworks/common/user"

	"github.com/thanos-io/thanos/pkg/queryfrontend"
	"github.com/thanos-io/thanos/pkg/querysharding"
	"github.com/thanos-io/thanos/pkg/store/storepb"

	"verif/harness/vt"
)

// ---------- world ----------

type wseries struct {
	lset labels.Labels
	v    float64
}

type world struct{ series []wseries }

func (w *world) Querier(mint, maxt int64) (storage.Querier, error) {
	return &wquerier{w: w, mint: mint, maxt: maxt}, nil
}

type wquerier struct {
	w          *world
	mint, maxt int64
	keep       func(labels.Labels) bool
}

func (q *wquerier) Select(_ context.Context, sortSeries bool, _ *storage.SelectHints, ms ...*labels.Matcher) storage.SeriesSet {
	var out []storage.Series
	for _, s := range q.w.series {
		ok := true
		for _, m := range ms {
			if !m.Matches(s.lset.Get(m.Name)) {
				ok = false
				break
			}
		}
		if !ok || (q.keep != nil && !q.keep(s.lset)) {
			continue
		}
		var smpls []chunks.Sample
		for t := q.mint - q.mint%15000; t <= q.maxt; t += 15000 {
			if t >= q.mint {
				smpls = append(smpls, fsample{t, s.v})
			}
		}
		out = append(out, storage.NewListSeries(s.lset, smpls))
	}
	sort.Slice(out, func(i, j int) bool { return labels.Compare(out[i].Labels(), out[j].Labels()) < 0 })
	return &sliceSet{s: out, i: -1}
}
func (q *wquerier) LabelValues(context.Context, string, *storage.LabelHints, ...*labels.Matcher) ([]string, annotations.Annotations, error) {
	return nil, nil, nil
}
func (q *wquerier) LabelNames(context.Context, *storage.LabelHints, ...*labels.Matcher) ([]string, annotations.Annotations, error) {
	return nil, nil, nil
}
func (q *wquerier) Close() error { return nil }

type sliceSet struct {
	s []storage.Series
	i int
}

func (s *sliceSet) Next() bool                        { s.i++; return s.i < len(s.s) }
func (s *sliceSet) At() storage.Series                { return s.s[s.i] }
func (s *sliceSet) Err() error                        { return nil }
func (s *sliceSet) Warnings() annotations.Annotations { return nil }

// shardedQueryable filters the world through the real ShardMatcher.
type shardedQueryable struct {
	w    *world
	keep func(labels.Labels) bool
}

func (s shardedQueryable) Querier(mint, maxt int64) (storage.Querier, error) {
	return &wquerier{w: s.w, mint: mint, maxt: maxt, keep: s.keep}, nil
}

// ---------- downstream querier ----------

type downstream struct {
	mu    sync.Mutex
	w     *world
	eng   *promql.Engine
	infos []*storepb.ShardInfo // shard_info of every received request (nil = none)
	pool  sync.Pool
	nreq  int
}

func parseSecMs(s string) int64 {
	f, err := strconv.ParseFloat(s, 64)
	if err != nil {
		panic(err)
	}
	return int64(math.Round(f * 1000))
}

func (d *downstream) RoundTrip(r *http.Request) (*http.Response, error) {
	if r.Body != nil {
		defer r.Body.Close()
	}
	if err := r.ParseForm(); err != nil {
		return nil, err
	}
	var info *storepb.ShardInfo
	if si := r.Form.Get("shard_info"); si != "" {
		info = &storepb.ShardInfo{}
		if err := json.Unmarshal([]byte(si), info); err != nil {
			return nil, err
		}
	}
	d.mu.Lock()
	d.infos = append(d.infos, info)
	d.nreq++
	d.mu.Unlock()
	var q storage.Queryable = d.w
	if info != nil {
		m := info.Matcher(&d.pool)
		defer m.Close()
		var mu sync.Mutex
		q = shardedQueryable{w: d.w, keep: func(l labels.Labels) bool { mu.Lock(); defer mu.Unlock(); return m.MatchesLabels(l) }}
	}
	instant := strings.HasSuffix(r.URL.Path, "/api/v1/query")
	var qry promql.Query
	var err error
	if instant {
		qry, err = d.eng.NewInstantQuery(r.Context(), q, nil, r.Form.Get("query"), time.UnixMilli(parseSecMs(r.Form.Get("time"))))
	} else {
		start, end, step := parseSecMs(r.Form.Get("start")), parseSecMs(r.Form.Get("end")), parseSecMs(r.Form.Get("step"))
		qry, err = d.eng.NewRangeQuery(r.Context(), q, nil, r.Form.Get("query"), time.UnixMilli(start), time.UnixMilli(end), time.Duration(step)*time.Millisecond)
	}
	body := []byte{}
	code := 200
	if err != nil {
		code, body = 400, errJSON(err)
	} else {
		res := qry.Exec(r.Context())
		switch v := res.Value.(type) {
		case promql.Matrix:
			body = matrixJSON(v)
		case promql.Vector:
			body = vectorJSON(v)
		default:
			if res.Err == nil {
				res.Err = fmt.Errorf("unsupported result type %T", res.Value)
			}
		}
		if res.Err != nil {
			code, body = 422, errJSON(res.Err)
		}
		qry.Close()
	}
	return &http.Response{StatusCode: code, Header: http.Header{"Content-Type": []string{"application/json"}},
		Body: io.NopCloser(bytes.NewReader(body)), ContentLength: int64(len(body)), Request: r}, nil
}

func errJSON(err error) []byte {
	b, _ := json.Marshal(map[string]any{"status": "error", "errorType": "execution", "error": err.Error()})
	return b
}

func vectorJSON(v promql.Vector) []byte {
	type smpl struct {
		Metric map[string]string `json:"metric"`
		Value  [2]any            `json:"value"`
	}
	res := make([]smpl, 0, len(v))
	for _, s := range v {
		res = append(res, smpl{Metric: s.Metric.Map(), Value: [2]any{float64(s.T) / 1000, strconv.FormatFloat(s.F, 'f', -1, 64)}})
	}
	b, err := json.Marshal(map[string]any{"status": "success", "data": map[string]any{"resultType": "vector", "result": res}})
	if err != nil {
		panic(err)
	}
	return b
}

func matrixJSON(m promql.Matrix) []byte {
	type stream struct {
		Metric map[string]string `json:"metric"`
		Values [][2]any          `json:"values"`
	}
	res := make([]stream, 0, len(m))
	for _, s := range m {
		st := stream{Metric: s.Metric.Map()}
		for _, p := range s.Floats {
			st.Values = append(st.Values, [2]any{float64(p.T) / 1000, strconv.FormatFloat(p.F, 'f', -1, 64)})
		}
		res = append(res, st)
	}
	b, err := json.Marshal(map[string]any{"status": "success", "data": map[string]any{"resultType": "matrix", "result": res}})
	if err != nil {
		panic(err)
	}
	return b
}

// ---------- query rendering ----------

// render turns a TLC expression into PromQL.  Grouping / matching label lists are SETS in the model;
// the text order is chosen by ord (a seeded shuffle), because the order written in the query reaches
// ShardInfo.Labels unchanged and must not matter.
func render(e map[string]any, ord func(n int) []int) string {
	ls := func() string {
		x := vt.Strs(e["ls"])
		sort.Strings(x)
		y := make([]string, len(x))
		for i, j := range ord(len(x)) {
			y[i] = x[j]
		}
		return strings.Join(y, ",")
	}
	switch vt.Str(e["k"]) {
	case "sel":
		if n := vt.Str(e["name"]); n != "*" {
			return n
		}
		return `{__name__=~"m1|m2"}`
	case "agg":
		mode := "without"
		if vt.Bool(e["by"]) {
			mode = "by"
		}
		return fmt.Sprintf("%s %s (%s) (%s)", vt.Str(e["op"]), mode, ls(), render(vt.Map(e["e"]), ord))
	case "bin":
		mode := "ignoring"
		if vt.Bool(e["on"]) {
			mode = "on"
		}
		return fmt.Sprintf("(%s) + %s (%s) (%s)", render(vt.Map(e["l"]), ord), mode, ls(), render(vt.Map(e["r"]), ord))
	case "lrep":
		return fmt.Sprintf(`label_replace(%s, "%s", "$1", "%s", "(.*)")`, render(vt.Map(e["e"]), ord), vt.Str(e["dst"]), vt.Str(e["src"]))
	}
	panic("unknown node " + vt.Str(e["k"]))
}

// ---------- results ----------

type result struct {
	Err bool             `json:"err"`
	Msg string           `json:"msg"`
	Out []map[string]any `json:"out"`
}

func run(rt http.RoundTripper, query string, instant bool) result {
	params := url.Values{"query": {query}, "start": {"60"}, "end": {"180"}, "step": {"60"}, "dedup": {"true"}}
	path := "/api/v1/query_range"
	if instant {
		params = url.Values{"query": {query}, "time": {"120"}, "dedup": {"true"}}
		path = "/api/v1/query"
	}
	u := &url.URL{Scheme: "http", Host: "frontend.verif", Path: path, RawQuery: params.Encode()}
	req, _ := http.NewRequest(http.MethodGet, u.String(), nil)
	req = req.WithContext(user.InjectOrgID(context.Background(), "t"))
	resp, err := rt.RoundTrip(req)
	if err != nil {
		return result{Err: true, Msg: err.Error(), Out: []map[string]any{}}
	}
	defer resp.Body.Close()
	b, _ := io.ReadAll(resp.Body)
	if resp.StatusCode != 200 {
		return result{Err: true, Msg: fmt.Sprintf("%d %s", resp.StatusCode, b), Out: []map[string]any{}}
	}
	var r struct {
		Status string `json:"status"`
		Data   struct {
			Result []struct {
				Metric map[string]string   `json:"metric"`
				Values [][]json.RawMessage `json:"values"`
				Value  []json.RawMessage   `json:"value"`
			} `json:"result"`
		} `json:"data"`
	}
	if err := json.Unmarshal(b, &r); err != nil || r.Status != "success" {
		return result{Err: true, Msg: "bad body: " + string(b), Out: []map[string]any{}}
	}
	out := make([]map[string]any, 0)
	for _, st := range r.Data.Result {
		// value string: the samples at the (three) evaluation steps, "t=v" joined, so that a sample
		// that is missing, duplicated or different shows up
		var parts []string
		v0 := ""
		if len(st.Value) == 2 {
			st.Values = append(st.Values, st.Value)
		}
		for _, p := range st.Values {
			var vs string
			_ = json.Unmarshal(p[1], &vs)
			f, _ := strconv.ParseFloat(vs, 64)
			parts = append(parts, strings.TrimSpace(string(p[0]))+"="+strconv.FormatFloat(f, 'g', 12, 64))
			if v0 == "" {
				v0 = strconv.FormatFloat(f, 'g', 12, 64)
			}
		}
		m := st.Metric
		if m == nil {
			m = map[string]string{}
		}
		out = append(out, map[string]any{"ls": m, "v": strings.Join(parts, " "), "v0": v0, "n": len(parts)})
	}
	sort.Slice(out, func(i, j int) bool { return fmt.Sprint(out[i]["ls"]) < fmt.Sprint(out[j]["ls"]) })
	return result{Out: out}
}

// modelValue renders the model's integer value the way run() renders a constant series over the three steps.
func lsetOf(m map[string]any) labels.Labels {
	b := labels.NewScratchBuilder(len(m))
	for k, v := range m {
		b.Add(k, vt.Str(v))
	}
	b.Sort()
	return b.Labels()
}

var concreteQueries = []string{
	`sum by (a) (rate(m1[1m]))`,
	`sum without (a) (m1)`,
	`sum without (a) ({__name__=~"m1|m2"})`,
	`count without (b) ({__name__=~"m1|m2"})`,
	`max by (a, b) (m1) + on (a, b) min by (a, b) (m2)`,
	`sum by (a) (m1) / on (a) group_left () sum by (a) (m2)`,
	`sum by (a) (m1 * on (a, b) group_left () m2)`,
	`m1 + ignoring (b) group_left () sum without (b) (m2)`,
	`histogram_quantile(0.9, sum by (le, a) (m1))`,
	`histogram_quantile(0.9, sum by (le) (m1))`,
	`sum by (a) (label_replace(m1, "a", "$1", "b", "(.*)"))`,
	`sum by (b) (label_replace(m1, "a", "$1", "b", "(.*)"))`,
	`sum without (b) (label_join(m1, "c", "-", "a", "b"))`,
	`topk by (a) (1, m1)`,
	`sum by (a) (m1) > bool on (a) sum by (a) (m2)`,
	`sum by (a) (m1) and on (a) sum by (a) (m2)`,
	`sum by (a) (m1) unless on (a) sum by (a) (m2)`,
	`sum by (a) (m1) or on (a) sum by (a) (m2)`,
	`sum by (a) (m1) or sum by (b) (m2)`,
	`count by (a) (group by (a, b) (m1))`,
	`sum by (a) (absent(m1))`,
	`sum by (a) (m1) + scalar(sum(m2))`,
	`sum by (a) (m1 offset 1m)`,
	`avg by (a) (m1)`,
	`stddev without (b) (m1)`,
	`quantile by (a) (0.5, m1)`,
	`count_values by (a) ("val", m1)`,
	`sum by (a) (sum_over_time(m1[2m]))`,
	`sum by (__name__) ({__name__=~"m1|m2"})`,
	`sum without (__name__, a) ({__name__=~"m1|m2"})`,
	`min without () (m1)`,
	`sum by (a) (m1) + sum without (b) (m2)`,
	`sum by (a) (sort(m1))`,
	`sum by (a) (m1) * 2`,
	`-sum by (b) (m2)`,
	`sum by (a) (m1{a="x"}) + on () group_right () sum by (a) (m2)`,
	`sum without (b, a) (m1)`,
	`sum without (b, a) ({__name__=~"m1|m2"})`,
	`max by (b, a) (m1) + on (b, a) min by (b, a) (m2)`,
	`sum without (le, b, a) (m1)`,
	`count by (a) (sum by (b) (max by (a, b) (m1)))`,
	`count by (b) (sum by (a) (max by (a, b) (m1)))`,
	`sum by (a) (count by (a, b) (max without (b) (m1)))`,
	`max by (a) (sum without (a) (count by (a, b) (m1)))`,
}

func randWorld(r interface{ Intn(int) int }, names []string, maxSeries int, withLe bool) []map[string]any {
	n := 1 + r.Intn(maxSeries)
	seen := map[string]bool{}
	var out []map[string]any
	for tries := 0; len(out) < n && tries < 50; tries++ {
		ls := map[string]any{"__name__": []string{"m1", "m2"}[r.Intn(2)]}
		for _, nm := range names {
			switch r.Intn(3) {
			case 0:
			case 1:
				ls[nm] = "x"
			case 2:
				ls[nm] = "y"
			}
		}
		if withLe {
			ls["le"] = []string{"0.5", "1", "+Inf"}[r.Intn(3)]
		}
		k := fmt.Sprint(ls)
		if seen[k] {
			continue
		}
		seen[k] = true
		out = append(out, map[string]any{"ls": ls, "v": 1 + r.Intn(3)})
	}
	return out
}

func TestC44(t *testing.T) {
	rnd := vt.Rand()
	eng := promql.NewEngine(promql.EngineOpts{MaxSamples: 1e6, Timeout: 30 * time.Second, LookbackDelta: 5 * time.Minute, EnableAtModifier: true, EnableNegativeOffset: true})
	gen := func(yield func(vt.Case)) {
		cases := vt.TLCCases(t)
		rnd.Shuffle(len(cases), func(i, j int) { cases[i], cases[j] = cases[j], cases[i] })
		keep := vt.Pick(400, len(cases))
		worldsPer := vt.Pick(2, 3)
		for i, c := range cases {
			if i >= keep {
				break
			}
			for k := 0; k < worldsPer; k++ {
				q := render(vt.Map(vt.Normalize(c)["expr"]), rnd.Perm)
				yield(vt.Case{"query": q, "expr": c["expr"], "nshards": 2 + rnd.Intn(3), "instant": rnd.Intn(3) == 0, "series": randWorld(rnd, []string{"a", "b"}, vt.Pick(4, 7), false)})
			}
		}
		for _, q := range concreteQueries {
			for k := 0; k < vt.Pick(4, 40); k++ {
				yield(vt.Case{"query": q, "nshards": 2 + rnd.Intn(4), "instant": rnd.Intn(3) == 0, "series": randWorld(rnd, []string{"a", "b"}, 8, strings.Contains(q, "histogram_quantile"))})
			}
		}
	}
	kf := func(c vt.Case) string { return knownFinding(vt.Str(c["query"])) }
	vt.Run(t, gen, kf, func(c vt.Case) vt.Event {
		w := &world{}
		for _, s := range vt.List(c["series"]) {
			m := vt.Map(s)
			w.series = append(w.series, wseries{lset: lsetOf(vt.Map(m["ls"])), v: float64(vt.Int(m["v"]))})
		}
		query := vt.Str(c["query"])
		n := vt.Int(c["nshards"])
		mk := func(shards int) (http.RoundTripper, *downstream) {
			d := &downstream{w: w, eng: eng}
			d.pool.New = func() any { b := make([]byte, 0, 64); return &b }
			rt, err := queryfrontend.VerifNewTripperware(queryfrontend.VerifTripperwareOptions{NumShards: shards, MaxRetries: 0}, d)
			if err != nil {
				t.Fatalf("tripperware: %v", err)
			}
			return rt, d
		}
		rtS, dS := mk(n)
		rtU, _ := mk(0)
		instant := vt.Bool(c["instant"])
		sharded := run(rtS, query, instant)
		unsharded := run(rtU, query, instant)

		an, aerr := querysharding.NewQueryAnalyzer().Analyze(query)
		lbls := an.ShardingLabels()
		if lbls == nil {
			lbls = []string{}
		}
		sort.Strings(lbls)
		analysis := map[string]any{"shardable": aerr == nil && an.IsShardable(), "by": an.ShardBy(), "labels": lbls}

		// membership under the shard infos the real querySharder sent downstream
		member := make([][]int, len(w.series))
		for k := range member {
			member[k] = []int{}
		}
		pool := &sync.Pool{New: func() any { b := make([]byte, 0, 64); return &b }}
		dS.mu.Lock()
		infos := append([]*storepb.ShardInfo{}, dS.infos...)
		nreq := dS.nreq
		dS.mu.Unlock()
		sentLabels := [][]string{}
		for _, info := range infos {
			if info == nil {
				continue
			}
			m := info.Matcher(pool)
			for k, s := range w.series {
				if m.MatchesLabels(s.lset) {
					member[k] = append(member[k], int(info.ShardIndex))
				}
			}
			m.Close()
			l := append([]string{}, info.Labels...)
			sort.Strings(l)
			sentLabels = append(sentLabels, l)
		}
		for k := range member {
			sort.Ints(member[k])
		}
		return vt.Event{"analysis": analysis, "member": member, "sharded": sharded, "unsharded": unsharded, "subreqs": nreq, "sent_labels": sentLabels}
	})
}

// knownFinding classifies a query text into a known-finding class (KNOWN_FINDINGS.jsonl), from the
// input alone.  Empty: none.
func knownFinding(q string) string { return "" }

type fsample struct {
	t int64
	f float64
}

func (s fsample) T() int64                      { return s.t }
func (s fsample) F() float64                    { return s.f }
func (s fsample) H() *histogram.Histogram       { return nil }
func (s fsample) FH() *histogram.FloatHistogram { return nil }
func (s fsample) Type() chunkenc.ValueType      { return chunkenc.ValFloat }
func (s fsample) Copy() chunks.Sample           { return s }
