// Package world materialises a small abstract "world" (series = label maps with samples, external
// labels, blocks) as REAL thanos stores: a real TSDB behind store.NewTSDBStore, real blocks
// (tsdb.CreateBlock + metadata.InjectThanos) uploaded to an in-memory bucket behind
// store.NewBucketStore, and a store.ProxyStore over any of them.
//
// It is shared by the StoreAPIs harness (C07/C08/C09) and meant to be reused by others (C10 ...).
// Nothing in here judges anything: it only builds stores and collects raw responses.
package world

import (
	"context"
	"fmt"
	"io"
	"log/slog"
	"math"
	"os"
	"path/filepath"
	"sort"
	"sync"
	"time"

	"github.com/go-kit/log"
	"github.com/prometheus/client_golang/prometheus"
	"github.com/prometheus/prometheus/model/histogram"
	"github.com/prometheus/prometheus/model/labels"
	"github.com/prometheus/prometheus/storage"
	"github.com/prometheus/prometheus/tsdb"
	"github.com/prometheus/prometheus/tsdb/chunkenc"
	"github.com/prometheus/prometheus/tsdb/chunks"
	"github.com/thanos-io/objstore"
	"go.uber.org/atomic"
	"google.golang.org/grpc/codes"
	"google.golang.org/grpc/status"

	"github.com/thanos-io/thanos/pkg/block"
	"github.com/thanos-io/thanos/pkg/block/metadata"
	"github.com/thanos-io/thanos/pkg/compact/downsample"
	"github.com/thanos-io/thanos/pkg/component"
	"github.com/thanos-io/thanos/pkg/store"
	"github.com/thanos-io/thanos/pkg/store/storepb"
	storetestutil "github.com/thanos-io/thanos/pkg/store/storepb/testutil"
)

// Sample is one float sample.
type Sample struct {
	T int64
	V float64
}

// Series is one stored series: its labels as stored in the data (without external labels) and
// its samples in increasing time order.
type Series struct {
	Labels  map[string]string
	Samples []Sample
}

// Block is one TSDB block of the object-storage part of a world.
type Block struct {
	Ext        map[string]string // external labels recorded in meta.json (Thanos.Labels)
	Series     []Series
	ChunkRange int64 // chunks are cut at multiples of ChunkRange (ms); 0 = 2h
	Resolution int64 // 0 = raw block; > 0: the block is downsampled to this resolution (ms) with thanos' downsampler
}

// Head is the local-TSDB part of a world (what a receiver / ruler / sidecar-less store serves).
type Head struct {
	Ext        map[string]string
	Series     []Series
	ChunkRange int64 // head chunk range (ms); 0 = 2h
}

func discard() *slog.Logger { return slog.New(slog.NewTextHandler(io.Discard, nil)) }

// Lset converts a label map into sorted labels.Labels.
func Lset(m map[string]string) labels.Labels { return labels.FromMap(m) }

// ---------------------------------------------------------------------------------------------
// blocks -> bucket

// BuiltBlock describes one block that was created and uploaded.
type BuiltBlock struct {
	Meta *metadata.Meta
}

// UploadBlocks creates every block with tsdb.CreateBlock (so the samples are exactly the world's),
// injects the Thanos meta (external labels, resolution) and uploads it to bkt. Blocks without any
// sample are skipped (tsdb refuses to write them). scratch is a directory for temporary files.
func UploadBlocks(ctx context.Context, bkt objstore.Bucket, scratch string, blocks []Block) ([]BuiltBlock, error) {
	var out []BuiltBlock
	for i, b := range blocks {
		dir := filepath.Join(scratch, fmt.Sprintf("mk-block-%d", i))
		if err := os.MkdirAll(dir, 0o750); err != nil {
			return nil, err
		}
		ss := make([]storage.Series, 0, len(b.Series))
		n := 0
		for _, s := range b.Series {
			if len(s.Samples) == 0 {
				continue
			}
			n += len(s.Samples)
			ss = append(ss, storage.NewListSeries(Lset(s.Labels), toChunkSamples(s.Samples)))
		}
		if n == 0 {
			continue
		}
		// tsdb.CreateBlock appends series by series through one appender whose lower time bound
		// is fixed by the very first sample (t - ChunkRange/2): the series holding the earliest
		// sample must come first. (Worlds here stay far below its 10 000-sample commit interval.)
		sort.SliceStable(ss, func(i, j int) bool { return firstT(ss[i]) < firstT(ss[j]) })
		cr := b.ChunkRange
		if cr == 0 {
			cr = 2 * 3600 * 1000
		}
		bdir, err := tsdb.CreateBlock(ss, dir, cr, discard())
		if err != nil {
			return nil, fmt.Errorf("create block %d: %w", i, err)
		}
		ext := map[string]string{}
		for k, v := range b.Ext {
			ext[k] = v
		}
		meta, err := metadata.InjectThanos(log.NewNopLogger(), bdir, metadata.Thanos{
			Labels:     ext,
			Downsample: metadata.ThanosDownsample{Resolution: 0},
			Source:     metadata.TestSource,
			IndexStats: metadata.IndexStats{SeriesMaxSize: 1 << 10, ChunkMaxSize: 1 << 12},
		}, nil)
		if err != nil {
			return nil, err
		}
		if b.Resolution > 0 {
			// a really downsampled block (aggregate chunks) made by thanos' own downsampler from the
			// raw block; only the downsampled one is uploaded
			blk, err := tsdb.OpenBlock(discard(), bdir, chunkenc.NewPool(), tsdb.DefaultPostingsDecoderFactory)
			if err != nil {
				return nil, fmt.Errorf("open block %d: %w", i, err)
			}
			id, err := downsample.Downsample(ctx, log.NewNopLogger(), meta, blk, dir, b.Resolution)
			_ = blk.Close()
			if err != nil {
				return nil, fmt.Errorf("downsample block %d: %w", i, err)
			}
			bdir = filepath.Join(dir, id.String())
			if meta, err = metadata.ReadFromDir(bdir); err != nil {
				return nil, err
			}
		}
		if err := block.Upload(ctx, log.NewNopLogger(), bkt, bdir, metadata.NoneFunc); err != nil {
			return nil, fmt.Errorf("upload block %d: %w", i, err)
		}
		out = append(out, BuiltBlock{Meta: meta})
		if err := os.RemoveAll(dir); err != nil {
			return nil, err
		}
	}
	return out, nil
}

func firstT(s storage.Series) int64 {
	it := s.Iterator(nil)
	if it.Next() == chunkenc.ValNone {
		return math.MaxInt64
	}
	return it.AtT()
}

type fsample struct {
	t int64
	v float64
}

func (s fsample) T() int64                      { return s.t }
func (s fsample) F() float64                    { return s.v }
func (s fsample) H() *histogram.Histogram       { return nil }
func (s fsample) FH() *histogram.FloatHistogram { return nil }
func (s fsample) Type() chunkenc.ValueType      { return chunkenc.ValFloat }
func (s fsample) Copy() chunks.Sample           { return s }

func toChunkSamples(in []Sample) []chunks.Sample {
	out := make([]chunks.Sample, len(in))
	for i, s := range in {
		out[i] = fsample{t: s.T, v: s.V}
	}
	return out
}

// BucketOpts configures a BucketStore built over a world's bucket.
type BucketOpts struct {
	SeriesLimit  uint64 // 0 = unlimited
	ChunksLimit  uint64 // 0 = unlimited
	LazyPostings bool
	BatchSize    int // 0 = store.SeriesBatchSize
	// PostingOffsetsInMemSampling: 0 = store.DefaultPostingOffsetInMemorySampling
	PostingOffsetsInMemSampling int
	Options                     []store.BucketStoreOption // appended last
}

// NewBucketStore builds a synced store.BucketStore over bkt. dir is its local cache directory.
func NewBucketStore(ctx context.Context, bkt objstore.Bucket, dir string, o BucketOpts) (*store.BucketStore, error) {
	insBkt := objstore.WithNoopInstr(bkt)
	lister := block.NewConcurrentLister(log.NewNopLogger(), insBkt)
	fetcher, err := block.NewMetaFetcher(log.NewNopLogger(), 4, insBkt, lister, dir, nil, nil)
	if err != nil {
		return nil, err
	}
	sampling := o.PostingOffsetsInMemSampling
	if sampling == 0 {
		sampling = store.DefaultPostingOffsetInMemorySampling
	}
	opts := []store.BucketStoreOption{
		store.WithRegistry(prometheus.NewRegistry()),
		store.WithLazyExpandedPostings(o.LazyPostings),
	}
	if o.BatchSize > 0 {
		opts = append(opts, store.WithSeriesBatchSize(o.BatchSize))
	}
	opts = append(opts, o.Options...)
	bs, err := store.NewBucketStore(
		insBkt, fetcher, dir,
		store.NewChunksLimiterFactory(o.ChunksLimit),
		store.NewSeriesLimiterFactory(o.SeriesLimit),
		store.NewBytesLimiterFactory(0),
		store.NewGapBasedPartitioner(store.PartitionerMaxGapSize),
		4, sampling,
		false, // series response hints
		false, // lazy index reader
		time.Minute,
		opts...,
	)
	if err != nil {
		return nil, err
	}
	if err := bs.SyncBlocks(ctx); err != nil {
		_ = bs.Close()
		return nil, err
	}
	return bs, nil
}

// ---------------------------------------------------------------------------------------------
// head -> TSDB store

// OpenTSDB creates a real tsdb.DB in dir holding exactly the head's samples (all in the in-memory
// head, one commit; chunks are cut at multiples of ChunkRange). Background compaction is disabled.
func OpenTSDB(dir string, h Head) (*tsdb.DB, error) {
	cr := h.ChunkRange
	if cr == 0 {
		cr = 2 * 3600 * 1000
	}
	opts := tsdb.DefaultOptions()
	opts.MinBlockDuration = cr
	opts.MaxBlockDuration = cr
	opts.RetentionDuration = math.MaxInt64 / 4
	opts.NoLockfile = true
	opts.WALSegmentSize = -1 // no WAL: the world is rebuilt from the case, never from disk
	db, err := tsdb.Open(dir, discard(), nil, opts, nil)
	if err != nil {
		return nil, err
	}
	db.DisableCompactions()
	if err := appendAll(db.Appender(context.Background()), h.Series); err != nil {
		_ = db.Close()
		return nil, err
	}
	return db, nil
}

// appendAll appends all samples through one appender in global time order and commits: the first
// append of a fresh head fixes the lower bound for all later ones (first t - ChunkRange/2).
func appendAll(app storage.Appender, series []Series) error {
	type at struct {
		si int
		s  Sample
	}
	var all []at
	for si, s := range series {
		for _, smp := range s.Samples {
			all = append(all, at{si, smp})
		}
	}
	sort.SliceStable(all, func(i, j int) bool { return all[i].s.T < all[j].s.T })
	refs := make([]storage.SeriesRef, len(series))
	lsets := make([]labels.Labels, len(series))
	for si, s := range series {
		lsets[si] = Lset(s.Labels)
	}
	for _, a := range all {
		r, err := app.Append(refs[a.si], lsets[a.si], a.s.T, a.s.V)
		if err != nil {
			_ = app.Rollback()
			return fmt.Errorf("append %s@%d: %w", lsets[a.si], a.s.T, err)
		}
		refs[a.si] = r
	}
	return app.Commit()
}

// NewTSDBStore wraps db in a real store.TSDBStore with the given external labels.
func NewTSDBStore(db store.TSDBReader, ext map[string]string, options ...store.TSDBStoreOption) *store.TSDBStore {
	return store.NewTSDBStore(log.NewNopLogger(), db, component.Receive, Lset(ext), options...)
}

// ---------------------------------------------------------------------------------------------
// proxy

// ClientOpts describes how a local store is announced to the proxy.
type ClientOpts struct {
	Name                 string
	ExtLsets             []map[string]string // advertised label sets (nil = none advertised)
	MinTime, MaxTime     int64               // advertised time range; both 0 = [MinInt64, MaxInt64]
	WithoutReplicaLabels bool                // store strips replica labels itself and returns sorted series
}

// AsClient announces a local StoreServer to a ProxyStore as an in-process client.
func AsClient(srv storepb.StoreServer, o ClientOpts) store.Client {
	var ro atomic.Bool
	mint, maxt := o.MinTime, o.MaxTime
	if mint == 0 && maxt == 0 {
		mint, maxt = math.MinInt64, math.MaxInt64
	}
	var lsets []labels.Labels
	for _, m := range o.ExtLsets {
		lsets = append(lsets, Lset(m))
	}
	return &storetestutil.TestClient{
		StoreClient:                 storepb.ServerAsClient(srv, ro),
		Name:                        o.Name,
		ExtLset:                     lsets,
		MinTime:                     mint,
		MaxTime:                     maxt,
		WithoutReplicaLabelsEnabled: o.WithoutReplicaLabels,
		IsLocalStore:                true,
	}
}

// NewProxy builds a real store.ProxyStore over the clients (no selector labels).
func NewProxy(strategy store.RetrievalStrategy, clients ...store.Client) *store.ProxyStore {
	return store.NewProxyStore(log.NewNopLogger(), prometheus.NewRegistry(),
		func() []store.Client { return clients }, component.Query, labels.EmptyLabels(),
		time.Minute, strategy)
}

// ---------------------------------------------------------------------------------------------
// calling Series and collecting the raw frames

// Frame is one series frame of a Series response, in arrival order.
type Frame struct {
	Labels [][2]string // in the order sent (NOT re-sorted)
	Chunks [][2]int64  // [mint, maxt] per chunk
}

// SeriesResult is everything a Series call produced.
type SeriesResult struct {
	Frames   []Frame
	Warnings []string
	Err      error
	Code     codes.Code // codes.OK when Err == nil
	Panic    string     // non-empty when the call panicked (recovered)
}

type collectServer struct {
	storepb.Store_SeriesServer
	ctx context.Context
	mu  sync.Mutex
	res *SeriesResult
}

func (c *collectServer) Context() context.Context { return c.ctx }

func (c *collectServer) add(s *storepb.Series) {
	f := Frame{Labels: make([][2]string, 0, len(s.Labels)), Chunks: make([][2]int64, 0, len(s.Chunks))}
	for _, l := range s.Labels {
		f.Labels = append(f.Labels, [2]string{string([]byte(l.Name)), string([]byte(l.Value))})
	}
	for _, ch := range s.Chunks {
		f.Chunks = append(f.Chunks, [2]int64{ch.MinTime, ch.MaxTime})
	}
	c.res.Frames = append(c.res.Frames, f)
}

func (c *collectServer) Send(r *storepb.SeriesResponse) error {
	c.mu.Lock()
	defer c.mu.Unlock()
	if w := r.GetWarning(); w != "" {
		c.res.Warnings = append(c.res.Warnings, w)
		return nil
	}
	if s := r.GetSeries(); s != nil {
		c.add(s)
		return nil
	}
	if b := r.GetBatch(); b != nil {
		for _, s := range b.Series {
			if s != nil {
				c.add(s)
			}
		}
	}
	return nil
}

// CallSeries runs srv.Series(req) and collects frames (copied), warnings, error and gRPC code.
// A panic inside the store is recovered and reported.
func CallSeries(ctx context.Context, srv storepb.StoreServer, req *storepb.SeriesRequest) (res SeriesResult) {
	cs := &collectServer{ctx: ctx, res: &res}
	defer func() {
		if r := recover(); r != nil {
			res.Panic = fmt.Sprint(r)
		}
	}()
	err := srv.Series(req, cs)
	res.Err = err
	res.Code = codes.OK
	if err != nil {
		res.Code = status.Code(err)
	}
	return res
}

// SortedCopy returns the strings sorted (responses are not modified).
func SortedCopy(in []string) []string {
	out := append([]string{}, in...)
	sort.Strings(out)
	return out
}
