package world

import (
	"context"
	"io"
	"math"
	"net/http"
	"net/http/httptest"
	"net/url"
	"os"

	"github.com/go-kit/log"
	"github.com/prometheus/client_golang/prometheus"
	"github.com/prometheus/common/route"
	"github.com/prometheus/prometheus/config"
	"github.com/prometheus/prometheus/model/labels"
	"github.com/prometheus/prometheus/storage"
	"github.com/prometheus/prometheus/tsdb"
	apiv1 "github.com/prometheus/prometheus/web/api/v1"

	"github.com/thanos-io/thanos/pkg/block/metadata"
	"github.com/thanos-io/thanos/pkg/component"
	"github.com/thanos-io/thanos/pkg/promclient"
	"github.com/thanos-io/thanos/pkg/receive"
	"github.com/thanos-io/thanos/pkg/store"
)

// ---------------------------------------------------------------------------------------------
// sidecar layout: store.PrometheusStore in front of a REAL Prometheus HTTP API (web/api/v1 of the
// vendored Prometheus: /api/v1/read, /series, /labels, /label/<n>/values) serving a real TSDB.

// PrometheusAPI returns the Prometheus v1 API handler (mounted under /api/v1) over q.
func PrometheusAPI(q storage.SampleAndChunkQueryable) http.Handler {
	api := apiv1.NewAPI(
		nil, q, nil, nil,
		nil, nil, nil,
		func() config.Config { return config.Config{} },
		map[string]string{},
		apiv1.GlobalURLOptions{},
		func(f http.HandlerFunc) http.HandlerFunc { return f },
		nil, "", false,
		discard(),
		nil,
		0, 16, 1<<20,
		false, nil,
		func() (apiv1.RuntimeInfo, error) { return apiv1.RuntimeInfo{}, nil },
		&apiv1.PrometheusVersion{},
		nil, nil,
		prometheus.NewRegistry(), prometheus.NewRegistry(),
		nil,
		false, nil,
		false, false, false,
		false,
		0,
		false, false,
		nil, nil,
	)
	r := route.New()
	api.Register(r.WithPrefix("/api/v1"))
	return r
}

// inProcessHTTP serves requests by calling the handler directly (no sockets).
type inProcessHTTP struct{ h http.Handler }

func (c inProcessHTTP) Do(req *http.Request) (*http.Response, error) {
	rec := httptest.NewRecorder()
	c.h.ServeHTTP(rec, req)
	resp := rec.Result()
	resp.Request = req
	return resp, nil
}

// PromOpts configures a PrometheusStore.
type PromOpts struct {
	Version string // Prometheus version reported to the store ("" = 2.45.0); < 2.24.0 = label calls without matcher support
	MinTime int64  // availableMinTime reported by the timestamps function
}

// NewPrometheusStore builds a real store.PrometheusStore talking (in-process HTTP) to the
// Prometheus API handler h, with the given external labels.
func NewPrometheusStore(h http.Handler, ext map[string]string, o PromOpts) (*store.PrometheusStore, error) {
	base, err := url.Parse("http://prometheus.invalid/")
	if err != nil {
		return nil, err
	}
	ver := o.Version
	if ver == "" {
		ver = "2.45.0"
	}
	lset := Lset(ext)
	return store.NewPrometheusStore(log.NewNopLogger(), prometheus.NewRegistry(),
		promclient.NewClient(inProcessHTTP{h: h}, log.NewNopLogger(), "verif"),
		base, component.Sidecar,
		func() labels.Labels { return lset },
		func() (int64, int64) { return o.MinTime, math.MaxInt64 },
		func() string { return ver })
}

// ---------------------------------------------------------------------------------------------
// receiver layout: receive.MultiTSDB (one TSDB + TSDBStore per tenant, tenant label as external
// label) behind the ProxyStore the receiver builds (no dedup, lazy retrieval).

// Tenant is the data of one tenant of a receiver.
type Tenant struct {
	ID     string
	Series []Series
}

// Receiver is a MultiTSDB with its proxy.
type Receiver struct {
	Multi *receive.MultiTSDB
	Proxy *store.ProxyStore
	root  *os.Root
}

// NewReceiver opens a real receive.MultiTSDB under dir with the given global external labels and
// tenant label name, appends every tenant's samples through TenantAppendable, and builds the proxy
// over TSDBLocalClients exactly as cmd/thanos/receive.go does.
func NewReceiver(dir string, ext map[string]string, tenantLabel string, chunkRange int64, tenants []Tenant) (*Receiver, error) {
	if err := os.MkdirAll(dir, 0o750); err != nil {
		return nil, err
	}
	root, err := os.OpenRoot(dir)
	if err != nil {
		return nil, err
	}
	if chunkRange == 0 {
		chunkRange = 2 * 3600 * 1000
	}
	opts := tsdb.DefaultOptions()
	opts.MinBlockDuration = chunkRange
	opts.MaxBlockDuration = chunkRange
	opts.RetentionDuration = math.MaxInt64 / 4
	opts.NoLockfile = true
	m := receive.NewMultiTSDB(root, log.NewNopLogger(), prometheus.NewRegistry(), opts, Lset(ext), tenantLabel,
		nil, false, false, metadata.NoneFunc)
	r := &Receiver{Multi: m, root: root}
	for _, tn := range tenants {
		ap, err := m.TenantAppendable(tn.ID)
		if err != nil {
			r.Close()
			return nil, err
		}
		app, err := ap.Appender(context.Background())
		if err != nil {
			r.Close()
			return nil, err
		}
		if err := appendAll(app, tn.Series); err != nil {
			r.Close()
			return nil, err
		}
	}
	r.Proxy = store.NewProxyStore(log.NewNopLogger(), prometheus.NewRegistry(), m.TSDBLocalClients, component.Receive,
		labels.EmptyLabels(), 0, store.LazyRetrieval, store.WithoutDedup())
	return r, nil
}

func (r *Receiver) Close() {
	if r.Multi != nil {
		r.Multi.Close()
	}
	if r.root != nil {
		_ = r.root.Close()
	}
}

var _ io.Closer = (*tsdb.DB)(nil)
