package hashring

import (
	"fmt"
	"testing"

	"github.com/thanos-io/thanos/pkg/receive"

	"verif/harness/vt"
)

// C20: adding a node to a ketama ring (no zones) only moves series onto the new node.
//
// Cases: ring size x rf x naming style from TLC (HashringAddMC) plus seeded random ones. The
// added endpoint's name is chosen so that it sorts first, in the middle or last among the
// existing addresses, or is unrelated to them; the new endpoint is inserted at a random
// position of the endpoint list (list order must not matter). For several hundred
// (tenant, series) the replica lists before and after the addition are recorded.
func TestC20(t *testing.T) {
	rnd := vt.Rand()
	mk := func(n, rf, style int) vt.Case {
		eps := layoutEndpoints(rnd, []int{n}, true, false)
		var add string
		switch rnd.Intn(4) {
		case 0:
			add = nodeName(rnd, style, n) // next in the numbering (statefulset scale-up)
		case 1:
			add = "0-first:10901"
		case 2:
			add = nodeName(rnd, style, n/2) + "-b"
		default:
			add = fmt.Sprintf("zz-new-%d.example:10901", rnd.Intn(100000))
		}
		return vt.Case{"n": n, "rf": rf, "eps": eps, "add": ep(add, ""), "at": rnd.Intn(n + 1),
			"tenants": []string{"default-tenant", fmt.Sprintf("team-%d", rnd.Intn(1000))},
			"nseries": vt.Pick(150, 500), "sseed": rnd.Int63n(1 << 30)}
	}
	gen := func(yield func(vt.Case)) {
		for _, c := range vt.TLCCases(t) {
			yield(mk(vt.Int(c["n"]), vt.Int(c["rf"]), vt.Int(c["style"])))
		}
		for i, m := 0, vt.Pick(20, 300); i < m; i++ {
			n := 1 + rnd.Intn(16)
			yield(mk(n, 1+rnd.Intn(min(n, 6)), rnd.Intn(4)))
		}
	}
	vt.Run(t, gen, nil, func(c vt.Case) (ev vt.Event) {
		guarded(t, "C20 case", func() { ev = runC20(c) })
		return ev
	})
}

func runC20(c vt.Case) vt.Event {
	rf := vt.Int(c["rf"])
	eps := endpointsOf(c["eps"])
	add := endpointsOf([]any{c["add"]})[0]
	idx := map[string]int{add.Address: len(eps) + 1}
	for i, e := range eps {
		if e.Address == add.Address {
			return nil // the "new" name already exists: not an addition
		}
		idx[e.Address] = i + 1
	}
	toIdx := func(as []string) []int {
		o := make([]int, len(as))
		for i, a := range as {
			o[i] = idx[a]
		}
		return o
	}
	ev := vt.Event{"built": false, "obs": []any{}, "errs": 0, "msg": ""}
	before, err := buildRing("ketama", rf, append([]receive.Endpoint(nil), eps...), receive.ShuffleShardingConfig{})
	if err != nil {
		ev["msg"] = errStr(err)
		return ev
	}
	at := vt.Int(c["at"])
	grown := append([]receive.Endpoint(nil), eps[:at]...)
	grown = append(grown, add)
	grown = append(grown, eps[at:]...)
	after, err := buildRing("ketama", rf, grown, receive.ShuffleShardingConfig{})
	if err != nil {
		ev["msg"] = errStr(err)
		return ev
	}
	ev["built"] = true
	seen := map[string]bool{}
	obs := []any{}
	errs := 0
	for _, tenant := range vt.Strs(c["tenants"]) {
		for k := 0; k < vt.Int(c["nseries"]); k++ {
			ts := seriesMixed(vt.Int64(c["sseed"]), k)
			b, err1 := getReplicas(before, tenant, ts, rf)
			a, err2 := getReplicas(after, tenant, ts, rf)
			if err1 != nil || err2 != nil {
				errs++
				continue
			}
			bi, ai := toIdx(b), toIdx(a)
			key := fmt.Sprint(bi, ai)
			if !seen[key] {
				seen[key] = true
				obs = append(obs, map[string]any{"b": bi, "a": ai})
			}
		}
	}
	ev["obs"], ev["errs"] = obs, errs
	return ev
}

