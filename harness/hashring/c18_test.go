package hashring

import (
	"fmt"
	"math/rand"
	"sort"
	"strings"
	"testing"

	"github.com/thanos-io/thanos/pkg/receive"
	"github.com/thanos-io/thanos/pkg/store/labelpb"

	"verif/harness/vt"
)

// C18: hashring placement is distinct, deterministic (endpoint-order free) and zone-balanced.
//
// Cases: every zone-size vector x rf enumerated by TLC (HashringMC), each as a zoned ketama ring,
// a zoneless ketama ring or a hashmod ring with realistic addresses, plus seeded random layouts
// (up to 16 endpoints, 5 zones). For each configuration the real NewMultiHashring is built from
// the endpoint list as given and from three permutations of it; for many (tenant, series) the
// replica lists GetN(0..rf-1) of all four rings and of a repeated call are compared. The trace
// line carries the distinct observations, endpoints as indices into the case's endpoint list.
func TestC18(t *testing.T) {
	rnd := vt.Rand()
	mk := func(zones []int, rf int, algo string, noZones bool, dump bool) vt.Case {
		return vt.Case{"zones": zones, "rf": rf, "algo": algo,
			"eps":     layoutEndpoints(rnd, zones, noZones || algo == "hashmod", false),
			"tenants": []string{"default-tenant", fmt.Sprintf("team-%d", rnd.Intn(1000))},
			"nseries": vt.Pick(100, 300), "sseed": rnd.Int63n(1 << 30), "pseed": rnd.Int63n(1 << 30), "dump": dump}
	}
	gen := func(yield func(vt.Case)) {
		for _, c := range vt.TLCCases(t) {
			zones, rf := vt.Ints(c["zones"]), vt.Int(c["rf"])
			n := 0
			for _, z := range zones {
				n += z
			}
			yield(mk(zones, rf, "ketama", false, n <= 8))
			switch rnd.Intn(3) {
			case 0:
				yield(mk(zones, rf, "hashmod", true, false))
			case 1:
				yield(mk(zones, rf, "ketama", true, false))
			}
		}
		for i, m := 0, vt.Pick(30, 300); i < m; i++ {
			nz := 1 + rnd.Intn(5)
			zones := make([]int, nz)
			n := 0
			for k := range zones {
				zones[k] = rnd.Intn(5)
				if k == 0 {
					zones[k]++
				}
				n += zones[k]
			}
			if n > 16 {
				continue
			}
			rf := 1 + rnd.Intn(min(n, 5))
			yield(mk(zones, rf, "ketama", false, rnd.Intn(4) == 0))
		}
	}
	vt.Run(t, gen, nil, func(c vt.Case) (ev vt.Event) {
		guarded(t, "C18 case", func() { ev = runC18(c) })
		return ev
	})
}

func runC18(c vt.Case) vt.Event {
	algo, rf := vt.Str(c["algo"]), vt.Int(c["rf"])
	eps := endpointsOf(c["eps"])
	idx := map[string]int{}
	zoned := len(eps) > 0
	for i, e := range eps {
		idx[e.Address] = i + 1
		if e.AZ == "" {
			zoned = false
		}
	}
	toIdx := func(as []string) []int {
		o := make([]int, len(as))
		for i, a := range as {
			o[i] = idx[a] // 0 for an address that is not configured
		}
		return o
	}
	ev := vt.Event{"built": false, "zoned": zoned, "obs": []any{}, "sorted": []int{}, "ring": []int{}, "table": []any{}, "errs": 0, "msg": ""}

	base, err := buildRing(algo, rf, append([]receive.Endpoint(nil), eps...), receive.ShuffleShardingConfig{})
	if err != nil {
		ev["msg"] = errStr(err)
		return ev
	}
	pr := rand.New(rand.NewSource(vt.Int64(c["pseed"])))
	var perms []receive.Hashring
	for p := 0; p < 3; p++ {
		pe := append([]receive.Endpoint(nil), eps...)
		if p == 0 { // reversal always differs from the original for n >= 2
			for i, j := 0, len(pe)-1; i < j; i, j = i+1, j-1 {
				pe[i], pe[j] = pe[j], pe[i]
			}
		} else {
			pr.Shuffle(len(pe), func(a, b int) { pe[a], pe[b] = pe[b], pe[a] })
		}
		h, err := buildRing(algo, rf, pe, receive.ShuffleShardingConfig{})
		if err != nil {
			ev["msg"] = "permuted list refused: " + errStr(err)
			return ev
		}
		perms = append(perms, h)
	}
	ev["built"] = true

	type obsT struct {
		r    []int
		o, g [][]int
		h    int
	}
	seen := map[string]*obsT{}
	var order []string
	key := func(x any) string { return fmt.Sprint(x) }
	errs := 0
	for _, tenant := range vt.Strs(c["tenants"]) {
		for k := 0; k < vt.Int(c["nseries"]); k++ {
			ts := seriesMixed(vt.Int64(c["sseed"]), k)
			reps, err := getReplicas(base, tenant, ts, rf)
			if err != nil {
				errs++
				continue
			}
			o := &obsT{r: toIdx(reps), o: [][]int{}, g: [][]int{}}
			if algo == "hashmod" {
				o.h = int(labelpb.HashWithPrefix(tenant, ts.Labels) % uint64(len(eps)))
			}
			for _, ph := range perms {
				pl, err := getReplicas(ph, tenant, ts, rf)
				if err != nil {
					errs++
					continue
				}
				if key(toIdx(pl)) != key(o.r) {
					o.o = append(o.o, toIdx(pl))
				}
			}
			if again, err := getReplicas(base, tenant, ts, rf); err != nil {
				errs++
			} else if key(toIdx(again)) != key(o.r) {
				o.g = append(o.g, toIdx(again))
			}
			sk := key([]any{o.r, o.o, o.g, o.h})
			if _, ok := seen[sk]; !ok {
				seen[sk] = o
				order = append(order, sk)
			}
		}
	}
	obs := make([]any, 0, len(order))
	for _, k := range order {
		o := seen[k]
		obs = append(obs, map[string]any{"r": o.r, "o": o.o, "g": o.g, "h": o.h})
	}
	ev["obs"], ev["errs"] = obs, errs

	if algo == "hashmod" {
		s := make([]int, len(eps))
		for i := range s {
			s[i] = i + 1
		}
		sort.Slice(s, func(a, b int) bool { return strings.Compare(eps[s[a]-1].Address, eps[s[b]-1].Address) < 0 })
		ev["sorted"] = s
	}
	if algo == "ketama" && vt.Bool(c["dump"]) {
		secs, err := receive.VerifKetamaSections(append([]receive.Endpoint(nil), eps...), 2, uint64(rf))
		if err == nil {
			ring := make([]int, len(secs))
			table := make([]any, len(secs))
			for i, s := range secs {
				ring[i] = idx[s.Endpoint]
				table[i] = toIdx(s.Replicas)
			}
			ev["ring"], ev["table"] = ring, table
		}
	}
	return ev
}
