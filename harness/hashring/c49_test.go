package hashring

import (
	"fmt"
	"math/rand"
	"net"
	"os"
	"sort"
	"sync"
	"sync/atomic"
	"testing"

	"github.com/thanos-io/thanos/pkg/cacheutil"

	"verif/harness/vt"
)

// C49: memcached key placement is consistent (MemcachedJumpHashSelector).
//
// Cases (server count n x natural-sort rank pos of an added server) come from TLC
// (HashringJumpMC) plus seeded random ones up to 24 servers. Servers are literal IP:port
// addresses (no DNS) generated in increasing numeric order, so their natural sort order is
// known by construction: servers[i] has rank i+1. Each abstract case yields
//   - a "place" case: PickServer vs PickServerForKeys vs a selector fed a shuffled list;
//   - an "add" case: picks before and after SetServers with one more server whose rank among
//     all is pos. When pos is not the last rank this is the known finding
//     added-server-not-last (jump hash over a sorted list re-indexes the buckets); the class is
//     decided from the input alone (pos, n).
func TestC49(t *testing.T) {
	rnd := vt.Rand()
	mkServers := func(n, style int) []string {
		out := make([]string, 0, n)
		// numbering starts just below a digit-length boundary (9 -> 10, 9999 -> 10000) so that most
		// lists differ in natural and in lexicographic order
		a, b := rnd.Intn(200), 4+rnd.Intn(6)
		port := 9990 + rnd.Intn(8)
		for i := 0; i < n; i++ {
			switch style % 4 {
			case 3: // unix sockets with increasing numbers
				b += 1 + rnd.Intn(4)
				out = append(out, fmt.Sprintf("/var/run/memcached/mc-%d.sock", b))
			case 0: // one subnet, increasing host part (2 < 10 in natural order)
				b += 1 + rnd.Intn(9)
				out = append(out, fmt.Sprintf("10.%d.0.%d:11211", a, b))
			case 1: // same host, increasing ports
				port += 1 + rnd.Intn(3)
				out = append(out, fmt.Sprintf("127.0.0.1:%d", port))
			default: // increasing third octet
				b += 1 + rnd.Intn(5)
				out = append(out, fmt.Sprintf("192.168.%d.%d:11211", b, 1+rnd.Intn(3)))
			}
		}
		return out
	}
	emit := func(yield func(vt.Case), n, pos int) {
		all := mkServers(n+1, rnd.Intn(4))
		nk := vt.Pick(200, 600)
		place := all
		if rnd.Intn(4) == 0 { // a server listed twice gets twice the weight; placement must stay consistent
			place = append(append([]string{}, all...), all[rnd.Intn(len(all))])
		}
		yield(vt.Case{"kind": "place", "n": n + 1, "pos": 0, "servers": place, "add": "", "kseed": rnd.Int63n(1 << 30), "nkeys": nk, "pseed": rnd.Int63n(1 << 30)})
		old := append(append([]string{}, all[:pos-1]...), all[pos:]...)
		yield(vt.Case{"kind": "add", "n": n, "pos": pos, "servers": old, "add": all[pos-1], "kseed": rnd.Int63n(1 << 30), "nkeys": nk, "pseed": rnd.Int63n(1 << 30)})
	}
	gen := func(yield func(vt.Case)) {
		for _, c := range vt.TLCCases(t) {
			emit(yield, vt.Int(c["n"]), vt.Int(c["pos"]))
		}
		if p := os.Getenv("VERIF_CASES_HASHRINGSELECTORMC"); p != "" { // phase 2: concurrent SetServers / lookups
			cs, err := vt.ReadNDJSON(p)
			if err != nil {
				t.Fatalf("C49: %v", err)
			}
			for _, c := range cs {
				na, nb, sh := vt.Int(c["na"]), vt.Int(c["nb"]), vt.Int(c["shared"])
				pool := mkServers(na+nb-sh, rnd.Intn(4))
				a := append([]string{}, pool[:na]...)
				b := append([]string{}, pool[na-sh:na-sh+nb]...)
				if rnd.Intn(4) == 0 && len(b) > 0 {
					b = append(b, b[0]) // duplicate address in B
				}
				yield(vt.Case{"kind": "conc", "n": na, "pos": 0, "servers": a, "servers_b": b, "add": "",
					"kseed": rnd.Int63n(1 << 30), "nkeys": 24, "pseed": rnd.Int63n(1 << 30), "iters": vt.Pick(300, 2000)})
			}
		}
		for i, m := 0, vt.Pick(20, 200); i < m; i++ {
			n := 1 + rnd.Intn(24)
			pos := n + 1
			if rnd.Intn(2) == 0 {
				pos = 1 + rnd.Intn(n+1)
			}
			emit(yield, n, pos)
		}
	}
	kf := func(c vt.Case) string {
		if vt.Str(c["kind"]) == "add" && vt.Int(c["pos"]) != vt.Int(c["n"])+1 {
			return "added-server-not-last"
		}
		return ""
	}
	vt.Run(t, gen, kf, func(c vt.Case) (ev vt.Event) {
		guarded(t, "C49 case", func() { ev = runC49(c) })
		return ev
	})
}

// cacheKeys are shaped like the keys thanos sends to memcached.
func cacheKeys(seed int64, n int) []string {
	r := rand.New(rand.NewSource(seed))
	out := make([]string, n)
	for i := range out {
		switch r.Intn(4) {
		case 0:
			out[i] = fmt.Sprintf("P:01%024X:%x", r.Int63(), r.Int63())
		case 1:
			out[i] = fmt.Sprintf("S:01%024X:%d", r.Int63(), r.Intn(1<<30))
		case 2:
			out[i] = fmt.Sprintf("subrange:01%024X/chunks/%06d:%d:%d", r.Int63(), r.Intn(100), r.Intn(1<<20)*16000, r.Intn(1<<20)*16000)
		default:
			out[i] = fmt.Sprintf("fe:tenant-%d:rate(http_requests_total[5m]):%d:%d", r.Intn(50), r.Intn(1000)*60000, r.Intn(24))
		}
	}
	return out
}

func runC49(c vt.Case) vt.Event {
	if vt.Str(c["kind"]) == "conc" {
		return runC49Conc(c)
	}
	servers := vt.Strs(c["servers"])
	add := vt.Str(c["add"])
	keys := cacheKeys(vt.Int64(c["kseed"]), vt.Int(c["nkeys"]))
	// rank of every address in the natural order of all servers of the case (by construction:
	// generation order, the added server at rank pos)
	rank := map[string]int{}
	pos := vt.Int(c["pos"])
	r := 1
	for _, s := range servers {
		if r == pos {
			r++
		}
		rank[s] = r
		r++
	}
	if add != "" {
		rank[add] = pos
	}
	ev := vt.Event{"ok": false, "msg": "", "single": []int{}, "batch": []int{}, "perm": []int{}, "lex": []int{}, "before": []int{}, "after": []int{}, "new": pos}
	fail := func(err error) vt.Event { ev["msg"] = errStr(err); return ev }
	pick := func(s *cacheutil.MemcachedJumpHashSelector) ([]int, error) {
		out := make([]int, len(keys))
		for i, k := range keys {
			a, err := s.PickServer(k)
			if err != nil {
				return nil, err
			}
			out[i] = rank[a.String()]
		}
		return out, nil
	}
	shuffled := func() []string {
		p := append([]string{}, servers...)
		pr := rand.New(rand.NewSource(vt.Int64(c["pseed"])))
		pr.Shuffle(len(p), func(a, b int) { p[a], p[b] = p[b], p[a] })
		if len(p) > 1 && p[0] == servers[0] { // make sure the listing differs
			p[0], p[len(p)-1] = p[len(p)-1], p[0]
		}
		return p
	}
	var sel cacheutil.MemcachedJumpHashSelector
	if vt.Str(c["kind"]) == "place" {
		// listed in reverse natural order; the other selector gets a shuffled listing
		rev := append([]string{}, servers...)
		for i, j := 0, len(rev)-1; i < j; i, j = i+1, j-1 {
			rev[i], rev[j] = rev[j], rev[i]
		}
		if err := sel.SetServers(rev...); err != nil {
			return fail(err)
		}
		single, err := pick(&sel)
		if err != nil {
			return fail(err)
		}
		byServer, err := sel.PickServerForKeys(keys)
		if err != nil {
			return fail(err)
		}
		where := map[string]int{}
		for srv, ks := range byServer {
			for _, k := range ks {
				where[k] = rank[srv]
			}
		}
		batch := make([]int, len(keys))
		for i, k := range keys {
			if w, ok := where[k]; ok {
				batch[i] = w
			} else {
				batch[i] = -1 // the key is missing from the batch answer
			}
		}
		var sel2 cacheutil.MemcachedJumpHashSelector
		if err := sel2.SetServers(shuffled()...); err != nil {
			return fail(err)
		}
		perm, err := pick(&sel2)
		if err != nil {
			return fail(err)
		}
		// a third selector is given the servers in plain lexicographic order (the way a sorted
		// configuration file lists them)
		lexed := append([]string{}, servers...)
		sort.Strings(lexed)
		var sel3 cacheutil.MemcachedJumpHashSelector
		if err := sel3.SetServers(lexed...); err != nil {
			return fail(err)
		}
		lex, err := pick(&sel3)
		if err != nil {
			return fail(err)
		}
		ev["ok"], ev["single"], ev["batch"], ev["perm"], ev["lex"] = true, single, batch, perm, lex
		return ev
	}
	if err := sel.SetServers(shuffled()...); err != nil {
		return fail(err)
	}
	before, err := pick(&sel)
	if err != nil {
		return fail(err)
	}
	grown := append(shuffled(), add)
	at := int(vt.Int64(c["pseed"]) % int64(len(grown)))
	grown[at], grown[len(grown)-1] = grown[len(grown)-1], grown[at] // the new server is listed anywhere
	if err := sel.SetServers(grown...); err != nil {
		return fail(err)
	}
	after, err := pick(&sel)
	if err != nil {
		return fail(err)
	}
	ev["ok"], ev["before"], ev["after"] = true, before, after
	return ev
}

// runC49Conc (phase 2): SetServers (lists A, B and one that does not resolve) concurrent with
// PickServer / PickServerForKeys / Each on ONE selector. Reference answers under A and under B
// come from two selectors used sequentially beforehand.
func runC49Conc(c vt.Case) vt.Event {
	la, lb := vt.Strs(c["servers"]), vt.Strs(c["servers_b"])
	keys := cacheKeys(vt.Int64(c["kseed"]), vt.Int(c["nkeys"]))
	id := map[string]int{}
	for _, s := range append(append([]string{}, la...), lb...) {
		if _, ok := id[s]; !ok {
			id[s] = len(id) + 1
		}
	}
	ev := vt.Event{"ok": false, "msg": "", "pick_a": []int{}, "pick_b": []int{}, "picks": []any{}, "batches": []any{}, "eachs": []any{},
		"list_a": []int{}, "list_b": []int{}, "crashes": 0, "set_errors": 0}
	pickAll := func(s *cacheutil.MemcachedJumpHashSelector) []int {
		out := make([]int, len(keys))
		for i, k := range keys {
			if a, err := s.PickServer(k); err == nil {
				out[i] = id[a.String()]
			}
		}
		return out
	}
	eachOf := func(s *cacheutil.MemcachedJumpHashSelector) []int {
		out := []int{}
		_ = s.Each(func(a net.Addr) error { out = append(out, id[a.String()]); return nil })
		return out
	}
	batchOf := func(s *cacheutil.MemcachedJumpHashSelector) []int {
		out := make([]int, len(keys)) // 0 = error / key missing
		m, err := s.PickServerForKeys(keys)
		if err != nil {
			return out
		}
		pos := map[string]int{}
		for i, k := range keys {
			pos[k] = i
		}
		for srv, ks := range m {
			for _, k := range ks {
				out[pos[k]] = id[srv]
			}
		}
		return out
	}
	var sa, sb cacheutil.MemcachedJumpHashSelector
	if err := sa.SetServers(la...); err != nil {
		ev["msg"] = errStr(err)
		return ev
	}
	if err := sb.SetServers(lb...); err != nil {
		ev["msg"] = errStr(err)
		return ev
	}
	ev["pick_a"], ev["pick_b"], ev["list_a"], ev["list_b"] = pickAll(&sa), pickAll(&sb), eachOf(&sa), eachOf(&sb)

	var sel cacheutil.MemcachedJumpHashSelector
	_ = sel.SetServers(la...)
	var mu sync.Mutex
	picks := map[[2]int]bool{}
	batches := map[string][]int{}
	eachs := map[string][]int{}
	crashes, setErrors := 0, 0
	var ops atomic.Int64
	guard := func(f func()) {
		defer func() {
			if p := recover(); p != nil {
				mu.Lock()
				crashes++
				mu.Unlock()
			}
		}()
		f()
	}
	iters := vt.Int(c["iters"])
	stop := make(chan struct{})
	var wg sync.WaitGroup
	for g := 0; g < 3; g++ {
		wg.Add(1)
		go func(g int) {
			defer wg.Done()
			for n := 0; ; n++ {
				select {
				case <-stop:
					return
				default:
				}
				ops.Add(1)
				guard(func() {
					switch (n + g) % 3 {
					case 0:
						k := n % len(keys)
						s := 0
						if a, err := sel.PickServer(keys[k]); err == nil {
							s = id[a.String()]
						}
						mu.Lock()
						picks[[2]int{k + 1, s}] = true
						mu.Unlock()
					case 1:
						b := batchOf(&sel)
						mu.Lock()
						batches[fmt.Sprint(b)] = b
						mu.Unlock()
					default:
						e := eachOf(&sel)
						mu.Lock()
						eachs[fmt.Sprint(e)] = e
						mu.Unlock()
					}
				})
			}
		}(g)
	}
	// the DNS refresh loop: at least iters updates, and until the readers have done some work
	for i := 0; i < iters || (ops.Load() < 600 && i < 1000*iters); i++ {
		guard(func() {
			var err error
			switch i % 3 {
			case 0:
				err = sel.SetServers(lb...)
			case 1:
				err = sel.SetServers(append(append([]string{}, la...), "10.1.2.3")...) // no port: must fail and change nothing
				if err == nil {
					err = fmt.Errorf("unresolvable list accepted")
				} else {
					err = nil
				}
			default:
				err = sel.SetServers(la...)
			}
			if err != nil {
				mu.Lock()
				setErrors++
				mu.Unlock()
			}
		})
	}
	close(stop)
	wg.Wait()
	pl := []any{}
	for p := range picks {
		pl = append(pl, map[string]any{"k": p[0], "s": p[1]})
	}
	bl, el := []any{}, []any{}
	for _, b := range batches {
		bl = append(bl, b)
	}
	for _, e := range eachs {
		el = append(el, e)
	}
	ev["ok"], ev["picks"], ev["batches"], ev["eachs"], ev["crashes"], ev["set_errors"] = true, pl, bl, el, crashes, setErrors
	return ev
}
