// Package hashring holds the conformance harnesses of the Hashring spec module:
// C18-C21, C27 (pkg/receive hashrings) and C49 (memcached jump-hash selector).
package hashring

import (
	"bytes"
	"encoding/json"
	"fmt"
	"math/rand"
	"sort"
	"strings"
	"testing"
	"time"

	"github.com/prometheus/client_golang/prometheus"

	"github.com/thanos-io/thanos/pkg/receive"
	"github.com/thanos-io/thanos/pkg/store/labelpb"
	"github.com/thanos-io/thanos/pkg/store/storepb/prompb"

	"verif/harness/vt"
)

// ep is the JSON form of one endpoint in a case: a = address, z = availability zone.
func ep(a, z string) map[string]any { return map[string]any{"a": a, "z": z} }

func endpointsOf(v any) []receive.Endpoint {
	l := vt.List(v)
	out := make([]receive.Endpoint, 0, len(l))
	for _, x := range l {
		m := vt.Map(x)
		out = append(out, receive.Endpoint{Address: vt.Str(m["a"]), CapNProtoAddress: vt.Str(m["a"]) + "-capnp", AZ: vt.Str(m["z"])})
	}
	return out
}

// nodeNames are realistic receiver addresses; their hash order on the ring is what the real
// xxhash gives (the model quantifies over all orders instead).
func nodeName(r *rand.Rand, style, i int) string {
	switch style % 4 {
	case 0:
		return fmt.Sprintf("thanos-receive-%d.thanos-receive.monitoring.svc.cluster.local:10901", i)
	case 1:
		return fmt.Sprintf("10.%d.%d.%d:10901", r.Intn(250), r.Intn(250), i+1)
	case 2:
		return fmt.Sprintf("node-%d", i)
	default:
		return fmt.Sprintf("rcv-%s-%d:19291", string(rune('a'+r.Intn(26))), i)
	}
}

var zoneNames = [][]string{
	{"eu-west-1a", "eu-west-1b", "eu-west-1c", "eu-west-1d"},
	{"A", "B", "C", "D"},
	{"zone-1", "zone-2", "zone-3", "zone-4"},
}

// layoutEndpoints turns a zone-size vector (TLC case) into a shuffled endpoint list.
// emptyFirst names the first zone "" (endpoints without AZ mixed with zoned ones).
func layoutEndpoints(r *rand.Rand, zones []int, noZones, emptyFirst bool) []any {
	style := r.Intn(4)
	zn := zoneNames[r.Intn(len(zoneNames))]
	var eps []any
	i := 0
	for z, cnt := range zones {
		for k := 0; k < cnt; k++ {
			name := zn[z%len(zn)]
			if noZones || (emptyFirst && z == 0) {
				name = ""
			}
			eps = append(eps, ep(nodeName(r, style, i), name))
			i++
		}
	}
	r.Shuffle(len(eps), func(a, b int) { eps[a], eps[b] = eps[b], eps[a] })
	return eps
}

// series builds the k-th series of a seeded family: a realistic label set.
func series(seed int64, k int) *prompb.TimeSeries {
	r := rand.New(rand.NewSource(seed*1000003 + int64(k)))
	lbls := []labelpb.ZLabel{
		{Name: "__name__", Value: []string{"http_requests_total", "up", "node_cpu_seconds_total", "go_goroutines"}[r.Intn(4)]},
		{Name: "instance", Value: fmt.Sprintf("10.0.%d.%d:9100", r.Intn(256), r.Intn(256))},
		{Name: "job", Value: fmt.Sprintf("job-%d", r.Intn(50))},
		{Name: "series", Value: fmt.Sprintf("%d-%d", seed, k)},
	}
	return &prompb.TimeSeries{Labels: lbls, Samples: []prompb.Sample{{Value: 1, Timestamp: 1}}}
}

func algoOf(s string) receive.HashringAlgorithm { return receive.HashringAlgorithm(s) }

// buildRing calls the real NewMultiHashring for a single-hashring configuration.
func buildRing(algo string, rf int, eps []receive.Endpoint, ss receive.ShuffleShardingConfig) (receive.Hashring, error) {
	cfg := []receive.HashringConfig{{Hashring: "h0", Endpoints: eps, ShuffleShardingConfig: ss}}
	return receive.NewMultiHashring(algoOf(algo), uint64(rf), cfg, prometheus.NewRegistry())
}

// getReplicas returns the addresses GetN(0..rf-1) answers, or the first error.
func getReplicas(h receive.Hashring, tenant string, ts *prompb.TimeSeries, rf int) ([]string, error) {
	out := make([]string, 0, rf)
	for n := 0; n < rf; n++ {
		e, err := h.GetN(tenant, ts, uint64(n))
		if err != nil {
			return out, err
		}
		out = append(out, e.Address)
	}
	return out, nil
}

// guarded runs f with a watchdog: a hang in the code under test is not this property's
// business (C19 judges termination, in a subprocess); here it ends the run as a tool failure
// (exit 2) instead of blocking the driver until the go test timeout.
func guarded(t *testing.T, what string, f func()) {
	done := make(chan struct{})
	go func() { defer close(done); f() }()
	select {
	case <-done:
	case <-time.After(120 * time.Second):
		t.Fatalf("hashring harness: %s did not return within 120 s (termination is judged by C19, not here)", what)
	}
}

func sortedCopy(s []string) []string {
	o := append([]string(nil), s...)
	sort.Strings(o)
	return o
}

func addrs(eps []receive.Endpoint) []string {
	o := make([]string, len(eps))
	for i, e := range eps {
		o[i] = e.Address
	}
	return o
}

func errStr(err error) string {
	if err == nil {
		return ""
	}
	s := err.Error()
	if len(s) > 200 {
		s = s[:200]
	}
	return strings.ReplaceAll(s, "\n", " ")
}

// decodeCase parses one JSON case the way vt does (numbers as json.Number).
func decodeCase(b []byte) (vt.Case, error) {
	var c vt.Case
	dec := json.NewDecoder(bytes.NewReader(b))
	dec.UseNumber()
	err := dec.Decode(&c)
	return c, err
}

// seriesMixed is series() with every third series carrying a LARGE label set (long label values
// of 1-4 KB or 50+ labels, > 1 KB in total), so that tenant prefix + labels exceed the 1 KB
// fast-path buffer of labelpb.HashWithPrefix and the streaming digest path is taken; different
// large series are hashed alternately and repeatedly in one process.
func seriesMixed(seed int64, k int) *prompb.TimeSeries {
	ts := series(seed, k)
	if k%3 != 0 {
		return ts
	}
	r := rand.New(rand.NewSource(seed*7919 + int64(k)))
	if k%2 == 0 {
		ts.Labels = append(ts.Labels, labelpb.ZLabel{Name: "stacktrace", Value: strings.Repeat(fmt.Sprintf("frame-%d/", r.Intn(1000)), 120+r.Intn(400))})
	} else {
		for i := 0; i < 50+r.Intn(30); i++ {
			ts.Labels = append(ts.Labels, labelpb.ZLabel{Name: fmt.Sprintf("tag_%03d", i), Value: fmt.Sprintf("value-%d-%d-%s", k, r.Intn(1<<20), strings.Repeat("x", 10+r.Intn(30)))})
		}
	}
	return ts
}
