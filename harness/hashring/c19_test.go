package hashring

import (
	"bufio"
	"math/rand"
	"encoding/json"
	"fmt"
	"io"
	"os"
	"os/exec"
	"testing"
	"time"

	"github.com/prometheus/client_golang/prometheus"

	"github.com/thanos-io/thanos/pkg/receive"

	"verif/harness/vt"
)

// C19: building a hashring from any configuration terminates.
//
// A hang inside NewMultiHashring cannot be cancelled in-process, so every case is executed by a
// worker subprocess (this test binary re-executing itself as TestHashringWorker). The parent
// sends one case per line on the worker's stdin and reads two progress lines per case from an
// extra pipe: the outcome of building the hashring, then the outcome of using it (GetN for
// replicas 0..rf-1 of a few series = "usable hashring"). If a line does not arrive within the
// deadline the worker is killed, the phase is recorded as "deadline", and a fresh worker serves
// the following cases.
//
// Cases: every zone-size vector x rf enumerated by TLC (HashringBuildMC), concretised with
// realistic addresses in shuffled order, in several variants (zone names, one zone unnamed,
// hashmod, shuffle sharding with and without zone awareness), plus seeded random layouts.

const (
	c19Deadline   = 60 * time.Second // a 12-node ring is built in ~20 ms; generous even on a machine loaded 10x
	c19HangBudget = 3                // after this many observed hangs the remaining cases are skipped
)

type hrWorker struct {
	cmd   *exec.Cmd
	in    io.WriteCloser
	lines chan string
}

func startWorker(t *testing.T) *hrWorker { return startWorkerBin(t, os.Args[0], nil) }

// startWorkerBin starts the worker from the given test binary; stderr (nil = inherit) receives the
// child's standard error.
func startWorkerBin(t *testing.T, bin string, stderr io.Writer) *hrWorker {
	pr, pw, err := os.Pipe()
	if err != nil {
		t.Fatalf("pipe: %v", err)
	}
	cmd := exec.Command(bin, "-test.run", "^TestHashringWorker$", "-test.timeout", "0")
	cmd.Env = append(os.Environ(), "HASHRING_WORKER=1")
	cmd.ExtraFiles = []*os.File{pw} // fd 3 in the child
	cmd.Stdout = io.Discard
	cmd.Stderr = os.Stderr
	if stderr != nil {
		cmd.Stderr = stderr
	}
	in, err := cmd.StdinPipe()
	if err != nil {
		t.Fatalf("stdin pipe: %v", err)
	}
	if err := cmd.Start(); err != nil {
		t.Fatalf("starting worker: %v", err)
	}
	pw.Close()
	w := &hrWorker{cmd: cmd, in: in, lines: make(chan string, 16)}
	go func() {
		sc := bufio.NewScanner(pr)
		sc.Buffer(make([]byte, 1<<20), 1<<26)
		for sc.Scan() {
			w.lines <- sc.Text()
		}
		close(w.lines)
		pr.Close()
	}()
	return w
}

func (w *hrWorker) kill() {
	w.in.Close()
	_ = w.cmd.Process.Kill()
	_, _ = w.cmd.Process.Wait()
}

// next waits for the next progress line; ok=false on deadline, dead=true if the worker died.
func (w *hrWorker) next(d time.Duration) (line string, ok, dead bool) {
	select {
	case l, open := <-w.lines:
		if !open {
			return "", false, true
		}
		return l, true, false
	case <-time.After(d):
		return "", false, false
	}
}

// TestHashringWorker is the subprocess side: it only runs when re-executed by TestC19 / TestC21.
func TestHashringWorker(t *testing.T) {
	if os.Getenv("HASHRING_WORKER") != "1" {
		t.Skip("worker mode only")
	}
	out := os.NewFile(3, "results")
	sc := bufio.NewScanner(os.Stdin)
	sc.Buffer(make([]byte, 1<<20), 1<<26)
	for sc.Scan() {
		cs, err := decodeCase(sc.Bytes())
		if err != nil {
			fmt.Fprintf(out, "{\"phase\":\"build\",\"outcome\":\"badcase\",\"msg\":%q}\n", err.Error())
			continue
		}
		if vt.Str(cs["op"]) == "c21conc" { // C21 concurrent scenario: one result line
			writeJSON(out, c21ConcChild(cs))
			continue
		}
		h, res := c19Build(cs)
		writeJSON(out, res)
		if h == nil {
			writeJSON(out, map[string]any{"phase": "probe", "outcome": "none", "msg": ""})
			continue
		}
		writeJSON(out, c19Probe(h, cs))
	}
}

func writeJSON(f *os.File, v any) {
	b, _ := json.Marshal(v)
	f.Write(append(b, '\n'))
}

func c19Shuffle(c vt.Case) receive.ShuffleShardingConfig {
	ss := vt.Map(c["ss"])
	return receive.ShuffleShardingConfig{ShardSize: vt.Int(ss["size"]), CacheSize: vt.Int(ss["cache"]), ZoneAwarenessDisabled: vt.Bool(ss["nozone"])}
}

func c19Build(c vt.Case) (h receive.Hashring, res map[string]any) {
	res = map[string]any{"phase": "build", "outcome": "ok", "msg": ""}
	defer func() {
		if r := recover(); r != nil {
			h = nil
			res["outcome"], res["msg"] = "panic", fmt.Sprint(r)
		}
	}()
	// the configuration goes through the JSON loader (pkg/receive/config.go), as a hashring file does
	type jep struct {
		Address string `json:"address"`
		AZ      string `json:"az"`
	}
	type jcfg struct {
		Hashring  string                        `json:"hashring"`
		Endpoints []jep                         `json:"endpoints"`
		Shuffle   receive.ShuffleShardingConfig `json:"shuffle_sharding_config"`
	}
	jc := jcfg{Hashring: "h0", Shuffle: c19Shuffle(c)}
	for _, e := range endpointsOf(c["eps"]) {
		jc.Endpoints = append(jc.Endpoints, jep{Address: e.Address, AZ: e.AZ})
	}
	raw, err := json.Marshal([]jcfg{jc})
	if err != nil {
		panic(err)
	}
	if r := vt.Str(c["raw"]); r != "" { // validation cases bring their own file text
		raw = []byte(r)
	}
	cfg, err := receive.ParseConfig(raw)
	if err == nil {
		h, err = receive.NewMultiHashring(algoOf(vt.Str(c["algo"])), uint64(vt.Int(c["rf"])), cfg, prometheus.NewRegistry())
	}
	if err != nil {
		res["outcome"], res["msg"] = "error", errStr(err)
		return nil, res
	}
	return h, res
}

// c19Probe uses the hashring the way the receive handler does: GetN(0..rf-1) for some series of
// two tenants. ok = every call answered with a configured endpoint; error = some call returned
// an error (reported in bounded time, which the property allows).
func c19Probe(h receive.Hashring, c vt.Case) (res map[string]any) {
	res = map[string]any{"phase": "probe", "outcome": "ok", "msg": ""}
	defer func() {
		if r := recover(); r != nil {
			res["outcome"], res["msg"] = "panic", fmt.Sprint(r)
		}
	}()
	known := map[string]bool{}
	for _, e := range endpointsOf(c["eps"]) {
		known[e.Address] = true
	}
	rf := vt.Int(c["rf"])
	seed := vt.Int64(c["sseed"])
	for _, tenant := range []string{"tenant-a", vt.Str(c["tenant"])} {
		for k := 0; k < vt.Int(c["probe"]); k++ {
			reps, err := getReplicas(h, tenant, series(seed, k), rf)
			if err != nil {
				res["outcome"], res["msg"] = "error", errStr(err)
				return res
			}
			for _, a := range reps {
				if !known[a] {
					res["outcome"], res["msg"] = "foreign", a
					return res
				}
			}
		}
	}
	return res
}

func TestC19(t *testing.T) {
	rnd := vt.Rand()
	mk := func(zones []int, rf int, algo string, noZones, emptyFirst bool, ssSize int, ssNoZone bool) vt.Case {
		return vt.Case{"zones": zones, "rf": rf, "algo": algo, "vkind": "", "n": total0(zones), "raw": "",
			"eps":    layoutEndpoints(rnd, zones, noZones, emptyFirst),
			"ss":     map[string]any{"size": ssSize, "cache": 1, "nozone": ssNoZone},
			"tenant": fmt.Sprintf("team-%d", rnd.Intn(1000)), "probe": 4, "sseed": rnd.Int63n(1 << 30)}
	}
	total := func(z []int) int {
		n := 0
		for _, x := range z {
			n += x
		}
		return n
	}
	gen := func(yield func(vt.Case)) {
		for _, c := range vt.TLCCases(t) {
			if k, ok := c["vkind"]; ok { // phase 2: validation paths
				yield(c19ValidationCase(rnd, vt.Str(k), vt.Int(c["n"]), vt.Int(c["rf"])))
				continue
			}
			zones, rf := vt.Ints(c["zones"]), vt.Int(c["rf"])
			n := total(zones)
			yield(mk(zones, rf, "ketama", false, false, 0, false)) // the layout as enumerated
			switch rnd.Intn(6) {                                   // one seeded variant per layout
			case 0:
				yield(mk(zones, rf, "ketama", false, true, 0, false)) // first zone unnamed
			case 1:
				yield(mk(zones, rf, "hashmod", rnd.Intn(2) == 0, false, 0, false))
			case 2:
				yield(mk(zones, rf, "ketama", false, false, 1+rnd.Intn(n+1), true)) // shuffle shards ignoring zones
			case 3:
				yield(mk(zones, rf, "ketama", false, false, 1+rnd.Intn(n+1), false))
			case 4:
				yield(mk(zones, rf, "", true, false, 0, false)) // unknown algorithm name falls back to hashmod
			default:
				yield(mk(zones, rf, "ketama", true, false, 0, false))
			}
		}
		// seeded random layouts beyond the enumerated vectors (more zones, up to 16 endpoints)
		for i, n := 0, vt.Pick(60, 600); i < n; i++ {
			nz := 1 + rnd.Intn(5)
			zones := make([]int, nz)
			for k := range zones {
				zones[k] = rnd.Intn(5)
			}
			zones[0]++
			m := total(zones)
			if m > 16 {
				continue
			}
			ss, noz := 0, false
			if rnd.Intn(3) == 0 {
				ss, noz = 1+rnd.Intn(m), rnd.Intn(2) == 0
			}
			yield(mk(zones, 1+rnd.Intn(m), "ketama", false, rnd.Intn(8) == 0, ss, noz))
		}
	}
	var w *hrWorker
	defer func() {
		if w != nil {
			w.kill()
		}
	}()
	hangs := 0
	vt.Run(t, gen, nil, func(c vt.Case) vt.Event {
		if hangs >= c19HangBudget {
			return nil // enough hangs observed; each costs a full deadline
		}
		got := map[string]any{"build": "none", "probe": "none", "msg": ""}
		for attempt := 0; ; attempt++ {
			if w == nil {
				w = startWorker(t)
			}
			b, _ := json.Marshal(c)
			if _, err := w.in.Write(append(b, '\n')); err != nil {
				w.kill()
				w = nil
				if attempt < 2 {
					continue
				}
				t.Fatalf("C19: cannot talk to worker: %v", err)
			}
			dead := false
			for _, phase := range []string{"build", "probe"} {
				line, ok, d := w.next(c19Deadline)
				if d {
					dead = true
					break
				}
				if !ok {
					got[phase] = "deadline"
					got["msg"] = fmt.Sprintf("no answer within %s", c19Deadline)
					hangs++
					w.kill()
					w = nil
					break
				}
				var r map[string]any
				if err := json.Unmarshal([]byte(line), &r); err != nil || vt.Str(r["phase"]) != phase {
					t.Fatalf("C19: unexpected worker line %q (want phase %s)", line, phase)
				}
				if vt.Str(r["outcome"]) == "badcase" {
					t.Fatalf("C19: worker could not decode case: %v", r["msg"])
				}
				got[phase] = vt.Str(r["outcome"])
				if m := vt.Str(r["msg"]); m != "" {
					got["msg"] = m
				}
			}
			if dead { // the worker died without being asked to (not an observation of a hang)
				w.kill()
				w = nil
				if attempt < 2 {
					continue
				}
				t.Fatalf("C19: worker keeps dying on case %v", c)
			}
			break
		}
		return vt.Event{"got": got}
	})
}

func total0(z []int) int {
	n := 0
	for _, x := range z {
		n += x
	}
	return n
}

// c19ValidationCase renders a wrong or unusual hashring file (phase 2). eps lists the endpoints
// a usable ring may answer with.
func c19ValidationCase(rnd *rand.Rand, kind string, n, rf int) vt.Case {
	type jep struct {
		Address string `json:"address"`
		AZ      string `json:"az,omitempty"`
	}
	zn := zoneNames[rnd.Intn(len(zoneNames))]
	style := rnd.Intn(4)
	var eps []jep
	for i := 0; i < n; i++ {
		e := jep{Address: nodeName(rnd, style, i)}
		switch kind {
		case "partaz":
			if i%2 == 0 {
				e.AZ = zn[i%3]
			}
		case "hashmodaz":
			e.AZ = zn[i%3]
		case "dup":
			if i > 0 && i == n-1 {
				e.Address = eps[0].Address // the last endpoint repeats the first
			}
		}
		eps = append(eps, e)
	}
	algo, jalgo := "ketama", ""
	switch kind {
	case "unknownalgo":
		algo, jalgo = "ketama", "consistent-hashing-v2" // per-hashring algorithm nobody knows
	case "hashmodaz":
		algo = "hashmod"
		if n == 0 {
			eps = append(eps, jep{Address: nodeName(rnd, style, 0), AZ: zn[0]})
		}
	}
	ring := map[string]any{"hashring": "h0", "endpoints": eps}
	if eps == nil {
		ring["endpoints"] = []jep{}
	}
	if jalgo != "" {
		ring["algorithm"] = jalgo
	}
	b, _ := json.Marshal([]any{ring})
	raw := string(b)
	switch kind {
	case "malformed":
		raw = raw[:len(raw)*2/3]
	case "noaddr":
		raw = `[{"hashring": "h0", "endpoints": [{"az": "` + zn[0] + `"}, {"address": "` + nodeName(rnd, style, 1) + `"}]}]`
	case "emptylist":
		raw = "[]"
	case "emptyeps":
		raw = `[{"hashring": "h0", "endpoints": []}]`
		eps = nil
	}
	known := []any{}
	for _, e := range eps {
		known = append(known, ep(e.Address, e.AZ))
	}
	if kind == "emptyeps" {
		n = 0
	}
	if kind == "hashmodaz" && n == 0 {
		n = 1
	}
	return vt.Case{"zones": []int{n}, "rf": rf, "algo": algo, "vkind": kind, "n": n, "raw": raw, "eps": known,
		"ss": map[string]any{"size": 0, "cache": 1, "nozone": false}, "tenant": "team-v", "probe": 4, "sseed": rnd.Int63n(1 << 30)}
}
