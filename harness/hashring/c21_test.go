package hashring

import (
	"encoding/json"
	"fmt"
	"os"
	"os/exec"
	"path/filepath"
	"sort"
	"strings"
	"sync"
	"testing"
	"time"

	"github.com/prometheus/client_golang/prometheus"

	"github.com/thanos-io/thanos/pkg/receive"

	"verif/harness/vt"
)

// C21: shuffle-sharded tenants get stable, correctly sized sub-rings.
//
// Cases: zone-size vector x shard size x zone awareness from TLC (HashringShardMC), concretised
// with realistic addresses, a replication factor and one of six override variants (none, exact,
// glob, override without matcher type, two matching overrides, glob with '?'), plus seeded random
// layouts. The hashring is built by the real NewMultiHashring with an LRU cache of ONE sub-ring
// and three tenants, so every lookup of another tenant evicts the previous one. For each tenant
// the sub-ring's nodes are read through the export shim (cached path, again after eviction,
// fresh computation, second hashring instance) and GetN(0..rf-1) is asked for many series
// before and after eviction.
func TestC21(t *testing.T) {
	rnd := vt.Rand()
	mk := func(zones []int, size int, zoneAware bool) vt.Case {
		n := 0
		nz := 0
		for _, z := range zones {
			n += z
			if z > 0 {
				nz++
			}
		}
		tenants := []string{"team-a", "team-b" + fmt.Sprint(rnd.Intn(10)), "acme"}
		s2, s3 := 1+rnd.Intn(n+1), 1+rnd.Intn(n+1)
		var ov []any
		o := func(size int, typ string, pats ...string) map[string]any {
			return map[string]any{"size": size, "type": typ, "tenants": pats}
		}
		switch rnd.Intn(6) {
		case 1:
			ov = []any{o(s2, "exact", "someone-else", tenants[0])}
		case 2:
			ov = []any{o(s2, "glob", "team-*")}
		case 3:
			ov = []any{o(s2, "", tenants[0])} // matcher type omitted: exact is the documented default
		case 4:
			ov = []any{o(s2, "exact", tenants[0]), o(s3, "glob", "t*a")}
		case 5:
			ov = []any{o(s2, "glob", "?cme", "x*")}
		default:
			ov = []any{}
		}
		rf := 1 + rnd.Intn(3)
		return vt.Case{"zones": zones, "rf": rf, "eps": layoutEndpoints(rnd, zones, rnd.Intn(6) == 0, false),
			"ss":      map[string]any{"size": size, "nozone": !zoneAware, "cache": 1, "ov": ov},
			"tenants": tenants, "nseries": vt.Pick(60, 200), "sseed": rnd.Int63n(1 << 30)}
	}
	gen := func(yield func(vt.Case)) {
		for _, c := range vt.TLCCases(t) {
			yield(mk(vt.Ints(c["zones"]), vt.Int(c["size"]), vt.Bool(c["zoneaware"])))
		}
		for i, m := 0, vt.Pick(40, 400); i < m; i++ {
			nz := 1 + rnd.Intn(4)
			zones := make([]int, nz)
			n := 0
			for k := range zones {
				zones[k] = 1 + rnd.Intn(4)
				n += zones[k]
			}
			yield(mk(zones, 1+rnd.Intn(n), rnd.Intn(3) > 0))
		}
	}
	// concurrent scenarios (both tiers): see runC21Conc
	genAll := func(yield func(vt.Case)) {
		gen(yield)
		for i, m := 0, vt.Pick(8, 16); i < m; i++ {
			nz := 2 + rnd.Intn(3)
			per := 2 + rnd.Intn(2)
			zones := make([]int, nz)
			for k := range zones {
				zones[k] = per + rnd.Intn(2)
			}
			zoneAware := rnd.Intn(4) > 0
			size := nz * (1 + rnd.Intn(per)) // zone aware: 1..per nodes of every zone
			if !zoneAware {
				size = 2 + rnd.Intn(nz*per-1)
			}
			ntenants := vt.Pick(48, 64)
			cache := 1 // every lookup of another tenant evicts: constant recomputation
			if i%2 == 0 {
				cache = 4 * ntenants // cold cache that then keeps what the concurrent calls computed
			}
			yield(vt.Case{"kind": "conc", "op": "c21conc", "zones": zones, "rf": 1 + rnd.Intn(2),
				"eps":      layoutEndpoints(rnd, zones, false, false),
				"ss":       map[string]any{"size": size, "nozone": !zoneAware, "cache": cache, "ov": []any{}},
				"ntenants": ntenants, "rounds": vt.Pick(4, 6), "nseries": 6, "sseed": rnd.Int63n(1 << 30)})
		}
	}
	var w *hrWorker
	defer func() {
		if w != nil {
			w.kill()
		}
	}()
	// Thorough tier: the concurrent scenarios run in a worker built with the race detector (only
	// the worker: the sequential cases gain nothing from -race and would take ten times longer).
	// Race reports go to a file and are counted into the trace line (field races, informational:
	// the verdict comes from the observed shards only).
	workerBin, raceLog := os.Args[0], (*os.File)(nil)
	if vt.Thorough() && vt.Replay(t) == nil {
		workerBin, raceLog = buildRaceWorker(t)
		defer raceLog.Close()
	}
	vt.Run(t, genAll, nil, func(c vt.Case) (ev vt.Event) {
		if vt.Str(c["kind"]) == "conc" {
			if w == nil {
				if raceLog != nil {
					w = startWorkerBin(t, workerBin, raceLog)
				} else {
					w = startWorkerBin(t, workerBin, nil)
				}
			}
			before := countRaces(raceLog)
			ev = runC21Conc(t, &w, c)
			ev["races"] = countRaces(raceLog) - before
			ev["race_build"] = raceLog != nil
			return ev
		}
		guarded(t, "C21 case", func() { ev = runC21(c) })
		return ev
	})
}

// runC21Conc runs one concurrent scenario in the worker subprocess (so that a data race reported
// by a -race build, or a crash, in the code under test cannot fail this test binary: only the
// observed shards are judged, by the trace spec). The worker
//   - computes every tenant's shard sequentially on a fresh hashring instance (the reference),
//   - then, `rounds` times, builds a fresh instance (cold sub-ring cache; cache size 1 or large)
//     and lets one goroutine per tenant, all released together, ask GetN(0..rf-1) for a few series
//     and read the tenant's sub-ring through the cached lookup path.
// Per tenant the trace line carries shards = <<sequential, round 1, ..., round R>> and the distinct
// replica lists of all rounds: the same clauses as for the sequential cases apply.
func runC21Conc(t *testing.T, wp **hrWorker, c vt.Case) vt.Event {
	for attempt := 0; ; attempt++ {
		if *wp == nil {
			*wp = startWorker(t) // after a worker died: plain binary
		}
		w := *wp
		b, _ := json.Marshal(c)
		_, err := w.in.Write(append(b, '\n'))
		var line string
		ok, dead := false, false
		if err == nil {
			line, ok, dead = w.next(10 * time.Minute)
		}
		if err != nil || dead {
			w.kill()
			*wp = nil
			if attempt < 2 {
				continue
			}
			t.Fatalf("C21: the worker subprocess keeps dying on the concurrent scenario %v", c)
		}
		if !ok {
			w.kill()
			*wp = nil
			t.Fatalf("C21: concurrent scenario did not finish within 10 min (termination is judged by C19, not here)")
		}
		var ev vt.Event
		dec := json.NewDecoder(strings.NewReader(line))
		dec.UseNumber()
		if err := dec.Decode(&ev); err != nil {
			t.Fatalf("C21: bad worker answer %q: %v", line, err)
		}
		return ev
	}
}

// c21ConcChild is the worker side of runC21Conc.
func c21ConcChild(c vt.Case) vt.Event {
	rf := vt.Int(c["rf"])
	eps, ss, ovc := c21Config(c)
	idx := map[string]int{}
	for i, e := range eps {
		idx[e.Address] = i + 1
	}
	ev := vt.Event{"built": false, "ovc": ovc, "tn": []any{}, "msg": ""}
	build := func(cache int) (receive.Hashring, error) {
		s2 := ss
		s2.CacheSize = cache
		cfg := []receive.HashringConfig{{Hashring: "h0", Endpoints: append([]receive.Endpoint(nil), eps...), ShuffleShardingConfig: s2}}
		return receive.NewMultiHashring(receive.AlgorithmKetama, uint64(rf), cfg, prometheus.NewRegistry())
	}
	nt := vt.Int(c["ntenants"])
	tenants := make([]string, nt)
	for i := range tenants {
		tenants[i] = fmt.Sprintf("tenant-%d-%d", vt.Int64(c["sseed"])%1000, i)
	}
	type tobs struct {
		mu     sync.Mutex
		ok     bool
		msg    string
		shards [][]int
		reps   map[string][]int
		order  []string
	}
	obs := make([]*tobs, nt)
	for i := range obs {
		obs[i] = &tobs{ok: true, reps: map[string][]int{}, shards: [][]int{}}
	}
	shardOf := func(o *tobs, h receive.Hashring, tenant string, cached bool) {
		nodes, err := receive.VerifTenantShardNodes(h, 0, tenant, cached)
		o.mu.Lock()
		defer o.mu.Unlock()
		if err != nil {
			o.ok, o.msg = false, errStr(err)
			return
		}
		s := make([]int, 0, len(nodes))
		for _, n := range nodes {
			s = append(s, idx[n.Address])
		}
		sort.Ints(s)
		o.shards = append(o.shards, s)
	}
	// sequential reference on its own instance
	ref, err := build(4 * nt)
	if err != nil {
		ev["msg"] = errStr(err)
		return ev
	}
	ev["built"] = true
	for i, tn := range tenants {
		shardOf(obs[i], ref, tn, false)
	}
	rounds := vt.Int(c["rounds"])
	for r := 0; r < rounds; r++ {
		h, err := build(vt.Int(vt.Map(c["ss"])["cache"]))
		if err != nil {
			ev["built"], ev["msg"] = false, errStr(err)
			return ev
		}
		var wg sync.WaitGroup
		start := make(chan struct{})
		for i, tn := range tenants {
			wg.Add(1)
			go func(o *tobs, tn string) {
				defer wg.Done()
				defer func() {
					if p := recover(); p != nil { // a crash of the code under test: the tenant is not judged
						o.mu.Lock()
						o.ok, o.msg = false, fmt.Sprint("panic: ", p)
						o.mu.Unlock()
					}
				}()
				<-start
				for k := 0; k < vt.Int(c["nseries"]); k++ {
					reps, err := getReplicas(h, tn, series(vt.Int64(c["sseed"]), k), rf)
					o.mu.Lock()
					if err != nil {
						o.ok, o.msg = false, errStr(err)
					} else {
						ri := make([]int, len(reps))
						for i, a := range reps {
							ri[i] = idx[a]
						}
						key := fmt.Sprint(ri)
						if _, seen := o.reps[key]; !seen {
							o.reps[key] = ri
							o.order = append(o.order, key)
						}
					}
					o.mu.Unlock()
				}
				shardOf(o, h, tn, true)
			}(obs[i], tn)
		}
		close(start)
		wg.Wait()
	}
	tn := make([]any, 0, nt)
	for i, name := range tenants {
		o := obs[i]
		reps := make([]any, 0, len(o.order))
		for _, k := range o.order {
			reps = append(reps, o.reps[k])
		}
		tn = append(tn, map[string]any{"name": name, "tc": chars(name), "ok": o.ok && len(o.shards) == rounds+1,
			"shards": o.shards, "reps": reps, "errs": 0, "msg": o.msg})
	}
	ev["tn"] = tn
	return ev
}

func chars(s string) []string {
	o := make([]string, 0, len(s))
	for _, r := range s {
		o = append(o, string(r))
	}
	return o
}

func c21Config(c vt.Case) (eps []receive.Endpoint, ss receive.ShuffleShardingConfig, ovc []any) {
	eps = endpointsOf(c["eps"])
	m := vt.Map(c["ss"])
	ss = receive.ShuffleShardingConfig{ShardSize: vt.Int(m["size"]), CacheSize: vt.Int(m["cache"]), ZoneAwarenessDisabled: vt.Bool(m["nozone"])}
	ovc = []any{}
	for _, x := range vt.List(m["ov"]) {
		o := vt.Map(x)
		oc := receive.ShuffleShardingOverrideConfig{ShardSize: vt.Int(o["size"]), Tenants: vt.Strs(o["tenants"])}
		switch vt.Str(o["type"]) {
		case "exact":
			oc.TenantMatcherType = receive.TenantMatcherTypeExact
		case "glob":
			oc.TenantMatcherType = receive.TenantMatcherGlob
		}
		ss.Overrides = append(ss.Overrides, oc)
		pats := []any{}
		for _, p := range oc.Tenants {
			pats = append(pats, chars(p))
		}
		ovc = append(ovc, map[string]any{"size": oc.ShardSize, "type": vt.Str(o["type"]), "tenants": pats})
	}
	return eps, ss, ovc
}

func runC21(c vt.Case) vt.Event {
	rf := vt.Int(c["rf"])
	eps, ss, ovc := c21Config(c)
	idx := map[string]int{}
	for i, e := range eps {
		idx[e.Address] = i + 1
	}
	ev := vt.Event{"built": false, "ovc": ovc, "tn": []any{}, "msg": ""}
	build := func() (receive.Hashring, error) {
		cfg := []receive.HashringConfig{{Hashring: "h0", Endpoints: append([]receive.Endpoint(nil), eps...), ShuffleShardingConfig: ss}}
		return receive.NewMultiHashring(receive.AlgorithmKetama, uint64(rf), cfg, prometheus.NewRegistry())
	}
	h1, err := build()
	if err != nil {
		ev["msg"] = errStr(err)
		return ev
	}
	h2, err := build()
	if err != nil {
		ev["msg"] = "second instance: " + errStr(err)
		return ev
	}
	ev["built"] = true

	tenants := vt.Strs(c["tenants"])
	type tobs struct {
		ok     bool
		msg    string
		shards [][]int
		reps   map[string][]int
		order  []string
		errs   int
	}
	obs := make([]*tobs, len(tenants))
	for i := range obs {
		obs[i] = &tobs{ok: true, reps: map[string][]int{}, shards: [][]int{}}
	}
	shard := func(o *tobs, h receive.Hashring, tenant string, cached bool) {
		nodes, err := receive.VerifTenantShardNodes(h, 0, tenant, cached)
		if err != nil {
			o.ok, o.msg = false, errStr(err)
			return
		}
		s := make([]int, 0, len(nodes))
		for _, n := range nodes {
			s = append(s, idx[n.Address])
		}
		sort.Ints(s)
		o.shards = append(o.shards, s)
	}
	ask := func(o *tobs, tenant string, from, to int) {
		for k := from; k < to; k++ {
			reps, err := getReplicas(h1, tenant, series(vt.Int64(c["sseed"]), k), rf)
			if err != nil {
				o.errs++
				o.ok, o.msg = false, errStr(err)
				continue
			}
			r := make([]int, len(reps))
			for i, a := range reps {
				r[i] = idx[a]
			}
			key := fmt.Sprint(r)
			if _, ok := o.reps[key]; !ok {
				o.reps[key] = r
				o.order = append(o.order, key)
			}
		}
	}
	ns := vt.Int(c["nseries"])
	// round 1: each tenant in turn (cache of 1: each lookup evicts the previous tenant)
	for i, tn := range tenants {
		shard(obs[i], h1, tn, true)
		ask(obs[i], tn, 0, ns/2)
	}
	// round 2: after eviction; then a fresh computation and the second instance
	for i, tn := range tenants {
		ask(obs[i], tn, ns/2, ns)
		shard(obs[i], h1, tn, true)
		shard(obs[i], h1, tn, false)
		shard(obs[i], h2, tn, true)
	}
	tn := make([]any, 0, len(tenants))
	for i, name := range tenants {
		o := obs[i]
		reps := make([]any, 0, len(o.order))
		for _, k := range o.order {
			reps = append(reps, o.reps[k])
		}
		tn = append(tn, map[string]any{"name": name, "tc": chars(name), "ok": o.ok && len(o.shards) == 4,
			"shards": o.shards, "reps": reps, "errs": o.errs, "msg": o.msg})
	}
	ev["tn"] = tn
	return ev
}

// buildRaceWorker compiles this test package with -race into the scratch directory.
func buildRaceWorker(t *testing.T) (string, *os.File) {
	dir := os.Getenv("VERIF_SCRATCH")
	if dir == "" {
		dir = t.TempDir()
	}
	bin := filepath.Join(dir, "hashring.race.test")
	cmd := exec.Command("go", "test", "-c", "-race", "-tags", "slicelabels,verif", "-vet=off", "-o", bin, ".")
	cmd.Env = append(os.Environ(), "GOFLAGS=-mod=mod", "GOPROXY=off")
	if out, err := cmd.CombinedOutput(); err != nil {
		t.Fatalf("C21: building the race-instrumented worker failed: %v\n%s", err, out)
	}
	f, err := os.Create(filepath.Join(dir, "c21-worker.stderr"))
	if err != nil {
		t.Fatalf("C21: %v", err)
	}
	return bin, f
}

func countRaces(f *os.File) int {
	if f == nil {
		return 0
	}
	b, err := os.ReadFile(f.Name())
	if err != nil {
		return 0
	}
	return strings.Count(string(b), "WARNING: DATA RACE")
}
