package hashring

import (
	"fmt"
	"os"
	"sort"
	"strings"
	"sync"
	"testing"

	"github.com/prometheus/client_golang/prometheus"

	"github.com/thanos-io/thanos/pkg/receive"

	"verif/harness/vt"
)

// C27: tenants are routed to the hashring their configuration selects.
//
// Cases: every configuration list enumerated by TLC (HashringRouteMC: default entries, exact
// names, glob patterns over a small alphabet), made concrete by prefixing every pattern and
// tenant with a realistic literal prefix, plus seeded random realistic configurations (several
// patterns per hashring, mixed exact/glob/default entries). Every hashring has one endpoint of
// its own, so the endpoint GetN answers identifies the hashring that served the tenant.
// Observed per tenant: three sequential calls on one multi-hashring instance, then calls from
// many goroutines released together on a second, fresh instance (cold tenant cache).
func TestC27(t *testing.T) {
	rnd := vt.Rand()
	prefixes := []string{"", "team-", "org_", "tenant."}
	join := func(v any) string { return strings.Join(vt.Strs(v), "") }
	gen := func(yield func(vt.Case)) {
		tlc := vt.TLCCases(t)
		if p := os.Getenv("VERIF_CASES_HASHRINGROUTEMC3"); p != "" { // thorough: the 3-hashring lists
			more, err := vt.ReadNDJSON(p)
			if err != nil {
				t.Fatalf("C27: %v", err)
			}
			tlc = append(tlc, more...)
		}
		for _, c := range tlc {
			pre := prefixes[rnd.Intn(len(prefixes))]
			var cfg []any
			for _, e := range vt.List(c["cfg"]) {
				m := vt.Map(e)
				pats := []string{}
				for _, p := range vt.List(m["tenants"]) {
					pats = append(pats, pre+join(p))
				}
				typ := "exact"
				if vt.Bool(m["glob"]) {
					typ = "glob"
				} else if rnd.Intn(2) == 0 {
					typ = "" // unset matcher type = exact
				}
				cfg = append(cfg, map[string]any{"tenants": pats, "type": typ})
			}
			tenants := []string{}
			for _, s := range []string{"a", "b", "aa", "ab", "ba", "bb"} {
				tenants = append(tenants, pre+s)
			}
			tenants = append(tenants, "other")
			yield(vt.Case{"cfg": cfg, "tenants": tenants, "algo": []string{"hashmod", "ketama"}[rnd.Intn(2)], "workers": 4})
		}
		names := []string{"team-a", "team-b", "team-ab", "prod-eu1", "prod-us1", "dev", "acme", "acme-corp", "x"}
		globs := []string{"team-*", "prod-??1", "*", "acme*", "?", "*-a", "prod-*1", "te?m-a", "dev*"}
		for i, m := 0, vt.Pick(60, 600); i < m; i++ {
			var cfg []any
			for k, nk := 0, 1+rnd.Intn(4); k < nk; k++ {
				switch rnd.Intn(3) {
				case 0:
					cfg = append(cfg, map[string]any{"tenants": []string{}, "type": ""})
				case 1:
					var p []string
					for j, nj := 0, 1+rnd.Intn(3); j < nj; j++ {
						p = append(p, names[rnd.Intn(len(names))])
					}
					cfg = append(cfg, map[string]any{"tenants": p, "type": []string{"exact", ""}[rnd.Intn(2)]})
				default:
					var p []string
					for j, nj := 0, 1+rnd.Intn(2); j < nj; j++ {
						p = append(p, globs[rnd.Intn(len(globs))])
					}
					if rnd.Intn(3) == 0 {
						p = append(p, names[rnd.Intn(len(names))])
					}
					cfg = append(cfg, map[string]any{"tenants": p, "type": "glob"})
				}
			}
			yield(vt.Case{"cfg": cfg, "tenants": append([]string{"unknown-tenant"}, names...), "algo": []string{"hashmod", "ketama"}[rnd.Intn(2)], "workers": 6})
		}
	}
	// phase 2: reload scenarios (scripts from HashringReloadMC); they mostly wait for the watcher,
	// so they are run ahead, eight at a time, and handed to vt.Run in order
	var reload []vt.Case
	if p := os.Getenv("VERIF_CASES_HASHRINGRELOADMC"); p != "" && vt.Replay(t) == nil {
		cs, err := vt.ReadNDJSON(p)
		if err != nil {
			t.Fatalf("C27: %v", err)
		}
		for _, c := range cs {
			reload = append(reload, vt.Normalize(vt.Case{"kind": "reload", "script": c["script"], "catalog": c["catalog"], "rseed": rnd.Int63n(1 << 30)}))
		}
	}
	pre := make([]vt.Event, len(reload))
	var wg sync.WaitGroup
	sem := make(chan struct{}, 8)
	for i := range reload {
		wg.Add(1)
		go func(i int) {
			defer wg.Done()
			sem <- struct{}{}
			defer func() { <-sem }()
			pre[i] = runC27Reload(reload[i])
		}(i)
	}
	genAll := func(yield func(vt.Case)) {
		gen(yield)
		wg.Wait()
		for i := range reload {
			reload[i]["pre"] = i
			yield(reload[i])
		}
	}
	vt.Run(t, genAll, nil, func(c vt.Case) (ev vt.Event) {
		if vt.Str(c["kind"]) == "reload" {
			if i, ok := c["pre"]; ok && vt.Replay(t) == nil {
				return pre[vt.Int(i)]
			}
			guarded(t, "C27 reload case", func() { ev = runC27Reload(c) })
			return ev
		}
		guarded(t, "C27 case", func() { ev = runC27(c) })
		return ev
	})
}

func runC27(c vt.Case) vt.Event {
	var hcfg []receive.HashringConfig
	entries := []any{}
	ringOf := map[string]int{}
	for i, e := range vt.List(c["cfg"]) {
		m := vt.Map(e)
		addr := fmt.Sprintf("ring-%d.receive.svc:10901", i+1)
		ringOf[addr] = i + 1
		hc := receive.HashringConfig{Hashring: fmt.Sprintf("hashring-%d", i+1), Tenants: vt.Strs(m["tenants"]),
			Endpoints: []receive.Endpoint{{Address: addr, CapNProtoAddress: addr + "-capnp"}}}
		switch vt.Str(m["type"]) {
		case "exact":
			hc.TenantMatcherType = receive.TenantMatcherTypeExact
		case "glob":
			hc.TenantMatcherType = receive.TenantMatcherGlob
		}
		hcfg = append(hcfg, hc)
		pats := []any{}
		for _, p := range hc.Tenants {
			pats = append(pats, chars(p))
		}
		entries = append(entries, map[string]any{"tenants": pats, "glob": vt.Str(m["type"]) == "glob"})
	}
	ev := vt.Event{"built": false, "entries": entries, "tn": []any{}, "msg": ""}
	build := func() (receive.Hashring, error) {
		return receive.NewMultiHashring(algoOf(vt.Str(c["algo"])), 1, hcfg, prometheus.NewRegistry())
	}
	seqRing, err := build()
	if err != nil {
		ev["msg"] = errStr(err)
		return ev
	}
	conRing, err := build()
	if err != nil {
		ev["msg"] = errStr(err)
		return ev
	}
	ev["built"] = true
	tenants := vt.Strs(c["tenants"])
	ask := func(h receive.Hashring, tenant string, k int) int {
		e, err := h.GetN(tenant, series(77, k), 0)
		if err != nil {
			if strings.Contains(err.Error(), "no matching hashring") {
				return 0
			}
			return -1 // any other error: not a routing answer
		}
		if r, ok := ringOf[e.Address]; ok {
			return r
		}
		return -2 // an endpoint of no configured hashring
	}
	seen := make([]map[int]bool, len(tenants))
	for i := range seen {
		seen[i] = map[int]bool{}
	}
	for i, tn := range tenants { // repeated requests
		for k := 0; k < 3; k++ {
			seen[i][ask(seqRing, tn, k)] = true
		}
	}
	// concurrent requests on a cold cache: all goroutines of all tenants start together
	var mu sync.Mutex
	var wg sync.WaitGroup
	start := make(chan struct{})
	workers := vt.Int(c["workers"])
	for i, tn := range tenants {
		for w := 0; w < workers; w++ {
			wg.Add(1)
			go func(i int, tn string, w int) {
				defer wg.Done()
				<-start
				got := [2]int{ask(conRing, tn, w), ask(conRing, tn, w+100)}
				mu.Lock()
				seen[i][got[0]], seen[i][got[1]] = true, true
				mu.Unlock()
			}(i, tn, w)
		}
	}
	close(start)
	wg.Wait()
	tn := make([]any, 0, len(tenants))
	for i, name := range tenants {
		s := make([]int, 0, len(seen[i]))
		for r := range seen[i] {
			s = append(s, r)
		}
		sort.Ints(s)
		tn = append(tn, map[string]any{"name": name, "tc": chars(name), "seen": s})
	}
	ev["tn"] = tn
	return ev
}

