package reloaderx

import (
	"bytes"
	"compress/gzip"
	"context"
	"fmt"
	"math/rand"
	"net/http"
	"net/http/httptest"
	"net/url"
	"os"
	"path/filepath"
	"sort"
	"strings"
	"sync"
	"testing"
	"time"

	"github.com/prometheus/client_golang/prometheus"

	"github.com/thanos-io/thanos/pkg/reloader"

	"verif/harness/vt"
)

const envVar = "VERIF_C47_POD"

// Concrete file contents behind the model's content ids. The e* contents reference the
// environment variable (twice, once embedded in a longer token).
var contents = map[string]string{
	"p1": "global:\n  scrape_interval: 15s\n  evaluation_interval: 15s\nrule_files:\n  - /etc/prometheus/rules/*.yaml\n",
	"p2": "global:\n  scrape_interval: 30s\nscrape_configs:\n  - job_name: node\n    static_configs:\n      - targets: ['localhost:9100']\n",
	"p3": "groups:\n  - name: node\n    rules:\n      - alert: Down\n        expr: up == 0\n        for: 5m\n",
	"e1": "global:\n  external_labels:\n    replica: '$(" + envVar + ")'\n    zone: zone-$(" + envVar + ")-x\n",
	"e2": "remote_write:\n  - url: http://receive/api/v1/receive\n    headers:\n      THANOS-TENANT: $(" + envVar + ")\n# $(" + envVar + ")$(" + envVar + ")\n",
}
var envValues = []string{"v1", "v2", "v3"}

// phase 2: gzip-compressed inputs; content id xz is the gzip of x (Reloader.tla: GzBase).
func init() {
	for _, id := range []string{"p1", "e1"} {
		var b bytes.Buffer
		zw := gzip.NewWriter(&b)
		zw.Write([]byte(contents[id]))
		zw.Close()
		contents[id+"z"] = b.String()
	}
}

func usesEnv(c string) bool { return strings.HasPrefix(c, "e") }
func isGz(c string) bool    { return strings.HasSuffix(c, "z") }

// decodeOut maps the bytes of an output file back to (content id, substituted env value);
// ("?","") when the bytes are not the expansion of any known content.
func decodeOut(b []byte) (string, string) {
	s := string(b)
	for id, tpl := range contents {
		if isGz(id) {
			continue // outputs are never compressed
		}
		if !usesEnv(id) {
			if s == tpl {
				return id, ""
			}
			continue
		}
		for _, v := range envValues {
			if s == strings.ReplaceAll(tpl, "$("+envVar+")", v) {
				return id, v
			}
		}
		if s == tpl {
			return id, "unset" // references left as they are (variable unset, tolerated)
		}
	}
	return "?", ""
}

func decodeIn(b []byte) string {
	for id, tpl := range contents {
		if string(b) == tpl {
			return id
		}
	}
	return "?"
}

type world struct {
	root                 string
	cfgIn, cfgOut, watIn string
	dirIn, dirOut        [2]string // two config directories with output directories
}

// dirOf: files named c*, y*, z* live in the second config directory.
func dirOf(name string) int {
	if strings.HasPrefix(name, "c") || strings.HasPrefix(name, "y") || strings.HasPrefix(name, "z") {
		return 1
	}
	return 0
}

func newWorld(root string) (*world, error) {
	w := &world{root: root, cfgIn: filepath.Join(root, "in", "prometheus.yaml"), cfgOut: filepath.Join(root, "out", "prometheus.yaml"),
		dirIn:  [2]string{filepath.Join(root, "in", "conf.d"), filepath.Join(root, "in", "conf2.d")},
		dirOut: [2]string{filepath.Join(root, "out", "conf.d"), filepath.Join(root, "out", "conf2.d")}, watIn: filepath.Join(root, "in", "rules")}
	for _, d := range []string{w.dirIn[0], w.dirOut[0], w.dirIn[1], w.dirOut[1], w.watIn} {
		if err := os.MkdirAll(d, 0o755); err != nil {
			return nil, err
		}
	}
	return w, nil
}

var skipTmp bool

func listDir(dir string, dec func([]byte) map[string]any) []any {
	out := []any{}
	es, _ := os.ReadDir(dir)
	var names []string
	for _, e := range es {
		names = append(names, e.Name())
	}
	sort.Strings(names)
	for _, n := range names {
		if skipTmp && strings.HasSuffix(n, ".tmp") {
			continue // normalize() writes <output>.tmp and renames it; only seen while Watch runs concurrently
		}
		b, err := os.ReadFile(filepath.Join(dir, n))
		if err != nil {
			continue
		}
		m := dec(b)
		m["n"] = n
		out = append(out, m)
	}
	return out
}

func (w *world) ins() map[string]any {
	in := func(b []byte) map[string]any { return map[string]any{"c": decodeIn(b)} }
	cfg := "?"
	if b, err := os.ReadFile(w.cfgIn); err == nil {
		cfg = decodeIn(b)
	}
	return map[string]any{"cfg": cfg, "dir": append(listDir(w.dirIn[0], in), listDir(w.dirIn[1], in)...), "wat": listDir(w.watIn, in)}
}

func (w *world) outs() map[string]any {
	out := func(b []byte) map[string]any { c, e := decodeOut(b); return map[string]any{"c": c, "e": e} }
	cfg := map[string]any{"c": "", "e": ""}
	if b, err := os.ReadFile(w.cfgOut); err == nil {
		cfg = out(b)
	}
	return map[string]any{"cfg": cfg, "dir": append(listDir(w.dirOut[0], out), listDir(w.dirOut[1], out)...)}
}

func noOuts() map[string]any {
	return map[string]any{"cfg": map[string]any{"c": "", "e": ""}, "dir": []any{}}
}

// endpoint is the reload endpoint: fails on demand, counts requests, snapshots the outputs at
// the moment it answers 200.
type endpoint struct {
	mu      sync.Mutex
	outcome string
	calls   int
	oks     int
	atok    map[string]any
	cancel  context.CancelFunc
	w       *world
}

func (ep *endpoint) ServeHTTP(rw http.ResponseWriter, _ *http.Request) {
	ep.mu.Lock()
	defer ep.mu.Unlock()
	ep.calls++
	fail := ep.outcome == "fail" || (ep.outcome == "retryok" && ep.calls == 1)
	if fail {
		if ep.outcome == "fail" && ep.cancel != nil {
			ep.cancel() // the apply gives up (its watch-interval deadline), instead of waiting in real time
		}
		http.Error(rw, "reload failed", http.StatusInternalServerError)
		return
	}
	ep.oks++
	ep.atok = ep.w.outs()
	rw.WriteHeader(http.StatusOK)
}

func randHistory(r *rand.Rand) vt.Case {
	ids := []string{"p1", "p2", "p3", "e1", "e2", "p1z", "e1z"}
	dn := []string{"a", "b", "c", "d", "z"}[:2+r.Intn(4)] // c and z live in the second config directory
	wn := []string{"w1", "w2"}[:r.Intn(3)]
	cfg, env := ids[r.Intn(len(ids))], envValues[r.Intn(len(envValues))]
	dir, wat := map[string]string{}, map[string]string{}
	c := vt.Case{"cfg0": cfg, "env0": env, "tol": r.Intn(3) == 0}
	var ops []any
	n := 6 + r.Intn(30)
	for i := 0; i < n; i++ {
		op := func(o, f, cc string) { ops = append(ops, map[string]any{"op": o, "f": f, "c": cc}) }
		switch k := r.Intn(20); {
		case k < 7 || i == n-1:
			op("apply", "", []string{"ok", "ok", "ok", "retryok", "fail", "fail"}[r.Intn(6)])
		case k < 9:
			cfg = ids[r.Intn(len(ids))] // may rewrite the same content (a touch)
			op("edit", "cfg", cfg)
		case k < 15:
			f := dn[r.Intn(len(dn))]
			if _, ok := dir[f]; ok && r.Intn(3) == 0 {
				delete(dir, f)
				op("remove", f, "")
			} else {
				dir[f] = ids[r.Intn(len(ids))]
				op("add", f, dir[f])
			}
		case k < 18 && len(wn) > 0:
			f := wn[r.Intn(len(wn))]
			if _, ok := wat[f]; ok && r.Intn(3) == 0 {
				delete(wat, f)
				op("wremove", f, "")
			} else {
				wat[f] = ids[r.Intn(len(ids))]
				op("wadd", f, wat[f])
			}
		default:
			if r.Intn(3) == 0 {
				op("unsetenv", "", "") // with tolerance off, applies fail part-way until it is set again
			} else {
				env = envValues[r.Intn(len(envValues))]
				op("setenv", "", env)
			}
		}
	}
	c["ops"] = ops
	return c
}

// ---- phase 2: scenarios on the real Watch loop ----

// cmDir maintains a directory the way the kubelet materialises a ConfigMap: the files live in a
// timestamped directory, ..data is a symlink to it, the visible names are symlinks through ..data;
// an update writes a new timestamped directory and flips ..data with an atomic rename.
type cmDir struct {
	dir string
	gen int
}

func (c *cmDir) flip(files map[string]string) error {
	c.gen++
	ts := fmt.Sprintf("..2026_09_22_%04d", c.gen)
	if err := os.MkdirAll(filepath.Join(c.dir, ts), 0o755); err != nil {
		return err
	}
	for n, id := range files {
		if err := os.WriteFile(filepath.Join(c.dir, ts, n), []byte(contents[id]), 0o644); err != nil {
			return err
		}
	}
	old, _ := os.Readlink(filepath.Join(c.dir, "..data"))
	if err := os.Symlink(ts, filepath.Join(c.dir, "..data_tmp")); err != nil {
		return err
	}
	if err := os.Rename(filepath.Join(c.dir, "..data_tmp"), filepath.Join(c.dir, "..data")); err != nil {
		return err
	}
	for n := range files {
		if _, err := os.Lstat(filepath.Join(c.dir, n)); err != nil {
			if err := os.Symlink(filepath.Join("..data", n), filepath.Join(c.dir, n)); err != nil {
				return err
			}
		}
	}
	es, _ := os.ReadDir(c.dir)
	for _, e := range es {
		if strings.HasPrefix(e.Name(), "..") {
			continue
		}
		if _, ok := files[e.Name()]; !ok {
			os.Remove(filepath.Join(c.dir, e.Name()))
		}
	}
	if old != "" {
		os.RemoveAll(filepath.Join(c.dir, old))
	}
	return nil
}

type watchEndpoint struct {
	mu       sync.Mutex
	failNext int
	calls    int
	oks      int
	atok     map[string]any
	w        *world
}

func (ep *watchEndpoint) ServeHTTP(rw http.ResponseWriter, _ *http.Request) {
	ep.mu.Lock()
	defer ep.mu.Unlock()
	ep.calls++
	if ep.failNext > 0 {
		ep.failNext--
		http.Error(rw, "reload failed", http.StatusInternalServerError)
		return
	}
	ep.oks++
	ep.atok = ep.w.outs()
	rw.WriteHeader(http.StatusOK)
}

func applyCycles(reg *prometheus.Registry) float64 {
	mfs, _ := reg.Gather()
	for _, mf := range mfs {
		if mf.GetName() == "reloader_config_apply_operations_total" && len(mf.Metric) > 0 {
			return mf.Metric[0].GetCounter().GetValue()
		}
	}
	return 0
}

func randWatchScenario(r *rand.Rand) vt.Case {
	ids := []string{"p1", "p2", "p3", "e1", "e2", "p1z"}
	var steps []any
	files := map[string]any{"a": "p1"}
	for n := 3 + r.Intn(3); n > 0; n-- {
		switch r.Intn(6) {
		case 0, 1, 2: // ConfigMap update: add / edit / remove files, ..data flips
			nf := map[string]any{}
			for k, v := range files {
				if r.Intn(4) > 0 {
					nf[k] = v
				}
			}
			nf[[]string{"a", "b", "d"}[r.Intn(3)]] = ids[r.Intn(len(ids))]
			files = nf
			cp := map[string]any{}
			for k, v := range nf {
				cp[k] = v
			}
			steps = append(steps, map[string]any{"op": "flip", "f": "", "c": "", "files": cp, "fails": r.Intn(3) * r.Intn(2)})
		case 3: // the main config file replaced atomically (rename) or rewritten in place
			steps = append(steps, map[string]any{"op": []string{"cfgrename", "cfgwrite"}[r.Intn(2)], "f": "", "c": ids[r.Intn(len(ids))], "files": map[string]any{}, "fails": r.Intn(3) * r.Intn(2)})
		case 4: // a rule file in the watched directory
			steps = append(steps, map[string]any{"op": "wat", "f": []string{"w1", "w2"}[r.Intn(2)], "c": ids[r.Intn(len(ids))], "files": map[string]any{}, "fails": 0})
		default:
			steps = append(steps, map[string]any{"op": "idle", "f": "", "c": "", "files": map[string]any{}, "fails": 0})
		}
	}
	return vt.Case{"watch": true, "cfg0": "p1", "env0": envValues[r.Intn(len(envValues))], "steps": steps}
}

const stallDeadline = 30 * time.Second // stall detection only: a settle normally takes two apply cycles

// runWatch runs one scenario against Reloader.Watch with the real fsnotify watcher, a short watch
// interval and retry interval. After every change the driver waits (in apply cycles, not in wall
// time) until two further cycles have started and the endpoint is no longer told to fail, then
// records what is on disk and what the endpoint saw.
func runWatch(t *testing.T, tr *vt.Tracer, base string, caseID int, c vt.Case) {
	c = vt.Normalize(c)
	skipTmp = true
	defer func() { skipTmp = false }()
	root := filepath.Join(base, fmt.Sprint("w", caseID))
	w, err := newWorld(root)
	if err != nil {
		t.Fatal(err)
	}
	defer os.RemoveAll(root)
	env := vt.Str(c["env0"])
	os.Setenv(envVar, env)
	if err := os.WriteFile(w.cfgIn, []byte(contents[vt.Str(c["cfg0"])]), 0o644); err != nil {
		t.Fatal(err)
	}
	cm := &cmDir{dir: w.dirIn[0]}
	if err := cm.flip(map[string]string{"a": "p1"}); err != nil {
		t.Fatal(err)
	}
	ep := &watchEndpoint{w: w}
	srv := httptest.NewServer(ep)
	defer srv.Close()
	u, _ := url.Parse(srv.URL)
	reg := prometheus.NewRegistry()
	rl := reloader.New(nil, reg, &reloader.Options{
		ReloadURL: u, CfgFile: w.cfgIn, CfgOutputFile: w.cfgOut,
		CfgDirs:     []reloader.CfgDirOption{{Dir: w.dirIn[0], OutputDir: w.dirOut[0]}, {Dir: w.dirIn[1], OutputDir: w.dirOut[1]}},
		WatchedDirs: []string{w.watIn}, WatchInterval: 250 * time.Millisecond, RetryInterval: 10 * time.Millisecond, DelayInterval: 5 * time.Millisecond,
	})
	ctx, cancel := context.WithCancel(context.Background())
	done := make(chan error, 1)
	go func() { done <- rl.Watch(ctx) }()
	defer func() { cancel(); <-done }()

	tr.Emit(vt.Event{"ev": "case", "case": caseID, "in": c, "kf": ""})
	// waitCycles waits until n further apply cycles have started and the endpoint's failure budget is used up.
	// With needOKs > 0 it also waits until the endpoint has answered 200 that many times in total: an
	// apply cycle whose context (= the watch interval) expires on a slow machine before the reload request
	// is sent retries in a later cycle, so "two cycles" alone would make the verdict depend on speed. A
	// reloader that never reloads runs into the stall deadline and is judged then.
	waitCycles := func(n float64, needOKs int) bool {
		dl := time.Now().Add(stallDeadline)
		c0 := applyCycles(reg)
		for time.Now().Before(dl) {
			ep.mu.Lock()
			failing := ep.failNext > 0
			// ... and that the last 200 was answered with the outputs as they are now (a reload requested
			// from a half-done ConfigMap flip is followed by another one)
			enough := needOKs == 0 || (ep.oks >= needOKs && ep.atok != nil && fmt.Sprint(vt.Normalize(vt.Case(ep.atok))) == fmt.Sprint(vt.Normalize(vt.Case(w.outs()))))
			ep.mu.Unlock()
			if failing {
				c0 = applyCycles(reg)
			} else if enough && applyCycles(reg) >= c0+n {
				return true
			}
			select {
			case err := <-done:
				done <- err
				return false
			case <-time.After(5 * time.Millisecond):
			}
		}
		return false
	}
	snapshot := func() map[string]any { return vt.Normalize(vt.Case(w.ins())) }
	waitCycles(2, 0) // initial sync
	last := fmt.Sprint(snapshot())
	for _, x := range vt.List(c["steps"]) {
		st := vt.Map(x)
		op := vt.Str(st["op"])
		ep.mu.Lock()
		ep.failNext = vt.Int(st["fails"])
		calls0, oks0 := ep.calls, ep.oks
		ep.mu.Unlock()
		if op == "idle" {
			ok := waitCycles(2, 0)
			ep.mu.Lock()
			tr.Emit(vt.Event{"ev": "WIdle", "case": caseID, "calls": ep.calls - calls0, "waited": ok})
			ep.mu.Unlock()
			continue
		}
		switch op {
		case "flip":
			files := map[string]string{}
			for k, v := range vt.Map(st["files"]) {
				files[k] = vt.Str(v)
			}
			if err := cm.flip(files); err != nil {
				t.Fatal(err)
			}
		case "cfgrename":
			tmp := w.cfgIn + ".new"
			os.WriteFile(tmp, []byte(contents[vt.Str(st["c"])]), 0o644)
			os.Rename(tmp, w.cfgIn)
		case "cfgwrite":
			os.WriteFile(w.cfgIn, []byte(contents[vt.Str(st["c"])]), 0o644)
		case "wat":
			os.WriteFile(filepath.Join(w.watIn, vt.Str(st["f"])), []byte(contents[vt.Str(st["c"])]), 0o644)
		default:
			t.Fatalf("unknown watch op %q", op)
		}
		tr.Emit(vt.Event{"ev": "WChange", "case": caseID, "op": op, "f": vt.Str(st["f"]), "c": vt.Str(st["c"])})
		now := fmt.Sprint(snapshot())
		need := 0
		if now != last {
			need = oks0 + 1 // a changed content must eventually be reloaded successfully
		}
		settled := waitCycles(2, need)
		ep.mu.Lock()
		atok := ep.atok
		if atok == nil || ep.oks == oks0 {
			atok = noOuts()
		}
		tr.Emit(vt.Event{"ev": "WSettle", "case": caseID, "changed": now != last, "calls": ep.calls - calls0, "oks": ep.oks - oks0,
			"ins": w.ins(), "env": env, "outs": w.outs(), "atok": atok, "waited": settled})
		ep.mu.Unlock()
		last = now
		if !settled {
			return // stalled: the observation is recorded; further steps would only stall again
		}
	}
}

// TestC47 replays histories (from TLC and seeded random longer ones) on a real Reloader: the
// harness performs the file-system and environment changes, calls apply through the export shim
// (no real-time watcher) and records what the endpoint and the output files show after each apply.
func TestC47(t *testing.T) {
	tr := vt.Open(t)
	defer tr.Close()
	ep := &endpoint{}
	srv := httptest.NewServer(ep)
	defer srv.Close()
	u, _ := url.Parse(srv.URL)
	base := t.TempDir()
	defer os.Unsetenv(envVar)

	caseID := 0
	run := func(c vt.Case) {
		caseID++
		c = vt.Normalize(c)
		root := filepath.Join(base, fmt.Sprint("c", caseID))
		w, err := newWorld(root)
		if err != nil {
			t.Fatal(err)
		}
		defer os.RemoveAll(root)
		write := func(p, id string) {
			if err := os.WriteFile(p, []byte(contents[id]), 0o644); err != nil {
				t.Fatal(err)
			}
		}
		write(w.cfgIn, vt.Str(c["cfg0"]))
		env := vt.Str(c["env0"])
		os.Setenv(envVar, env)
		tol := vt.Bool(c["tol"])
		rl := reloader.New(nil, nil, &reloader.Options{
			ReloadURL: u, CfgFile: w.cfgIn, CfgOutputFile: w.cfgOut,
			CfgDirs:     []reloader.CfgDirOption{{Dir: w.dirIn[0], OutputDir: w.dirOut[0]}, {Dir: w.dirIn[1], OutputDir: w.dirOut[1]}},
			WatchedDirs: []string{w.watIn}, WatchInterval: time.Hour, RetryInterval: time.Millisecond,
			TolerateEnvVarExpansionErrors: tol,
		})
		tr.Emit(vt.Event{"ev": "case", "case": caseID, "in": c, "kf": ""})
		for _, x := range vt.List(c["ops"]) {
			o := vt.Map(x)
			op, f, cc := vt.Str(o["op"]), vt.Str(o["f"]), vt.Str(o["c"])
			switch op {
			case "edit", "add":
				p := filepath.Join(w.dirIn[dirOf(f)], f)
				if f == "cfg" {
					p = w.cfgIn
				}
				write(p, cc)
			case "remove":
				os.Remove(filepath.Join(w.dirIn[dirOf(f)], f))
			case "wadd", "wedit":
				write(filepath.Join(w.watIn, f), cc)
			case "wremove":
				os.Remove(filepath.Join(w.watIn, f))
			case "setenv":
				env = cc
				os.Setenv(envVar, env)
			case "unsetenv":
				env = "unset"
				os.Unsetenv(envVar)
			case "apply":
				ctx, cancel := context.WithCancel(context.Background())
				ep.mu.Lock()
				ep.outcome, ep.calls, ep.oks, ep.atok, ep.cancel, ep.w = cc, 0, 0, noOuts(), cancel, w
				ep.mu.Unlock()
				errS := ""
				func() {
					defer func() {
						if r := recover(); r != nil {
							errS = fmt.Sprint("panic: ", r)
						}
					}()
					if err := rl.VerifApply(ctx); err != nil {
						errS = err.Error()
					}
				}()
				cancel()
				ep.mu.Lock()
				ev := vt.Event{"ev": "Apply", "case": caseID, "outcome": cc, "ins": w.ins(), "env": env, "tol": tol,
					"calls": ep.calls, "oks": ep.oks, "err": errS, "outs": w.outs(), "atok": ep.atok}
				ep.mu.Unlock()
				tr.Emit(ev)
				continue
			default:
				t.Fatalf("unknown op %q", op)
			}
			tr.Emit(vt.Event{"ev": "Change", "case": caseID, "op": op, "f": f, "c": cc})
		}
	}

	runW := func(c vt.Case) {
		caseID++
		runWatch(t, tr, base, caseID, c)
	}
	if rc := vt.Replay(t); rc != nil {
		if _, ok := rc["watch"]; ok {
			runW(rc)
		} else {
			run(rc)
		}
		return
	}
	for _, c := range vt.TLCCases(t) {
		run(c)
	}
	rnd := vt.Rand()
	for i, n := 0, vt.Pick(400, 2500); i < n; i++ {
		run(randHistory(rnd))
	}
	for i, n := 0, vt.Pick(3, 40); i < n; i++ {
		runW(randWatchScenario(rnd))
	}
	if caseID == 0 {
		t.Fatal("no cases")
	}
}
