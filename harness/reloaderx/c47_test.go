package reloaderx

import (
	"context"
	"fmt"
	"math/rand"
	"net/http"
	"net/http/httptest"
	"net/url"
	"os"
	"path/filepath"
	"sort"
	"strings"
	"sync"
	"testing"
	"time"

	"github.com/thanos-io/thanos/pkg/reloader"

	"verif/harness/vt"
)

const envVar = "VERIF_C47_POD"

// Concrete file contents behind the model's content ids. The e* contents reference the
// environment variable (twice, once embedded in a longer token).
var contents = map[string]string{
	"p1": "global:\n  scrape_interval: 15s\n  evaluation_interval: 15s\nrule_files:\n  - /etc/prometheus/rules/*.yaml\n",
	"p2": "global:\n  scrape_interval: 30s\nscrape_configs:\n  - job_name: node\n    static_configs:\n      - targets: ['localhost:9100']\n",
	"p3": "groups:\n  - name: node\n    rules:\n      - alert: Down\n        expr: up == 0\n        for: 5m\n",
	"e1": "global:\n  external_labels:\n    replica: '$(" + envVar + ")'\n    zone: zone-$(" + envVar + ")-x\n",
	"e2": "remote_write:\n  - url: http://receive/api/v1/receive\n    headers:\n      THANOS-TENANT: $(" + envVar + ")\n# $(" + envVar + ")$(" + envVar + ")\n",
}
var envValues = []string{"v1", "v2", "v3"}

func usesEnv(c string) bool { return strings.HasPrefix(c, "e") }

// decodeOut maps the bytes of an output file back to (content id, substituted env value);
// ("?","") when the bytes are not the expansion of any known content.
func decodeOut(b []byte) (string, string) {
	s := string(b)
	for id, tpl := range contents {
		if !usesEnv(id) {
			if s == tpl {
				return id, ""
			}
			continue
		}
		for _, v := range envValues {
			if s == strings.ReplaceAll(tpl, "$("+envVar+")", v) {
				return id, v
			}
		}
		if s == tpl {
			return id, "unset" // references left as they are (variable unset, tolerated)
		}
	}
	return "?", ""
}

func decodeIn(b []byte) string {
	for id, tpl := range contents {
		if string(b) == tpl {
			return id
		}
	}
	return "?"
}

type world struct {
	root                 string
	cfgIn, cfgOut, watIn string
	dirIn, dirOut        [2]string // two config directories with output directories
}

// dirOf: files named c*, y*, z* live in the second config directory.
func dirOf(name string) int {
	if strings.HasPrefix(name, "c") || strings.HasPrefix(name, "y") || strings.HasPrefix(name, "z") {
		return 1
	}
	return 0
}

func newWorld(root string) (*world, error) {
	w := &world{root: root, cfgIn: filepath.Join(root, "in", "prometheus.yaml"), cfgOut: filepath.Join(root, "out", "prometheus.yaml"),
		dirIn:  [2]string{filepath.Join(root, "in", "conf.d"), filepath.Join(root, "in", "conf2.d")},
		dirOut: [2]string{filepath.Join(root, "out", "conf.d"), filepath.Join(root, "out", "conf2.d")}, watIn: filepath.Join(root, "in", "rules")}
	for _, d := range []string{w.dirIn[0], w.dirOut[0], w.dirIn[1], w.dirOut[1], w.watIn} {
		if err := os.MkdirAll(d, 0o755); err != nil {
			return nil, err
		}
	}
	return w, nil
}

func listDir(dir string, dec func([]byte) map[string]any) []any {
	out := []any{}
	es, _ := os.ReadDir(dir)
	var names []string
	for _, e := range es {
		names = append(names, e.Name())
	}
	sort.Strings(names)
	for _, n := range names {
		b, err := os.ReadFile(filepath.Join(dir, n))
		if err != nil {
			continue
		}
		m := dec(b)
		m["n"] = n
		out = append(out, m)
	}
	return out
}

func (w *world) ins() map[string]any {
	in := func(b []byte) map[string]any { return map[string]any{"c": decodeIn(b)} }
	cfg := "?"
	if b, err := os.ReadFile(w.cfgIn); err == nil {
		cfg = decodeIn(b)
	}
	return map[string]any{"cfg": cfg, "dir": append(listDir(w.dirIn[0], in), listDir(w.dirIn[1], in)...), "wat": listDir(w.watIn, in)}
}

func (w *world) outs() map[string]any {
	out := func(b []byte) map[string]any { c, e := decodeOut(b); return map[string]any{"c": c, "e": e} }
	cfg := map[string]any{"c": "", "e": ""}
	if b, err := os.ReadFile(w.cfgOut); err == nil {
		cfg = out(b)
	}
	return map[string]any{"cfg": cfg, "dir": append(listDir(w.dirOut[0], out), listDir(w.dirOut[1], out)...)}
}

func noOuts() map[string]any {
	return map[string]any{"cfg": map[string]any{"c": "", "e": ""}, "dir": []any{}}
}

// endpoint is the reload endpoint: fails on demand, counts requests, snapshots the outputs at
// the moment it answers 200.
type endpoint struct {
	mu      sync.Mutex
	outcome string
	calls   int
	oks     int
	atok    map[string]any
	cancel  context.CancelFunc
	w       *world
}

func (ep *endpoint) ServeHTTP(rw http.ResponseWriter, _ *http.Request) {
	ep.mu.Lock()
	defer ep.mu.Unlock()
	ep.calls++
	fail := ep.outcome == "fail" || (ep.outcome == "retryok" && ep.calls == 1)
	if fail {
		if ep.outcome == "fail" && ep.cancel != nil {
			ep.cancel() // the apply gives up (its watch-interval deadline), instead of waiting in real time
		}
		http.Error(rw, "reload failed", http.StatusInternalServerError)
		return
	}
	ep.oks++
	ep.atok = ep.w.outs()
	rw.WriteHeader(http.StatusOK)
}

func randHistory(r *rand.Rand) vt.Case {
	ids := []string{"p1", "p2", "p3", "e1", "e2"}
	dn := []string{"a", "b", "c", "d", "z"}[:2+r.Intn(4)] // c and z live in the second config directory
	wn := []string{"w1", "w2"}[:r.Intn(3)]
	cfg, env := ids[r.Intn(len(ids))], envValues[r.Intn(len(envValues))]
	dir, wat := map[string]string{}, map[string]string{}
	c := vt.Case{"cfg0": cfg, "env0": env, "tol": r.Intn(3) == 0}
	var ops []any
	n := 6 + r.Intn(30)
	for i := 0; i < n; i++ {
		op := func(o, f, cc string) { ops = append(ops, map[string]any{"op": o, "f": f, "c": cc}) }
		switch k := r.Intn(20); {
		case k < 7 || i == n-1:
			op("apply", "", []string{"ok", "ok", "ok", "retryok", "fail", "fail"}[r.Intn(6)])
		case k < 9:
			cfg = ids[r.Intn(len(ids))] // may rewrite the same content (a touch)
			op("edit", "cfg", cfg)
		case k < 15:
			f := dn[r.Intn(len(dn))]
			if _, ok := dir[f]; ok && r.Intn(3) == 0 {
				delete(dir, f)
				op("remove", f, "")
			} else {
				dir[f] = ids[r.Intn(len(ids))]
				op("add", f, dir[f])
			}
		case k < 18 && len(wn) > 0:
			f := wn[r.Intn(len(wn))]
			if _, ok := wat[f]; ok && r.Intn(3) == 0 {
				delete(wat, f)
				op("wremove", f, "")
			} else {
				wat[f] = ids[r.Intn(len(ids))]
				op("wadd", f, wat[f])
			}
		default:
			if r.Intn(3) == 0 {
				op("unsetenv", "", "") // with tolerance off, applies fail part-way until it is set again
			} else {
				env = envValues[r.Intn(len(envValues))]
				op("setenv", "", env)
			}
		}
	}
	c["ops"] = ops
	return c
}

// TestC47 replays histories (from TLC and seeded random longer ones) on a real Reloader: the
// harness performs the file-system and environment changes, calls apply through the export shim
// (no real-time watcher) and records what the endpoint and the output files show after each apply.
func TestC47(t *testing.T) {
	tr := vt.Open(t)
	defer tr.Close()
	ep := &endpoint{}
	srv := httptest.NewServer(ep)
	defer srv.Close()
	u, _ := url.Parse(srv.URL)
	base := t.TempDir()
	defer os.Unsetenv(envVar)

	caseID := 0
	run := func(c vt.Case) {
		caseID++
		c = vt.Normalize(c)
		root := filepath.Join(base, fmt.Sprint("c", caseID))
		w, err := newWorld(root)
		if err != nil {
			t.Fatal(err)
		}
		defer os.RemoveAll(root)
		write := func(p, id string) {
			if err := os.WriteFile(p, []byte(contents[id]), 0o644); err != nil {
				t.Fatal(err)
			}
		}
		write(w.cfgIn, vt.Str(c["cfg0"]))
		env := vt.Str(c["env0"])
		os.Setenv(envVar, env)
		tol := vt.Bool(c["tol"])
		rl := reloader.New(nil, nil, &reloader.Options{
			ReloadURL: u, CfgFile: w.cfgIn, CfgOutputFile: w.cfgOut,
			CfgDirs:     []reloader.CfgDirOption{{Dir: w.dirIn[0], OutputDir: w.dirOut[0]}, {Dir: w.dirIn[1], OutputDir: w.dirOut[1]}},
			WatchedDirs: []string{w.watIn}, WatchInterval: time.Hour, RetryInterval: time.Millisecond,
			TolerateEnvVarExpansionErrors: tol,
		})
		tr.Emit(vt.Event{"ev": "case", "case": caseID, "in": c, "kf": ""})
		for _, x := range vt.List(c["ops"]) {
			o := vt.Map(x)
			op, f, cc := vt.Str(o["op"]), vt.Str(o["f"]), vt.Str(o["c"])
			switch op {
			case "edit", "add":
				p := filepath.Join(w.dirIn[dirOf(f)], f)
				if f == "cfg" {
					p = w.cfgIn
				}
				write(p, cc)
			case "remove":
				os.Remove(filepath.Join(w.dirIn[dirOf(f)], f))
			case "wadd", "wedit":
				write(filepath.Join(w.watIn, f), cc)
			case "wremove":
				os.Remove(filepath.Join(w.watIn, f))
			case "setenv":
				env = cc
				os.Setenv(envVar, env)
			case "unsetenv":
				env = "unset"
				os.Unsetenv(envVar)
			case "apply":
				ctx, cancel := context.WithCancel(context.Background())
				ep.mu.Lock()
				ep.outcome, ep.calls, ep.oks, ep.atok, ep.cancel, ep.w = cc, 0, 0, noOuts(), cancel, w
				ep.mu.Unlock()
				errS := ""
				func() {
					defer func() {
						if r := recover(); r != nil {
							errS = fmt.Sprint("panic: ", r)
						}
					}()
					if err := rl.VerifApply(ctx); err != nil {
						errS = err.Error()
					}
				}()
				cancel()
				ep.mu.Lock()
				ev := vt.Event{"ev": "Apply", "case": caseID, "outcome": cc, "ins": w.ins(), "env": env, "tol": tol,
					"calls": ep.calls, "oks": ep.oks, "err": errS, "outs": w.outs(), "atok": ep.atok}
				ep.mu.Unlock()
				tr.Emit(ev)
				continue
			default:
				t.Fatalf("unknown op %q", op)
			}
			tr.Emit(vt.Event{"ev": "Change", "case": caseID, "op": op, "f": f, "c": cc})
		}
	}

	if rc := vt.Replay(t); rc != nil {
		run(rc)
		return
	}
	for _, c := range vt.TLCCases(t) {
		run(c)
	}
	rnd := vt.Rand()
	for i, n := 0, vt.Pick(400, 2500); i < n; i++ {
		run(randHistory(rnd))
	}
	if caseID == 0 {
		t.Fatal("no cases")
	}
}
