package proxyx

import (
	"context"
	"encoding/json"
	"fmt"
	"math/rand"
	"sort"
	"testing"
	"time"

	"github.com/prometheus/prometheus/model/labels"

	"github.com/thanos-io/thanos/pkg/component"
	"github.com/thanos-io/thanos/pkg/store"
	"github.com/thanos-io/thanos/pkg/store/storepb"

	"verif/harness/vt"
)

// the configuration matrix every world is run through (C03: "the same for lazy and eager
// retrieval, any buffer size and any response batch size")
func c03Configs() []any {
	var out []any
	for _, rc := range [][2]any{{"lazy", 1}, {"lazy", 2}, {"lazy", 25}, {"eager", 0}} {
		for _, rb := range []int{0, 2, 3} {
			out = append(out, map[string]any{"retr": rc[0], "buf": rc[1], "rb": rb})
		}
	}
	return out
}

type runResult struct {
	series   []any
	err      string
	warnings []string
	hints    int
	maxMsg   int
}

// runProxy executes one Series request on a real ProxyStore over fake clients built from world w.
func runProxy(w map[string]any, cfg map[string]any, pl *payloads, sseed int64, strategy storepb.PartialResponseStrategy, timeout time.Duration) (runResult, []*fakeStore) {
	return runProxyReq(w, cfg, pl, sseed, strategy, false, timeout)
}

func runProxyReq(w map[string]any, cfg map[string]any, pl *payloads, sseed int64, strategy storepb.PartialResponseStrategy, disabledFlag bool, timeout time.Duration) (runResult, []*fakeStore) {
	clients, fakes := buildStores(w, pl, sseed)
	retr := store.LazyRetrieval
	if vt.Str(cfg["retr"]) == "eager" {
		retr = store.EagerRetrieval
	}
	p := store.NewProxyStore(nil, nil, func() []store.Client { return clients }, component.Query, labels.EmptyLabels(),
		timeout, retr, store.WithLazyRetrievalMaxBufferedResponsesForProxy(vt.Int(cfg["buf"])))
	ctx, cancel := context.WithCancel(context.Background())
	defer cancel()
	col := &collector{ctx: ctx}
	req := &storepb.SeriesRequest{
		MinTime: 0, MaxTime: 1 << 50,
		Matchers:                []storepb.LabelMatcher{{Type: storepb.LabelMatcher_RE, Name: "n001", Value: ".*"}, {Type: storepb.LabelMatcher_NEQ, Name: "zzz", Value: "x"}},
		WithoutReplicaLabels:    withoutNames(w),
		ResponseBatchSize:       int64(vt.Int(cfg["rb"])),
		PartialResponseStrategy: strategy,
		PartialResponseDisabled: disabledFlag,
	}
	err := p.Series(req, col)
	res := runResult{warnings: col.warnings, hints: col.hints, maxMsg: col.maxMsg(), series: []any{}}
	if err != nil {
		res.err = err.Error()
	}
	for _, s := range col.series() {
		res.series = append(res.series, pl.seriesBack(s))
	}
	return res, fakes
}

// decorate adds the transport-only dimensions the model leaves open: batching of the store
// streams, precomputed hashes, the schedule seed, the configuration matrix.
func c03Decorate(c vt.Case, rnd *rand.Rand) vt.Case {
	stores := vt.List(c["stores"])
	if rnd.Intn(2) == 0 { // both store orders (ties in the loser tree are broken by position)
		for i, j := 0, len(stores)-1; i < j; i, j = i+1, j-1 {
			stores[i], stores[j] = stores[j], stores[i]
		}
	}
	for i, sv := range stores {
		st := vt.Map(sv)
		st["batch"] = []int{0, 0, 2, 3}[rnd.Intn(4)]
		for _, fv := range vt.List(st["frames"]) {
			for _, cv := range vt.List(vt.Map(fv)["chunks"]) {
				vt.Map(cv)["h"] = (i+rnd.Intn(2))%2 == 0
			}
		}
	}
	// now and then one stream ends with an error after k messages (WARN strategy)
	if rnd.Intn(4) == 0 {
		st := vt.Map(stores[rnd.Intn(len(stores))])
		st["fail"] = map[string]any{"kind": "after", "k": rnd.Intn(len(vt.List(st["frames"])) + 1)}
		st["batch"] = 0
	}
	return c03Finish(c, rnd)
}

// c03Finish: strategy (ABORT unless the world has warning messages or a breaking stream: then any
// warning would abort the request), configuration matrix, schedule seed.
func c03Finish(c vt.Case, rnd *rand.Rand) vt.Case {
	strategy := "ABORT"
	for _, sv := range vt.List(c["stores"]) {
		st := vt.Map(sv)
		if _, ok := st["fail"]; ok {
			strategy = "WARN"
		}
		for _, fv := range vt.List(st["frames"]) {
			if vt.Str(vt.Map(fv)["k"]) == "w" {
				strategy = "WARN"
			}
		}
	}
	c["strategy"] = strategy
	c["cfgs"] = c03Configs()
	c["sseed"] = rnd.Int63n(1 << 40)
	return c
}

// c03Random builds a bigger random world: 1-5 stores, replica labels, series split across
// frames, chunks (raw and aggregated with up to five sub-chunks) duplicated across stores.
func c03Random(rnd *rand.Rand, nonSeries bool) vt.Case {
	type chunk struct {
		mint, maxt int
		f          [6]int
	}
	var pool []chunk
	nextID := 1
	np := 3 + rnd.Intn(8)
	for i := 0; i < np; i++ {
		mint := rnd.Intn(6) * 10
		c := chunk{mint: mint, maxt: mint + 5 + rnd.Intn(3)*5}
		if rnd.Intn(2) == 0 {
			c.f[0] = nextID
			nextID++
		} else {
			for k := 1; k < 6; k++ {
				if rnd.Intn(3) > 0 {
					c.f[k] = nextID
					nextID++
				}
			}
			if c.f == [6]int{} {
				c.f[1] = nextID
				nextID++
			}
		}
		pool = append(pool, c)
		// a sibling in the same time range that shares some sub-chunks with c
		if c.f[0] == 0 && rnd.Intn(3) == 0 {
			d := c
			for k := 1; k < 6; k++ {
				if d.f[k] != 0 && rnd.Intn(2) == 0 {
					d.f[k] = nextID
					nextID++
				}
			}
			if d.f != c.f {
				pool = append(pool, d)
			}
		}
	}
	var without []int
	switch rnd.Intn(3) {
	case 1:
		without = []int{2}
	case 2:
		without = []int{2, 4}
	}
	strip := func(ls [][]int) [][]int {
		out := [][]int{}
		for _, p := range ls {
			drop := false
			for _, n := range without {
				drop = drop || p[0] == n
			}
			if !drop {
				out = append(out, p)
			}
		}
		return out
	}
	less := func(a, b [][]int) bool {
		for i := 0; i < len(a) && i < len(b); i++ {
			if a[i][0] != b[i][0] {
				return a[i][0] < b[i][0]
			}
			if a[i][1] != b[i][1] {
				return a[i][1] < b[i][1]
			}
		}
		return len(a) < len(b)
	}
	// label sets over names 1..5 (2 and 4 are the replica labels), values 1..3
	var lsets [][][]int
	seen := map[string]bool{}
	for len(lsets) < 2+rnd.Intn(7) {
		ls := [][]int{{1, 1 + rnd.Intn(2)}}
		for n := 2; n <= 5; n++ {
			if rnd.Intn(2) == 0 {
				ls = append(ls, []int{n, 1 + rnd.Intn(3)})
			}
		}
		k := fmt.Sprint(ls)
		if !seen[k] {
			seen[k] = true
			lsets = append(lsets, ls)
		}
	}
	ns := 1 + rnd.Intn(5)
	stores := make([]any, 0, ns)
	for i := 0; i < ns; i++ {
		strips := rnd.Intn(2) == 0 || len(without) == 0
		type fr struct {
			ls     [][]int
			chunks []any
		}
		var frames []fr
		for _, ls := range lsets {
			if rnd.Intn(3) == 0 {
				continue
			}
			sent := ls
			if strips {
				sent = strip(ls)
			}
			nf := 1 + rnd.Intn(3)
			for k := 0; k < nf; k++ {
				var cs []any
				for n := rnd.Intn(4); n > 0; n-- {
					c := pool[rnd.Intn(len(pool))]
					cs = append(cs, map[string]any{"mint": c.mint, "maxt": c.maxt, "f": c.f[:], "h": rnd.Intn(2) == 0})
				}
				if cs == nil {
					cs = []any{}
				}
				frames = append(frames, fr{ls: sent, chunks: cs})
			}
		}
		sort.SliceStable(frames, func(a, b int) bool { return less(frames[a].ls, frames[b].ls) })
		fl := make([]any, 0, len(frames))
		// hints / warning messages between and after the series frames of this store
		hintsP, warnP := 0, 0
		if nonSeries {
			hintsP, warnP = []int{0, 0, 3, 8}[rnd.Intn(4)], []int{0, 0, 0, 6}[rnd.Intn(4)]
		}
		for _, f := range frames {
			fl = append(fl, map[string]any{"ls": f.ls, "chunks": f.chunks})
			if hintsP > 0 && rnd.Intn(hintsP) == 0 {
				fl = append(fl, map[string]any{"k": "h", "ls": []any{}, "chunks": []any{}})
			}
			if warnP > 0 && rnd.Intn(warnP) == 0 {
				fl = append(fl, map[string]any{"k": "w", "ls": []any{}, "chunks": []any{}})
			}
		}
		if nonSeries && rnd.Intn(3) == 0 { // trailing hints, as the store gateway sends them
			fl = append(fl, map[string]any{"k": "h", "ls": []any{}, "chunks": []any{}})
		}
		st := map[string]any{"strips": strips, "batch": []int{0, 1, 2, 3, 5}[rnd.Intn(5)], "frames": fl}
		if nonSeries && rnd.Intn(8) == 0 { // the stream ends with an error after k messages
			st["fail"] = map[string]any{"kind": "after", "k": rnd.Intn(len(fl) + 1)}
			st["batch"] = 0
		}
		stores = append(stores, st)
	}
	if without == nil {
		without = []int{}
	}
	return c03Finish(vt.Case{"stores": stores, "without": without}, rnd)
}

// TestC03 runs every world through the whole configuration matrix on a real ProxyStore and
// records the distinct results (grouped only to keep the trace small; sameness is judged by the
// trace spec).
func TestC03(t *testing.T) {
	rnd := vt.Rand()
	gen := func(yield func(vt.Case)) {
		for _, c := range vt.TLCCases(t) {
			yield(c03Decorate(vt.Normalize(c), rnd))
		}
		n := vt.Pick(300, 1200)
		for i := 0; i < n; i++ {
			yield(c03Random(rnd, i%3 != 0))
		}
	}
	vt.Run(t, gen, nil, func(c vt.Case) vt.Event {
		pl := newPayloads()
		sseed := vt.Int64(c["sseed"])
		type group struct {
			cfgs []int
			res  runResult
		}
		var groups []*group
		byKey := map[string]*group{}
		for i, cv := range vt.List(c["cfgs"]) {
			strategy := storepb.PartialResponseStrategy_ABORT
			if vt.Str(c["strategy"]) == "WARN" {
				strategy = storepb.PartialResponseStrategy_WARN
			}
			res, _ := runProxy(c, vt.Map(cv), pl, sseed+int64(i)*7919, strategy, 30*time.Second)
			kb, _ := json.Marshal([]any{res.series, res.err, len(res.warnings), res.hints})
			g := byKey[string(kb)]
			if g == nil {
				g = &group{res: res}
				byKey[string(kb)] = g
				groups = append(groups, g)
			}
			g.cfgs = append(g.cfgs, i+1)
		}
		outs := make([]any, 0, len(groups))
		for _, g := range groups {
			outs = append(outs, map[string]any{"cfgs": g.cfgs, "series": g.res.series, "err": g.res.err, "nwarn": len(g.res.warnings), "nhints": g.res.hints})
		}
		return vt.Event{"outs": outs}
	})
}
