// Package proxyx holds the conformance harnesses of the StoreAPI fan-out (ProxyStore): C03 merge,
// C06 partial-response strategy, C05 store pruning, C17 pooled buffers.
//
// Abstract vocabulary (spec/ProxyFanout.tla): a label set is a list of [name, value] integer
// pairs, a chunk is {mint, maxt, f[6] payload ids, h}, a frame is {ls, chunks}, a store is
// {frames, strips, batch, fail}, a world is {stores, without}.  This file turns a world into fake
// store.Clients that stream real protobuf messages, and real responses back into the vocabulary.
package proxyx

import (
	"context"
	"fmt"
	"io"
	"math"
	"math/rand"
	"runtime"
	"sort"
	"strconv"
	"strings"
	"sync"
	"time"

	"github.com/cespare/xxhash/v2"
	"github.com/gogo/protobuf/types"
	"github.com/pkg/errors"
	"github.com/prometheus/prometheus/model/labels"
	"github.com/prometheus/prometheus/tsdb/chunkenc"
	"google.golang.org/grpc"

	"github.com/thanos-io/thanos/pkg/store"
	"github.com/thanos-io/thanos/pkg/store/labelpb"
	"github.com/thanos-io/thanos/pkg/store/storepb"
	storetestutil "github.com/thanos-io/thanos/pkg/store/storepb/testutil"

	"verif/harness/vt"
)

const timeScale = 60000 // one abstract time unit = one minute

func labelName(n int) string  { return fmt.Sprintf("n%03d", n) }
func labelValue(v int) string { return fmt.Sprintf("v%03d", v) }

func parseIdx(s string, prefix byte) int {
	if len(s) != 4 || s[0] != prefix {
		return 999
	}
	n, err := strconv.Atoi(s[1:])
	if err != nil {
		return 999
	}
	return n
}

// lsetOf: [[1,1],[3,2]] -> {n001="v001", n003="v002"}
func lsetOf(v any) labels.Labels {
	var kv []string
	for _, p := range vt.List(v) {
		pr := vt.Ints(p)
		kv = append(kv, labelName(pr[0]), labelValue(pr[1]))
	}
	return labels.FromStrings(kv...)
}

func lsetBack(zl []labelpb.ZLabel) [][]int {
	out := make([][]int, 0, len(zl))
	for _, l := range zl {
		out = append(out, []int{parseIdx(l.Name, 'n'), parseIdx(l.Value, 'v')})
	}
	return out
}

// payloads builds (and remembers) the real XOR chunk bytes that stand for a payload id.
type payloads struct {
	mu   sync.Mutex
	byID map[string][]byte
	back map[string]int
}

func newPayloads() *payloads {
	return &payloads{byID: map[string][]byte{}, back: map[string]int{}}
}

// get: payload id d of a chunk spanning [mint,maxt] (abstract units).  The same (d,mint,maxt)
// always gives the same bytes; different ids give different bytes.
func (p *payloads) get(d, mint, maxt int) []byte {
	key := fmt.Sprintf("%d/%d/%d", d, mint, maxt)
	p.mu.Lock()
	defer p.mu.Unlock()
	if b, ok := p.byID[key]; ok {
		return b
	}
	c := chunkenc.NewXORChunk()
	app, _ := c.Appender()
	t0, t1 := int64(mint)*timeScale, int64(maxt)*timeScale
	n := 2 + d%4
	if t1 <= t0 {
		n = 1
	}
	for i := 0; i < n; i++ {
		ts := t0
		if n > 1 {
			ts = t0 + (t1-t0)*int64(i)/int64(n-1)
		}
		app.Append(ts, float64(d)*1000+float64(i))
	}
	b := append([]byte(nil), c.Bytes()...)
	p.byID[key] = b
	p.back[string(b)] = d
	return b
}

func (p *payloads) idOf(c *storepb.Chunk) int {
	if c == nil {
		return 0
	}
	p.mu.Lock()
	defer p.mu.Unlock()
	if d, ok := p.back[string(c.Data)]; ok {
		return d
	}
	return -1 // bytes no store sent
}

func (p *payloads) chunk(c map[string]any) storepb.AggrChunk {
	mint, maxt := vt.Int(c["mint"]), vt.Int(c["maxt"])
	f := vt.Ints(c["f"])
	withHash := vt.Bool(c["h"])
	mk := func(d int) *storepb.Chunk {
		if d == 0 {
			return nil
		}
		b := p.get(d, mint, maxt)
		ch := &storepb.Chunk{Type: storepb.Chunk_XOR, Data: b}
		if withHash {
			ch.Hash = xxhash.Sum64(b)
		}
		return ch
	}
	return storepb.AggrChunk{
		MinTime: int64(mint) * timeScale, MaxTime: int64(maxt) * timeScale,
		Raw: mk(f[0]), Count: mk(f[1]), Sum: mk(f[2]), Min: mk(f[3]), Max: mk(f[4]), Counter: mk(f[5]),
	}
}

func (p *payloads) chunkBack(c storepb.AggrChunk) map[string]any {
	return map[string]any{
		"mint": int(c.MinTime / timeScale), "maxt": int(c.MaxTime / timeScale),
		"f": []int{p.idOf(c.Raw), p.idOf(c.Count), p.idOf(c.Sum), p.idOf(c.Min), p.idOf(c.Max), p.idOf(c.Counter)},
	}
}

func (p *payloads) seriesBack(s *storepb.Series) map[string]any {
	chks := make([]any, 0, len(s.Chunks))
	for _, c := range s.Chunks {
		chks = append(chks, p.chunkBack(c))
	}
	return map[string]any{"ls": lsetBack(s.Labels), "chunks": chks}
}

// ---- fake store ----

type failSpec struct {
	kind string // none | open | after | timeout
	k    int
}

type fakeStore struct {
	name     string
	msgs     func() []*storepb.SeriesResponse // fresh messages for every call (the proxy mutates them)
	fail     failSpec
	seed     int64
	calls    int // Series invocations
	lnCalls  int
	lvCalls  int
	mu       sync.Mutex
	lastReq  *storepb.SeriesRequest
	cutShort bool // a stream of this store saw its context cancelled before it had delivered everything
	// label APIs: what a healthy store answers; a store with a failure point answers with an error
	labelNames, labelValues []string
	lastWithout             []string
}

func (s *fakeStore) Series(ctx context.Context, req *storepb.SeriesRequest, _ ...grpc.CallOption) (storepb.Store_SeriesClient, error) {
	s.mu.Lock()
	s.calls++
	s.lastReq = req
	n := s.calls
	s.mu.Unlock()
	if s.fail.kind == "open" {
		return nil, errors.Errorf("injected open failure of %s", s.name)
	}
	return &fakeSeriesClient{ctx: ctx, st: s, msgs: s.msgs(), rnd: rand.New(rand.NewSource(s.seed + int64(n)))}, nil
}

func (s *fakeStore) LabelNames(_ context.Context, r *storepb.LabelNamesRequest, _ ...grpc.CallOption) (*storepb.LabelNamesResponse, error) {
	s.mu.Lock()
	s.lnCalls++
	s.lastWithout = r.WithoutReplicaLabels
	s.mu.Unlock()
	if s.fail.kind != "none" {
		return nil, errors.Errorf("injected label names failure of %s", s.name)
	}
	return &storepb.LabelNamesResponse{Names: s.labelNames}, nil
}

func (s *fakeStore) LabelValues(_ context.Context, r *storepb.LabelValuesRequest, _ ...grpc.CallOption) (*storepb.LabelValuesResponse, error) {
	s.mu.Lock()
	s.lvCalls++
	s.lastWithout = r.WithoutReplicaLabels
	s.mu.Unlock()
	if s.fail.kind != "none" {
		return nil, errors.Errorf("injected label values failure of %s", s.name)
	}
	return &storepb.LabelValuesResponse{Values: s.labelValues}, nil
}

type fakeSeriesClient struct {
	storepb.Store_SeriesClient // unused methods
	ctx                        context.Context
	st                         *fakeStore
	msgs                       []*storepb.SeriesResponse
	i                          int
	rnd                        *rand.Rand
}

func (c *fakeSeriesClient) Recv() (*storepb.SeriesResponse, error) {
	// the schedule dimension: seeded yields / tiny sleeps between frames
	switch c.rnd.Intn(6) {
	case 0:
		runtime.Gosched()
	case 1:
		time.Sleep(time.Duration(c.rnd.Intn(50)) * time.Microsecond)
	}
	f := c.st.fail
	f.k = min(f.k, len(c.msgs)) // a stream shorter than k responses breaks at its end
	if c.ctx.Err() != nil {
		if c.i < len(c.msgs) && !((f.kind == "after" || f.kind == "timeout") && c.i >= f.k) {
			c.st.mu.Lock()
			c.st.cutShort = true
			c.st.mu.Unlock()
		}
		return nil, c.ctx.Err()
	}
	if (f.kind == "after" || f.kind == "timeout") && c.i >= f.k {
		if f.kind == "after" {
			return nil, errors.Errorf("injected stream failure of %s", c.st.name)
		}
		<-c.ctx.Done() // stops answering; only the proxy's response timeout ends this
		return nil, c.ctx.Err()
	}
	if c.i >= len(c.msgs) {
		return nil, io.EOF
	}
	m := c.msgs[c.i]
	c.i++
	return m, nil
}

func (c *fakeSeriesClient) Context() context.Context { return c.ctx }
func (c *fakeSeriesClient) CloseSend() error         { return nil }

// buildStores: world -> fake clients.  Every call of a fake's Series builds fresh messages.
func buildStores(w map[string]any, pl *payloads, sseed int64) ([]store.Client, []*fakeStore) {
	var clients []store.Client
	var fakes []*fakeStore
	for i, sv := range vt.List(w["stores"]) {
		st := vt.Map(sv)
		frames := vt.List(st["frames"])
		batch := 0
		if b, ok := st["batch"]; ok {
			batch = vt.Int(b)
		}
		fs := &fakeStore{name: fmt.Sprintf("store%d", i+1), seed: sseed*31 + int64(i)*1009, fail: failSpec{kind: "none"}}
		if f, ok := st["fail"]; ok {
			fm := vt.Map(f)
			fs.fail = failSpec{kind: vt.Str(fm["kind"]), k: vt.Int(fm["k"])}
		}
		fs.msgs = func() []*storepb.SeriesResponse {
			var out []*storepb.SeriesResponse
			var pending []*storepb.Series // consecutive series frames waiting to be packed
			flush := func() {
				for len(pending) > 0 {
					if batch <= 1 {
						out = append(out, storepb.NewSeriesResponse(pending[0]))
						pending = pending[1:]
						continue
					}
					n := min(batch, len(pending))
					out = append(out, storepb.NewBatchResponse(pending[:n:n]))
					pending = pending[n:]
				}
			}
			for fi, fv := range frames {
				fr := vt.Map(fv)
				switch vt.Str(fr["k"]) {
				case "h": // a hints message
					flush()
					out = append(out, storepb.NewHintsSeriesResponse(&types.Any{TypeUrl: "verif/hints", Value: []byte(fmt.Sprintf("%s#%d", fs.name, fi))}))
					continue
				case "w": // a warning message (e.g. forwarded by a querier below)
					flush()
					out = append(out, storepb.NewWarnSeriesResponse(errors.Errorf("injected warning %d of %s", fi, fs.name)))
					continue
				}
				s := &storepb.Series{Labels: labelpb.ZLabelsFromPromLabels(lsetOf(fr["ls"]))}
				for _, cv := range vt.List(fr["chunks"]) {
					s.Chunks = append(s.Chunks, pl.chunk(vt.Map(cv)))
				}
				pending = append(pending, s)
			}
			flush()
			return out
		}
		// label APIs of a well-behaved store: the names of its series (replica labels it strips
		// itself left out), the values of label n001
		nameSet, valSet := map[string]bool{}, map[string]bool{}
		strips := vt.Bool(st["strips"])
		for _, fv := range frames {
			fr := vt.Map(fv)
			if k := vt.Str(fr["k"]); k == "h" || k == "w" {
				continue
			}
			for _, pv := range vt.List(fr["ls"]) {
				pr := vt.Ints(pv)
				drop := false
				for _, wn := range vt.Ints(w["without"]) {
					drop = drop || (strips && wn == pr[0])
				}
				if !drop {
					nameSet[labelName(pr[0])] = true
				}
				if pr[0] == 1 {
					valSet[labelValue(pr[1])] = true
				}
			}
		}
		for n := range nameSet {
			fs.labelNames = append(fs.labelNames, n)
		}
		for v := range valSet {
			fs.labelValues = append(fs.labelValues, v)
		}
		sort.Strings(fs.labelNames)
		sort.Strings(fs.labelValues)
		fakes = append(fakes, fs)
		clients = append(clients, storetestutil.TestClient{
			StoreClient: fs, Name: fs.name, MinTime: math.MinInt64, MaxTime: math.MaxInt64,
			WithoutReplicaLabelsEnabled: vt.Bool(st["strips"]),
		})
	}
	return clients, fakes
}

// collector is the client side of ProxyStore.Series: it keeps the message structure.
type collector struct {
	storepb.Store_SeriesServer
	ctx      context.Context
	msgs     [][]*storepb.Series // one entry per series-carrying message
	warnings []string
	hints    int
}

func (c *collector) Context() context.Context { return c.ctx }
func (c *collector) Send(r *storepb.SeriesResponse) error {
	switch {
	case r.GetWarning() != "":
		c.warnings = append(c.warnings, r.GetWarning())
	case r.GetSeries() != nil:
		c.msgs = append(c.msgs, []*storepb.Series{r.GetSeries()})
	case r.GetBatch() != nil:
		c.msgs = append(c.msgs, append([]*storepb.Series(nil), r.GetBatch().Series...))
	case r.GetHints() != nil:
		c.hints++
	}
	return nil
}

func (c *collector) series() []*storepb.Series {
	var out []*storepb.Series
	for _, m := range c.msgs {
		out = append(out, m...)
	}
	return out
}

func (c *collector) maxMsg() int {
	m := 0
	for _, x := range c.msgs {
		m = max(m, len(x))
	}
	return m
}

func withoutNames(w map[string]any) []string {
	var out []string
	for _, n := range vt.Ints(w["without"]) {
		out = append(out, labelName(n))
	}
	return out
}

func namesStore(warns []string, name string) bool {
	for _, w := range warns {
		if strings.Contains(w, name) {
			return true
		}
	}
	return false
}
