package proxyx

import (
	"context"
	"math/rand"
	"os"
	"strings"
	"testing"
	"time"

	"github.com/prometheus/prometheus/model/labels"

	"github.com/thanos-io/thanos/pkg/component"
	"github.com/thanos-io/thanos/pkg/store"
	"github.com/thanos-io/thanos/pkg/store/storepb"
	storetestutil "github.com/thanos-io/thanos/pkg/store/storepb/testutil"

	"verif/harness/vt"
)

// C05 vocabulary (spec/StorePrune.tla): value 0 = "" (label absent), value v>0 = "v00v";
// regex [kind, alts]: any = ".*", nonempty = ".+", set = alternation of the literals.
func c05Value(v int) string {
	if v == 0 {
		return ""
	}
	return labelValue(v)
}

func c05Matcher(m map[string]any) storepb.LabelMatcher {
	out := storepb.LabelMatcher{Name: labelName(vt.Int(m["name"]))}
	re := vt.Map(m["re"])
	pattern := func() string {
		switch vt.Str(re["kind"]) {
		case "any":
			return ".*"
		case "nonempty":
			return ".+"
		}
		var alts []string
		for _, a := range vt.Ints(re["alts"]) {
			alts = append(alts, c05Value(a))
		}
		return strings.Join(alts, "|")
	}
	switch vt.Str(m["type"]) {
	case "EQ":
		out.Type, out.Value = storepb.LabelMatcher_EQ, c05Value(vt.Int(m["val"]))
	case "NEQ":
		out.Type, out.Value = storepb.LabelMatcher_NEQ, c05Value(vt.Int(m["val"]))
	case "RE":
		out.Type, out.Value = storepb.LabelMatcher_RE, pattern()
	case "NRE":
		out.Type, out.Value = storepb.LabelMatcher_NRE, pattern()
	}
	return out
}

const c05TimeScale = 3600_000

func c05Random(rnd *rand.Rand) vt.Case {
	nNames, nVals := 2+rnd.Intn(3), 2+rnd.Intn(3)
	lset := func() []any {
		ls := []any{}
		for n := 1; n <= nNames; n++ {
			if rnd.Intn(2) == 0 {
				ls = append(ls, []int{n, 1 + rnd.Intn(nVals)})
			}
		}
		return ls
	}
	stores := []any{}
	for i, ns := 0, 1+rnd.Intn(4); i < ns; i++ {
		lsets := []any{}
		for k := rnd.Intn(4); k > 0; k-- {
			lsets = append(lsets, lset())
		}
		smin := rnd.Intn(60)
		stores = append(stores, map[string]any{"lsets": lsets, "smin": smin, "smax": smin + rnd.Intn(40)})
	}
	matchers := []any{}
	for k := 1 + rnd.Intn(3); k > 0; k-- {
		re := map[string]any{"kind": "any", "alts": []int{}}
		typ := []string{"EQ", "NEQ", "RE", "NRE"}[rnd.Intn(4)]
		if typ == "RE" || typ == "NRE" {
			switch rnd.Intn(4) {
			case 0:
				re["kind"] = "nonempty"
			case 1, 2:
				re["kind"] = "set"
				alts := []int{}
				for a := 1 + rnd.Intn(3); a > 0; a-- {
					alts = append(alts, rnd.Intn(nVals+1))
				}
				re["alts"] = alts
			}
		}
		matchers = append(matchers, map[string]any{"name": 1 + rnd.Intn(nNames), "type": typ, "val": rnd.Intn(nVals + 1), "re": re})
	}
	qmin := rnd.Intn(80)
	return vt.Case{"stores": stores, "query": map[string]any{"matchers": matchers, "qmin": qmin, "qmax": qmin + rnd.Intn(30)}}
}

// TestC05 asks a real ProxyStore (Series, LabelNames, LabelValues) over fake clients that
// advertise the case's label sets and time ranges, and records which stores were contacted.
func TestC05(t *testing.T) {
	rnd := vt.Rand()
	gen := func(yield func(vt.Case)) {
		for _, c := range vt.TLCCases(t) {
			c["kind"] = "prune"
			yield(c)
		}
		for i, n := 0, vt.Pick(1000, 20000); i < n; i++ {
			c := c05Random(rnd)
			c["kind"] = "prune"
			yield(c)
		}
		// the endpoint set in front of the proxy: which stores a query can see
		if p := os.Getenv("VERIF_CASES_STOREPRUNEENDPOINTSMC"); p != "" {
			cs, err := vt.ReadNDJSON(p)
			if err != nil {
				t.Fatal(err)
			}
			for _, c := range cs {
				yield(c)
			}
		}
		for i, n := 0, vt.Pick(100, 800); i < n; i++ {
			yield(c05RandomEndpoints(rnd))
		}
	}
	vt.Run(t, gen, c05EndpointsKF, func(c vt.Case) vt.Event {
		if vt.Str(c["kind"]) == "endpoints" {
			return c05Endpoints(c)
		}
		var clients []store.Client
		var fakes []*fakeStore
		for i, sv := range vt.List(c["stores"]) {
			st := vt.Map(sv)
			var ext []labels.Labels
			for _, ls := range vt.List(st["lsets"]) {
				ext = append(ext, lsetOf(ls))
			}
			fs := &fakeStore{name: "store" + string(rune('1'+i)), fail: failSpec{kind: "none"}, msgs: func() []*storepb.SeriesResponse { return nil }}
			fakes = append(fakes, fs)
			clients = append(clients, storetestutil.TestClient{
				StoreClient: fs, Name: fs.name, ExtLset: ext,
				MinTime: int64(vt.Int(st["smin"])) * c05TimeScale, MaxTime: int64(vt.Int(st["smax"])) * c05TimeScale,
				WithoutReplicaLabelsEnabled: true,
			})
		}
		q := vt.Map(c["query"])
		var ms []storepb.LabelMatcher
		for _, m := range vt.List(q["matchers"]) {
			ms = append(ms, c05Matcher(vt.Map(m)))
		}
		qmin, qmax := int64(vt.Int(q["qmin"]))*c05TimeScale, int64(vt.Int(q["qmax"]))*c05TimeScale
		p := store.NewProxyStore(nil, nil, func() []store.Client { return clients }, component.Query, labels.EmptyLabels(), 10*time.Second, store.EagerRetrieval)
		ctx := context.Background()
		errs := []string{"", "", ""}
		if err := p.Series(&storepb.SeriesRequest{MinTime: qmin, MaxTime: qmax, Matchers: ms}, &collector{ctx: ctx}); err != nil {
			errs[0] = err.Error()
		}
		if _, err := p.LabelNames(ctx, &storepb.LabelNamesRequest{Start: qmin, End: qmax, Matchers: ms}); err != nil {
			errs[1] = err.Error()
		}
		if _, err := p.LabelValues(ctx, &storepb.LabelValuesRequest{Label: labelName(1), Start: qmin, End: qmax, Matchers: ms}); err != nil {
			errs[2] = err.Error()
		}
		queried := make([]any, len(fakes))
		for i, f := range fakes {
			queried[i] = map[string]any{"series": f.calls > 0, "names": f.lnCalls > 0, "values": f.lvCalls > 0}
		}
		return vt.Event{"queried": queried, "errs": errs}
	})
}
