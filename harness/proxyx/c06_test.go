package proxyx

import (
	"context"
	"fmt"
	"math/rand"
	"sync"
	"testing"
	"time"

	"github.com/go-kit/log"
	"github.com/prometheus/prometheus/model/labels"

	"github.com/thanos-io/thanos/pkg/component"
	"github.com/thanos-io/thanos/pkg/query"
	"github.com/thanos-io/thanos/pkg/store"
	"github.com/thanos-io/thanos/pkg/store/labelpb"
	"github.com/thanos-io/thanos/pkg/store/storepb"

	"verif/harness/vt"
)

const c06ResponseTimeout = 1500 * time.Millisecond

func c06Configs(strategy string) []any {
	var out []any
	for _, rc := range [][2]any{{"lazy", 1}, {"lazy", 25}, {"eager", 0}} {
		out = append(out, map[string]any{"retr": rc[0], "buf": rc[1], "rb": 0, "flag": false, "via": "proxy"})
	}
	out = append(out, map[string]any{"retr": "lazy", "buf": 2, "rb": 2, "flag": false, "via": "proxy"})
	if strategy == "ABORT" {
		// the deprecated way of asking for abort: partial_response_disabled
		out = append(out, map[string]any{"retr": "lazy", "buf": 1, "rb": 0, "flag": true, "via": "proxy"}, map[string]any{"retr": "eager", "buf": 0, "rb": 3, "flag": true, "via": "proxy"})
	}
	// the querier's mapping partialResponse flag -> strategy (pkg/query/querier.go)
	out = append(out, map[string]any{"retr": "lazy", "buf": 1, "rb": 0, "flag": false, "via": "querier"}, map[string]any{"retr": "eager", "buf": 0, "rb": 0, "flag": false, "via": "querier"})
	return out
}

func c06HasTimeout(c vt.Case) bool {
	for _, sv := range vt.List(c["stores"]) {
		if vt.Str(vt.Map(vt.Map(sv)["fail"])["kind"]) == "timeout" {
			return true
		}
	}
	return false
}

// c06RunOne: one configuration of one case on a real ProxyStore.
func c06RunOne(c vt.Case, i int, cfg map[string]any) map[string]any {
	if vt.Str(c["kind"]) == "endpoints" {
		return c06RunEndpoints(c, i, cfg)
	}
	pl := newPayloads()
	strategy := storepb.PartialResponseStrategy_WARN
	abort := vt.Str(c["strategy"]) == "ABORT"
	if abort && !vt.Bool(cfg["flag"]) {
		strategy = storepb.PartialResponseStrategy_ABORT
	}
	timeout := 30 * time.Second
	if c06HasTimeout(c) {
		timeout = c06ResponseTimeout
	}
	var res runResult
	var fakes []*fakeStore
	for attempt := 0; attempt < 3; attempt++ {
		if vt.Str(cfg["via"]) == "querier" {
			res, fakes = c06RunQuerier(c, cfg, pl, vt.Int64(c["sseed"])+int64(i)*7919+int64(attempt), !abort, timeout)
		} else {
			res, fakes = runProxyReq(c, cfg, pl, vt.Int64(c["sseed"])+int64(i)*7919+int64(attempt), strategy, abort && vt.Bool(cfg["flag"]), timeout)
		}
		// WARN never returns early, so a healthy store whose stream was cancelled half way was
		// hit by the response timeout: the machine stalled (or the proxy is wrong, which then
		// shows in every attempt).  Retry; the last attempt is judged whatever happened.
		disturbed := false
		if !abort {
			for _, f := range fakes {
				disturbed = disturbed || (f.fail.kind == "none" && f.cutShort)
			}
		}
		if !disturbed {
			break
		}
	}
	named := make([]bool, len(fakes))
	for k, f := range fakes {
		named[k] = namesStore(res.warnings, f.name)
	}
	out := map[string]any{"cfg": i + 1, "via": vt.Str(cfg["via"]), "err": res.err, "nwarn": len(res.warnings), "named": named, "series": res.series, "lbl": []any{}}
	if vt.Str(cfg["via"]) == "proxy" && (i == 0 || vt.Bool(cfg["flag"])) {
		out["lbl"] = c06Labels(c, pl, strategy, abort && vt.Bool(cfg["flag"]))
	}
	return out
}

// c06Labels: LabelNames and LabelValues of a real ProxyStore over the same fake stores (a store
// with a failure point answers both with an error), same strategy.
func c06Labels(c vt.Case, pl *payloads, strategy storepb.PartialResponseStrategy, disabledFlag bool) []any {
	clients, fakes := buildStores(c, pl, vt.Int64(c["sseed"]))
	p := store.NewProxyStore(nil, nil, func() []store.Client { return clients }, component.Query, labels.EmptyLabels(), 30*time.Second, store.EagerRetrieval)
	ms := []storepb.LabelMatcher{{Type: storepb.LabelMatcher_RE, Name: "n001", Value: ".*"}}
	without := withoutNames(c)
	rec := func(api string, got []string, warns []string, err error, prefix byte) map[string]any {
		o := map[string]any{"api": api, "err": "", "nwarn": len(warns), "got": []int{}}
		if err != nil {
			o["err"] = err.Error()
		}
		ids := []int{}
		for _, g := range got {
			ids = append(ids, parseIdx(g, prefix))
		}
		o["got"] = ids
		named := make([]bool, len(fakes))
		fwd := true
		for k, f := range fakes {
			named[k] = namesStore(warns, f.name)
			if f.fail.kind == "none" && (f.lnCalls+f.lvCalls) > 0 && fmt.Sprint(f.lastWithout) != fmt.Sprint(without) {
				fwd = false
			}
		}
		o["named"], o["fwd"] = named, fwd
		return o
	}
	ctx := context.Background()
	var out []any
	nr, err := p.LabelNames(ctx, &storepb.LabelNamesRequest{Start: 0, End: 1 << 50, Matchers: ms, PartialResponseStrategy: strategy, PartialResponseDisabled: disabledFlag, WithoutReplicaLabels: without})
	if nr == nil {
		nr = &storepb.LabelNamesResponse{}
	}
	out = append(out, rec("names", nr.Names, nr.Warnings, err, 'n'))
	vr, err := p.LabelValues(ctx, &storepb.LabelValuesRequest{Label: labelName(1), Start: 0, End: 1 << 50, Matchers: ms, PartialResponseStrategy: strategy, PartialResponseDisabled: disabledFlag, WithoutReplicaLabels: without})
	if vr == nil {
		vr = &storepb.LabelValuesResponse{}
	}
	out = append(out, rec("values", vr.Values, vr.Warnings, err, 'v'))
	return out
}

// c06RunQuerier asks through query.Querier.Select (deduplicating iff replica labels are to be
// dropped): partialResponse=true must
// behave as WARN, false as ABORT.  Chunks are decoded by the querier, so only label sets are kept.
func c06RunQuerier(w map[string]any, cfg map[string]any, pl *payloads, sseed int64, partialResponse bool, timeout time.Duration) (runResult, []*fakeStore) {
	clients, fakes := buildStores(w, pl, sseed)
	retr := store.LazyRetrieval
	if vt.Str(cfg["retr"]) == "eager" {
		retr = store.EagerRetrieval
	}
	p := store.NewProxyStore(nil, nil, func() []store.Client { return clients }, component.Query, labels.EmptyLabels(),
		timeout, retr, store.WithLazyRetrievalMaxBufferedResponsesForProxy(vt.Int(cfg["buf"])))
	creator := query.NewQueryableCreator(log.NewNopLogger(), nil, p, 4, 60*time.Second, "", vt.Int(cfg["rb"]))
	// replica labels are only stripped by a deduplicating querier
	replica := withoutNames(w)
	q, err := creator(len(replica) > 0, replica, nil, 0, partialResponse, false, nil, query.NoopSeriesStatsReporter).Querier(0, 1<<50)
	res := runResult{series: []any{}}
	if err != nil {
		res.err = err.Error()
		return res, fakes
	}
	defer q.Close()
	ss := q.Select(context.Background(), true, nil, labels.MustNewMatcher(labels.MatchRegexp, "n001", ".*"))
	for ss.Next() {
		res.series = append(res.series, map[string]any{"ls": lsetBack(labelpb.ZLabelsFromPromLabels(ss.At().Labels())), "chunks": []any{}})
	}
	if err := ss.Err(); err != nil {
		res.err = err.Error()
	}
	for _, wn := range ss.Warnings() {
		res.warnings = append(res.warnings, wn.Error())
	}
	return res, fakes
}

func c06Random(rnd *rand.Rand) vt.Case {
	c := c03Random(rnd, false)
	delete(c, "cfgs")
	for _, sv := range vt.List(c["stores"]) {
		st := vt.Map(sv)
		fail := map[string]any{"kind": "none", "k": 0}
		switch rnd.Intn(12) {
		case 0, 1:
			fail = map[string]any{"kind": "open", "k": 0}
		case 2, 3, 4:
			fail = map[string]any{"kind": "after", "k": rnd.Intn(6)}
		case 5:
			fail = map[string]any{"kind": "timeout", "k": rnd.Intn(4)}
		}
		st["fail"] = fail
	}
	c["strategy"] = []string{"ABORT", "WARN", "WARN"}[rnd.Intn(3)]
	return c
}

// TestC06 replays the whole TLC-enumerated fault space (failure point per store x strategy) and
// seeded random bigger worlds on a real ProxyStore, lazy and eager; (case, configuration) pairs
// run in parallel because a timeout case waits for the response timeout.
func TestC06(t *testing.T) {
	tr := vt.Open(t)
	defer tr.Close()
	rnd := vt.Rand()
	var cases []vt.Case
	if rc := vt.Replay(t); rc != nil {
		cases = []vt.Case{rc}
	} else {
		for _, c := range vt.TLCCases(t) {
			c = vt.Normalize(c)
			for _, sv := range vt.List(c["stores"]) {
				vt.Map(sv)["batch"] = []int{0, 0, 2}[rnd.Intn(3)]
			}
			c["sseed"] = rnd.Int63n(1 << 40)
			c["cfgs"] = c06Configs(vt.Str(c["strategy"]))
			cases = append(cases, c)
		}
		for i, n := 0, vt.Pick(150, 1500); i < n; i++ {
			c := c06Random(rnd)
			c["cfgs"] = c06Configs(vt.Str(c["strategy"]))
			cases = append(cases, vt.Normalize(c))
		}
		// strict endpoints that are down, through a real EndpointSet in front of the proxy
		for i, n := 0, vt.Pick(60, 200); i < n; i++ {
			cases = append(cases, vt.Normalize(c06EndpointCase(rnd)))
		}
	}
	if len(cases) == 0 {
		t.Fatal("no cases")
	}
	type job struct{ ci, ki int }
	outs := make([][]any, len(cases))
	var jobs []job
	for ci, c := range cases {
		n := len(vt.List(c["cfgs"]))
		outs[ci] = make([]any, n)
		for ki := 0; ki < n; ki++ {
			jobs = append(jobs, job{ci, ki})
		}
	}
	ch := make(chan job)
	var wg sync.WaitGroup
	for wk := 0; wk < 32; wk++ {
		wg.Add(1)
		go func() {
			defer wg.Done()
			for j := range ch {
				c := cases[j.ci]
				outs[j.ci][j.ki] = c06RunOne(c, j.ki, vt.Map(vt.List(c["cfgs"])[j.ki]))
			}
		}()
	}
	for _, j := range jobs {
		ch <- j
	}
	close(ch)
	wg.Wait()
	for ci, c := range cases {
		tr.Emit(vt.Event{"ev": "case", "case": ci + 1, "in": c, "kf": "", "outs": outs[ci]})
	}
}

// ---- strict endpoints that are down, through a real query.EndpointSet ----

// c06EndpointCase: 2-3 endpoints, each strict or not, up or down, all listed.  in.stores holds the
// world as C06 sees it: the endpoints a query reaches (up, or down but strict = a queried store that
// fails when its stream is opened); a non-strict endpoint that is down is not queried at all and is
// left out (in.eps keeps the full configuration).
func c06EndpointCase(rnd *rand.Rand) vt.Case {
	n := 2 + rnd.Intn(2)
	eps, stores := []any{}, []any{}
	for i := 0; i < n; i++ {
		strict, up := rnd.Intn(2) == 0, rnd.Intn(2) == 0
		if i == n-1 && len(stores) == 0 {
			up = true // with no store reachable at all there is no queried store to talk about
		}
		frames := []any{
			map[string]any{"ls": [][]int{{1, 1}}, "chunks": []any{map[string]any{"mint": 0, "maxt": 10, "f": []int{i + 1, 0, 0, 0, 0, 0}, "h": false}}},
			map[string]any{"ls": [][]int{{1, 2 + i}}, "chunks": []any{map[string]any{"mint": 0, "maxt": 10, "f": []int{i + 1, 0, 0, 0, 0, 0}, "h": false}}},
		}
		eps = append(eps, map[string]any{"strict": strict, "up": up, "frames": frames})
		if up || strict {
			fail := map[string]any{"kind": "none", "k": 0}
			if !up {
				fail = map[string]any{"kind": "open", "k": 0}
			}
			stores = append(stores, map[string]any{"ep": i + 1, "strips": true, "batch": 0, "frames": frames, "fail": fail})
		}
	}
	strategy := []string{"ABORT", "WARN"}[rnd.Intn(2)]
	cfgs := []any{}
	for _, rt := range []string{"lazy", "eager"} {
		cfgs = append(cfgs, map[string]any{"retr": rt, "buf": 1, "rb": 0, "flag": false, "via": "proxy"})
	}
	return vt.Case{"kind": "endpoints", "eps": eps, "stores": stores, "without": []int{}, "strategy": strategy, "cfgs": cfgs, "sseed": rnd.Int63n(1 << 40)}
}

func c06RunEndpoints(c vt.Case, i int, cfg map[string]any) map[string]any {
	pl := newPayloads()
	epsIn := vt.List(c["eps"])
	eps := make([]*fakeEndpoint, len(epsIn))
	var specs []*query.GRPCEndpointSpec
	for k, ev := range epsIn {
		e := vt.Map(ev)
		fe := newFakeEndpoint(k)
		defer fe.srv.Stop()
		fe.up = vt.Bool(e["up"])
		fe.smin, fe.smax = 0, 1<<50
		frames := vt.List(e["frames"])
		fe.series = func() []*storepb.Series {
			var out []*storepb.Series
			for _, fv := range frames {
				fr := vt.Map(fv)
				s := &storepb.Series{Labels: labelpb.ZLabelsFromPromLabels(lsetOf(fr["ls"]))}
				for _, cv := range vt.List(fr["chunks"]) {
					s.Chunks = append(s.Chunks, pl.chunk(vt.Map(cv)))
				}
				out = append(out, s)
			}
			return out
		}
		eps[k] = fe
		specs = append(specs, query.NewGRPCEndpointSpec(fe.addr, vt.Bool(e["strict"]), fe.dialOpts()...))
	}
	now := time.Unix(1700000000, 0)
	es := query.NewEndpointSet(func() time.Time { return now }, nil, nil, func() []*query.GRPCEndpointSpec { return specs },
		5*time.Minute, 20*time.Second, 20*time.Second)
	defer es.Close()
	es.Update(context.Background())
	now = now.Add(time.Minute)
	es.Update(context.Background())
	retr := store.LazyRetrieval
	if vt.Str(cfg["retr"]) == "eager" {
		retr = store.EagerRetrieval
	}
	p := store.NewProxyStore(nil, nil, es.GetStoreClients, component.Query, labels.EmptyLabels(), 20*time.Second, retr)
	strategy := storepb.PartialResponseStrategy_WARN
	if vt.Str(c["strategy"]) == "ABORT" {
		strategy = storepb.PartialResponseStrategy_ABORT
	}
	col := &collector{ctx: context.Background()}
	errText := ""
	if err := p.Series(&storepb.SeriesRequest{MinTime: 0, MaxTime: 1 << 50, PartialResponseStrategy: strategy,
		Matchers: []storepb.LabelMatcher{{Type: storepb.LabelMatcher_RE, Name: "n001", Value: ".*"}}}, col); err != nil {
		errText = err.Error()
	}
	series := []any{}
	for _, s := range col.series() {
		series = append(series, pl.seriesBack(s))
	}
	stores := vt.List(c["stores"])
	named := make([]bool, len(stores))
	for k, sv := range stores {
		named[k] = namesStore(col.warnings, fmt.Sprintf("ep%d", vt.Int(vt.Map(sv)["ep"])))
	}
	return map[string]any{"cfg": i + 1, "via": "proxy", "err": errText, "nwarn": len(col.warnings), "named": named, "series": series, "lbl": []any{}}
}
