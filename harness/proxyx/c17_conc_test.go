package proxyx

import (
	"math/rand"
	"os"
	"runtime"
	"strconv"
	"sync"
	"sync/atomic"
	"time"

	"golang.org/x/sys/unix"

	"github.com/thanos-io/thanos/pkg/pool"

	"verif/harness/vt"
)

// pinToOneCPU pins every thread of the process to one cpu while GOMAXPROCS stays high: the kernel
// then preempts the goroutines' threads at arbitrary instructions for whole time slices, so windows
// of a few instructions between two steps of a call are hit. Returns the undo function.
func pinToOneCPU() (bool, func()) {
	var old unix.CPUSet
	if err := unix.SchedGetaffinity(0, &old); err != nil || old.Count() < 2 {
		prev := runtime.GOMAXPROCS(16)
		return false, func() { runtime.GOMAXPROCS(prev) }
	}
	var one unix.CPUSet
	for i := 0; i < 1024; i++ {
		if old.IsSet(i) {
			one.Set(i)
			break
		}
	}
	setAll := func(set *unix.CPUSet) bool {
		ok := unix.SchedSetaffinity(0, set) == nil
		if ents, err := os.ReadDir("/proc/self/task"); err == nil {
			for _, e := range ents {
				if tid, err := strconv.Atoi(e.Name()); err == nil {
					_ = unix.SchedSetaffinity(tid, set)
				}
			}
		}
		return ok
	}
	prev := runtime.GOMAXPROCS(16)
	pinned := setAll(&one)
	return pinned, func() {
		setAll(&old)
		runtime.GOMAXPROCS(prev)
	}
}

func c17ConcCase(rnd *rand.Rand, iters int) vt.Case {
	minSz := []int{64, 256, 1024}[rnd.Intn(3)]
	sizes := []int{minSz, 2 * minSz, 4 * minSz}
	// every goroutine asks for slices of one bucket; the budget admits `room` of them (+ slack
	// smaller than one more), so the pool is almost always at its budget
	bucket := sizes[rnd.Intn(3)]
	room := 1 + rnd.Intn(3)
	return vt.Case{"kind": "conc", "sizes": sizes, "max": room*bucket + rnd.Intn(bucket), "ask": bucket - rnd.Intn(bucket/2),
		"goroutines": room + 2 + rnd.Intn(5), "iters": iters, "sseed": rnd.Int63n(1 << 40)}
}

// c17Conc: N goroutines Get/Put on one real BucketedPool[byte] near its budget. Observed: the
// largest UsedBytes() seen by a continuously sampling monitor and by every goroutine after each of
// its operations, the largest number of bytes the goroutines held at once (counted by the harness:
// added after Get returned, subtracted before Put, so never more than what is really checked
// out), and UsedBytes() after everything was returned.
func c17Conc(c vt.Case) vt.Event {
	sizes := vt.Ints(c["sizes"])
	p, err := pool.NewBucketedPool[byte](sizes[0], sizes[len(sizes)-1], 2, uint64(vt.Int(c["max"])))
	if err != nil {
		panic(err)
	}
	ask, n, iters := vt.Int(c["ask"]), vt.Int(c["goroutines"]), vt.Int(c["iters"])
	var maxUsed, held, maxHeld, gets, refused atomic.Int64
	note := func(m *atomic.Int64, v int64) {
		for {
			cur := m.Load()
			if v <= cur || m.CompareAndSwap(cur, v) {
				return
			}
		}
	}
	stop := make(chan struct{})
	var mon sync.WaitGroup
	mon.Add(1)
	go func() {
		defer mon.Done()
		for {
			select {
			case <-stop:
				return
			default:
			}
			note(&maxUsed, int64(p.UsedBytes()))
			runtime.Gosched()
		}
	}()
	var wg sync.WaitGroup
	for g := 0; g < n; g++ {
		wg.Add(1)
		go func(seed int64) {
			defer wg.Done()
			r := rand.New(rand.NewSource(seed))
			for i := 0; i < iters; i++ {
				b, err := p.Get(ask - r.Intn(3))
				note(&maxUsed, int64(p.UsedBytes()))
				if err != nil {
					refused.Add(1)
					if r.Intn(4) == 0 {
						runtime.Gosched()
					}
					continue
				}
				gets.Add(1)
				note(&maxHeld, held.Add(int64(cap(*b))))
				if r.Intn(3) == 0 {
					runtime.Gosched()
				}
				held.Add(-int64(cap(*b)))
				p.Put(b)
				note(&maxUsed, int64(p.UsedBytes()))
			}
		}(vt.Int64(c["sseed"]) + int64(g)*104729)
	}
	wg.Wait()
	close(stop)
	mon.Wait()
	return vt.Event{"maxused": maxUsed.Load(), "maxheld": maxHeld.Load(), "finalused": int64(p.UsedBytes()),
		"gets": gets.Load(), "refused": refused.Load(), "steps": []any{}}
}

// c17ConcAll runs the concurrent scenarios of a tier, pinned to one cpu.
func c17ConcAll(rnd *rand.Rand, run func(vt.Case)) {
	pinned, undo := pinToOneCPU()
	defer undo()
	start := time.Now()
	for i, n := 0, vt.Pick(8, 40); i < n; i++ {
		c := c17ConcCase(rnd, vt.Pick(40000, 60000))
		c["pinned"] = pinned
		run(c)
		if time.Since(start) > time.Duration(vt.Pick(40, 240))*time.Second {
			break // slow machine: what ran is judged, the rest is skipped
		}
	}
}
