package proxyx

import (
	"context"
	"fmt"
	"math"
	"math/rand"
	"net"
	"sort"
	"sync"
	"time"

	"github.com/prometheus/prometheus/model/labels"
	"google.golang.org/grpc"
	"google.golang.org/grpc/codes"
	"google.golang.org/grpc/credentials/insecure"
	"google.golang.org/grpc/status"
	"google.golang.org/grpc/test/bufconn"

	"github.com/thanos-io/thanos/pkg/component"
	"github.com/thanos-io/thanos/pkg/info/infopb"
	"github.com/thanos-io/thanos/pkg/query"
	"github.com/thanos-io/thanos/pkg/store"
	"github.com/thanos-io/thanos/pkg/store/labelpb"
	"github.com/thanos-io/thanos/pkg/store/storepb"

	"verif/harness/vt"
)

// fakeEndpoint is a Thanos component behind an in-memory gRPC connection: Info API + Store API.
// "down" means that every call answers Unavailable.
type fakeEndpoint struct {
	infopb.UnimplementedInfoServer
	storepb.UnimplementedStoreServer
	addr string
	lis  *bufconn.Listener
	srv  *grpc.Server

	mu          sync.Mutex
	up          bool
	lsets       []labels.Labels
	smin, smax  int64
	seriesCalls int
	namesCalls  int
	valuesCalls int
	names       []string // what LabelNames / LabelValues answer
	failLabels  bool     // LabelNames / LabelValues fail although the endpoint is up
	series      func() []*storepb.Series // what Series streams while up
}

func newFakeEndpoint(i int) *fakeEndpoint {
	fe := &fakeEndpoint{addr: fmt.Sprintf("passthrough:///ep%d", i+1), lis: bufconn.Listen(1 << 20), srv: grpc.NewServer()}
	infopb.RegisterInfoServer(fe.srv, fe)
	storepb.RegisterStoreServer(fe.srv, fe)
	go func() { _ = fe.srv.Serve(fe.lis) }()
	return fe
}

func (fe *fakeEndpoint) dialOpts() []grpc.DialOption {
	return []grpc.DialOption{
		grpc.WithContextDialer(func(ctx context.Context, _ string) (net.Conn, error) { return fe.lis.DialContext(ctx) }),
		grpc.WithTransportCredentials(insecure.NewCredentials()),
	}
}

func (fe *fakeEndpoint) Info(context.Context, *infopb.InfoRequest) (*infopb.InfoResponse, error) {
	fe.mu.Lock()
	defer fe.mu.Unlock()
	if !fe.up {
		return nil, status.Error(codes.Unavailable, "endpoint is down")
	}
	return &infopb.InfoResponse{
		LabelSets:     labelpb.ZLabelSetsFromPromLabels(fe.lsets...),
		ComponentType: component.Sidecar.String(),
		Store:         &infopb.StoreInfo{MinTime: fe.smin, MaxTime: fe.smax, SupportsWithoutReplicaLabels: true},
	}, nil
}

func (fe *fakeEndpoint) Series(_ *storepb.SeriesRequest, srv storepb.Store_SeriesServer) error {
	fe.mu.Lock()
	fe.seriesCalls++
	up, series := fe.up, fe.series
	fe.mu.Unlock()
	if !up {
		return status.Error(codes.Unavailable, "endpoint "+fe.addr+" is down")
	}
	if series != nil {
		for _, s := range series() {
			if err := srv.Send(storepb.NewSeriesResponse(s)); err != nil {
				return err
			}
		}
	}
	return nil
}

func (fe *fakeEndpoint) LabelNames(context.Context, *storepb.LabelNamesRequest) (*storepb.LabelNamesResponse, error) {
	fe.mu.Lock()
	defer fe.mu.Unlock()
	fe.namesCalls++
	if !fe.up || fe.failLabels {
		return nil, status.Error(codes.Unavailable, "endpoint "+fe.addr+" is down")
	}
	return &storepb.LabelNamesResponse{Names: fe.names}, nil
}

func (fe *fakeEndpoint) LabelValues(context.Context, *storepb.LabelValuesRequest) (*storepb.LabelValuesResponse, error) {
	fe.mu.Lock()
	defer fe.mu.Unlock()
	fe.valuesCalls++
	if !fe.up || fe.failLabels {
		return nil, status.Error(codes.Unavailable, "endpoint "+fe.addr+" is down")
	}
	return &storepb.LabelValuesResponse{Values: fe.names}, nil
}

const (
	c05FarPast   = -1000000
	c05FarFuture = 1000000
)

func c05TimeBack(t int64) int {
	switch t {
	case math.MinInt64:
		return c05FarPast
	case math.MaxInt64:
		return c05FarFuture
	}
	return int(t / c05TimeScale)
}

// c05Endpoints runs one scenario of rounds (environment change, clock step, EndpointSet.Update,
// one query through a ProxyStore over GetStoreClients) on a real query.EndpointSet with an
// injected clock (one unit = one minute) and in-memory gRPC endpoints.
func c05Endpoints(c vt.Case) vt.Event {
	strict := vt.List(c["strict"])
	metas := vt.List(c["metas"])
	n := len(strict)
	eps := make([]*fakeEndpoint, n)
	byAddr := map[string]int{}
	for i := range eps {
		eps[i] = newFakeEndpoint(i)
		byAddr[eps[i].addr] = i + 1
		defer eps[i].srv.Stop()
	}
	now := time.Unix(1700000000, 0)
	var specMu sync.Mutex
	var specs []*query.GRPCEndpointSpec
	es := query.NewEndpointSet(func() time.Time { return now }, nil, nil,
		func() []*query.GRPCEndpointSpec { specMu.Lock(); defer specMu.Unlock(); return specs },
		time.Duration(vt.Int(c["T"]))*time.Minute, 20*time.Second, 20*time.Second)
	defer es.Close()
	p := store.NewProxyStore(nil, nil, es.GetStoreClients, component.Query, labels.EmptyLabels(), 20*time.Second, store.EagerRetrieval)

	q := vt.Map(c["query"])
	var ms []storepb.LabelMatcher
	for _, m := range vt.List(q["matchers"]) {
		ms = append(ms, c05Matcher(vt.Map(m)))
	}
	qmin, qmax := int64(vt.Int(q["qmin"]))*c05TimeScale, int64(vt.Int(q["qmax"]))*c05TimeScale

	obs := []any{}
	for _, rv := range vt.List(c["rounds"]) {
		r := vt.Map(rv)
		env := vt.List(r["env"])
		specMu.Lock()
		specs = nil
		for i, ev := range env {
			e := vt.Map(ev)
			fe := eps[i]
			fe.mu.Lock()
			fe.up = vt.Bool(e["up"])
			meta := vt.Map(metas[vt.Int(e["m"])-1])
			fe.lsets = nil
			for _, ls := range vt.List(meta["lsets"]) {
				fe.lsets = append(fe.lsets, lsetOf(ls))
			}
			fe.smin, fe.smax = int64(vt.Int(meta["smin"]))*c05TimeScale, int64(vt.Int(meta["smax"]))*c05TimeScale
			fe.seriesCalls = 0
			fe.mu.Unlock()
			if vt.Bool(e["inspec"]) {
				specs = append(specs, query.NewGRPCEndpointSpec(fe.addr, vt.Bool(strict[i]), fe.dialOpts()...))
			}
		}
		specMu.Unlock()
		now = now.Add(time.Duration(vt.Int(r["dt"])) * time.Minute)
		es.Update(context.Background())

		clients := []any{}
		for _, cl := range es.GetStoreClients() {
			addr, _ := cl.Addr()
			lsets := []any{}
			for _, ls := range cl.LabelSets() {
				lsets = append(lsets, lsetBack(labelpb.ZLabelsFromPromLabels(ls)))
			}
			mint, maxt := cl.TimeRange()
			clients = append(clients, map[string]any{"e": byAddr[addr], "lsets": lsets, "smin": c05TimeBack(mint), "smax": c05TimeBack(maxt)})
		}
		sort.Slice(clients, func(a, b int) bool { return clients[a].(map[string]any)["e"].(int) < clients[b].(map[string]any)["e"].(int) })

		col := &collector{ctx: context.Background()}
		errText := ""
		if err := p.Series(&storepb.SeriesRequest{MinTime: qmin, MaxTime: qmax, Matchers: ms, PartialResponseStrategy: storepb.PartialResponseStrategy_WARN}, col); err != nil {
			errText = err.Error()
		}
		contacted := []int{}
		for i, fe := range eps {
			fe.mu.Lock()
			if fe.seriesCalls > 0 {
				contacted = append(contacted, i+1)
			}
			fe.mu.Unlock()
		}
		obs = append(obs, map[string]any{"clients": clients, "contacted": contacted, "err": errText, "nwarn": len(col.warnings)})
	}
	return vt.Event{"obs": obs}
}

func c05RandomEndpoints(rnd *rand.Rand) vt.Case {
	base := c05Random(rnd)
	// advertisements; an empty label set next to non-empty ones only in 1 of 12 scenarios (known
	// finding endpoint-drops-empty-labelset, see c05EndpointsKF)
	keepMixed := rnd.Intn(12) == 0
	metas := []any{}
	for len(metas) < 3 {
		for _, sv := range vt.List(c05Random(rnd)["stores"]) {
			st := vt.Map(sv)
			var nonEmpty, all []any
			for _, ls := range vt.List(st["lsets"]) {
				all = append(all, ls)
				if len(vt.List(ls)) > 0 {
					nonEmpty = append(nonEmpty, ls)
				}
			}
			if !keepMixed && len(nonEmpty) > 0 && len(nonEmpty) < len(all) {
				st["lsets"] = nonEmpty
			}
			metas = append(metas, st)
		}
	}
	n := 2 + rnd.Intn(2)
	T := 2 + rnd.Intn(5)
	strict := make([]bool, n)
	for i := range strict {
		strict[i] = rnd.Intn(3) == 0
	}
	rounds := []any{}
	for k := 3 + rnd.Intn(5); k > 0; k-- {
		env := []any{}
		for i := 0; i < n; i++ {
			inspec := rnd.Intn(6) > 0
			up := inspec && rnd.Intn(3) > 0
			m := 1
			if up {
				m = 1 + rnd.Intn(len(metas))
			}
			env = append(env, map[string]any{"inspec": inspec, "up": up, "m": m})
		}
		rounds = append(rounds, map[string]any{"env": env, "dt": []int{1, 1, T - 1, T, T + 1}[rnd.Intn(5)]})
	}
	return vt.Case{"kind": "endpoints", "T": T, "strict": strict, "metas": metas, "query": base["query"], "rounds": rounds}
}

// c05EndpointsKF: the known-finding class, decided from the input alone: some advertisement lists
// an empty label set together with a non-empty one.
func c05EndpointsKF(c vt.Case) string {
	if vt.Str(c["kind"]) != "endpoints" {
		return ""
	}
	for _, mv := range vt.List(c["metas"]) {
		empty, nonEmpty := false, false
		for _, ls := range vt.List(vt.Map(mv)["lsets"]) {
			if len(vt.List(ls)) == 0 {
				empty = true
			} else {
				nonEmpty = true
			}
		}
		if empty && nonEmpty {
			return "endpoint-drops-empty-labelset"
		}
	}
	return ""
}
