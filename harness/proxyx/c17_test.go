package proxyx

import (
	"context"
	"math/rand"
	"os"
	"sync"
	"testing"
	"time"

	"github.com/prometheus/prometheus/model/labels"

	"github.com/thanos-io/thanos/pkg/component"
	"github.com/thanos-io/thanos/pkg/pool"
	"github.com/thanos-io/thanos/pkg/store"
	"github.com/thanos-io/thanos/pkg/store/storepb"
	"github.com/thanos-io/thanos/pkg/verifhook"

	"verif/harness/vt"
)

// ---- (b) the size-bounded bucketed pool ----

// c17Budget runs one Get/Put sequence on a real BucketedPool[byte] and logs what every call
// returned and UsedBytes() after it.  The buffers are never grown.
func c17Budget(c vt.Case) []any {
	sizes := vt.Ints(c["sizes"])
	factor := 2.0
	if f, ok := c["factor"]; ok {
		factor = float64(vt.Int(f))
	}
	p, err := pool.NewBucketedPool[byte](sizes[0], sizes[len(sizes)-1], factor, uint64(vt.Int(c["max"])))
	if err != nil {
		panic(err)
	}
	var outs []*[]byte
	steps := []any{}
	for _, ov := range vt.List(c["ops"]) {
		op := vt.Map(ov)
		n := vt.Int(op["n"])
		if vt.Str(op["op"]) == "get" {
			b, err := p.Get(n)
			st := map[string]any{"op": "get", "sz": n, "ok": err == nil, "cap": 0}
			if err == nil {
				st["cap"] = cap(*b)
				outs = append(outs, b)
			}
			st["used"] = int(p.UsedBytes())
			steps = append(steps, st)
			continue
		}
		if len(outs) == 0 {
			continue
		}
		i := (n - 1) % len(outs)
		b := outs[i]
		outs = append(outs[:i], outs[i+1:]...)
		cp := cap(*b)
		p.Put(b)
		steps = append(steps, map[string]any{"op": "put", "sz": 0, "ok": true, "cap": cp, "used": int(p.UsedBytes())})
	}
	return steps
}

func c17RandomBudget(rnd *rand.Rand) vt.Case {
	minSz := []int{16, 64, 100}[rnd.Intn(3)]
	nb := 2 + rnd.Intn(4)
	sizes := []int{minSz}
	for i := 1; i < nb; i++ {
		sizes = append(sizes, sizes[i-1]*2)
	}
	top := sizes[nb-1]
	maxTotal := 0
	if rnd.Intn(5) > 0 {
		maxTotal = minSz + rnd.Intn(3*top)
	}
	ops := []any{}
	for k := 4 + rnd.Intn(12); k > 0; k-- {
		if rnd.Intn(3) < 2 {
			ops = append(ops, map[string]any{"op": "get", "n": 1 + rnd.Intn(top+top/2)})
		} else {
			ops = append(ops, map[string]any{"op": "put", "n": 1 + rnd.Intn(4)})
		}
	}
	return vt.Case{"kind": "budget", "sizes": sizes, "max": maxTotal, "ops": ops}
}

// ---- (a) the proxy's pool of shard-matcher buffers ----

// c17Shard runs nreq concurrent sharded Series requests on one real ProxyStore; the hooks in
// ShardInfo.Matcher / ShardMatcher.Close report every buffer taken from and given back to the
// proxy's sync.Pool (pointer identity), in the order of the pool operations.
func c17Shard(c vt.Case, emit func(ev string, buf, pool int)) {
	nstores, nreq := vt.Int(c["nstores"]), vt.Int(c["nreq"])
	stores := []any{}
	for i := 0; i < nstores; i++ {
		frames := []any{}
		for k := 1; k <= 3; k++ {
			frames = append(frames, map[string]any{"ls": [][]int{{1, k}, {3, i + 1}}, "chunks": []any{map[string]any{"mint": 0, "maxt": 10, "f": []int{10*i + k, 0, 0, 0, 0, 0}, "h": false}}})
		}
		fail := map[string]any{"kind": "none", "k": 0}
		if i < vt.Int(c["failopen"]) {
			fail = map[string]any{"kind": "open", "k": 0}
		}
		stores = append(stores, map[string]any{"strips": true, "batch": 0, "frames": frames, "fail": fail})
	}
	w := vt.Normalize(vt.Case{"stores": stores, "without": []int{}})
	pl := newPayloads()
	clients, _ := buildStores(w, pl, vt.Int64(c["sseed"]))
	if !vt.Bool(c["proxyshards"]) {
		for i := range clients {
			tc := clients[i].(interface{ String() string })
			_ = tc
		}
	}
	clients = c17Shardable(clients, !vt.Bool(c["proxyshards"]))
	retr := store.LazyRetrieval
	if vt.Str(c["retr"]) == "eager" {
		retr = store.EagerRetrieval
	}
	p := store.NewProxyStore(nil, nil, func() []store.Client { return clients }, component.Query, labels.EmptyLabels(), 30*time.Second, retr)

	var mu sync.Mutex
	bufIDs, poolIDs := map[*[]byte]int{}, map[*sync.Pool]int{}
	verifhook.SetSink(func(name string, kv ...any) {
		if len(kv) < 6 {
			return
		}
		op, _ := kv[1].(string)
		b, _ := kv[3].(*[]byte)
		pp, _ := kv[5].(*sync.Pool)
		mu.Lock()
		defer mu.Unlock()
		if _, ok := bufIDs[b]; !ok {
			bufIDs[b] = len(bufIDs) + 1 // the map keeps the buffer alive: no address reuse
		}
		if _, ok := poolIDs[pp]; !ok {
			poolIDs[pp] = len(poolIDs) + 1
		}
		if op == "get" {
			emit("Get", bufIDs[b], poolIDs[pp])
		} else {
			emit("Put", bufIDs[b], poolIDs[pp])
		}
	})
	defer verifhook.SetSink(nil)

	var wg sync.WaitGroup
	for r := 0; r < nreq; r++ {
		wg.Add(1)
		go func(r int) {
			defer wg.Done()
			for round := 0; round < 2; round++ { // twice: the second round draws what the first gave back
				ctx, cancel := context.WithCancel(context.Background())
				req := &storepb.SeriesRequest{
					MinTime: 0, MaxTime: 1 << 50,
					Matchers:                []storepb.LabelMatcher{{Type: storepb.LabelMatcher_RE, Name: "n001", Value: ".*"}, {Type: storepb.LabelMatcher_NEQ, Name: "zzz", Value: "x"}},
					Limit:                   int64(vt.Int(c["limit"])),
					PartialResponseStrategy: storepb.PartialResponseStrategy_WARN,
					ShardInfo:               &storepb.ShardInfo{ShardIndex: int64(r % 2), TotalShards: 2, By: true, Labels: []string{labelName(1)}},
				}
				_ = p.Series(req, &collector{ctx: ctx})
				cancel()
			}
		}(r)
	}
	wg.Wait()
}

type shardableClient struct {
	store.Client
	shardable bool
}

func (s shardableClient) SupportsSharding() bool { return s.shardable }

func c17Shardable(cs []store.Client, shardable bool) []store.Client {
	out := make([]store.Client, len(cs))
	for i, c := range cs {
		out[i] = shardableClient{Client: c, shardable: shardable}
	}
	return out
}

func TestC17(t *testing.T) {
	tr := vt.Open(t)
	defer tr.Close()
	rnd := vt.Rand()
	id := 0
	run := func(c vt.Case) {
		id++
		c = vt.Normalize(c)
		if vt.Str(c["kind"]) == "budget" {
			tr.Emit(vt.Event{"ev": "case", "case": id, "in": c, "kf": "", "steps": c17Budget(c)})
			return
		}
		if vt.Str(c["kind"]) == "conc" {
			ev := c17Conc(c)
			ev["ev"], ev["case"], ev["in"], ev["kf"] = "case", id, c, ""
			tr.Emit(ev)
			return
		}
		tr.Emit(vt.Event{"ev": "case", "case": id, "in": c, "kf": "", "steps": []any{}})
		cid := id
		c17Shard(c, func(ev string, buf, pool int) { tr.Emit(vt.Event{"ev": ev, "case": cid, "buf": buf, "pool": pool}) })
		tr.Emit(vt.Event{"ev": "End", "case": cid})
	}
	if rc := vt.Replay(t); rc != nil {
		if vt.Str(rc["kind"]) == "conc" {
			_, undo := pinToOneCPU()
			defer undo()
		}
		run(rc)
		return
	}
	// concurrent Get/Put near the budget first (pinned to one cpu; the pin is undone afterwards)
	c17ConcAll(rnd, run)
	for _, c := range vt.TLCCases(t) {
		c["sseed"] = rnd.Int63n(1 << 40)
		run(c)
	}
	if p := os.Getenv("VERIF_CASES_POOLSBUDGETMC"); p != "" {
		cs, err := vt.ReadNDJSON(p)
		if err != nil {
			t.Fatal(err)
		}
		for _, c := range cs {
			run(c)
		}
	}
	for i, n := 0, vt.Pick(300, 10000); i < n; i++ {
		run(c17RandomBudget(rnd))
	}
	for i, n := 0, vt.Pick(40, 600); i < n; i++ {
		run(vt.Case{"kind": "shard", "nreq": 1 + rnd.Intn(4), "nstores": 1 + rnd.Intn(5), "retr": []string{"lazy", "eager"}[rnd.Intn(2)],
			"limit": rnd.Intn(3), "failopen": rnd.Intn(2), "proxyshards": rnd.Intn(2) == 0, "sseed": rnd.Int63n(1 << 40)})
	}
}
