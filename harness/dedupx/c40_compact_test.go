package dedupx

import (
	"context"
	"fmt"
	"io"
	"log/slog"
	"math/rand"
	"os"
	"path/filepath"

	"github.com/go-kit/log"
	"github.com/prometheus/prometheus/model/labels"
	"github.com/prometheus/prometheus/storage"
	"github.com/prometheus/prometheus/tsdb"
	"github.com/prometheus/prometheus/tsdb/chunkenc"
	"github.com/prometheus/prometheus/tsdb/chunks"
	"github.com/prometheus/prometheus/tsdb/index"

	"github.com/thanos-io/thanos/pkg/block/metadata"
	"github.com/thanos-io/thanos/pkg/compact/downsample"
	"github.com/thanos-io/thanos/pkg/dedup"

	"verif/harness/vt"
)

// gen "compact": the whole offline path. Two (or three) Prometheus replicas scrape one counter
// (with resets) at their own phase, with late starts, early ends and outages; every replica's
// raw TSDB block is downsampled to 5 m by downsample.Downsample (real aggregate chunks, counter
// aggregate with reset bookkeeping across chunk boundaries); the downsampled blocks of the
// replicas are then compacted vertically by the TSDB leveled compactor configured as
// `thanos compact --deduplication.func=penalty` configures it (chunk pool = downsample.NewPool(),
// merge function = dedup.NewChunkSeriesMerger()). Recorded: the aggregate timestamps of every
// chunk of the series in the compacted block - the same observation as for the other C40 cases.
func observeC40Compact(c vt.Case) (ev vt.Event) {
	ev = vt.Event{"out": []any{}, "err": "", "nin": 0}
	defer func() {
		if r := recover(); r != nil {
			ev["err"] = fmt.Sprintf("panic: %v at %s", r, panicSite())
		}
	}()
	r := rand.New(rand.NewSource(vt.Int64(c["cseed"])))
	root := os.Getenv("VERIF_SCRATCH")
	dir, err := os.MkdirTemp(root, "c40compact")
	if err != nil {
		ev["err"] = err.Error()
		return ev
	}
	defer os.RemoveAll(dir)
	slogger := slog.New(slog.NewTextHandler(io.Discard, nil))
	lset := labels.FromStrings("__name__", "requests_total", "job", "j")

	nrep := 2 + r.Intn(2)
	interval := []int64{30000, 60000}[r.Intn(2)]
	windows := int64(130 + r.Intn(vt.Int(c["maxwin"])-129)) // 5 m windows covered: > 120 so the merged count is cut
	total := windows * 300000 / interval
	base := int64(1_700_000_000_000) - int64(1_700_000_000_000)%300000
	var dsDirs []string
	nin := 0
	for rep := 0; rep < nrep; rep++ {
		phase := r.Int63n(interval)
		from, to := int64(0), total
		if rep > 0 && r.Intn(2) == 0 {
			from = r.Int63n(total / 2)
		}
		if rep > 0 && r.Intn(2) == 0 {
			to = total/2 + r.Int63n(total/2)
		}
		gapFrom, gapTo := int64(-1), int64(-1)
		if r.Intn(2) == 0 {
			gapFrom = from + r.Int63n(to-from)
			gapTo = gapFrom + 1 + r.Int63n(total/4)
		}
		var ss []chunks.Sample
		v := float64(r.Intn(1000))
		for k := from; k < to; k++ {
			if k >= gapFrom && k < gapTo {
				continue
			}
			v += float64(r.Intn(20))
			if r.Intn(300) == 0 {
				v = float64(r.Intn(5)) // counter reset
			}
			ss = append(ss, smp{t: base + k*interval + phase, v: v})
		}
		if len(ss) == 0 {
			continue
		}
		nin += len(ss)
		rdir := filepath.Join(dir, fmt.Sprintf("r%d", rep))
		if err := os.MkdirAll(rdir, 0o777); err != nil {
			ev["err"] = err.Error()
			return ev
		}
		rawDir, err := tsdb.CreateBlock([]storage.Series{storage.NewListSeries(lset, ss)}, rdir, int64(1)<<42, slogger)
		if err != nil {
			ev["err"] = "create raw block: " + err.Error()
			return ev
		}
		meta, err := metadata.InjectThanos(log.NewNopLogger(), rawDir, metadata.Thanos{
			Labels:     map[string]string{"replica": fmt.Sprint(rep)},
			Downsample: metadata.ThanosDownsample{Resolution: 0},
			Source:     metadata.TestSource,
		}, nil)
		if err != nil {
			ev["err"] = err.Error()
			return ev
		}
		b, err := tsdb.OpenBlock(slogger, rawDir, downsample.NewPool(), tsdb.DefaultPostingsDecoderFactory)
		if err != nil {
			ev["err"] = err.Error()
			return ev
		}
		id, err := downsample.Downsample(context.Background(), log.NewNopLogger(), meta, b, rdir, 300000)
		b.Close()
		if err != nil {
			ev["err"] = "downsample: " + err.Error()
			return ev
		}
		dsDirs = append(dsDirs, filepath.Join(rdir, id.String()))
	}
	// the downsampled input blocks, as the compactor reads them (for the record; not judged)
	ins := []any{}
	for _, d := range dsDirs {
		chs, err := readAggrBlock(d)
		if err != nil {
			ev["err"] = "reading downsampled block: " + err.Error()
			return ev
		}
		ins = append(ins, chs)
	}
	ev["ins"] = ins
	ev["nin"] = nin
	if len(dsDirs) < 2 {
		return nil // nothing to merge: not a case
	}
	comp, err := tsdb.NewLeveledCompactor(context.Background(), nil, slogger, []int64{int64(1) << 40}, downsample.NewPool(), dedup.NewChunkSeriesMerger())
	if err != nil {
		ev["err"] = err.Error()
		return ev
	}
	outDir := filepath.Join(dir, "out")
	if err := os.MkdirAll(outDir, 0o777); err != nil {
		ev["err"] = err.Error()
		return ev
	}
	ids, err := comp.Compact(outDir, dsDirs, nil)
	if err != nil {
		ev["err"] = "compact: " + err.Error()
		return ev
	}
	if len(ids) != 1 {
		ev["err"] = fmt.Sprintf("compaction produced %d blocks", len(ids))
		return ev
	}
	out, err := readAggrBlock(filepath.Join(outDir, ids[0].String()))
	if err != nil {
		ev["err"] = err.Error()
		return ev
	}
	ev["out"] = out
	return ev
}

// readAggrBlock returns the aggregate timestamps of every chunk of the single series of a block.
func readAggrBlock(bdir string) ([]any, error) {
	ir, err := index.NewFileReader(filepath.Join(bdir, "index"), index.DecodePostingsRaw)
	if err != nil {
		return nil, err
	}
	defer ir.Close()
	cr, err := chunks.NewDirReader(filepath.Join(bdir, "chunks"), downsample.NewPool())
	if err != nil {
		return nil, err
	}
	defer cr.Close()
	k, v := index.AllPostingsKey()
	p, err := ir.Postings(context.Background(), k, v)
	if err != nil {
		return nil, err
	}
	out := []any{}
	nser := 0
	for p.Next() {
		nser++
		var lb labels.ScratchBuilder
		var chks []chunks.Meta
		if err := ir.Series(p.At(), &lb, &chks); err != nil {
			return nil, err
		}
		for _, m := range chks {
			ch, _, err := cr.ChunkOrIterable(m)
			if err != nil {
				return nil, err
			}
			m.Chunk = ch
			o, err := aggrRuns(m)
			if err != nil {
				return nil, err
			}
			out = append(out, o)
		}
	}
	if nser != 1 {
		return out, fmt.Errorf("block holds %d series for one label set", nser)
	}
	return out, p.Err()
}

// aggrRuns records the timestamps of the five aggregates of one aggregate chunk (run-length encoded).
func aggrRuns(m chunks.Meta) (map[string]any, error) {
	ac, ok := m.Chunk.(*downsample.AggrChunk)
	if !ok {
		return nil, fmt.Errorf("result chunk has encoding %v, not an aggregate chunk", m.Chunk.Encoding())
	}
	runs := make([][][]int64, 5)
	for a := 0; a < 5; a++ {
		runs[a] = [][]int64{}
		sc, err := ac.Get(downsample.AggrType(a))
		if err == downsample.ErrAggrNotExist {
			continue
		}
		if err != nil {
			return nil, fmt.Errorf("result chunk: Get(%d): %v", a, err)
		}
		var ts []int64
		sit := sc.Iterator(nil)
		for sit.Next() != chunkenc.ValNone {
			ts = append(ts, sit.AtT())
		}
		if err := sit.Err(); err != nil {
			return nil, fmt.Errorf("result chunk: aggregate %d: %v", a, err)
		}
		runs[a] = rle(ts)
	}
	return map[string]any{"mint": m.MinTime, "maxt": m.MaxTime, "runs": runs}, nil
}
