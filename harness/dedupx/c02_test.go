package dedupx

import (
	"testing"

	"verif/harness/vt"
)

var counterFuncs = []string{"rate", "irate", "increase", "resets"}

// C02: counter deduplication never fabricates counter resets.
// Cases: the monotone replica pairs / triples enumerated by DedupMC (Ctr = TRUE) scaled to
// milliseconds, with the four counter functions in rotation; plus seeded random layouts of 2..4
// replicas whose values never decrease: scrapes of one underlying counter seen with different
// per-replica offsets (the situation of issue 2401), or independent monotone walks.
func TestC02(t *testing.T) {
	rnd := vt.Rand()
	gen := func(yield func(vt.Case)) {
		for i, c := range allTLCCases(t) {
			cc := vt.Normalize(fromTLC(c, counterFuncs[i%4], "xor"))
			cc["drift"] = i%vt.Pick(5, 8) == 0
			cc["scripts"] = scripts(rnd, readReps(cc["reps"]), 2)
			yield(cc)
		}
		n := vt.Pick(300, 4000)
		maxS := vt.Pick(60, 200)
		for i := 0; i < n; i++ {
			nrep := 2 + rnd.Intn(3)
			kind := rnd.Intn(3)
			off := make([]int64, nrep)
			walk := make([]int64, nrep)
			for r := range off {
				off[r] = []int64{0, 0, 3, 40, 1000}[rnd.Intn(5)]
				walk[r] = off[r]
			}
			k := int64(1 + rnd.Intn(20))
			reps := randomLayout(rnd, nrep, maxS, func(r, j int, t int64) float64 {
				switch kind {
				case 0: // one underlying counter, per-replica constant offset
					return float64(off[r] + ((t+1_000_000)/1000)*k)
				case 1: // one underlying counter with plateaus (no traffic) and bursts
					u := (t + 1_000_000) / 1000
					return float64(off[r] + (u/60)*100 + (u%60)/30*7)
				default: // independent monotone walks
					walk[r] += []int64{0, 0, 1, 5, 1000}[rnd.Intn(5)]
					return float64(walk[r])
				}
			})
			src := "xor"
			if nonEmpty(reps) && rnd.Intn(2) == 0 {
				src = "list"
			}
			yield(vt.Case{"reps": repsJSON(reps), "ctr": true, "f": counterFuncs[rnd.Intn(4)], "src": src, "algo": "penalty",
				"targets": randomTargets(rnd, reps, 3), "scripts": scripts(rnd, reps, 3), "drift": totalSamples(reps) <= 60 && (!vt.Thorough() || i%4 == 0), "gen": "rand"})
		}
	}
	vt.Run(t, gen, func(vt.Case) string { return "" }, observe)
}
