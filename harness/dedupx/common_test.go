// Package dedupx holds the conformance harnesses of the Dedup / ChunkMerge specs
// (C01, C02: penalty replica deduplication of sample iterators; C40: offline deduplication
// of downsampled chunks).
package dedupx

import (
	"fmt"
	"math"
	"math/rand"
	"os"
	"runtime"
	"sort"
	"strings"
	"testing"
	"time"

	"github.com/prometheus/prometheus/model/histogram"
	"github.com/prometheus/prometheus/model/labels"
	"github.com/prometheus/prometheus/storage"
	"github.com/prometheus/prometheus/tsdb/chunkenc"
	"github.com/prometheus/prometheus/tsdb/chunks"
	"github.com/prometheus/prometheus/util/annotations"

	"github.com/thanos-io/thanos/pkg/dedup"

	"verif/harness/vt"
)

// A sample is the pair [t, v] (JSON array of two integers; a TLA+ tuple <<t, v>>).
// A histogram sample is [t, v, "h"] (native histogram) or [t, v, "fh"] (float histogram); v is
// the histogram's count, which identifies it.
type smp struct {
	t int64
	v float64
	k string // "" / "f" float, "h", "fh"
}

func (s smp) T() int64   { return s.t }
func (s smp) F() float64 { return s.v }
func (s smp) H() *histogram.Histogram {
	if s.k != "h" {
		return nil
	}
	return &histogram.Histogram{Count: uint64(s.v), ZeroCount: uint64(s.v), Sum: s.v, ZeroThreshold: 0.001}
}
func (s smp) FH() *histogram.FloatHistogram {
	if s.k != "fh" {
		return nil
	}
	return &histogram.FloatHistogram{Count: s.v, ZeroCount: s.v, Sum: s.v, ZeroThreshold: 0.001}
}
func (s smp) Type() chunkenc.ValueType {
	switch s.k {
	case "h":
		return chunkenc.ValHistogram
	case "fh":
		return chunkenc.ValFloatHistogram
	}
	return chunkenc.ValFloat
}
func (s smp) Copy() chunks.Sample { return s }

// nonInt marks an observed value that is not an integer (cannot come from an integer replica).
const nonInt = -987654321

func pair(t int64, v float64) []any {
	if v != math.Trunc(v) || math.IsNaN(v) || math.IsInf(v, 0) || math.Abs(v) > 1e15 {
		return []any{t, int64(nonInt)}
	}
	return []any{t, int64(v)}
}

// current reads the sample the iterator is positioned on with the accessor that belongs to the
// value type the last Next/Seek returned.
func current(it chunkenc.Iterator, typ chunkenc.ValueType) []any {
	switch typ {
	case chunkenc.ValHistogram:
		t, h := it.AtHistogram(nil)
		if h == nil {
			return []any{t, int64(nonInt), "h"}
		}
		return append(pair(t, float64(h.Count)), "h")
	case chunkenc.ValFloatHistogram:
		t, fh := it.AtFloatHistogram(nil)
		if fh == nil {
			return []any{t, int64(nonInt), "fh"}
		}
		return append(pair(t, fh.Count), "fh")
	}
	t, v := it.At()
	return pair(t, v)
}

func readReps(v any) [][]smp {
	var out [][]smp
	for _, r := range vt.List(v) {
		rep := []smp{}
		for _, s := range vt.List(r) {
			p := vt.List(s)
			x := smp{t: vt.Int64(p[0]), v: float64(vt.Int64(p[1]))}
			if len(p) > 2 {
				x.k = vt.Str(p[2])
			}
			rep = append(rep, x)
		}
		out = append(out, rep)
	}
	return out
}

func repsJSON(reps [][]smp) [][][]any {
	out := make([][][]any, len(reps))
	for i, r := range reps {
		out[i] = make([][]any, len(r))
		for j, s := range r {
			out[i][j] = []any{s.t, int64(s.v)}
			if s.k == "h" || s.k == "fh" {
				out[i][j] = append(out[i][j], s.k)
			}
		}
	}
	return out
}

// listSet is a storage.SeriesSet over a fixed list of series.
type listSet struct {
	s []storage.Series
	i int
}

func (l *listSet) Next() bool                        { l.i++; return l.i <= len(l.s) }
func (l *listSet) At() storage.Series                { return l.s[l.i-1] }
func (l *listSet) Err() error                        { return nil }
func (l *listSet) Warnings() annotations.Annotations { return nil }

// replicaSeries builds the replicas of one series (equal label sets, as the querier hands them
// to dedup after removing the replica label). src "xor": every replica is one real XOR chunk
// (chunkenc iterator, as on the query path); src "list": prometheus' list series.
func replicaSeries(reps [][]smp, src string) []storage.Series {
	lset := labels.FromStrings("__name__", "m", "job", "j")
	var out []storage.Series
	for _, rep := range reps {
		switch src {
		case "list":
			ss := make([]chunks.Sample, len(rep))
			for i, s := range rep {
				ss[i] = s
			}
			out = append(out, storage.NewListSeries(lset, ss))
		default:
			c := chunkenc.NewXORChunk()
			app, err := c.Appender()
			if err != nil {
				panic(err)
			}
			for _, s := range rep {
				app.Append(s.t, s.v)
			}
			out = append(out, &storage.SeriesEntry{Lset: lset, SampleIteratorFn: func(chunkenc.Iterator) chunkenc.Iterator {
				return c.Iterator(nil)
			}})
		}
	}
	return out
}

// dedupIterator returns a fresh iterator over the penalty-deduplicated series, obtained the way
// the querier obtains it: dedup.NewSeriesSet(set, f, penalty) -> Next -> At -> Iterator.
func dedupIterator(reps [][]smp, src, f, algo string) (chunkenc.Iterator, error) {
	if algo != dedup.AlgorithmChain {
		algo = dedup.AlgorithmPenalty
	}
	ss := dedup.NewSeriesSet(&listSet{s: replicaSeries(reps, src)}, f, algo)
	if !ss.Next() {
		return nil, fmt.Errorf("dedup series set is empty (err=%v)", ss.Err())
	}
	s := ss.At()
	it := s.Iterator(nil)
	if ss.Next() {
		return nil, fmt.Errorf("dedup series set returned more than one series for one label set")
	}
	return it, nil
}

// drain reads the rest of the stream with Next. A well-formed merge cannot yield more samples
// than the replicas hold; reading stops at `limit` (more than twice that), and the truncated
// stream is judged like any other (it necessarily repeats a timestamp or invents a sample).
func drain(it chunkenc.Iterator, out [][]any, limit int) ([][]any, error) {
	for {
		typ := it.Next()
		if typ == chunkenc.ValNone {
			break
		}
		out = append(out, current(it, typ))
		if len(out) > limit {
			return out, nil
		}
	}
	return out, it.Err()
}

// observe runs one case on the real code: the stream of a reader iterating from the start and,
// for every target, the stream of a reader on a fresh iterator whose first call is Seek(target).
func observe(c vt.Case) vt.Event {
	return guarded(func() vt.Event { return observeUnguarded(c) },
		vt.Event{"next": [][]any{}, "seeks": []any{}, "logs": []any{}})
}

// guarded runs one observation under a watchdog: code under test that does not return within
// the (very generous) deadline is recorded as an observation (err = "no result ...") instead of
// hanging the harness. The stuck goroutine cannot be cancelled; after three such cases the
// harness stops executing further cases (they would only pile up spinning goroutines).
var stuck int

const watchdog = 60 * time.Second

func guarded(run func() vt.Event, empty vt.Event) vt.Event {
	if stuck >= 3 {
		return nil
	}
	ch := make(chan vt.Event, 1)
	go func() { ch <- run() }()
	select {
	case ev := <-ch:
		return ev
	case <-time.After(watchdog):
		stuck++
		empty["err"] = fmt.Sprintf("no result after %s: the code under test does not terminate", watchdog)
		return empty
	}
}

func observeUnguarded(c vt.Case) (ev vt.Event) {
	reps := readReps(c["reps"])
	src, f, algo := vt.Str(c["src"]), vt.Str(c["f"]), vt.Str(c["algo"])
	total := totalSamples(reps)
	ev = vt.Event{"next": [][]any{}, "seeks": []any{}, "logs": []any{}, "err": ""}
	defer func() {
		if r := recover(); r != nil {
			ev["err"] = fmt.Sprintf("panic: %v at %s", r, panicSite())
		}
	}()
	it, err := dedupIterator(reps, src, f, algo)
	if err != nil {
		ev["err"] = err.Error()
		return ev
	}
	next, err := drain(it, [][]any{}, 2*total+8)
	ev["next"] = next
	if err != nil {
		ev["err"] = err.Error()
		return ev
	}
	seeks := []any{}
	for _, x := range vt.List(c["targets"]) {
		it, err := dedupIterator(reps, src, f, algo)
		if err != nil {
			ev["err"] = err.Error()
			return ev
		}
		s := [][]any{}
		if typ := it.Seek(vt.Int64(x)); typ != chunkenc.ValNone {
			s = append(s, current(it, typ))
			if s, err = drain(it, s, 2*total+8); err != nil {
				ev["err"] = err.Error()
			}
		} else if err := it.Err(); err != nil {
			ev["err"] = err.Error()
		}
		seeks = append(seeks, map[string]any{"x": vt.Int64(x), "s": s})
		ev["seeks"] = seeks
	}
	// readers that mix Next and Seek: every call and what it returned; a reader stops at the
	// first call that finds no sample (the iterator contract says nothing about calls after that)
	logs := []any{}
	for _, sc := range vt.List(c["scripts"]) {
		it, err := dedupIterator(reps, src, f, algo)
		if err != nil {
			ev["err"] = err.Error()
			return ev
		}
		m := vt.Map(sc)
		log := []any{}
		call := func(op string, x int64) bool {
			var typ chunkenc.ValueType
			if op == "seek" {
				typ = it.Seek(x)
			} else {
				typ = it.Next()
			}
			e := map[string]any{"op": op, "x": x, "ok": typ != chunkenc.ValNone, "s": []any{}}
			if typ != chunkenc.ValNone {
				e["s"] = current(it, typ)
			}
			log = append(log, e)
			return typ != chunkenc.ValNone
		}
		alive := true
		for _, o := range vt.List(m["ops"]) {
			om := vt.Map(o)
			if alive = call(vt.Str(om["op"]), vt.Int64(om["x"])); !alive {
				break
			}
		}
		for alive && vt.Bool(m["drain"]) && len(log) <= 2*total+40 {
			alive = call("next", 0)
		}
		if err := it.Err(); err != nil {
			ev["err"] = err.Error()
		}
		logs = append(logs, log)
		ev["logs"] = logs
	}
	return ev
}

// scripts draws k call sequences for a reader: Next and Seek interleaved, seek targets taken
// from the sample timestamps (exactly, one before, one after: so seeks backwards, to the
// current timestamp and in between occur), before the first and past the last sample.
func scripts(rnd *rand.Rand, reps [][]smp, k int) []any {
	var pool []int64
	for _, r := range reps {
		for _, s := range r {
			pool = append(pool, s.t, s.t, s.t+1, s.t-1)
		}
	}
	total := totalSamples(reps)
	if len(pool) == 0 {
		pool = []int64{0}
	}
	lo, hi := pool[0], pool[0]
	for _, t := range pool {
		if t < lo {
			lo = t
		}
		if t > hi {
			hi = t
		}
	}
	pool = append(pool, lo-5001, hi+1, hi+100000)
	out := []any{}
	for i := 0; i < k; i++ {
		ops := []any{}
		nseek := 1 + rnd.Intn(3)
		for j := 0; j < nseek; j++ {
			for n := rnd.Intn(2 + total/2); n > 0 && len(ops) < 24; n-- {
				ops = append(ops, map[string]any{"op": "next", "x": 0})
			}
			ops = append(ops, map[string]any{"op": "seek", "x": pool[rnd.Intn(len(pool))]})
			if rnd.Intn(3) == 0 { // seek again at once (how an outer iterator drives an inner one)
				ops = append(ops, map[string]any{"op": "seek", "x": pool[rnd.Intn(len(pool))]})
			}
		}
		out = append(out, map[string]any{"ops": ops, "drain": total <= 40})
	}
	return out
}

// fromTLC concretises a layout enumerated by DedupMC: model time unit -> scale ms.
func fromTLC(c vt.Case, f, src string) vt.Case {
	scale := vt.Int64(c["scale"])
	reps := readReps(c["reps"])
	n := 0
	for i := range reps {
		for j := range reps[i] {
			reps[i][j].t *= scale
			n++
		}
	}
	tg := []int64{}
	for _, x := range vt.List(c["targets"]) {
		tg = append(tg, vt.Int64(x)*scale)
	}
	return vt.Case{"reps": repsJSON(reps), "ctr": vt.Bool(c["ctr"]), "f": f, "src": src, "algo": "penalty",
		"targets": tg, "drift": true, "gen": "tlc"}
}

// randomLayout draws replicas that look like scrapes of one target by 1..4 Prometheus replicas:
// common interval, per-replica phase, jitter, outages, late starts, early ends. value(r, j, t)
// supplies the values.
func randomLayout(rnd *rand.Rand, nrep, maxSamples int, value func(r, j int, t int64) float64) [][]smp {
	interval := []int64{1000, 5000, 10000, 15000, 30000, 60000}[rnd.Intn(6)]
	base := []int64{0, 0, 1_700_000_000_000, -500_000}[rnd.Intn(4)]
	n := 1 + rnd.Intn(maxSamples)
	reps := make([][]smp, nrep)
	mode := rnd.Intn(5) // 0 plain, 1 copies, 2 hand-over (disjoint), 3 outages, 4 irregular
	for r := 0; r < nrep; r++ {
		phase := rnd.Int63n(interval)
		jit := int64(0)
		if rnd.Intn(2) == 0 {
			jit = 1 + rnd.Int63n(interval/10+1)
		}
		start, end := 0, n
		switch mode {
		case 2:
			start, end = r*n/nrep, (r+1)*n/nrep+rnd.Intn(3)
			if end > n {
				end = n
			}
		default:
			if rnd.Intn(4) == 0 {
				start = rnd.Intn(n)
			}
			if rnd.Intn(4) == 0 {
				end = start + rnd.Intn(n-start+1)
			}
		}
		outFrom, outTo := -1, -1
		if mode == 3 || rnd.Intn(5) == 0 {
			outFrom = rnd.Intn(n)
			outTo = outFrom + 1 + rnd.Intn(1+n/4)
		}
		rep := []smp{}
		last := int64(math.MinInt64)
		for k := start; k < end; k++ {
			if k >= outFrom && k < outTo {
				continue
			}
			t := base + int64(k)*interval + phase
			if jit > 0 {
				t += rnd.Int63n(2*jit+1) - jit
			}
			if mode == 4 {
				t += rnd.Int63n(3 * interval)
			}
			if t <= last {
				t = last + 1
			}
			last = t
			rep = append(rep, smp{t: t, v: value(r, len(rep), t)})
		}
		reps[r] = rep
	}
	if mode == 1 && nrep > 1 { // identical replicas
		for r := 1; r < nrep; r++ {
			reps[r] = append([]smp(nil), reps[0]...)
		}
	}
	return reps
}

func nonEmpty(reps [][]smp) bool {
	for _, r := range reps {
		if len(r) == 0 {
			return false
		}
	}
	return true
}

// randomTargets: before the first sample, after the last, exact sample times, in between.
func randomTargets(rnd *rand.Rand, reps [][]smp, k int) []int64 {
	var all []int64
	for _, r := range reps {
		for _, s := range r {
			all = append(all, s.t)
		}
	}
	if len(all) == 0 {
		return []int64{0}
	}
	lo, hi := all[0], all[0]
	for _, t := range all {
		if t < lo {
			lo = t
		}
		if t > hi {
			hi = t
		}
	}
	out := []int64{lo - 1 - rnd.Int63n(10000), hi + 1 + rnd.Int63n(10000)}
	for len(out) < k {
		t := all[rnd.Intn(len(all))]
		switch rnd.Intn(3) {
		case 1:
			t++
		case 2:
			t -= rnd.Int63n(7000)
		}
		out = append(out, t)
	}
	return out
}

func totalSamples(reps [][]smp) int {
	n := 0
	for _, r := range reps {
		n += len(r)
	}
	return n
}

// allTLCCases: cases of every leg-A run of this check ($VERIF_CASES and $VERIF_CASES_<NAME>).
func allTLCCases(t testing.TB) []vt.Case {
	seen := map[string]bool{}
	var out []vt.Case
	for _, kv := range os.Environ() {
		if !strings.HasPrefix(kv, "VERIF_CASES") {
			continue
		}
		p := kv[strings.Index(kv, "=")+1:]
		if p == "" || seen[p] {
			continue
		}
		seen[p] = true
	}
	paths := make([]string, 0, len(seen))
	for p := range seen {
		paths = append(paths, p)
	}
	sort.Strings(paths)
	for _, p := range paths {
		cs, err := vt.ReadNDJSON(p)
		if err != nil {
			t.Fatalf("reading TLC cases %s: %v", p, err)
		}
		out = append(out, cs...)
	}
	return out
}

// panicSite names the innermost non-runtime frames of a recovered panic (for the err field).
func panicSite() string {
	pc := make([]uintptr, 24)
	n := runtime.Callers(3, pc)
	fr := runtime.CallersFrames(pc[:n])
	var out []string
	for {
		f, more := fr.Next()
		if !strings.HasPrefix(f.Function, "runtime.") {
			out = append(out, fmt.Sprintf("%s:%d", f.Function, f.Line))
		}
		if !more || len(out) >= 4 {
			break
		}
	}
	return strings.Join(out, " < ")
}
