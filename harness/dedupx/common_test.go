// Package dedupx holds the conformance harnesses of the Dedup / ChunkMerge specs
// (C01, C02: penalty replica deduplication of sample iterators; C40: offline deduplication
// of downsampled chunks).
package dedupx

import (
	"fmt"
	"math"
	"math/rand"
	"os"
	"runtime"
	"sort"
	"strings"
	"testing"
	"time"

	"github.com/prometheus/prometheus/model/histogram"
	"github.com/prometheus/prometheus/model/labels"
	"github.com/prometheus/prometheus/storage"
	"github.com/prometheus/prometheus/tsdb/chunkenc"
	"github.com/prometheus/prometheus/tsdb/chunks"
	"github.com/prometheus/prometheus/util/annotations"

	"github.com/thanos-io/thanos/pkg/dedup"

	"verif/harness/vt"
)

// A sample is the pair [t, v] (JSON array of two integers; a TLA+ tuple <<t, v>>).
type smp struct {
	t int64
	v float64
}

func (s smp) T() int64                      { return s.t }
func (s smp) F() float64                    { return s.v }
func (s smp) H() *histogram.Histogram       { return nil }
func (s smp) FH() *histogram.FloatHistogram { return nil }
func (s smp) Type() chunkenc.ValueType      { return chunkenc.ValFloat }
func (s smp) Copy() chunks.Sample           { return s }

// nonInt marks an observed value that is not an integer (cannot come from an integer replica).
const nonInt = -987654321

func pair(t int64, v float64) []int64 {
	if v != math.Trunc(v) || math.IsNaN(v) || math.IsInf(v, 0) || math.Abs(v) > 1e15 {
		return []int64{t, nonInt}
	}
	return []int64{t, int64(v)}
}

func readReps(v any) [][]smp {
	var out [][]smp
	for _, r := range vt.List(v) {
		rep := []smp{}
		for _, s := range vt.List(r) {
			p := vt.List(s)
			rep = append(rep, smp{t: vt.Int64(p[0]), v: float64(vt.Int64(p[1]))})
		}
		out = append(out, rep)
	}
	return out
}

func repsJSON(reps [][]smp) [][][]int64 {
	out := make([][][]int64, len(reps))
	for i, r := range reps {
		out[i] = make([][]int64, len(r))
		for j, s := range r {
			out[i][j] = []int64{s.t, int64(s.v)}
		}
	}
	return out
}

// listSet is a storage.SeriesSet over a fixed list of series.
type listSet struct {
	s []storage.Series
	i int
}

func (l *listSet) Next() bool                        { l.i++; return l.i <= len(l.s) }
func (l *listSet) At() storage.Series                { return l.s[l.i-1] }
func (l *listSet) Err() error                        { return nil }
func (l *listSet) Warnings() annotations.Annotations { return nil }

// replicaSeries builds the replicas of one series (equal label sets, as the querier hands them
// to dedup after removing the replica label). src "xor": every replica is one real XOR chunk
// (chunkenc iterator, as on the query path); src "list": prometheus' list series.
func replicaSeries(reps [][]smp, src string) []storage.Series {
	lset := labels.FromStrings("__name__", "m", "job", "j")
	var out []storage.Series
	for _, rep := range reps {
		switch src {
		case "list":
			ss := make([]chunks.Sample, len(rep))
			for i, s := range rep {
				ss[i] = s
			}
			out = append(out, storage.NewListSeries(lset, ss))
		default:
			c := chunkenc.NewXORChunk()
			app, err := c.Appender()
			if err != nil {
				panic(err)
			}
			for _, s := range rep {
				app.Append(s.t, s.v)
			}
			out = append(out, &storage.SeriesEntry{Lset: lset, SampleIteratorFn: func(chunkenc.Iterator) chunkenc.Iterator {
				return c.Iterator(nil)
			}})
		}
	}
	return out
}

// dedupIterator returns a fresh iterator over the penalty-deduplicated series, obtained the way
// the querier obtains it: dedup.NewSeriesSet(set, f, penalty) -> Next -> At -> Iterator.
func dedupIterator(reps [][]smp, src, f string) (chunkenc.Iterator, error) {
	ss := dedup.NewSeriesSet(&listSet{s: replicaSeries(reps, src)}, f, dedup.AlgorithmPenalty)
	if !ss.Next() {
		return nil, fmt.Errorf("dedup series set is empty (err=%v)", ss.Err())
	}
	s := ss.At()
	it := s.Iterator(nil)
	if ss.Next() {
		return nil, fmt.Errorf("dedup series set returned more than one series for one label set")
	}
	return it, nil
}

// drain reads the rest of the stream with Next. A well-formed merge cannot yield more samples
// than the replicas hold; reading stops at `limit` (more than twice that), and the truncated
// stream is judged like any other (it necessarily repeats a timestamp or invents a sample).
func drain(it chunkenc.Iterator, out [][]int64, limit int) ([][]int64, error) {
	for it.Next() != chunkenc.ValNone {
		t, v := it.At()
		out = append(out, pair(t, v))
		if len(out) > limit {
			return out, nil
		}
	}
	return out, it.Err()
}

// observe runs one case on the real code: the stream of a reader iterating from the start and,
// for every target, the stream of a reader on a fresh iterator whose first call is Seek(target).
func observe(c vt.Case) vt.Event {
	return guarded(func() vt.Event { return observeUnguarded(c) },
		vt.Event{"next": [][]int64{}, "seeks": []any{}})
}

// guarded runs one observation under a watchdog: code under test that does not return within
// the (very generous) deadline is recorded as an observation (err = "no result ...") instead of
// hanging the harness. The stuck goroutine cannot be cancelled; after three such cases the
// harness stops executing further cases (they would only pile up spinning goroutines).
var stuck int

const watchdog = 60 * time.Second

func guarded(run func() vt.Event, empty vt.Event) vt.Event {
	if stuck >= 3 {
		return nil
	}
	ch := make(chan vt.Event, 1)
	go func() { ch <- run() }()
	select {
	case ev := <-ch:
		return ev
	case <-time.After(watchdog):
		stuck++
		empty["err"] = fmt.Sprintf("no result after %s: the code under test does not terminate", watchdog)
		return empty
	}
}

func observeUnguarded(c vt.Case) (ev vt.Event) {
	reps := readReps(c["reps"])
	src, f := vt.Str(c["src"]), vt.Str(c["f"])
	total := 0
	for _, r := range reps {
		total += len(r)
	}
	ev = vt.Event{"next": [][]int64{}, "seeks": []any{}, "err": ""}
	defer func() {
		if r := recover(); r != nil {
			ev["err"] = fmt.Sprintf("panic: %v at %s", r, panicSite())
		}
	}()
	it, err := dedupIterator(reps, src, f)
	if err != nil {
		ev["err"] = err.Error()
		return ev
	}
	next, err := drain(it, [][]int64{}, 2*total+8)
	ev["next"] = next
	if err != nil {
		ev["err"] = err.Error()
		return ev
	}
	seeks := []any{}
	for _, x := range vt.List(c["targets"]) {
		it, err := dedupIterator(reps, src, f)
		if err != nil {
			ev["err"] = err.Error()
			return ev
		}
		s := [][]int64{}
		if it.Seek(vt.Int64(x)) != chunkenc.ValNone {
			t, v := it.At()
			s = append(s, pair(t, v))
			if s, err = drain(it, s, 2*total+8); err != nil {
				ev["err"] = err.Error()
			}
		} else if err := it.Err(); err != nil {
			ev["err"] = err.Error()
		}
		seeks = append(seeks, map[string]any{"x": vt.Int64(x), "s": s})
		ev["seeks"] = seeks
	}
	return ev
}

// fromTLC concretises a layout enumerated by DedupMC: model time unit -> scale ms.
func fromTLC(c vt.Case, f, src string) vt.Case {
	scale := vt.Int64(c["scale"])
	reps := readReps(c["reps"])
	n := 0
	for i := range reps {
		for j := range reps[i] {
			reps[i][j].t *= scale
			n++
		}
	}
	tg := []int64{}
	for _, x := range vt.List(c["targets"]) {
		tg = append(tg, vt.Int64(x)*scale)
	}
	return vt.Case{"reps": repsJSON(reps), "ctr": vt.Bool(c["ctr"]), "f": f, "src": src, "targets": tg, "drift": true, "gen": "tlc"}
}

// randomLayout draws replicas that look like scrapes of one target by 1..4 Prometheus replicas:
// common interval, per-replica phase, jitter, outages, late starts, early ends. value(r, j, t)
// supplies the values.
func randomLayout(rnd *rand.Rand, nrep, maxSamples int, value func(r, j int, t int64) float64) [][]smp {
	interval := []int64{1000, 5000, 10000, 15000, 30000, 60000}[rnd.Intn(6)]
	base := []int64{0, 0, 1_700_000_000_000, -500_000}[rnd.Intn(4)]
	n := 1 + rnd.Intn(maxSamples)
	reps := make([][]smp, nrep)
	mode := rnd.Intn(5) // 0 plain, 1 copies, 2 hand-over (disjoint), 3 outages, 4 irregular
	for r := 0; r < nrep; r++ {
		phase := rnd.Int63n(interval)
		jit := int64(0)
		if rnd.Intn(2) == 0 {
			jit = 1 + rnd.Int63n(interval/10+1)
		}
		start, end := 0, n
		switch mode {
		case 2:
			start, end = r*n/nrep, (r+1)*n/nrep+rnd.Intn(3)
			if end > n {
				end = n
			}
		default:
			if rnd.Intn(4) == 0 {
				start = rnd.Intn(n)
			}
			if rnd.Intn(4) == 0 {
				end = start + rnd.Intn(n-start+1)
			}
		}
		outFrom, outTo := -1, -1
		if mode == 3 || rnd.Intn(5) == 0 {
			outFrom = rnd.Intn(n)
			outTo = outFrom + 1 + rnd.Intn(1+n/4)
		}
		rep := []smp{}
		last := int64(math.MinInt64)
		for k := start; k < end; k++ {
			if k >= outFrom && k < outTo {
				continue
			}
			t := base + int64(k)*interval + phase
			if jit > 0 {
				t += rnd.Int63n(2*jit+1) - jit
			}
			if mode == 4 {
				t += rnd.Int63n(3 * interval)
			}
			if t <= last {
				t = last + 1
			}
			last = t
			rep = append(rep, smp{t: t, v: value(r, len(rep), t)})
		}
		reps[r] = rep
	}
	if mode == 1 && nrep > 1 { // identical replicas
		for r := 1; r < nrep; r++ {
			reps[r] = append([]smp(nil), reps[0]...)
		}
	}
	return reps
}

func nonEmpty(reps [][]smp) bool {
	for _, r := range reps {
		if len(r) == 0 {
			return false
		}
	}
	return true
}

// randomTargets: before the first sample, after the last, exact sample times, in between.
func randomTargets(rnd *rand.Rand, reps [][]smp, k int) []int64 {
	var all []int64
	for _, r := range reps {
		for _, s := range r {
			all = append(all, s.t)
		}
	}
	if len(all) == 0 {
		return []int64{0}
	}
	lo, hi := all[0], all[0]
	for _, t := range all {
		if t < lo {
			lo = t
		}
		if t > hi {
			hi = t
		}
	}
	out := []int64{lo - 1 - rnd.Int63n(10000), hi + 1 + rnd.Int63n(10000)}
	for len(out) < k {
		t := all[rnd.Intn(len(all))]
		switch rnd.Intn(3) {
		case 1:
			t++
		case 2:
			t -= rnd.Int63n(7000)
		}
		out = append(out, t)
	}
	return out
}

func totalSamples(reps [][]smp) int {
	n := 0
	for _, r := range reps {
		n += len(r)
	}
	return n
}

// allTLCCases: cases of every leg-A run of this check ($VERIF_CASES and $VERIF_CASES_<NAME>).
func allTLCCases(t testing.TB) []vt.Case {
	seen := map[string]bool{}
	var out []vt.Case
	for _, kv := range os.Environ() {
		if !strings.HasPrefix(kv, "VERIF_CASES") {
			continue
		}
		p := kv[strings.Index(kv, "=")+1:]
		if p == "" || seen[p] {
			continue
		}
		seen[p] = true
	}
	paths := make([]string, 0, len(seen))
	for p := range seen {
		paths = append(paths, p)
	}
	sort.Strings(paths)
	for _, p := range paths {
		cs, err := vt.ReadNDJSON(p)
		if err != nil {
			t.Fatalf("reading TLC cases %s: %v", p, err)
		}
		out = append(out, cs...)
	}
	return out
}

// panicSite names the innermost non-runtime frames of a recovered panic (for the err field).
func panicSite() string {
	pc := make([]uintptr, 24)
	n := runtime.Callers(3, pc)
	fr := runtime.CallersFrames(pc[:n])
	var out []string
	for {
		f, more := fr.Next()
		if !strings.HasPrefix(f.Function, "runtime.") {
			out = append(out, fmt.Sprintf("%s:%d", f.Function, f.Line))
		}
		if !more || len(out) >= 4 {
			break
		}
	}
	return strings.Join(out, " < ")
}
