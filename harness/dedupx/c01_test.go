package dedupx

import (
	"testing"

	"verif/harness/vt"
)

// C01: penalty replica deduplication yields a well-formed merge of replica samples.
// Cases: every 2-replica layout enumerated by DedupMC (and the 3/4-replica layouts of the extra
// leg-A runs) scaled to milliseconds, run over real XOR chunk iterators; plus seeded random
// scrape-like layouts of 1..4 replicas (both iterator kinds). Recorded per case: the stream read
// with Next from the start and, per seek target, the stream of a fresh reader that seeks first.
// hintFuncs: select-hint functions that are NOT the counter functions of C02's statement (rate,
// irate, increase, resets): the empty hint, gauge functions, *_over_time, and the Thanos engine's
// extended x-functions (pkg/dedup.isCounter does not treat those as counters either). For every one
// of them the C01 clauses must hold exactly as for "": no value may be adjusted.
var hintFuncs = []string{"", "delta", "xdelta", "deriv", "avg_over_time", "xrate", "sum_over_time", "idelta",
	"xincrease", "max_over_time", "changes", "predict_linear", "count_over_time", "last_over_time", "x", "Rate", "rates", "absent_over_time"}

func TestC01(t *testing.T) {
	rnd := vt.Rand()
	gen := func(yield func(vt.Case)) {
		for i, c := range allTLCCases(t) {
			cc := vt.Normalize(fromTLC(c, hintFuncs[i%len(hintFuncs)], "xor"))
			if hasKinds(cc) {
				cc["src"] = "list" // mixed sample kinds: one XOR chunk cannot hold them
			}
			// the model prediction is recomputed by the trace spec (informational) for every
			// 5th (quick) / 8th (thorough) enumerated layout only, to bound leg C's cost
			cc["drift"] = i%vt.Pick(5, 8) == 0
			cc["scripts"] = scripts(rnd, readReps(cc["reps"]), 2)
			yield(cc)
			if i%4 == 0 && !hasKinds(cc) { // the algorithm-independent clauses also bind the chain algorithm
				ch := vt.Case{}
				for k, v := range cc {
					ch[k] = v
				}
				ch["algo"] = "chain"
				// chain keeps "one sample from random overlapped ones" per timestamp: replicas must
				// agree on the value at a shared timestamp for its streams to be comparable
				rs := readReps(cc["reps"])
				for r := range rs {
					for j := range rs[r] {
						rs[r][j].v = float64(1000 + rs[r][j].t/1000)
					}
				}
				ch["reps"] = repsJSON(rs)
				yield(vt.Normalize(ch))
			}
		}
		n := vt.Pick(300, 4000)
		maxS := vt.Pick(60, 200)
		for i := 0; i < n; i++ {
			nrep := 1 + rnd.Intn(5)
			algo := "penalty"
			if rnd.Intn(3) == 0 {
				algo = "chain"
			}
			// replicas agree on the value at a timestamp (same scrape target); always for chain,
			// which keeps "one sample from random overlapped ones" per timestamp
			shared := rnd.Intn(3) == 0 || algo == "chain"
			kinds := rnd.Intn(4) == 0 // native / float histogram samples among the floats
			kindOf := make([]string, nrep)
			for r := range kindOf {
				kindOf[r] = []string{"", "h", "fh", "mix"}[rnd.Intn(4)]
			}
			reps := randomLayout(rnd, nrep, maxS, func(r, j int, t int64) float64 {
				if shared {
					return float64(((t/1000)%100000+100000)%100000 + 7) // >= 0: also used as histogram count
				}
				return float64((r+1)*1000000 + j)
			})
			if kinds {
				for r := range reps {
					for j := range reps[r] {
						k := kindOf[r]
						if k == "mix" {
							k = []string{"", "h", "fh"}[(j/3)%3]
						}
						if algo == "chain" { // replicas must agree on the sample at a shared timestamp
							t := reps[r][j].t
							if t < 0 {
								t = -t
							}
							k = []string{"", "h", "fh"}[(t/7)%3]
						}
						reps[r][j].k = k
					}
				}
			}
			src := "xor"
			if kinds || (nonEmpty(reps) && rnd.Intn(2) == 0) {
				src = "list"
			}
			if kinds && !nonEmpty(reps) {
				continue // the list iterator cannot represent an empty replica
			}
			f := hintFuncs[rnd.Intn(len(hintFuncs))]
			yield(vt.Case{"reps": repsJSON(reps), "ctr": false, "f": f, "src": src, "algo": algo,
				"targets": randomTargets(rnd, reps, 4), "scripts": scripts(rnd, reps, 3),
				"drift": totalSamples(reps) <= 60 && (!vt.Thorough() || i%4 == 0), "gen": "rand"})
		}
	}
	vt.Run(t, gen, func(vt.Case) string { return "" }, observe)
}

func hasKinds(c vt.Case) bool {
	for _, r := range vt.List(c["reps"]) {
		for _, s := range vt.List(r) {
			if len(vt.List(s)) > 2 {
				return true
			}
		}
	}
	return false
}

