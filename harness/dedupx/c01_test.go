package dedupx

import (
	"testing"

	"verif/harness/vt"
)

// C01: penalty replica deduplication yields a well-formed merge of replica samples.
// Cases: every 2-replica layout enumerated by DedupMC (and the 3/4-replica layouts of the extra
// leg-A runs) scaled to milliseconds, run over real XOR chunk iterators; plus seeded random
// scrape-like layouts of 1..4 replicas (both iterator kinds). Recorded per case: the stream read
// with Next from the start and, per seek target, the stream of a fresh reader that seeks first.
func TestC01(t *testing.T) {
	rnd := vt.Rand()
	gen := func(yield func(vt.Case)) {
		for i, c := range allTLCCases(t) {
			cc := fromTLC(c, "", "xor")
			// the model prediction is recomputed by the trace spec (informational); in the
			// thorough tier for every 4th enumerated layout only, to bound leg C's cost
			cc["drift"] = !vt.Thorough() || i%4 == 0
			yield(cc)
		}
		n := vt.Pick(300, 4000)
		maxS := vt.Pick(60, 200)
		for i := 0; i < n; i++ {
			nrep := 1 + rnd.Intn(4)
			shared := rnd.Intn(3) == 0 // replicas agree on the value at a timestamp (same scrape target)
			reps := randomLayout(rnd, nrep, maxS, func(r, j int, t int64) float64 {
				if shared {
					return float64((t/1000)%100000 + 7)
				}
				return float64((r+1)*1000000 + j)
			})
			src := "xor"
			if nonEmpty(reps) && rnd.Intn(2) == 0 {
				src = "list"
			}
			f := []string{"", "sum_over_time", "max_over_time"}[rnd.Intn(3)]
			yield(vt.Case{"reps": repsJSON(reps), "ctr": false, "f": f, "src": src,
				"targets": randomTargets(rnd, reps, 4), "drift": totalSamples(reps) <= 60 && (!vt.Thorough() || i%4 == 0), "gen": "rand"})
		}
	}
	vt.Run(t, gen, func(vt.Case) string { return "" }, observe)
}
