package dedupx

import (
	"fmt"
	"math/rand"
	"testing"

	"github.com/prometheus/prometheus/model/labels"
	"github.com/prometheus/prometheus/storage"
	"github.com/prometheus/prometheus/tsdb/chunkenc"
	"github.com/prometheus/prometheus/tsdb/chunks"

	"github.com/thanos-io/thanos/pkg/compact/downsample"
	"github.com/thanos-io/thanos/pkg/dedup"

	"verif/harness/vt"
)

// C40: offline deduplication of downsampled chunks keeps every aggregate sample.
//
// A case describes the aggregate chunk series of one label set (as the compactor's vertical merge
// sees them): per series a list of chunks, per chunk its sample timestamps; every chunk carries a
// count aggregate and the aggregates listed in "aggs" over the same timestamps (the counter
// aggregate additionally repeats its last sample, as the downsampler writes it).
//
//   - gen "tlc": a shape enumerated by ChunkMergeMC (timestamps = grid cells, encoder cap k).
//     Every cell is inflated to 120/k samples, "step" ms apart, series s shifted by phases[s], so
//     that the real encoder's 120-sample cut falls where the model's k-sample cut does.
//   - gen "compact": raw replica blocks -> downsample.Downsample -> vertical compaction with the
//     penalty merge function (c40_compact_test.go).
//   - gen "rand": seeded random series (1..400 samples each, 2..3 series, random chunk lengths,
//     phases, gaps), regenerated from "cseed".
//
// The series go through dedup.NewChunkSeriesMerger; for every chunk of the result the timestamps
// of all five aggregates are recorded (run-length encoded: [start, step, n]).
func TestC40(t *testing.T) {
	rnd := vt.Rand()
	gen := func(yield func(vt.Case)) {
		for _, c := range allTLCCases(t) {
			k := vt.Int(c["k"])
			tags := vt.Ints(c["tags"])
			phases := make([]int64, len(tags))
			for s := range phases {
				if tags[s] == 1 {
					continue // series 1 (and its byte-identical copy) on the grid itself
				}
				phases[s] = []int64{0, 100, 4000, 7000, 150000, 299000}[rnd.Intn(6)]
			}
			yield(vt.Case{"gen": "tlc", "series": c["series"], "tags": tags, "k": k, "step": 300000,
				"phases": phases, "aggs": []int{1, 1, 1, 1, 1}, "zero": false})
		}
		for i, nc := 0, vt.Pick(6, 60); i < nc; i++ { // the whole offline path, see c40_compact_test.go
			// judged in two parts: sum/min/max, and the counter aggregate on its own, whose
			// timestamps in real downsampler output are not the count's (known finding, see c40kf)
			cs := rnd.Int63n(1 << 40)
			yield(vt.Case{"gen": "compact", "cseed": cs, "aggs": []int{1, 1, 1, 1, 0}, "judge": "sum-min-max", "zero": false,
				"maxwin": vt.Pick(260, 400)})
			yield(vt.Case{"gen": "compact", "cseed": cs, "aggs": []int{1, 0, 0, 0, 1}, "judge": "counter", "zero": false,
				"maxwin": vt.Pick(260, 400)})
		}
		n := vt.Pick(150, 1500)
		for i := 0; i < n; i++ {
			aggs := []int{1, 1, 1, 1, 1}
			if rnd.Intn(4) == 0 {
				aggs[4] = 0 // gauge-like: no counter aggregate anywhere
			}
			yield(vt.Case{"gen": "rand", "cseed": rnd.Int63n(1 << 40), "aggs": aggs, "zero": rnd.Intn(6) == 0,
				"maxn": vt.Pick(400, 400)})
		}
	}
	vt.Run(t, gen, c40kf, func(c vt.Case) vt.Event {
		if vt.Str(c["gen"]) == "compact" {
			return guarded(func() vt.Event { return observeC40Compact(c) }, vt.Event{"out": []any{}, "nin": 0})
		}
		return guarded(func() vt.Event { return observeC40(c) }, vt.Event{"out": []any{}, "nin": 0})
	})
}

// aggSeries: per series, per chunk, the timestamps.
func concretiseC40(c vt.Case) [][][]int64 {
	var out [][][]int64
	if vt.Str(c["gen"]) == "tlc" {
		k := vt.Int(c["k"])
		infl := int64(120 / k)
		step := vt.Int64(c["step"])
		for s, ser := range vt.List(c["series"]) {
			ph := vt.Int64(vt.List(c["phases"])[s])
			var chs [][]int64
			for _, ch := range vt.List(ser) {
				var ts []int64
				for _, g := range vt.List(ch) {
					for j := int64(0); j < infl; j++ {
						ts = append(ts, (vt.Int64(g)*infl+j)*step+ph)
					}
				}
				chs = append(chs, ts)
			}
			out = append(out, chs)
		}
		return out
	}
	r := rand.New(rand.NewSource(vt.Int64(c["cseed"])))
	nser := 2 + r.Intn(2)
	step := []int64{300000, 300000, 3600000, 60000}[r.Intn(4)]
	maxn := vt.Int(c["maxn"])
	span := 1 + r.Intn(maxn) // windows covered by the whole case
	base := []int64{0, 1_700_000_000_000, -int64(span) * step}[r.Intn(3)]
	if vt.Bool(c["zero"]) {
		base = -int64(span-1) * step // the last window is at t = 0
	}
	for s := 0; s < nser; s++ {
		ph := int64(0)
		if !vt.Bool(c["zero"]) && r.Intn(3) > 0 {
			ph = r.Int63n(step)
		}
		from := 0
		if r.Intn(3) == 0 {
			from = r.Intn(span)
		}
		to := span
		if r.Intn(3) == 0 {
			to = from + 1 + r.Intn(span-from)
		}
		gapFrom, gapTo := -1, -1
		if r.Intn(3) == 0 {
			gapFrom = from + r.Intn(to-from)
			gapTo = gapFrom + 1 + r.Intn(1+(to-from)/3)
		}
		var chs [][]int64
		var cur []int64
		clen := []int{120, 120, 30, 7, 1, 250}[r.Intn(6)]
		for w := from; w < to; w++ {
			if w >= gapFrom && w < gapTo {
				continue
			}
			cur = append(cur, base+int64(w)*step+ph)
			if len(cur) >= clen {
				chs = append(chs, cur)
				cur = nil
				if r.Intn(4) == 0 {
					clen = 1 + r.Intn(200)
				}
			}
		}
		if len(cur) > 0 {
			chs = append(chs, cur)
		}
		if len(chs) > 0 {
			out = append(out, chs)
		}
	}
	if len(out) >= 2 && r.Intn(8) == 0 {
		out[1] = out[0] // byte-identical copy (values depend on the tag, see below)
	}
	return out
}

func xorOf(ts []int64, val func(j int, t int64) float64, dupLast bool) chunkenc.Chunk {
	c := chunkenc.NewXORChunk()
	app, err := c.Appender()
	if err != nil {
		panic(err)
	}
	for j, t := range ts {
		app.Append(t, val(j, t))
	}
	if dupLast && len(ts) > 0 {
		app.Append(ts[len(ts)-1], val(len(ts)-1, ts[len(ts)-1]))
	}
	return c
}

// rle encodes a timestamp list losslessly as runs [start, step, n].
func rle(ts []int64) [][]int64 {
	out := [][]int64{}
	for i := 0; i < len(ts); {
		if i+1 >= len(ts) {
			out = append(out, []int64{ts[i], 0, 1})
			break
		}
		d := ts[i+1] - ts[i]
		n := 2
		for i+n < len(ts) && ts[i+n]-ts[i+n-1] == d {
			n++
		}
		out = append(out, []int64{ts[i], d, int64(n)})
		i += n
	}
	return out
}

func observeC40(c vt.Case) (ev vt.Event) {
	ev = vt.Event{"out": []any{}, "err": "", "nin": 0}
	defer func() {
		if r := recover(); r != nil {
			ev["err"] = fmt.Sprintf("panic: %v at %s", r, panicSite())
		}
	}()
	aggs := vt.Ints(c["aggs"])
	zero := vt.Bool(c["zero"])
	series := concretiseC40(c)
	if len(series) == 0 {
		return nil // the random draw left no sample at all: not a case
	}
	tags := make([]int, len(series))
	for s := range tags {
		tags[s] = s + 1
	}
	if vt.Str(c["gen"]) == "tlc" {
		tags = vt.Ints(c["tags"])
	} else if len(series) >= 2 && len(series[0]) > 0 && len(series[1]) > 0 && &series[0][0][0] == &series[1][0][0] {
		tags[1] = 1
	}
	lset := labels.FromStrings("__name__", "m", "job", "j")
	var in []storage.ChunkSeries
	nin := 0
	for s, chs := range series {
		tag := tags[s]
		var metas []chunks.Meta
		for _, ts := range chs {
			nin += len(ts)
			var sub [5]chunkenc.Chunk
			for a := 0; a < 5; a++ {
				if aggs[a] == 0 {
					continue
				}
				a := a
				sub[a] = xorOf(ts, func(j int, t int64) float64 {
					if zero && a != 0 {
						return 0
					}
					return float64(tag*1000 + a*100 + j%50)
				}, a == 4)
			}
			metas = append(metas, chunks.Meta{MinTime: ts[0], MaxTime: ts[len(ts)-1], Chunk: downsample.EncodeAggrChunk(sub)})
		}
		ms := metas
		in = append(in, &storage.ChunkSeriesEntry{Lset: lset, ChunkIteratorFn: func(chunks.Iterator) chunks.Iterator {
			return storage.NewListChunkSeriesIterator(ms...)
		}})
	}
	ev["nin"] = nin
	merged := dedup.NewChunkSeriesMerger()(in...)
	it := merged.Iterator(nil)
	out := []any{}
	for it.Next() {
		m := it.At()
		o, err := aggrRuns(m)
		if err != nil {
			ev["err"] = err.Error()
			return ev
		}
		out = append(out, o)
		ev["out"] = out
		if len(out) > nin+8 {
			ev["err"] = "merged series yields more chunks than the inputs hold samples"
			return ev
		}
	}
	if err := it.Err(); err != nil {
		ev["err"] = err.Error()
	}
	return ev
}

// c40kf: known-finding class, decided from the input alone. Real downsampler output starts every
// counter aggregate with an extra sample at the first raw timestamp, so the counter aggregate is
// deduplicated along its own timestamps and can end on another replica's last sample than the
// count aggregate (KNOWN_FINDINGS.jsonl, C40 counter-own-timestamps). Only the counter judgement of
// the compact-path cases is in the class; their sum/min/max judgement is a separate case.
func c40kf(c vt.Case) string {
	if vt.Str(c["gen"]) == "compact" && vt.Str(c["judge"]) == "counter" {
		return "counter-own-timestamps"
	}
	return ""
}
