// Package keysx: conformance harness of property C13 (cache keys never conflate different cached
// items) against pkg/store/cache.
package keysx

import (
	"context"
	"fmt"
	"math/rand"
	"net/url"
	"strconv"
	"strings"
	"sync"
	"testing"
	"time"
	"unicode/utf8"

	"github.com/go-kit/log"
	"github.com/oklog/ulid/v2"
	"github.com/prometheus/client_golang/prometheus"
	"github.com/prometheus/prometheus/model/labels"
	"github.com/prometheus/prometheus/storage"

	"github.com/prometheus/prometheus/tsdb"
	"github.com/prometheus/prometheus/tsdb/index"

	"github.com/thanos-io/thanos/pkg/receive/expandedpostingscache"
	storecache "github.com/thanos-io/thanos/pkg/store/cache"
	"github.com/thanos-io/thanos/pkg/store/storepb"

	"verif/harness/vt"
)

// A case is a GROUP of cached items of one key space ("index": postings / expanded postings /
// series items, which share one memcached or one LRU; "conv": converted label matchers). Every
// string of an item is given as a list of characters (the form the TLA+ model uses); the harness
// joins them, asks the REAL builders for the key of every item, stores all items in the real
// caches (remote index cache over a recording fake memcached client, in-memory index cache,
// LRU matchers cache), looks every item up again and records whose data came back. The trace spec
// C13Trace judges all pairs of the group: different items => different keys, and no lookup answered
// with another item's data.
//
// Groups come from TLC (KeysMC: every item over each 2-/3-character subset of the alphabet that
// contains the separators, strings of length <= 2, plus the list-structure slice) and from a
// seeded generator of adversarial concrete groups: all ways of cutting one flat string into
// (name, value) / (name, type, value), values that spell the text between two matchers, multi-byte
// UTF-8, longer strings.

type matcher struct{ Name, Type, Value string }

type item struct {
	Kind  string // P | EP | S | MC
	Blk   string // ULID string
	Name  string
	Value string
	Comp  string
	Type  string
	Ms    []matcher
	ID    uint64
}

func (it item) json() map[string]any {
	switch it.Kind {
	case "P":
		return map[string]any{"kind": "P", "blk": it.Blk, "name": it.Name, "value": it.Value, "comp": it.Comp}
	case "EP":
		ms := make([]any, 0, len(it.Ms))
		for _, m := range it.Ms {
			ms = append(ms, map[string]any{"name": m.Name, "type": m.Type, "value": m.Value})
		}
		return map[string]any{"kind": "EP", "blk": it.Blk, "comp": it.Comp, "ms": ms}
	case "RP":
		ms := make([]any, 0, len(it.Ms))
		for _, m := range it.Ms {
			ms = append(ms, map[string]any{"name": m.Name, "type": m.Type, "value": m.Value})
		}
		return map[string]any{"kind": "RP", "blk": it.Blk, "ms": ms}
	case "S":
		return map[string]any{"kind": "S", "blk": it.Blk, "id": strconv.FormatUint(it.ID, 10)}
	case "MC":
		return map[string]any{"kind": "MC", "name": it.Name, "type": it.Type, "value": it.Value}
	}
	panic("bad kind " + it.Kind)
}

var blockIDs = map[string]ulid.ULID{
	"HEAD": expandedpostingscache.VerifHeadULID(),
	"B1":   ulid.MustNew(1, nil),
	"B2": ulid.MustNew(1700000000000, strings.NewReader("0123456789abcdef")),
}

func chars(v any) string {
	if s, ok := v.(string); ok {
		return s
	}
	var sb strings.Builder
	for _, c := range vt.List(v) {
		sb.WriteString(vt.Str(c))
	}
	return sb.String()
}

func concretise(a map[string]any) item {
	it := item{Kind: vt.Str(a["kind"])}
	if b, ok := a["blk"]; ok {
		id, ok := blockIDs[vt.Str(b)]
		if !ok {
			panic("unknown block token " + vt.Str(b))
		}
		it.Blk = id.String()
	}
	switch it.Kind {
	case "P":
		it.Name, it.Value, it.Comp = chars(a["name"]), chars(a["value"]), chars(a["comp"])
	case "RP":
		for _, m := range vt.List(a["ms"]) {
			mm := vt.Map(m)
			it.Ms = append(it.Ms, matcher{chars(mm["name"]), vt.Str(mm["type"]), chars(mm["value"])})
		}
	case "EP":
		it.Comp = chars(a["comp"])
		for _, m := range vt.List(a["ms"]) {
			mm := vt.Map(m)
			it.Ms = append(it.Ms, matcher{chars(mm["name"]), vt.Str(mm["type"]), chars(mm["value"])})
		}
	case "S":
		id, err := strconv.ParseUint(chars(a["id"]), 10, 64)
		if err != nil {
			panic(err)
		}
		it.ID = id
	case "MC":
		it.Name, it.Type, it.Value = chars(a["name"]), vt.Str(a["type"]), chars(a["value"])
	default:
		panic("bad kind")
	}
	return it
}

// valid reports whether the item is inside the quantifier of C13: label (and matcher) names and
// values accepted by Prometheus UTF-8 validation (names non-empty valid UTF-8, values valid UTF-8).
func (it item) valid() bool {
	okName := func(s string) bool { return s != "" && utf8.ValidString(s) }
	switch it.Kind {
	case "P", "MC":
		return okName(it.Name) && utf8.ValidString(it.Value)
	case "EP", "RP":
		for _, m := range it.Ms {
			if !okName(m.Name) || !utf8.ValidString(m.Value) {
				return false
			}
		}
	}
	return true
}

func promType(t string) labels.MatchType {
	switch t {
	case "EQ":
		return labels.MatchEqual
	case "NEQ":
		return labels.MatchNotEqual
	case "RE":
		return labels.MatchRegexp
	case "NRE":
		return labels.MatchNotRegexp
	}
	panic("bad type " + t)
}

func pbType(t string) storepb.LabelMatcher_Type {
	switch t {
	case "EQ":
		return storepb.LabelMatcher_EQ
	case "NEQ":
		return storepb.LabelMatcher_NEQ
	case "RE":
		return storepb.LabelMatcher_RE
	case "NRE":
		return storepb.LabelMatcher_NRE
	}
	panic("bad type " + t)
}

// promMatchers builds matchers without compiling regexes (key building only reads Name/Type/Value).
func promMatchers(ms []matcher) []*labels.Matcher {
	out := make([]*labels.Matcher, 0, len(ms))
	for _, m := range ms {
		out = append(out, &labels.Matcher{Type: promType(m.Type), Name: m.Name, Value: m.Value})
	}
	return out
}

// directKey asks the real key builder for the key of one item.
func directKey(it item) string {
	switch it.Kind {
	case "P":
		return storecache.CacheKey{Block: it.Blk, Key: storecache.CacheKeyPostings(labels.Label{Name: it.Name, Value: it.Value}), Compression: it.Comp}.String()
	case "EP":
		return storecache.CacheKey{Block: it.Blk, Key: storecache.CacheKeyExpandedPostings(storecache.LabelMatchersToString(promMatchers(it.Ms))), Compression: it.Comp}.String()
	case "S":
		return storecache.CacheKey{Block: it.Blk, Key: storecache.CacheKeySeries(it.ID)}.String()
	case "RP":
		seed := ""
		if it.Blk == blockIDs["HEAD"].String() {
			seed = "0"
		}
		return recvCache.VerifCacheKey(seed, ulid.MustParse(it.Blk), promMatchers(it.Ms)...)
	case "MC":
		k, err := storecache.VerifMatchersCacheKey(&storepb.LabelMatcher{Type: pbType(it.Type), Name: it.Name, Value: it.Value})
		if err != nil {
			panic(err)
		}
		return k
	}
	panic("bad kind")
}

// fakeMemcached is the remote cache client: a map, and the key of the last SetAsync.
type fakeMemcached struct {
	mu   sync.Mutex
	m    map[string][]byte
	last string
}

func (f *fakeMemcached) GetMulti(_ context.Context, keys []string) map[string][]byte {
	f.mu.Lock()
	defer f.mu.Unlock()
	out := map[string][]byte{}
	for _, k := range keys {
		if v, ok := f.m[k]; ok {
			out[k] = v
		}
	}
	return out
}
func (f *fakeMemcached) SetAsync(key string, value []byte, _ time.Duration) error {
	f.mu.Lock()
	defer f.mu.Unlock()
	f.m[key] = append([]byte(nil), value...)
	f.last = key
	return nil
}
func (f *fakeMemcached) Stop() {}

const tenant = "t"

func payload(x int) []byte { return []byte("item-" + strconv.Itoa(x)) }
func owner(b []byte) int {
	s := strings.TrimPrefix(string(b), "item-")
	n, err := strconv.Atoi(s)
	if err != nil {
		panic("foreign payload " + string(b))
	}
	return n
}

func storeIndex(c storecache.IndexCache, it item, x int) {
	id := ulid.MustParse(it.Blk)
	switch it.Kind {
	case "P":
		c.StorePostings(id, labels.Label{Name: it.Name, Value: it.Value}, payload(x), tenant)
	case "EP":
		c.StoreExpandedPostings(id, promMatchers(it.Ms), payload(x), tenant)
	case "S":
		c.StoreSeries(id, storage.SeriesRef(it.ID), payload(x), tenant)
	}
}

// fetchIndex looks one item up; returns the index of the item whose data came back, or -1 (miss).
func fetchIndex(c storecache.IndexCache, it item) int {
	ctx := context.Background()
	id := ulid.MustParse(it.Blk)
	switch it.Kind {
	case "P":
		l := labels.Label{Name: it.Name, Value: it.Value}
		hits, _ := c.FetchMultiPostings(ctx, id, []labels.Label{l}, tenant)
		if b, ok := hits[l]; ok {
			return owner(b)
		}
	case "EP":
		if b, ok := c.FetchExpandedPostings(ctx, id, promMatchers(it.Ms), tenant); ok {
			return owner(b)
		}
	case "S":
		hits, _ := c.FetchMultiSeries(ctx, id, []storage.SeriesRef{storage.SeriesRef(it.ID)}, tenant)
		if b, ok := hits[storage.SeriesRef(it.ID)]; ok {
			return owner(b)
		}
	}
	return -1
}

const notApplicable = -2

func runIndex(items []item) (rkeys []string, got []any) {
	n := len(items)
	rkeys = make([]string, n)
	// remote index cache: always uses the streamed-snappy scheme in its keys
	fm := &fakeMemcached{m: map[string][]byte{}}
	rc, err := storecache.NewRemoteIndexCache(log.NewNopLogger(), fm, nil, prometheus.NewRegistry(), time.Hour)
	if err != nil {
		panic(err)
	}
	im, err := storecache.NewInMemoryIndexCacheWithConfig(log.NewNopLogger(), nil, prometheus.NewRegistry(),
		storecache.InMemoryIndexCacheConfig{MaxSize: 512 << 20, MaxItemSize: 1 << 20})
	if err != nil {
		panic(err)
	}
	remoteOK := func(it item) bool { return it.Kind == "S" || it.Comp == "dss" }
	inmemOK := func(it item) bool { return it.Kind == "S" || it.Comp == "" }
	for x, it := range items {
		if remoteOK(it) {
			fm.last = ""
			storeIndex(rc, it, x)
			rkeys[x] = fm.last
		}
		if inmemOK(it) {
			storeIndex(im, it, x)
		}
	}
	gr, gi := make([]int, n), make([]int, n)
	for x, it := range items {
		gr[x], gi[x] = notApplicable, notApplicable
		if remoteOK(it) {
			gr[x] = fetchIndex(rc, it)
		}
		if inmemOK(it) {
			gi[x] = fetchIndex(im, it)
		}
	}
	return rkeys, []any{
		map[string]any{"backend": "remote-index-cache", "owner": gr},
		map[string]any{"backend": "inmemory-index-cache", "owner": gi},
	}
}

func runConv(items []item) (rkeys []string, got []any) {
	n := len(items)
	rkeys = make([]string, n)
	type triple struct{ t, n, v string }
	first := map[triple]int{}
	for x, it := range items {
		if _, ok := first[triple{it.Type, it.Name, it.Value}]; !ok {
			first[triple{it.Type, it.Name, it.Value}] = x
		}
	}
	typeName := map[labels.MatchType]string{labels.MatchEqual: "EQ", labels.MatchNotEqual: "NEQ", labels.MatchRegexp: "RE", labels.MatchNotRegexp: "NRE"}
	one := func(opts ...storecache.MatcherCacheOption) []int {
		c, err := storecache.NewMatchersCache(append([]storecache.MatcherCacheOption{storecache.WithSize(n + 16)}, opts...)...)
		if err != nil {
			panic(err)
		}
		conv := func(it item) *storepb.LabelMatcher {
			return &storepb.LabelMatcher{Type: pbType(it.Type), Name: it.Name, Value: it.Value}
		}
		for _, it := range items {
			it := it
			// the conversion, without compiling the regex (any string is a legal matcher value here)
			_, _ = c.GetOrSet(conv(it), func() (*labels.Matcher, error) {
				return &labels.Matcher{Type: promType(it.Type), Name: it.Name, Value: it.Value}, nil
			})
		}
		out := make([]int, n)
		for x, it := range items {
			m, err := c.GetOrSet(conv(it), func() (*labels.Matcher, error) { return nil, fmt.Errorf("miss") })
			if err != nil || m == nil {
				out[x] = -1
				continue
			}
			o, ok := first[triple{typeName[m.Type], m.Name, m.Value}]
			if !ok {
				panic("matchers cache returned a matcher nobody stored: " + m.String())
			}
			out[x] = o
		}
		return out
	}
	all := one(storecache.WithIsCacheableFunc(func(storecache.ConversionLabelMatcher) bool { return true }))
	def := one()
	return rkeys, []any{
		map[string]any{"backend": "matchers-cache(all cacheable)", "owner": all},
		map[string]any{"backend": "matchers-cache(default: regex only)", "owner": def},
	}
}

var recvCache = expandedpostingscache.NewBlocksPostingsForMatchersCache(expandedpostingscache.NewPostingCacheMetrics(prometheus.NewRegistry()), 1<<20, 1<<20, 16)

// runRecv: the receiver's expanded-postings cache (pkg/receive/expandedpostingscache). Every item's
// postings are produced once (a one-element list naming the item) through the real
// PostingsForMatchers entry point, then every item is asked for again.
func runRecv(items []item) (rkeys []string, got []any) {
	n := len(items)
	rkeys = make([]string, n)
	c := expandedpostingscache.NewBlocksPostingsForMatchersCache(expandedpostingscache.NewPostingCacheMetrics(prometheus.NewRegistry()), 1<<30, 1<<30, 16)
	cur := 0
	const miss = 1 << 40
	c.VerifSetPostingsForMatchersFunc(func(context.Context, tsdb.IndexReader, ...*labels.Matcher) (index.Postings, error) {
		return index.NewListPostings([]storage.SeriesRef{storage.SeriesRef(cur)}), nil
	})
	ask := func(it item) int {
		p, err := c.PostingsForMatchers(context.Background(), ulid.MustParse(it.Blk), nil, promMatchers(it.Ms)...)
		if err != nil || !p.Next() {
			return -1
		}
		if p.At() == miss {
			return -1
		}
		return int(p.At())
	}
	for x, it := range items {
		cur = x
		ask(it)
	}
	cur = miss
	out := make([]int, n)
	for x, it := range items {
		out[x] = ask(it)
	}
	return rkeys, []any{map[string]any{"backend": "receive-expanded-postings-cache", "owner": out}}
}

// convEndToEnd: MatchersToPromMatchersCached with the real conversion (regexes are compiled; a
// value that is not a valid regex makes the conversion fail: recorded as a miss).
func convEndToEnd(items []item) map[string]any {
	type triple struct{ t, n, v string }
	first := map[triple]int{}
	for x, it := range items {
		if _, ok := first[triple{it.Type, it.Name, it.Value}]; !ok {
			first[triple{it.Type, it.Name, it.Value}] = x
		}
	}
	typeName := map[labels.MatchType]string{labels.MatchEqual: "EQ", labels.MatchNotEqual: "NEQ", labels.MatchRegexp: "RE", labels.MatchNotRegexp: "NRE"}
	c, err := storecache.NewMatchersCache(storecache.WithSize(len(items) + 16))
	if err != nil {
		panic(err)
	}
	out := make([]int, len(items))
	for pass := 0; pass < 2; pass++ {
		for x, it := range items {
			ms, err := storecache.MatchersToPromMatchersCached(c, storepb.LabelMatcher{Type: pbType(it.Type), Name: it.Name, Value: it.Value})
			if err != nil || len(ms) != 1 {
				out[x] = -1
				continue
			}
			o, ok := first[triple{typeName[ms[0].Type], ms[0].Name, ms[0].Value}]
			if !ok {
				panic("MatchersToPromMatchersCached returned a matcher nobody asked for: " + ms[0].String())
			}
			out[x] = o
		}
	}
	return map[string]any{"backend": "MatchersToPromMatchersCached(default cache)", "owner": out}
}

func TestC13(t *testing.T) {
	rnd := vt.Rand()
	gen := func(yield func(vt.Case)) {
		for _, c := range vt.TLCCases(t) {
			c["src"] = "tlc"
			c["model"] = true
			yield(c)
		}
		n := vt.Pick(40, 400)
		for i := 0; i < n; i++ {
			yield(randomGroup(rnd, i))
		}
		// long components (length fields, buffers): one group per key space
		for _, sp := range []string{"conv", "index", "recv"} {
			yield(longGroup(rnd, sp))
		}
	}
	kf := func(c vt.Case) string { return "" }
	vt.Run(t, gen, kf, func(c vt.Case) vt.Event {
		space := vt.Str(c["space"])
		var items []item
		for _, a := range vt.List(c["items"]) {
			it := concretise(vt.Map(a))
			if !it.valid() {
				t.Fatalf("generated item outside the quantifier of C13 (invalid label name/value): %+v", it)
			}
			if (space == "conv") != (it.Kind == "MC") || (space == "recv") != (it.Kind == "RP") {
				t.Fatalf("item kind %s in space %s", it.Kind, space)
			}
			items = append(items, it)
		}
		if len(items) == 0 {
			return nil
		}
		ji := make([]any, len(items))
		keys := make([]string, len(items))
		for x, it := range items {
			ji[x] = it.json()
			keys[x] = directKey(it)
		}
		var rkeys []string
		var got []any
		if space == "conv" {
			rkeys, got = runConv(items)
			got = append(got, convEndToEnd(items))
		} else if space == "recv" {
			rkeys, got = runRecv(items)
		} else {
			rkeys, got = runIndex(items)
		}
		return vt.Event{"items": ji, "keys": keys, "rkeys": rkeys, "got": got}
	})
}

// ---------------------------------------------------------------------------------------------
// seeded adversarial concrete groups

var pool = []string{":", ":", ";", "=", "~", "!", "\"", "\\", "&", "%", "+", " ", "a", "b", "j", "o", "b", "_", "1", "3", "A", "é", "日", " ", "\x00", "{", ","}

func randRunes(r *rand.Rand, n int) []string {
	out := make([]string, n)
	for i := range out {
		out[i] = pool[r.Intn(len(pool))]
	}
	return out
}

func cs(ss []string) []any {
	out := make([]any, len(ss))
	for i, s := range ss {
		out[i] = s
	}
	return out
}

func str2(s string) []string {
	out := []string{}
	for _, r := range s {
		out = append(out, string(r))
	}
	return out
}

func str(s string) []any { // a Go string as list of characters (runes)
	out := []any{}
	for _, r := range s {
		out = append(out, string(r))
	}
	return out
}

var typeSyms = map[string]string{"EQ": "=", "NEQ": "!=", "RE": "=~", "NRE": "!~"}
var typeNames = []string{"EQ", "NEQ", "RE", "NRE"}

const maxGroup = 120

func randomGroup(r *rand.Rand, i int) vt.Case {
	flat := randRunes(r, 3+r.Intn(vt.Pick(8, 14)))
	// make sure separators occur
	for k := 0; k < 2; k++ {
		flat[r.Intn(len(flat))] = []string{":", ":", "=", "~", "!", "\"", ";"}[r.Intn(7)]
	}
	items := []any{}
	add := func(m map[string]any) {
		if len(items) < maxGroup {
			items = append(items, m)
		}
	}
	if i%3 == 2 {
		// two type symbols somewhere inside, so that several readings exist
		for k := 0; k < 2; k++ {
			sym := []string{"=", "!=", "=~", "!~", "=~", "!~"}[r.Intn(6)]
			at := 1 + r.Intn(len(flat)-1)
			flat = append(append(append([]string{}, flat[:at]...), str2(sym)...), flat[at:]...)
		}
		// conversion cache: every way of reading the flat string as name ++ type ++ value, and every cut with every type
		for k := 1; k <= len(flat); k++ {
			rest := strings.Join(flat[k:], "")
			for _, tn := range typeNames {
				if strings.HasPrefix(rest, typeSyms[tn]) {
					add(map[string]any{"kind": "MC", "name": cs(flat[:k]), "type": tn, "value": str(rest[len(typeSyms[tn]):])})
				}
			}
			tn := typeNames[r.Intn(4)]
			add(map[string]any{"kind": "MC", "name": cs(flat[:k]), "type": tn, "value": cs(flat[k:])})
		}
		return vt.Case{"space": "conv", "src": "random", "model": true, "items": items}
	}
	if i%4 == 3 {
		// receiver's expanded-postings cache: matcher lists, their permutations, lists that differ only in
		// where the type symbol / the '|' between two matchers is read, persisted and head blocks
		head := r.Intn(3) == 0
		addRP := func(ms ...any) {
			b := []string{"B1", "B2"}[r.Intn(2)] // the same selectors for two blocks
			if head {
				b = "HEAD"
			}
			if b == "HEAD" { // head postings are only cached for selectors with __name__="..."
				ms = append(ms, map[string]any{"name": str("__name__"), "type": "EQ", "value": str("m")})
			}
			if ms == nil {
				ms = []any{}
			}
			add(map[string]any{"kind": "RP", "blk": b, "ms": ms})
		}
		rm := func() map[string]any {
			a := r.Intn(len(flat))
			e := a + 1 + r.Intn(len(flat)-a)
			name := flat[a:e]
			if r.Intn(2) == 0 {
				name = []string{[]string{"job", "a", "pod"}[r.Intn(3)]}
			}
			return map[string]any{"name": cs(name), "type": typeNames[r.Intn(4)], "value": cs(randRunes(r, r.Intn(4)))}
		}
		for k := 0; k < 10; k++ {
			m1, m2 := rm(), rm()
			addRP(m1, m2)
			addRP(m2, m1)
			addRP(m1)
			addRP(m2)
			n1, v1, n2, v2 := chars(m1["name"]), chars(m1["value"]), chars(m2["name"]), chars(m2["value"])
			t1, t2 := vt.Str(m1["type"]), vt.Str(m2["type"])
			// ONE matcher whose value spells "v1|name2 op2 v2" (plain and quoted renderings)
			addRP(map[string]any{"name": m1["name"], "type": t1, "value": str(v1 + "|" + n2 + typeSyms[t2] + v2)})
			addRP(map[string]any{"name": m1["name"], "type": t1, "value": str(v1 + "\"|" + n2 + typeSyms[t2] + "\"" + v2)})
			// the type symbol read at another place: name op value  vs  name op' value'
			for _, tn := range typeNames {
				if strings.HasPrefix(typeSyms[t1]+v1, typeSyms[tn]) && tn != t1 {
					addRP(map[string]any{"name": m1["name"], "type": tn, "value": str((typeSyms[t1] + v1)[len(typeSyms[tn]):])})
				}
			}
			addRP(map[string]any{"name": str(n1 + "="), "type": "RE", "value": str(v1)})
			addRP(map[string]any{"name": str(n1), "type": "EQ", "value": str("=~" + v1)})
			addRP(map[string]any{"name": str(n1 + "=~" + v1 + "|" + n2), "type": t2, "value": str(v2)})
		}
		addRP()
		return vt.Case{"space": "recv", "src": "random", "model": false, "items": items}
	}
	blk := func() string { return []string{"B1", "B2"}[r.Intn(2)] }
	comp := func() []any {
		if r.Intn(2) == 0 {
			return []any{}
		}
		return []any{"dss"}
	}
	// postings: every cut of the flat string into name|value, with and without dropping a ':' at the cut
	for k := 1; k <= len(flat); k++ {
		c := comp()
		add(map[string]any{"kind": "P", "blk": "B1", "name": cs(flat[:k]), "value": cs(flat[k:]), "comp": c})
		if k < len(flat) && flat[k] == ":" {
			add(map[string]any{"kind": "P", "blk": "B1", "name": cs(flat[:k]), "value": cs(flat[k+1:]), "comp": []any{}})
			add(map[string]any{"kind": "P", "blk": "B1", "name": cs(flat[:k]), "value": cs(flat[k+1:]), "comp": []any{"dss"}})
			add(map[string]any{"kind": "P", "blk": "B2", "name": cs(flat[:k]), "value": cs(flat[k+1:]), "comp": []any{"dss"}})
		}
	}
	// labels whose plain form name+":"+value spells what a differently rendered label (escaped,
	// '&'-joined, ...) could hash: every cut at a ':' of such renderings of the first cuts
	for k := 1; k <= len(flat) && k <= 4; k++ {
		n, v := strings.Join(flat[:k], ""), strings.Join(flat[k:], "")
		for _, c := range []string{url.QueryEscape(n) + "&" + v, url.QueryEscape(n) + "&" + url.QueryEscape(v), n + "&" + v,
			url.QueryEscape(n) + ":" + url.QueryEscape(v), strconv.Itoa(len(n)) + ":" + n + ":" + v, strconv.Quote(n) + ":" + v} {
			for p := 1; p < len(c); p++ {
				if c[p] == ':' && utf8.ValidString(c[:p]) && utf8.ValidString(c[p+1:]) {
					add(map[string]any{"kind": "P", "blk": "B1", "name": str(c[:p]), "value": str(c[p+1:]), "comp": []any{"dss"}})
				}
			}
		}
		add(map[string]any{"kind": "P", "blk": "B1", "name": cs(flat[:k]), "value": cs(flat[k:]), "comp": []any{"dss"}})
	}
	// expanded postings: random matcher lists, their permutations / duplicates, and one-matcher lists
	// whose value spells the text between two matchers
	rm := func() map[string]any {
		a := r.Intn(len(flat))
		b := a + 1 + r.Intn(len(flat)-a)
		v := randRunes(r, r.Intn(4))
		if r.Intn(2) == 0 {
			v = flat[a:b]
		}
		name := flat[a:b]
		if r.Intn(3) == 0 {
			name = []string{"job"}
		}
		return map[string]any{"name": cs(name), "type": typeNames[r.Intn(4)], "value": cs(v)}
	}
	for k := 0; k < 8; k++ {
		m1, m2 := rm(), rm()
		b, c := blk(), comp()
		add(map[string]any{"kind": "EP", "blk": b, "comp": c, "ms": []any{m1, m2}})
		add(map[string]any{"kind": "EP", "blk": b, "comp": c, "ms": []any{m2, m1}})
		add(map[string]any{"kind": "EP", "blk": b, "comp": c, "ms": []any{m1}})
		add(map[string]any{"kind": "EP", "blk": b, "comp": c, "ms": []any{m1, m1}})
		// imitation of the list [m1, m2] by ONE matcher: value = v1 ++ `";` ++ name2 ++ op2 ++ `"` ++ v2
		n2 := chars(m2["name"])
		v := chars(m1["value"]) + "\";" + n2 + typeSyms[vt.Str(m2["type"])] + "\"" + chars(m2["value"])
		add(map[string]any{"kind": "EP", "blk": b, "comp": c, "ms": []any{map[string]any{"name": m1["name"], "type": m1["type"], "value": str(v)}}})
		vq := chars(m1["value"]) + "\";" + strconv.Quote(n2) + typeSyms[vt.Str(m2["type"])] + "\"" + chars(m2["value"])
		add(map[string]any{"kind": "EP", "blk": b, "comp": c, "ms": []any{map[string]any{"name": m1["name"], "type": m1["type"], "value": str(vq)}}})
	}
	add(map[string]any{"kind": "EP", "blk": "B1", "comp": []any{}, "ms": []any{}})
	for k := 0; k < 3; k++ {
		id := []uint64{0, 1, 12, 121, 1 << 40, ^uint64(0)}[r.Intn(6)]
		add(map[string]any{"kind": "S", "blk": blk(), "id": str(strconv.FormatUint(id, 10))})
	}
	return vt.Case{"space": "index", "src": "random", "model": true, "items": items}
}

// longGroup: names / values of lengths around 255, 256, 257, 300, 511, 512, 65535+, and for every long
// name the adversarial re-cuts name2 = name1[:k], value2 = name1[k:] ++ value1 (k = len mod 256,
// len mod 65536, 1, len-1, len/2, 255, 256): a builder that stores a length in too few digits or
// bytes conflates exactly these. Strings are given as plain strings (the model does not read the group).
func longGroup(r *rand.Rand, space string) vt.Case {
	items := []any{}
	lens := []int{255, 256, 257, 300, 511, 512, 65535, 65536 + 255 + r.Intn(3)}
	alpha := []string{"a", "b", "c", "_", "x"}
	mk := func(n int) string {
		var sb strings.Builder
		for sb.Len() < n {
			sb.WriteString(alpha[r.Intn(len(alpha))])
		}
		return sb.String()[:n]
	}
	for _, L := range lens {
		name1, value1 := mk(L), mk(r.Intn(3))
		if space == "index" {
			name1 = name1[:L/2] + ":" + name1[L/2+1:] // a ':' inside: the escaped form of the postings key
		}
		tn := typeNames[r.Intn(4)]
		cuts := map[int]bool{L % 256: true, L % 65536: true, 1: true, L - 1: true, L / 2: true, 255: true, 256: true}
		emit := func(n, v string) {
			switch space {
			case "conv":
				items = append(items, map[string]any{"kind": "MC", "name": n, "type": tn, "value": v})
			case "recv":
				items = append(items, map[string]any{"kind": "RP", "blk": "B1", "ms": []any{map[string]any{"name": n, "type": tn, "value": v}}})
			default:
				items = append(items, map[string]any{"kind": "P", "blk": "B1", "name": n, "value": v, "comp": []any{"dss"}})
				items = append(items, map[string]any{"kind": "EP", "blk": "B1", "comp": []any{"dss"}, "ms": []any{map[string]any{"name": n, "type": tn, "value": v}}})
			}
		}
		emit(name1, value1)
		emit(value1+"z", name1) // long value, short name
		for k := range cuts {
			if k >= 1 && k < L {
				emit(name1[:k], name1[k:]+value1)
			}
		}
	}
	return vt.Case{"space": space, "src": "long", "model": false, "items": items}
}
