package downsamplex

import (
	"testing"

	"verif/harness/vt"
)

// C37: downsampled counters preserve the raw counter's increase, after one (5 m) and two
// (5 m -> 1 h) levels.  Cases: every TLC shape of DownsampleCounterMC (counter values with
// resets, NaN / stale tokens, chunk counts of both levels) through the real loops, plus seeded
// random counters through real blocks and downsample.Downsample (see pipeline_test.go).
// Observed: the values the querier's counter iterator yields at both levels.
func TestC37(t *testing.T) {
	rnd := vt.Rand()
	vt.Run(t, func(yield func(vt.Case)) { pipelineCases(t, rnd, false, false, yield) },
		func(vt.Case) string { return "" }, runPipeline)
}
