package downsamplex

import (
	"fmt"
	"math"
	"os"
	"strconv"
	"testing"

	"github.com/prometheus/prometheus/tsdb/chunks"

	"github.com/thanos-io/thanos/pkg/compact/downsample"
	"github.com/thanos-io/thanos/pkg/store/storepb"

	"verif/harness/vt"
)

// C36: raw downsampling aggregates are exact.
//
// Cases
//   - every TLC shape (DownsampleMC: samples on a small grid with NaN / stale tokens, abstract
//     window length r, target chunk count nc), scaled to 5 m or 1 h windows, through the real
//     batching loop with that chunk count (mode "loop": downsampleRawLoop via the export shim);
//   - seeded random long series (irregular intervals, gaps, bursts, NaN, stale markers) through
//     the exported DownsampleRaw (mode "raw": chunk count chosen by the code) and through the
//     loop with a random chunk count.
//
// Observed: the decoded aggregate chunks, and each of count/sum/min/max read back through the
// querier's series iterator (query.NewPromSeriesSet) over the range in.q.
func TestC36(t *testing.T) {
	rnd := vt.Rand()
	gen := func(yield func(vt.Case)) {
		for i, c := range vt.TLCCases(t) {
			res := []int64{res5m, res1h}[(i+int(vt.Seed()))%2]
			r := vt.Int(c["r"])
			vals := vt.Ints(c["vs"])
			scale := 1 + rnd.Intn(500)
			for k := range vals {
				vals[k] *= scale
			}
			yield(vt.Case{"kind": "float", "mode": "loop", "res": res, "nc": vt.Int(c["nc"]),
				"base": bases[rnd.Intn(len(bases))],
				"ts":   concretise(rnd, vt.Ints(c["ts"]), r, res), "vs": vals, "ks": c["ks"],
				"q": []int{0, int(maxOff)}})
		}
		n := vt.Pick(120, 600)
		for i := 0; i < n; i++ {
			res := []int64{res5m, res5m, res1h}[rnd.Intn(3)]
			size := 1 + rnd.Intn(vt.Pick(2500, 4000))
			if i%10 == 0 {
				size = 1 + rnd.Intn(40)
			}
			if vt.Thorough() && i%50 == 1 {
				size = 8500 + rnd.Intn(4000) // enough for several 1 h chunks
				res = res1h
			}
			lo := rnd.Intn(1000)
			ts, vs, ks := randomSeries(rnd, size, rnd.Int63n(3*res1h), rnd.Intn(12), rnd.Intn(6), func(int) int { return lo + rnd.Intn(1000) })
			c := vt.Case{"kind": "float", "mode": "raw", "res": res, "nc": 0, "base": bases[rnd.Intn(len(bases))],
				"ts": ts, "vs": vs, "ks": ks, "q": []int{0, int(maxOff)}}
			if rnd.Intn(3) == 0 {
				c["mode"] = "loop"
				c["nc"] = 1 + rnd.Intn(8)
			}
			if rnd.Intn(2) == 0 && len(ts) > 0 { // read back a sub-range
				a, b := ts[rnd.Intn(len(ts))], ts[rnd.Intn(len(ts))]
				if a > b {
					a, b = b, a
				}
				c["q"] = []int{a - a%int(res5m)*rnd.Intn(2), b + rnd.Intn(int(res))}
			}
			yield(c)
		}
		// phase 2: native histogram series (count and sum aggregates)
		if p := os.Getenv("VERIF_CASES_DOWNSAMPLEHISTMC"); p != "" {
			cs, err := vt.ReadNDJSON(p)
			if err != nil {
				t.Fatalf("reading histogram cases: %v", err)
			}
			i := 0
			for _, c := range cs {
				if vt.Int(c["nc2"]) != 1 || vt.Int(c["m"]) != 2 { // level 1 only here: one case per (series, nc1)
					continue
				}
				i++
				res := []int64{res5m, res1h}[(i+int(vt.Seed()))%2]
				yield(vt.Case{"kind": "hist", "mode": "loop", "res": res, "nc": vt.Int(c["nc1"]), "base": bases[rnd.Intn(len(bases))],
					"ts": concretise(rnd, vt.Ints(c["ts"]), vt.Int(c["r"]), res), "ks": c["ks"],
					"hv": scaleVecs(vt.List(c["hv"]), 1+rnd.Intn(20), 1+rnd.Intn(50)), "gauge": vt.Bool(c["gauge"]), "k": 1,
					"q": []int{0, int(maxOff)}})
			}
		}
		for i := 0; i < vt.Pick(40, 300); i++ {
			res := []int64{res5m, res5m, res1h}[rnd.Intn(3)]
			s := randomHistSeries(rnd, 1+rnd.Intn(vt.Pick(900, 2500)), 1+rnd.Intn(4), rnd.Int63n(3*res1h), rnd.Intn(3) == 0, rnd.Intn(6))
			c := vt.Case{"kind": "hist", "mode": "raw", "res": res, "nc": 0, "base": bases[rnd.Intn(len(bases))],
				"ts": s["ts"], "ks": s["ks"], "hv": s["hv"], "gauge": s["gauge"], "k": s["k"], "q": []int{0, int(maxOff)}}
			if rnd.Intn(2) == 0 {
				c["mode"], c["nc"] = "loop", 1+rnd.Intn(6)
			}
			yield(c)
		}
	}
	vt.Run(t, gen, func(vt.Case) string { return "" }, runC36)
}

func runC36(c vt.Case) (ev vt.Event) {
	ev = vt.Event{"chunks": []any{}, "hchunks": []any{}, "ok": true, "aligned": true, "nc": 0, "msg": "",
		"rb":    map[string]any{"cnt": emptySeq(), "sum": emptySeq(), "min": emptySeq(), "max": emptySeq()},
		"rberr": "", "got": map[string]any{"kind": "ok", "msg": ""}}
	defer func() {
		if r := recover(); r != nil {
			ev["got"] = map[string]any{"kind": "panic", "msg": fmt.Sprint(r)}
		}
	}()
	if vt.Str(c["kind"]) == "hist" {
		base, _ := strconv.ParseInt(vt.Str(c["base"]), 10, 64)
		res := vt.Int64(c["res"])
		ts, fhs, _ := histOf(base, c)
		nc := vt.Int(c["nc"])
		if vt.Str(c["mode"]) != "loop" {
			nc = 0
			if len(ts) > 0 {
				ev["nc"] = downsample.VerifTargetChunkCount(ts[0], ts[len(ts)-1], 60000, res, len(ts))
			}
		} else {
			ev["nc"] = nc
		}
		metas := downsample.VerifDownsampleRawHist(ts, fhs, res, nc)
		ev["hchunks"], ev["ok"], ev["aligned"], ev["msg"] = decodeHistChunks(metas, base, vt.Int(c["k"]))
		return ev
	}
	base, ts, vs := rawOf(c)
	res := vt.Int64(c["res"])
	var metas []chunks.Meta
	switch vt.Str(c["mode"]) {
	case "loop":
		nc := vt.Int(c["nc"])
		ev["nc"] = nc
		metas = downsample.VerifDownsampleRawLoop(ts, vs, res, nc)
	default:
		if len(ts) > 0 {
			ev["nc"] = downsample.VerifTargetChunkCount(ts[0], ts[len(ts)-1], 60000, res, len(ts))
		}
		metas = downsample.DownsampleRaw(downsample.SamplesFromTSDBSamples(tsdbSamples(ts, vs)), res)
	}
	recs, ok, aligned, msg := decodeChunks(metas, base)
	ev["chunks"], ev["ok"], ev["aligned"], ev["msg"] = recs, ok, aligned, msg
	if len(metas) == 0 {
		return ev // a series without chunks does not reach the querier
	}
	// read back through the querier
	sc, err := storeChunks(metas)
	if err != nil {
		ev["rberr"] = err.Error()
		return ev
	}
	q := vt.Ints(c["q"])
	qlo, qhi := base+int64(q[0]), base+int64(q[1])
	if q[1] == int(maxOff) {
		qhi = math.MaxInt64
	}
	o := &okFlag{ok: true}
	rb := map[string]any{}
	for name, a := range map[string]storepb.Aggr{"cnt": storepb.Aggr_COUNT, "sum": storepb.Aggr_SUM, "min": storepb.Aggr_MIN, "max": storepb.Aggr_MAX} {
		it := querierIterator(sc, qlo, qhi, a)
		if it == nil {
			ev["rberr"] = "no series"
			rb[name] = emptySeq()
			continue
		}
		seq, e := drain(it, base, -1, o)
		rb[name] = seq
		if e != "" {
			ev["rberr"] = name + ": " + e
		}
	}
	ev["rb"] = rb
	if !o.ok {
		ev["rberr"] = "non-integer value read back"
	}
	return ev
}
