package downsamplex

import (
	"testing"

	"verif/harness/vt"
)

// C38: re-downsampling (5 m -> 1 h) conserves totals.  Same pipeline as C37 with gauges as well
// as counters as raw data.  Observed: the decoded aggregate chunks of the 5 m level (the input
// of the re-downsampling) and of the 1 h level (its output).
func TestC38(t *testing.T) {
	rnd := vt.Rand()
	vt.Run(t, func(yield func(vt.Case)) { pipelineCases(t, rnd, true, true, yield) },
		func(vt.Case) string { return "" }, runPipeline)
}
