package downsamplex

import (
	"context"
	"fmt"
	"io"
	"log/slog"
	"math"
	"math/rand"
	"os"
	"path/filepath"
	"sort"
	"strconv"
	"testing"

	"github.com/go-kit/log"
	"github.com/prometheus/prometheus/model/labels"
	"github.com/prometheus/prometheus/storage"
	"github.com/prometheus/prometheus/tsdb"
	"github.com/prometheus/prometheus/tsdb/chunks"
	"github.com/prometheus/prometheus/tsdb/index"

	"github.com/thanos-io/thanos/pkg/block/metadata"
	"github.com/thanos-io/thanos/pkg/compact/downsample"
	"github.com/thanos-io/thanos/pkg/store/storepb"

	"verif/harness/vt"
)

// Two-level pipeline shared by C37 and C38: raw -> 5 m -> 1 h.
//
// mode "loop":  one series; level 1 = downsampleRawLoop(5 m, nc1), level 2 =
//               downsampleAggrLoop(1 h, min(nc2, #chunks)) through the export shims, so that
//               the TLC shapes reach chunk / part boundaries with a handful of samples.
// mode "chunks": one series cut into given segments (in.sizes samples each, every segment in 5 m
//               windows of its own); level 1 = one real 5 m chunk per segment (downsampleRawLoop
//               with one chunk per segment, exactly what a single run with those batch borders
//               yields), level 2 = downsampleAggrLoop(1 h, nc2) over MANY input chunks, so that
//               every remainder of len / batchSize occurs (tail batches).
// mode "block": 1..n series in a real TSDB block; both levels through the exported
//               downsample.Downsample on real blocks (raw block -> 5 m block -> 1 h block);
//               chunk counts are whatever targetChunkCount decides.
//
// Per series and level the decoded aggregate chunks and the values of the counter aggregate
// read through the querier (chunkSeries.Iterator -> ApplyCounterResetsSeriesIterator, optionally
// after one Seek) are recorded.

// concretise2 maps a TLC shape over two levels: abstract level-1 windows of r cells, level-2
// windows of m level-1 windows; real 5 m windows, 12 of them per real 1 h window.
func concretise2(rnd *rand.Rand, cells []int, r, m int) []int {
	unit := res5m / int64(r)
	per := 12 / m // real 5 m windows available per abstract level-1 window
	slot := map[int]int{}
	out := make([]int, len(cells))
	for i, c := range cells {
		w1 := c / r
		if _, ok := slot[w1]; !ok {
			slot[w1] = rnd.Intn(per)
		}
		real5m := int64((w1/m)*12 + (w1%m)*per + slot[w1])
		var j int64
		switch rnd.Intn(4) {
		case 0:
			j = 0
		case 1:
			j = unit - 1
		default:
			j = rnd.Int63n(unit)
		}
		out[i] = int(real5m*res5m + int64(c%r)*unit + j)
	}
	return out
}

// counterGen returns a generator of counter values: mostly growing, sometimes flat, sometimes
// reset (to zero, to a small value, or to just below the previous value).
func counterGen(rnd *rand.Rand) func(int) int {
	v := rnd.Intn(1000)
	return func(int) int {
		switch x := rnd.Intn(100); {
		case x < 4:
			v = 0
		case x < 7:
			v = rnd.Intn(v + 1)
		case x < 9 && v > 0:
			v--
		case x < 20:
		default:
			v += rnd.Intn(60)
		}
		return v
	}
}

func gaugeGen(rnd *rand.Rand) func(int) int {
	lo := rnd.Intn(1000)
	return func(int) int { return lo + rnd.Intn(1000) }
}

// pipelineCases yields the cases of C37 (counters only) / C38 (counters and gauges).
func pipelineCases(t *testing.T, rnd *rand.Rand, gauges, hist bool, yield func(vt.Case)) {
	for _, c := range vt.TLCCases(t) {
		vals := vt.Ints(c["vs"])
		scale := 1 + rnd.Intn(300)
		for k := range vals {
			vals[k] *= scale
		}
		ts := concretise2(rnd, vt.Ints(c["ts"]), vt.Int(c["r"]), vt.Int(c["m"]))
		seek := -1
		if len(ts) > 0 && rnd.Intn(4) == 0 {
			seek = ts[rnd.Intn(len(ts))] + rnd.Intn(3) - 1
			if seek < 0 {
				seek = 0
			}
		}
		yield(vt.Case{"mode": "loop", "base": bases[rnd.Intn(len(bases))], "nc1": vt.Int(c["nc1"]), "nc2": vt.Int(c["nc2"]),
			"series": []any{map[string]any{"kind": "float", "ts": ts, "vs": vals, "ks": c["ks"]}}, "seek": seek})
	}
	// many input chunks: every (n, numChunks) pair of DownsampleBatchingMC, then the full grid
	// n = 9..60 x numChunks = 2..6 (both tiers): every remainder class of the batching
	chunkCase := func(n, nc2 int) {
		var gen func(int) int
		if gauges && rnd.Intn(2) == 0 {
			gen = gaugeGen(rnd)
		} else {
			gen = counterGen(rnd)
		}
		sizes := make([]int, n)
		var ts, vs []int
		var ks []string
		win := int64(rnd.Intn(24)) // current 5 m window index
		for k := range sizes {
			sizes[k] = 1 + rnd.Intn(4)
			span := int64(1 + rnd.Intn(2)) // the segment lives in 1..2 windows of its own
			lo, hi := win*res5m, (win+span)*res5m-1
			cut := map[int64]bool{}
			for len(cut) < sizes[k] {
				switch rnd.Intn(5) {
				case 0:
					cut[lo] = true
				case 1:
					cut[hi] = true
				default:
					cut[lo+rnd.Int63n(hi-lo+1)] = true
				}
			}
			seg := make([]int, 0, sizes[k])
			for t := range cut {
				seg = append(seg, int(t))
			}
			sort.Ints(seg)
			for i, t := range seg {
				k2, v := "F", gen(0)
				if i > 0 && rnd.Intn(12) == 0 {
					k2, v = []string{"NaN", "STALE"}[rnd.Intn(2)], 0
				}
				ts, vs, ks = append(ts, t), append(vs, v), append(ks, k2)
			}
			win += span + int64(rnd.Intn(8)/6) // mostly adjacent, sometimes a gap
		}
		seek := -1
		if rnd.Intn(4) == 0 {
			seek = ts[rnd.Intn(len(ts))]
		}
		yield(vt.Case{"mode": "chunks", "base": bases[rnd.Intn(len(bases))], "nc1": 0, "nc2": nc2, "sizes": sizes,
			"series": []any{map[string]any{"kind": "float", "ts": ts, "vs": vs, "ks": ks}}, "seek": seek})
	}
	if p := os.Getenv("VERIF_CASES_DOWNSAMPLEBATCHINGMC"); p != "" {
		cs, err := vt.ReadNDJSON(p)
		if err != nil {
			t.Fatalf("reading batching cases: %v", err)
		}
		for _, c := range cs {
			chunkCase(vt.Int(c["n"]), vt.Int(c["nc2"]))
		}
	}
	for nc2 := 2; nc2 <= 6; nc2++ {
		for n := 9; n <= 60; n++ {
			chunkCase(n, nc2)
		}
	}
	// phase 2: native histogram series over both levels (C38 only): every TLC shape of
	// DownsampleHistMC through the two loops, random series through the loops and through real
	// blocks (alone, or next to a float series)
	if p := os.Getenv("VERIF_CASES_DOWNSAMPLEHISTMC"); hist && p != "" {
		cs, err := vt.ReadNDJSON(p)
		if err != nil {
			t.Fatalf("reading histogram cases: %v", err)
		}
		for _, c := range cs {
			s := map[string]any{"kind": "hist", "ts": concretise2(rnd, vt.Ints(c["ts"]), vt.Int(c["r"]), vt.Int(c["m"])), "ks": c["ks"],
				"hv": scaleVecs(vt.List(c["hv"]), 1+rnd.Intn(20), 1+rnd.Intn(50)), "gauge": vt.Bool(c["gauge"]), "k": 1}
			yield(vt.Case{"mode": "hloop", "base": bases[rnd.Intn(len(bases))], "nc1": vt.Int(c["nc1"]), "nc2": vt.Int(c["nc2"]),
				"series": []any{s}, "seek": -1})
		}
	}
	if hist {
		for i := 0; i < vt.Pick(30, 200); i++ {
			hs := randomHistSeries(rnd, 1+rnd.Intn(vt.Pick(900, 2000)), 1+rnd.Intn(4), rnd.Int63n(3*res1h), rnd.Intn(3) == 0, rnd.Intn(6))
			if ks := hs["ks"].([]string); len(ks) > 0 && ks[0] != "H" {
				continue
			}
			c := vt.Case{"base": bases[rnd.Intn(len(bases))], "nc1": 0, "nc2": 0, "seek": -1}
			switch i % 3 {
			case 0:
				c["mode"], c["nc1"], c["nc2"] = "hloop", 1+rnd.Intn(8), 1+rnd.Intn(4)
				c["series"] = []any{hs}
			case 1:
				c["mode"], c["series"] = "block", []any{hs}
			default:
				ts, vs, ks := randomSeriesIv(rnd, 1+rnd.Intn(600), rnd.Int63n(3*res1h), 0, rnd.Intn(10), rnd.Intn(5), gaugeGen(rnd))
				ks[0], vs[0] = "F", 7
				c["mode"], c["series"] = "block", []any{map[string]any{"kind": "float", "ts": ts, "vs": vs, "ks": ks}, hs}
			}
			yield(c)
		}
	}
	// long dense series through real blocks: the 5 m block has a dozen or more chunks per series
	// and targetChunkCount asks for 2 (3) output chunks at 1 h
	for i := 0; i < vt.Pick(3, 10); i++ {
		hours := []int{143, 158, 176, 149, 190, 167, 290, 205, 152, 183}[i]
		var gen func(int) int
		if gauges && i%2 == 1 {
			gen = gaugeGen(rnd)
		} else {
			gen = counterGen(rnd)
		}
		size := hours * 3600 / 63
		ts, vs, ks := randomSeriesIv(rnd, size, rnd.Int63n(res1h), 60000, rnd.Intn(4), rnd.Intn(3), gen)
		ks[0], vs[0] = "F", 7
		yield(vt.Case{"mode": "block", "base": bases[rnd.Intn(len(bases))], "nc1": 0, "nc2": 0, "seek": -1,
			"series": []any{map[string]any{"kind": "float", "ts": ts, "vs": vs, "ks": ks}}})
	}
	n := vt.Pick(60, 400)
	for i := 0; i < n; i++ {
		gen := func() func(int) int {
			if gauges && rnd.Intn(2) == 0 {
				return gaugeGen(rnd)
			}
			return counterGen(rnd)
		}
		c := vt.Case{"base": bases[rnd.Intn(len(bases))], "nc1": 0, "nc2": 0, "seek": -1}
		mk := func(size int, iv int64) map[string]any {
			ts, vs, ks := randomSeriesIv(rnd, size, rnd.Int63n(3*res1h), iv, rnd.Intn(10), rnd.Intn(5), gen())
			if len(ks) > 0 && ks[0] != "F" { // the first series of a block always has a number
				ks[0], vs[0] = "F", 7
			}
			return map[string]any{"kind": "float", "ts": ts, "vs": vs, "ks": ks}
		}
		// a series made of NaN and stale markers only: nothing to aggregate (the downsampled
		// blocks do not carry it)
		mkNaN := func(size int) map[string]any {
			ts, vs, ks := randomSeriesIv(rnd, size, rnd.Int63n(3*res1h), 0, 0, 0, func(int) int { return 0 })
			for k := range ks {
				ks[k] = []string{"NaN", "STALE"}[rnd.Intn(2)]
			}
			return map[string]any{"kind": "float", "ts": ts, "vs": vs, "ks": ks}
		}
		switch {
		case i%3 == 0: // loop mode with random chunk counts
			c["mode"] = "loop"
			c["nc1"], c["nc2"] = 1+rnd.Intn(8), 1+rnd.Intn(4)
			c["series"] = []any{mk(1+rnd.Intn(1500), 0)}
		case i%12 == 1: // long sparse series: several 1 h chunks out of the real Downsample
			c["mode"] = "block"
			c["series"] = []any{mk(1700+rnd.Intn(1200), []int64{300000, 240000, 600000}[rnd.Intn(3)])}
		default:
			c["mode"] = "block"
			ns := 1 + rnd.Intn(3)
			ss := make([]any, ns)
			for k := range ss {
				ss[k] = mk(1+rnd.Intn(vt.Pick(1200, 2500)), 0)
				if k > 0 && rnd.Intn(5) == 0 {
					ss[k] = mkNaN(1 + rnd.Intn(300))
				}
			}
			c["series"] = ss
		}
		first := vt.Map(c["series"].([]any)[0])
		if ts := first["ts"].([]int); len(ts) > 0 && rnd.Intn(3) == 0 {
			c["seek"] = ts[rnd.Intn(len(ts))] + rnd.Intn(3) - 1
			if c["seek"].(int) < 0 {
				c["seek"] = 0
			}
		}
		yield(c)
	}
}

// randomSeriesIv is randomSeries with a fixed scrape interval (iv = 0: random regimes).
func randomSeriesIv(rnd *rand.Rand, n int, start, iv int64, pNaN, pStale int, gen func(i int) int) (ts, vs []int, ks []string) {
	if iv == 0 {
		return randomSeries(rnd, n, start, pNaN, pStale, gen)
	}
	t := start
	for i := 0; i < n && t <= maxOff-res1h; i++ {
		k, v := "F", gen(i)
		switch x := rnd.Intn(100); {
		case x < pNaN:
			k, v = "NaN", 0
		case x < pNaN+pStale:
			k, v = "STALE", 0
		}
		ts, vs, ks = append(ts, int(t)), append(vs, v), append(ks, k)
		t += iv + rnd.Int63n(iv/10+1)
	}
	return
}

// runPipeline executes one case and returns the observation.
func runPipeline(c vt.Case) (ev vt.Event) {
	ev = vt.Event{"obs": []any{}, "ok": true, "aligned": true, "msg": "", "blk1": []int{0, 0}, "hasblk": false,
		"blocks": map[string]any{"src": blockInfo{}.rec(0, &okFlag{}), "b1": blockInfo{}.rec(0, &okFlag{}), "b2": blockInfo{}.rec(0, &okFlag{})},
		"got": map[string]any{"kind": "ok", "msg": ""}}
	defer func() {
		if r := recover(); r != nil {
			ev["got"] = map[string]any{"kind": "panic", "msg": fmt.Sprint(r)}
			ev["obs"] = []any{}
		}
	}()
	series := vt.List(c["series"])
	base, _ := strconv.ParseInt(vt.Str(c["base"]), 10, 64)
	seek := int64(vt.Int(c["seek"]))
	if seek >= 0 {
		seek += base
	}
	var l1, l2 [][]chunks.Meta
	var binfo *blockRun
	switch vt.Str(c["mode"]) {
	case "loop":
		ts, vs := rawOfSeries(base, series[0])
		m1 := downsample.VerifDownsampleRawLoop(ts, vs, res5m, vt.Int(c["nc1"]))
		var m2 []chunks.Meta
		if len(m1) > 0 {
			acs := make([]*downsample.AggrChunk, len(m1))
			for i := range m1 {
				acs[i] = m1[i].Chunk.(*downsample.AggrChunk)
			}
			nc2 := vt.Int(c["nc2"])
			if nc2 > len(acs) {
				nc2 = len(acs)
			}
			var err error
			m2, err = downsample.VerifDownsampleAggrLoop(acs, res1h, nc2)
			if err != nil {
				ev["got"] = map[string]any{"kind": "error", "msg": err.Error()}
				return ev
			}
		}
		l1, l2 = [][]chunks.Meta{m1}, [][]chunks.Meta{m2}
	case "hloop":
		hs := vt.Map(series[0])
		ts, fhs, _ := histOf(base, hs)
		m1 := downsample.VerifDownsampleRawHist(ts, fhs, res5m, vt.Int(c["nc1"]))
		var m2 []chunks.Meta
		if len(m1) > 0 {
			acs := make([]*downsample.AggrChunk, len(m1))
			for i := range m1 {
				acs[i] = m1[i].Chunk.(*downsample.AggrChunk)
			}
			nc2 := vt.Int(c["nc2"])
			if nc2 > len(acs) {
				nc2 = len(acs)
			}
			var err error
			m2, err = downsample.VerifDownsampleHistAggrLoop(acs, res1h, nc2)
			if err != nil {
				ev["got"] = map[string]any{"kind": "error", "msg": err.Error()}
				return ev
			}
		}
		l1, l2 = [][]chunks.Meta{m1}, [][]chunks.Meta{m2}
	case "chunks":
		ts, vs := rawOfSeries(base, series[0])
		var m1 []chunks.Meta
		at := 0
		for _, sz := range vt.Ints(c["sizes"]) {
			m1 = append(m1, downsample.VerifDownsampleRawLoop(ts[at:at+sz], vs[at:at+sz], res5m, 1)...)
			at += sz
		}
		acs := make([]*downsample.AggrChunk, len(m1))
		for i := range m1 {
			acs[i] = m1[i].Chunk.(*downsample.AggrChunk)
		}
		nc2 := vt.Int(c["nc2"])
		if nc2 > len(acs) {
			nc2 = len(acs)
		}
		m2, err := downsample.VerifDownsampleAggrLoop(acs, res1h, nc2)
		if err != nil {
			ev["got"] = map[string]any{"kind": "error", "msg": err.Error()}
			return ev
		}
		l1, l2 = [][]chunks.Meta{m1}, [][]chunks.Meta{m2}
	default:
		run, cleanup, err := blockPipeline(base, series)
		if cleanup != nil {
			defer cleanup()
		}
		if err != nil {
			ev["got"] = map[string]any{"kind": "error", "msg": err.Error()}
			return ev
		}
		l1, l2, binfo = run.l1, run.l2, &run
		o := &okFlag{ok: true}
		ev["blk1"] = []int{o.off(run.b1.mint, base), o.off(run.b1.maxt-1, base)}
		ev["hasblk"] = true
		ev["blocks"] = map[string]any{"src": run.src.rec(base, o), "b1": run.b1.rec(base, o), "b2": run.b2.rec(base, o)}
		if !o.ok {
			ev["ok"] = false
		}
	}
	obs := make([]any, len(series))
	for i := range series {
		rec := map[string]any{"in1": len(l1[i]) > 0, "in2": len(l2[i]) > 0, "lbl1": true, "lbl2": true}
		if binfo != nil {
			rec["in1"], rec["in2"] = binfo.b1.present[i], binfo.b2.present[i]
			rec["lbl1"], rec["lbl2"] = binfo.b1.lblok[i] || !binfo.b1.present[i], binfo.b2.lblok[i] || !binfo.b2.present[i]
		}
		for lvl, metas := range [][]chunks.Meta{l1[i], l2[i]} {
			name := []string{"c1", "c2"}[lvl]
			isHist := vt.Str(vt.Map(series[i])["kind"]) == "hist"
			var recs []any
			var ok, aligned bool
			var msg string
			if isHist {
				recs, ok, aligned, msg = decodeHistChunks(metas, base, vt.Int(vt.Map(series[i])["k"]))
			} else {
				recs, ok, aligned, msg = decodeChunks(metas, base)
			}
			rec[name] = recs
			if !ok {
				ev["ok"] = false
			}
			if !aligned {
				ev["aligned"] = false
			}
			if msg != "" {
				ev["msg"] = msg
			}
			em, emerr := emptySeq(), ""
			if len(metas) > 0 && !isHist { // the counter iterator passes histograms through unchanged
				sc, err := storeChunks(metas)
				if err != nil {
					emerr = err.Error()
				} else if it := querierIterator(sc, math.MinInt64, math.MaxInt64, storepb.Aggr_COUNTER); it == nil {
					emerr = "no series"
				} else {
					o := &okFlag{ok: true}
					em, emerr = drain(it, base, seek, o)
					if !o.ok {
						emerr = "non-integer value emitted"
					}
				}
			}
			rec[[]string{"em1", "em2"}[lvl]] = em
			rec[[]string{"err1", "err2"}[lvl]] = emerr
		}
		obs[i] = rec
	}
	ev["obs"] = obs
	return ev
}

func rawOfSeries(base int64, s any) ([]int64, []float64) {
	m := vt.Map(s)
	_, ts, vs := rawOf(vt.Case{"base": strconv.FormatInt(base, 10), "ts": m["ts"], "vs": m["vs"], "ks": m["ks"]})
	return ts, vs
}

func seriesLabels(i int) labels.Labels {
	return labels.FromStrings("__name__", "m", "i", strconv.Itoa(i), "job", "j"+strconv.Itoa(i*7%5), "zone", "z")
}

// blockInfo is what is observed of one block besides its chunks.
type blockInfo struct {
	res, mint, maxt int64
	nseries         int   // series in the index
	present         []bool // per input series: in the index
	lblok           []bool // per input series: labels identical to the source series' labels
	extra           int    // series whose labels match no input series
	metaSeries      uint64 // meta.json stats
}

func (b blockInfo) rec(base int64, o *okFlag) map[string]any {
	return map[string]any{"res": int(b.res), "mint": o.off(b.mint, base), "maxt": o.off(b.maxt, base),
		"nseries": b.nseries, "extra": b.extra, "statseries": int(b.metaSeries)}
}

type blockRun struct {
	l1, l2         [][]chunks.Meta
	src, b1, b2    blockInfo
	srcID, id1, id2 string
}

// blockPipeline: raw TSDB block -> Downsample(5 m) -> Downsample(1 h); returns per input series
// the chunk metas (with chunks loaded) of both downsampled blocks and the blocks' metadata.
func blockPipeline(base int64, series []any) (run blockRun, cleanup func(), err error) {
	root := os.Getenv("VERIF_SCRATCH")
	dir, err := os.MkdirTemp(root, "dsblk")
	if err != nil {
		return run, nil, err
	}
	var closers []io.Closer
	cleanup = func() {
		for _, c := range closers {
			c.Close()
		}
		os.RemoveAll(dir)
	}
	slogger := slog.New(slog.NewTextHandler(io.Discard, nil))
	var in []storage.Series
	for i, s := range series {
		in = append(in, inputSeries(base, i, s))
	}
	rawDir, err := tsdb.CreateBlock(in, dir, int64(1)<<42, slogger)
	if err != nil {
		return run, cleanup, fmt.Errorf("create raw block: %w", err)
	}
	meta, err := metadata.InjectThanos(log.NewNopLogger(), rawDir, metadata.Thanos{
		Labels:     map[string]string{"ext": "1"},
		Downsample: metadata.ThanosDownsample{Resolution: 0},
		Source:     metadata.TestSource,
	}, nil)
	if err != nil {
		return run, cleanup, err
	}
	run.src = blockInfo{res: meta.Thanos.Downsample.Resolution, mint: meta.MinTime, maxt: meta.MaxTime, nseries: int(meta.Stats.NumSeries), metaSeries: meta.Stats.NumSeries}
	step := func(m *metadata.Meta, bdir string, res int64) (*metadata.Meta, string, [][]chunks.Meta, blockInfo, error) {
		var bi blockInfo
		b, err := tsdb.OpenBlock(slogger, bdir, downsample.NewPool(), tsdb.DefaultPostingsDecoderFactory)
		if err != nil {
			return nil, "", nil, bi, err
		}
		id, err := downsample.Downsample(context.Background(), log.NewNopLogger(), m, b, dir, res)
		cerr := b.Close()
		if err != nil {
			return nil, "", nil, bi, fmt.Errorf("downsample to %d: %w", res, err)
		}
		if cerr != nil {
			return nil, "", nil, bi, cerr
		}
		ndir := filepath.Join(dir, id.String())
		nm, err := metadata.ReadFromDir(ndir)
		if err != nil {
			return nil, "", nil, bi, err
		}
		metas, bi, err := readBlock(ndir, len(series), &closers)
		bi.res, bi.mint, bi.maxt, bi.metaSeries = nm.Thanos.Downsample.Resolution, nm.MinTime, nm.MaxTime, nm.Stats.NumSeries
		return nm, ndir, metas, bi, err
	}
	m1, d1, l1, b1, err := step(meta, rawDir, res5m)
	if err != nil {
		return run, cleanup, err
	}
	run.l1, run.b1 = l1, b1
	_, _, l2, b2, err := step(m1, d1, res1h)
	if err != nil {
		return run, cleanup, err
	}
	run.l2, run.b2 = l2, b2
	return run, cleanup, nil
}

func inputSeries(base int64, i int, s any) storage.Series {
	if m := vt.Map(s); vt.Str(m["kind"]) == "hist" {
		ts, fhs, _ := histOf(base, m)
		out := make([]chunks.Sample, len(ts))
		for j := range ts {
			out[j] = hsample{ts[j], fhs[j]}
		}
		return storage.NewListSeries(seriesLabels(i), out)
	}
	ts, vs := rawOfSeries(base, s)
	return storage.NewListSeries(seriesLabels(i), tsdbSamples(ts, vs))
}

// readBlock returns, per series label i, the chunk metas with their chunks loaded.
func readBlock(bdir string, n int, closers *[]io.Closer) ([][]chunks.Meta, blockInfo, error) {
	bi := blockInfo{present: make([]bool, n), lblok: make([]bool, n)}
	ir, err := index.NewFileReader(filepath.Join(bdir, "index"), index.DecodePostingsRaw)
	if err != nil {
		return nil, bi, err
	}
	*closers = append(*closers, ir)
	cr, err := chunks.NewDirReader(filepath.Join(bdir, "chunks"), downsample.NewPool())
	if err != nil {
		return nil, bi, err
	}
	*closers = append(*closers, cr)
	k, v := index.AllPostingsKey()
	p, err := ir.Postings(context.Background(), k, v)
	if err != nil {
		return nil, bi, err
	}
	out := make([][]chunks.Meta, n)
	for p.Next() {
		var b labels.ScratchBuilder
		var chks []chunks.Meta
		if err := ir.Series(p.At(), &b, &chks); err != nil {
			return nil, bi, err
		}
		bi.nseries++
		i, err := strconv.Atoi(b.Labels().Get("i"))
		if err != nil || i < 0 || i >= n || bi.present[i] {
			bi.extra++
			continue
		}
		bi.present[i] = true
		bi.lblok[i] = labels.Equal(b.Labels(), seriesLabels(i))
		for j := range chks {
			c, _, err := cr.ChunkOrIterable(chks[j])
			if err != nil {
				return nil, bi, err
			}
			chks[j].Chunk = c
		}
		out[i] = chks
	}
	return out, bi, p.Err()
}
