// Package downsamplex holds the conformance harnesses of the Downsample spec module
// (properties C36, C37, C38): raw downsampling, counter preservation over one and two levels,
// re-downsampling.  Shared helpers live here.
//
// Conventions shared with spec/Downsample.tla: sample values are integers, NaN and stale
// markers travel as kind tokens ("F", "NaN", "STALE"); timestamps in the trace are offsets
// from an hour-aligned base (windows are r-aligned cells and both resolutions divide one hour,
// so window arithmetic on offsets equals window arithmetic on absolute time); every number
// fits TLC's 32-bit integers.
package downsamplex

import (
	"fmt"
	"math"
	"math/rand"
	"strconv"

	"github.com/prometheus/prometheus/model/histogram"
	"github.com/prometheus/prometheus/model/labels"
	"github.com/prometheus/prometheus/model/value"
	"github.com/prometheus/prometheus/tsdb/chunkenc"
	"github.com/prometheus/prometheus/tsdb/chunks"

	"github.com/thanos-io/thanos/pkg/compact/downsample"
	"github.com/thanos-io/thanos/pkg/query"
	"github.com/thanos-io/thanos/pkg/store/storepb"

	"verif/harness/vt"
)

const (
	res5m  = int64(300000)
	res1h  = int64(3600000)
	maxOff = int64(math.MaxInt32) // offsets and values must fit TLC integers
)

// bases are hour-aligned absolute times (ms) the offsets are added to.
var bases = []string{"0", "25200000", "1699999200000", "1728000000000"} // the last two: 2023/2024 epochs

type tsample struct {
	t int64
	v float64
}

func (s tsample) T() int64                      { return s.t }
func (s tsample) F() float64                    { return s.v }
func (s tsample) H() *histogram.Histogram       { return nil }
func (s tsample) FH() *histogram.FloatHistogram { return nil }
func (s tsample) Type() chunkenc.ValueType      { return chunkenc.ValFloat }
func (s tsample) Copy() chunks.Sample           { return s }

func floatOf(v int, k string) float64 {
	switch k {
	case "NaN":
		return math.NaN()
	case "STALE":
		return math.Float64frombits(value.StaleNaN)
	}
	return float64(v)
}

// rawOf reads the raw series of a case: absolute timestamps and float values.
func rawOf(c vt.Case) (base int64, ts []int64, vs []float64) {
	base, _ = strconv.ParseInt(vt.Str(c["base"]), 10, 64) // a string: beyond TLC's integers
	offs := vt.Ints(c["ts"])
	vals := vt.Ints(c["vs"])
	ks := vt.Strs(c["ks"])
	ts = make([]int64, len(offs))
	vs = make([]float64, len(offs))
	for i := range offs {
		ts[i] = base + int64(offs[i])
		vs[i] = floatOf(vals[i], ks[i])
	}
	return
}

func tsdbSamples(ts []int64, vs []float64) []chunks.Sample {
	out := make([]chunks.Sample, len(ts))
	for i := range ts {
		out[i] = tsample{ts[i], vs[i]}
	}
	return out
}

// iv converts an observed float to a trace integer; ok=false for NaN, infinities, fractions
// and values outside the 32-bit range (none of which a correct aggregate of small integers is).
func iv(f float64) (int, bool) {
	if math.IsNaN(f) || math.IsInf(f, 0) || f != math.Trunc(f) || math.Abs(f) > float64(maxOff) {
		return 0, false
	}
	return int(f), true
}

func off(t, base int64) (int, bool) {
	d := t - base
	if d < -maxOff || d > maxOff {
		return 0, false
	}
	return int(d), true
}

type okFlag struct{ ok bool }

func (o *okFlag) val(f float64) int {
	x, ok := iv(f)
	if !ok {
		o.ok = false
	}
	return x
}
func (o *okFlag) off(t, base int64) int {
	x, ok := off(t, base)
	if !ok {
		o.ok = false
	}
	return x
}

// expand reads all float samples of a chunk.
func expand(c chunkenc.Chunk) (ts []int64, vs []float64, err error) {
	it := c.Iterator(nil)
	for it.Next() != chunkenc.ValNone {
		t, v := it.At()
		ts = append(ts, t)
		vs = append(vs, v)
	}
	return ts, vs, it.Err()
}

func sameTs(a, b []int64) bool {
	if len(a) != len(b) {
		return false
	}
	for i := range a {
		if a[i] != b[i] {
			return false
		}
	}
	return true
}

func ints(n int) []int { return make([]int, 0, n) }

// decodeChunks turns aggregate chunk metas into trace records
// {mint, maxt, ts, cnt, sum, min, max, cts, cvs}.  ok=false when a number is not an in-range
// integer or a sub-chunk cannot be read; aligned=false when count/sum/min/max of one chunk do
// not carry the same timestamps.
func decodeChunks(metas []chunks.Meta, base int64) (out []any, ok bool, aligned bool, msg string) {
	o := &okFlag{ok: true}
	aligned = true
	out = []any{}
	for _, m := range metas {
		rec := map[string]any{"mint": o.off(m.MinTime, base), "maxt": o.off(m.MaxTime, base)}
		ac, isAggr := m.Chunk.(*downsample.AggrChunk)
		if !isAggr {
			return []any{}, false, false, fmt.Sprintf("chunk is %T, not an aggregate chunk", m.Chunk)
		}
		var cntTs []int64
		for i, name := range []string{"cnt", "sum", "min", "max"} {
			sub, err := ac.Get(downsample.AggrType(i))
			if err != nil {
				return []any{}, false, false, fmt.Sprintf("aggregate %s: %v", name, err)
			}
			ts, vs, err := expand(sub)
			if err != nil {
				return []any{}, false, false, fmt.Sprintf("aggregate %s: %v", name, err)
			}
			if i == 0 {
				cntTs = ts
				t := ints(len(ts))
				for _, x := range ts {
					t = append(t, o.off(x, base))
				}
				rec["ts"] = t
			} else if !sameTs(cntTs, ts) {
				aligned = false
			}
			v := ints(len(vs))
			for _, x := range vs {
				v = append(v, o.val(x))
			}
			rec[name] = v
		}
		cts, cvs := ints(0), ints(0)
		sub, err := ac.Get(downsample.AggrCounter)
		if err != nil {
			return []any{}, false, false, fmt.Sprintf("aggregate counter: %v", err)
		}
		ts, vs, err := expand(sub)
		if err != nil {
			return []any{}, false, false, fmt.Sprintf("aggregate counter: %v", err)
		}
		for i := range ts {
			cts = append(cts, o.off(ts[i], base))
			cvs = append(cvs, o.val(vs[i]))
		}
		rec["cts"], rec["cvs"] = cts, cvs
		out = append(out, rec)
	}
	return out, o.ok, aligned, ""
}

// storeChunks converts aggregate chunk metas to what a store gateway sends to the querier
// (pkg/store/bucket.go populateChunk with all aggregates requested).
func storeChunks(metas []chunks.Meta) ([]storepb.AggrChunk, error) {
	out := make([]storepb.AggrChunk, 0, len(metas))
	for _, m := range metas {
		ac, isAggr := m.Chunk.(*downsample.AggrChunk)
		if !isAggr {
			return nil, fmt.Errorf("chunk is %T", m.Chunk)
		}
		sc := storepb.AggrChunk{MinTime: m.MinTime, MaxTime: m.MaxTime}
		for i, dst := range []**storepb.Chunk{&sc.Count, &sc.Sum, &sc.Min, &sc.Max, &sc.Counter} {
			sub, err := ac.Get(downsample.AggrType(i))
			if err != nil {
				return nil, err
			}
			*dst = &storepb.Chunk{Type: storepb.Chunk_XOR, Data: append([]byte(nil), sub.Bytes()...)}
		}
		out = append(out, sc)
	}
	return out, nil
}

type oneSeriesSet struct {
	lset labels.Labels
	chks []storepb.AggrChunk
	done bool
}

func (s *oneSeriesSet) Next() bool {
	if s.done {
		return false
	}
	s.done = true
	return true
}
func (s *oneSeriesSet) At() (labels.Labels, []storepb.AggrChunk) { return s.lset, s.chks }
func (s *oneSeriesSet) Err() error                                { return nil }

// querierIterator opens the series the way the querier does (pkg/query/iter.go:
// promSeriesSet -> chunkSeries.Iterator) for one aggregate over [mint, maxt].
func querierIterator(chks []storepb.AggrChunk, mint, maxt int64, aggr storepb.Aggr) chunkenc.Iterator {
	set := query.NewPromSeriesSet(&oneSeriesSet{lset: labels.FromStrings("__name__", "m"), chks: chks}, mint, maxt, []storepb.Aggr{aggr}, nil)
	if !set.Next() {
		return nil
	}
	return set.At().Iterator(nil)
}

// drain reads an iterator to its end as trace arrays {ts, vs}; seek >= 0 first seeks there.
func drain(it chunkenc.Iterator, base int64, seek int64, o *okFlag) (map[string]any, string) {
	ts, vs := ints(0), ints(0)
	emit := func() {
		t, v := it.At()
		ts = append(ts, o.off(t, base))
		vs = append(vs, o.val(v))
	}
	if seek >= 0 {
		if it.Seek(seek) != chunkenc.ValNone {
			emit()
		}
	}
	for it.Next() != chunkenc.ValNone {
		emit()
	}
	e := ""
	if it.Err() != nil {
		e = it.Err().Error()
	}
	return map[string]any{"ts": ts, "vs": vs}, e
}

func emptySeq() map[string]any { return map[string]any{"ts": []int{}, "vs": []int{}} }

// ---------------------------------------------------------------------------------------------
// case generation

// concretise maps a TLC shape (cells of an abstract grid, abstract window length r) to real
// time at resolution res: a cell becomes res/r ms wide, the sample sits at its start, its end
// or anywhere inside, so that it stays in the same window and windows' first / last
// milliseconds are hit.
func concretise(rnd *rand.Rand, cells []int, r int, res int64) []int {
	unit := res / int64(r)
	out := make([]int, len(cells))
	for i, c := range cells {
		var j int64
		switch rnd.Intn(4) {
		case 0:
			j = 0
		case 1:
			j = unit - 1
		default:
			j = rnd.Int63n(unit)
		}
		out[i] = int(int64(c)*unit + j)
	}
	return out
}

// randomSeries generates a long raw series: n samples, regimes of regular scraping with jitter,
// gaps and bursts; pNaN / pStale in percent; values from gen.
func randomSeries(rnd *rand.Rand, n int, start int64, pNaN, pStale int, gen func(i int) int) (ts, vs []int, ks []string) {
	ts, vs, ks = make([]int, 0, n), make([]int, 0, n), make([]string, 0, n)
	t := start
	interval := []int64{1000, 5000, 15000, 30000, 60000, 120000, 300000, 900000}[rnd.Intn(8)]
	for i := 0; i < n; i++ {
		if i > 0 {
			switch x := rnd.Intn(100); {
			case x < 2: // change of scrape interval
				interval = []int64{1000, 5000, 15000, 30000, 60000, 120000, 300000, 900000}[rnd.Intn(8)]
				t += interval
			case x < 4: // gap
				t += interval * int64(2+rnd.Intn(200))
			case x < 6: // lands exactly on a 5m boundary, or one ms before it
				t = t - t%res5m + res5m - int64(rnd.Intn(2))
			default:
				t += interval + rnd.Int63n(interval/4+1) - interval/8
			}
			if t <= int64(ts[i-1]) {
				t = int64(ts[i-1]) + 1
			}
		}
		if t > maxOff-res1h {
			break
		}
		k, v := "F", gen(i)
		switch x := rnd.Intn(100); {
		case x < pNaN:
			k, v = "NaN", 0
		case x < pNaN+pStale:
			k, v = "STALE", 0
		}
		ts, vs, ks = append(ts, int(t)), append(vs, v), append(ks, k)
	}
	return
}
