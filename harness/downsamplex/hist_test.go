package downsamplex

import (
	"fmt"
	"math"
	"math/rand"

	"github.com/prometheus/prometheus/model/histogram"
	"github.com/prometheus/prometheus/model/value"
	"github.com/prometheus/prometheus/tsdb/chunkenc"
	"github.com/prometheus/prometheus/tsdb/chunks"

	"github.com/thanos-io/thanos/pkg/compact/downsample"

	"verif/harness/vt"
)

// Native histograms (phase 2).  A histogram travels as a vector <<count, sum, b_1..b_K>> of
// integers (spec/Downsample.tla); on the Go side it is a FloatHistogram of schema 0 whose K
// positive buckets sit in one span at offset 0, zero bucket empty.

func mkFH(vec []int, gauge bool) *histogram.FloatHistogram {
	fh := &histogram.FloatHistogram{
		Schema:          0,
		Count:           float64(vec[0]),
		Sum:             float64(vec[1]),
		PositiveSpans:   []histogram.Span{{Offset: 0, Length: uint32(len(vec) - 2)}},
		PositiveBuckets: make([]float64, len(vec)-2),
	}
	for i, b := range vec[2:] {
		fh.PositiveBuckets[i] = float64(b)
	}
	if gauge {
		fh.CounterResetHint = histogram.GaugeType
	}
	return fh
}

// histIdx0 is the bucket index the first slot of mkFH's layout gets from the iterator.
var histIdx0 = func() int {
	it := mkFH([]int{1, 0, 1}, false).PositiveBucketIterator()
	it.Next()
	return int(it.At().Index)
}()

type hsample struct {
	t  int64
	fh *histogram.FloatHistogram
}

func (s hsample) T() int64                      { return s.t }
func (s hsample) F() float64                    { return 0 }
func (s hsample) H() *histogram.Histogram       { return nil }
func (s hsample) FH() *histogram.FloatHistogram { return s.fh }
func (s hsample) Type() chunkenc.ValueType      { return chunkenc.ValFloatHistogram }
func (s hsample) Copy() chunks.Sample           { return hsample{s.t, s.fh.Copy()} }

func staleFH() *histogram.FloatHistogram {
	return &histogram.FloatHistogram{Sum: math.Float64frombits(value.StaleNaN)}
}

// histOf reads the raw histogram series of a case.
func histOf(base int64, s map[string]any) (ts []int64, fhs []*histogram.FloatHistogram, k int) {
	offs := vt.Ints(s["ts"])
	ks := vt.Strs(s["ks"])
	hv := vt.List(s["hv"])
	gauge := vt.Bool(s["gauge"])
	for i := range offs {
		ts = append(ts, base+int64(offs[i]))
		vec := vt.Ints(hv[i])
		k = len(vec) - 2
		if ks[i] == "STALE" {
			fhs = append(fhs, staleFH())
		} else {
			fhs = append(fhs, mkFH(vec, gauge))
		}
	}
	return
}

// vecOf decodes an observed histogram to <<count, sum, b_1..b_K>>; buckets outside the K slots,
// negative buckets or a zero bucket make it not-ok (nothing in the inputs could put counts there).
func vecOf(fh *histogram.FloatHistogram, k int, o *okFlag) []int {
	out := make([]int, k+2)
	out[0], out[1] = o.val(fh.Count), o.val(fh.Sum)
	if fh.ZeroCount != 0 || len(fh.NegativeBuckets) != 0 {
		o.ok = false
	}
	it := fh.PositiveBucketIterator()
	for it.Next() {
		b := it.At()
		idx := int(b.Index) - histIdx0
		if idx < 0 || idx >= k {
			if b.Count != 0 {
				o.ok = false
			}
			continue
		}
		out[idx+2] = o.val(b.Count)
	}
	return out
}

func expandFH(c chunkenc.Chunk) (ts []int64, fhs []*histogram.FloatHistogram, err error) {
	it := c.Iterator(nil)
	for vt := it.Next(); vt != chunkenc.ValNone; vt = it.Next() {
		if vt != chunkenc.ValFloatHistogram {
			return nil, nil, fmt.Errorf("unexpected value type %v in a histogram aggregate", vt)
		}
		t, fh := it.AtFloatHistogram(nil)
		ts, fhs = append(ts, t), append(fhs, fh)
	}
	return ts, fhs, it.Err()
}

// decodeHistChunks turns histogram aggregate chunk metas into trace records
// {mint, maxt, ts, cnt, hsum, hctr}.
func decodeHistChunks(metas []chunks.Meta, base int64, k int) (out []any, ok bool, aligned bool, msg string) {
	o := &okFlag{ok: true}
	aligned = true
	out = []any{}
	fail := func(f string, a ...any) ([]any, bool, bool, string) { return []any{}, false, false, fmt.Sprintf(f, a...) }
	for _, m := range metas {
		rec := map[string]any{"mint": o.off(m.MinTime, base), "maxt": o.off(m.MaxTime, base)}
		ac, isAggr := m.Chunk.(*downsample.AggrChunk)
		if !isAggr {
			return fail("chunk is %T, not an aggregate chunk", m.Chunk)
		}
		sub, err := ac.Get(downsample.AggrCount)
		if err != nil {
			return fail("aggregate count: %v", err)
		}
		cts, cvs, err := expand(sub)
		if err != nil {
			return fail("aggregate count: %v", err)
		}
		t, c := ints(len(cts)), ints(len(cts))
		for i := range cts {
			t, c = append(t, o.off(cts[i], base)), append(c, o.val(cvs[i]))
		}
		rec["ts"], rec["cnt"] = t, c
		for name, at := range map[string]downsample.AggrType{"hsum": downsample.AggrSum, "hctr": downsample.AggrCounter} {
			sub, err := ac.Get(at)
			if err != nil {
				return fail("aggregate %s: %v", name, err)
			}
			if sub.Encoding() != chunkenc.EncFloatHistogram {
				return fail("aggregate %s has encoding %v", name, sub.Encoding())
			}
			hts, fhs, err := expandFH(sub)
			if err != nil {
				return fail("aggregate %s: %v", name, err)
			}
			if !sameTs(cts, hts) {
				aligned = false
			}
			vecs := make([]any, 0, len(fhs))
			for _, fh := range fhs {
				vecs = append(vecs, vecOf(fh, k, o))
			}
			rec[name] = vecs
		}
		out = append(out, rec)
	}
	return out, o.ok, aligned, ""
}

// concretiseHist scales the model's vectors: counts and buckets by cs, sums by ss; keeps order.
func scaleVecs(hv []any, cs, ss int) []any {
	out := make([]any, len(hv))
	for i, v := range hv {
		vec := vt.Ints(v)
		for j := range vec {
			if j == 1 {
				vec[j] *= ss
			} else {
				vec[j] *= cs
			}
		}
		out[i] = vec
	}
	return out
}

// randomHistSeries: n histograms with K buckets; counter series grow bucket-wise with occasional
// resets, gauge series move freely; some stale markers.
func randomHistSeries(rnd *rand.Rand, n, k int, start int64, gauge bool, pStale int) map[string]any {
	ts, _, _ := randomSeries(rnd, n, start, 0, 0, func(int) int { return 0 })
	cur := make([]int, k)
	hv := make([]any, 0, len(ts))
	ks := make([]string, 0, len(ts))
	for range ts {
		if rnd.Intn(100) < pStale {
			hv, ks = append(hv, make([]int, k+2)), append(ks, "STALE")
			continue
		}
		switch {
		case gauge:
			for j := range cur {
				cur[j] = rnd.Intn(40)
			}
		case rnd.Intn(25) == 0: // reset
			for j := range cur {
				cur[j] = rnd.Intn(3)
			}
		default:
			for j := range cur {
				cur[j] += rnd.Intn(5)
			}
		}
		vec := make([]int, k+2)
		for j, b := range cur {
			vec[j+2] = b
			vec[0] += b
		}
		vec[1] = rnd.Intn(5000)
		hv, ks = append(hv, vec), append(ks, "H")
	}
	return map[string]any{"ts": ts, "hv": hv, "ks": ks, "gauge": gauge, "kind": "hist", "k": k}
}
