package wire

import (
	"fmt"
	"math/rand"
	"testing"

	"github.com/prometheus/prometheus/tsdb/chunkenc"

	"github.com/thanos-io/thanos/pkg/compact/downsample"

	"verif/harness/vt"
)

// C39: aggregate chunk encoding round-trips for any presence pattern.
// Cases: structural shapes from TLC (AggrChunkMC: lens[k] = 0 absent / n units present, t) filled
// with real XOR chunks of n*unit samples, plus seeded random shapes with larger sub-chunks (so
// that uvarint lengths need 2 bytes).
func TestC39(t *testing.T) {
	rnd := vt.Rand()
	gen := func(yield func(vt.Case)) {
		for _, c := range vt.TLCCases(t) {
			c["unit"] = 1
			c["cseed"] = rnd.Int63n(1 << 30)
			yield(c)
		}
		n := vt.Pick(200, 5000)
		for i := 0; i < n; i++ {
			lens := make([]int, 5)
			for k := range lens {
				if rnd.Intn(3) > 0 {
					lens[k] = 1 + rnd.Intn(4)
				}
			}
			yield(vt.Case{"lens": lens, "t": rnd.Intn(5), "unit": []int{1, 7, 40, 130}[rnd.Intn(4)], "cseed": rnd.Int63n(1 << 30)})
		}
	}
	kf := func(c vt.Case) string { return "" }
	vt.Run(t, gen, kf, func(c vt.Case) (ev vt.Event) {
		lens := vt.Ints(c["lens"])
		typ := vt.Int(c["t"])
		unit := vt.Int(c["unit"])
		cr := rand.New(rand.NewSource(vt.Int64(c["cseed"])))
		var chks [5]chunkenc.Chunk
		hexes := make([][]int, 5)
		encs := make([]int, 5)
		for k := 0; k < 5; k++ {
			hexes[k] = []int{}
			if lens[k] == 0 {
				continue
			}
			ch := chunkenc.NewXORChunk()
			app, _ := ch.Appender()
			ts := int64(cr.Intn(1000))
			for s := 0; s < lens[k]*unit; s++ {
				ts += int64(1 + cr.Intn(60000))
				app.Append(ts, float64(cr.Intn(1000)))
			}
			chks[k] = ch
			hexes[k] = bytesToInts(ch.Bytes())
			encs[k] = int(ch.Encoding())
		}
		ev = vt.Event{"chunks": hexes, "encs": encs}
		defer func() {
			if r := recover(); r != nil {
				ev["got"] = map[string]any{"kind": "panic", "msg": fmt.Sprint(r)}
			}
		}()
		ac := downsample.EncodeAggrChunk(chks)
		got, err := downsample.AggrChunk(ac.Bytes()).Get(downsample.AggrType(typ))
		switch {
		case err == downsample.ErrAggrNotExist:
			ev["got"] = map[string]any{"kind": "notexist"}
		case err != nil:
			ev["got"] = map[string]any{"kind": "error", "msg": err.Error()}
		default:
			ev["got"] = map[string]any{"kind": "chunk", "enc": int(got.Encoding()), "data": bytesToInts(got.Bytes())}
		}
		return ev
	})
}

func bytesToInts(b []byte) []int {
	out := make([]int, len(b))
	for i, x := range b {
		out[i] = int(x)
	}
	return out
}
