package wire

import (
	"fmt"
	"hash/fnv"
	"math/rand"
	"testing"

	"github.com/prometheus/prometheus/tsdb/chunkenc"

	"github.com/thanos-io/thanos/pkg/compact/downsample"

	"verif/harness/vt"
)

// concreteLen maps an abstract sub-chunk length n of the model (whose variable-length integers use
// radix `base`) to a concrete byte length with the same digit structure in radix 128: every
// non-zero digit becomes 1 or the maximal digit 127, zero digits stay zero.  So the model's
// "n = base" (first two-digit length) becomes exactly 128, "base+1" becomes 129 or 255, ...
func concreteLen(n, base int, r *rand.Rand) int {
	out, mul := 0, 1
	for pos := 0; n > 0; pos++ {
		d := n % base
		n /= base
		if d != 0 {
			c := 1
			if pos < 2 && r.Intn(2) == 0 { // keep three-digit lengths small (<= 16384+...)
				c = 127
			}
			out += c * mul
		}
		mul *= 128
	}
	return out
}

func digest(b []byte) int {
	h := fnv.New32a()
	h.Write(b)
	return int(h.Sum32() & 0x7fffffff)
}

func describe(enc int, b []byte) map[string]any {
	d := map[string]any{"enc": enc, "len": len(b), "h": digest(b), "bytes": []int{}, "full": false}
	if len(b) <= 40 {
		d["bytes"] = bytesToInts(b)
		d["full"] = true
	}
	return d
}

// C39: aggregate chunk encoding round-trips for any presence pattern.
// Cases: (a) structural shapes from TLC (AggrChunkMC: lens[k] = 0 absent / n = abstract length, t,
// base) concretised to payloads of exact byte lengths on the same side of the powers of 128 as the
// model's lengths are of the powers of its base; (b) seeded random shapes filled with real XOR
// chunks of random sample counts.
func TestC39(t *testing.T) {
	rnd := vt.Rand()
	gen := func(yield func(vt.Case)) {
		cases := vt.TLCCases(t)
		keep := vt.Pick(1200, len(cases))
		rnd.Shuffle(len(cases), func(i, j int) { cases[i], cases[j] = cases[j], cases[i] })
		for i, c := range cases {
			if i >= keep {
				break
			}
			base := vt.Int(c["base"])
			lens := vt.Ints(c["lens"])
			bytesLens := make([]int, 5)
			for k, n := range lens {
				bytesLens[k] = concreteLen(n, base, rnd)
			}
			c["mode"] = "raw"
			c["blens"] = bytesLens
			c["cseed"] = rnd.Int63n(1 << 30)
			yield(c)
		}
		n := vt.Pick(200, 5000)
		for i := 0; i < n; i++ {
			lens := make([]int, 5)
			for k := range lens {
				if rnd.Intn(3) > 0 {
					lens[k] = 1 + rnd.Intn(4)
				}
			}
			yield(vt.Case{"mode": "xor", "lens": lens, "t": rnd.Intn(5), "unit": []int{1, 7, 40, 130}[rnd.Intn(4)], "cseed": rnd.Int63n(1 << 30)})
		}
	}
	kf := func(c vt.Case) string { return "" }
	vt.Run(t, gen, kf, func(c vt.Case) (ev vt.Event) {
		lens := vt.Ints(c["lens"])
		typ := vt.Int(c["t"])
		cr := rand.New(rand.NewSource(vt.Int64(c["cseed"])))
		var chks [5]chunkenc.Chunk
		descs := make([]map[string]any, 5)
		for k := 0; k < 5; k++ {
			descs[k] = describe(0, nil)
			if lens[k] == 0 {
				continue
			}
			var ch chunkenc.Chunk
			if vt.Str(c["mode"]) == "raw" {
				// payload of an exact byte length; the aggregate chunk layer treats it as opaque
				b := make([]byte, vt.Ints(c["blens"])[k])
				cr.Read(b)
				var err error
				ch, err = chunkenc.FromData(chunkenc.EncXOR, b)
				if err != nil {
					panic(err)
				}
			} else {
				x := chunkenc.NewXORChunk()
				app, _ := x.Appender()
				ts := int64(cr.Intn(1000))
				for s := 0; s < lens[k]*vt.Int(c["unit"]); s++ {
					ts += int64(1 + cr.Intn(60000))
					app.Append(ts, float64(cr.Intn(1000)))
				}
				ch = x
			}
			chks[k] = ch
			descs[k] = describe(int(ch.Encoding()), ch.Bytes())
		}
		ev = vt.Event{"chunks": descs}
		defer func() {
			if r := recover(); r != nil {
				ev["got"] = map[string]any{"kind": "panic", "msg": fmt.Sprint(r), "enc": 0, "len": 0, "h": 0, "bytes": []int{}, "full": false}
			}
		}()
		ac := downsample.EncodeAggrChunk(chks)
		got, err := downsample.AggrChunk(ac.Bytes()).Get(downsample.AggrType(typ))
		var g map[string]any
		switch {
		case err == downsample.ErrAggrNotExist:
			g = describe(0, nil)
			g["kind"] = "notexist"
		case err != nil:
			g = describe(0, nil)
			g["kind"] = "error"
			g["msg"] = err.Error()
		default:
			g = describe(int(got.Encoding()), got.Bytes())
			g["kind"] = "chunk"
		}
		ev["got"] = g
		return ev
	})
}

func bytesToInts(b []byte) []int {
	out := make([]int, len(b))
	for i, x := range b {
		out[i] = int(x)
	}
	return out
}
