package recvwrite

import (
	"context"
	"fmt"
	"math/rand"
	"strconv"
	"strings"
	"sync"
	"sync/atomic"
	"testing"
	"time"

	"google.golang.org/grpc/codes"
	"google.golang.org/grpc/status"

	"github.com/prometheus/prometheus/model/labels"
	"github.com/prometheus/prometheus/storage"
	"github.com/prometheus/prometheus/tsdb"

	"github.com/thanos-io/thanos/pkg/receive"
	"github.com/thanos-io/thanos/pkg/store/storepb"
	"github.com/thanos-io/thanos/pkg/store/storepb/prompb"
	"github.com/thanos-io/thanos/pkg/verifhook"

	"verif/harness/vt"
)

// Shared driver of C22 and C23: one real remote-write request against a real receive.Handler whose
// peers answer each <node,replica> write with a programmed outcome, in a programmed order.
//
// Exact replay of a response order: the hook "receive.Handler.fanoutForward.next" (a blocking Gate
// at the top of fanoutForward's select loop) tells the driver that every response received so far
// has been accounted and did not end the request; the driver then lets exactly one more peer answer
// and releases the gate. The deferred hook "...fanoutForward.return" tells it that the function
// returned; the peers released up to then are exactly the ones that had stored when the handler
// decided. Peers "store" when they are released with outcome ok.

type fanoutCtl struct {
	next chan struct{}
	goOn chan struct{}
	ret  chan struct{}
}

var fctl = &fanoutCtl{next: make(chan struct{}), goOn: make(chan struct{}), ret: make(chan struct{}, 16)}

// fanoutBypass > 0: the hooks do nothing (priming requests run ungated and concurrently).
var fanoutBypass atomic.Int32

// diagnostics (pacing only)
var primeTimeouts, primeNanos, retries, skipped, idleFires, loopNanos, httpNanos, slowRuns atomic.Int64

func installFanoutHooks() func() {
	verifhook.SetGate(func(name string, kv ...any) {
		if name == "receive.Handler.fanoutForward.next" && fanoutBypass.Load() == 0 {
			fctl.next <- struct{}{}
			<-fctl.goOn
		}
	})
	verifhook.SetSink(func(name string, kv ...any) {
		if name == "receive.Handler.fanoutForward.return" && fanoutBypass.Load() == 0 {
			fctl.ret <- struct{}{}
		}
	})
	return func() { verifhook.SetGate(nil); verifhook.SetSink(nil) }
}

type erSpec struct {
	node, replica int
	series        []int
}

type fanoutRun struct {
	mu        sync.Mutex
	runID     string
	ers       []erSpec
	outs      []string
	idx       map[[2]int]int // (node, replica) -> er index
	rel       []chan struct{}
	stored    []map[int]bool // er index -> series the replica stored (under the series' own tenant)
	tenants   []string       // expected tenant per series (index s-1)
	localIdx  int            // index of the write that goes to the receiver's own storage, or -1
	arrived   []bool
	placement string // non-empty: the handler sent something the case did not expect
}

func outcomeErr(o string) error {
	switch o {
	case "ok":
		return nil
	case "conflict":
		return status.Error(codes.AlreadyExists, "verif: conflict")
	case "unavailable":
		return status.Error(codes.Unavailable, "verif: unavailable")
	default:
		return status.Error(codes.Internal, "verif: other error")
	}
}

func (fr *fanoutRun) fn(ctx context.Context, node int, req *storepb.WriteRequest) error {
	var got []int
	type st struct {
		s      int
		tenant string
	}
	var items []st
	run := ""
	for _, td := range req.TimeseriesTenantData {
		for i := range td.Timeseries {
			if labelOf(&td.Timeseries[i], "vrun") != fr.runID {
				continue // not a series of the judged request (straggler, or stale data the handler carried over)
			}
			run = fr.runID
			s, _ := strconv.Atoi(labelOf(&td.Timeseries[i], "vser"))
			got = append(got, s)
			items = append(items, st{s, td.Tenant})
		}
	}
	if run != fr.runID {
		return nil // nothing of the judged request in this write
	}
	fr.mu.Lock()
	i, ok := fr.idx[[2]int{node, int(req.Replica) - 1}]
	if !ok {
		fr.placement = fmt.Sprintf("unexpected write node=%d replica=%d series=%v", node, req.Replica-1, got)
		fr.mu.Unlock()
		return nil
	}
	sortInts(got)
	if fmt.Sprint(got) != fmt.Sprint(fr.ers[i].series) {
		fr.placement = fmt.Sprintf("write node=%d replica=%d carries series %v, expected %v", node, req.Replica-1, got, fr.ers[i].series)
	}
	if i == fr.localIdx {
		fr.placement = fmt.Sprintf("write node=%d replica=%d was sent over gRPC although the node is the receiver itself", node, req.Replica-1)
	}
	fr.arrived[i] = true
	ch := fr.rel[i]
	fr.mu.Unlock()
	if isLocal(fr.outs[i]) {
		// the handler was supposed to have no connection to this peer (back-off window already over):
		// the run does not realise its case and is repeated; answer at once so that it ends quickly
		return status.Error(codes.Unavailable, "verif: write reached a peer that should have been refused")
	}
	select {
	case <-ch:
	case <-ctx.Done():
		return status.Error(codes.Canceled, "verif: not released")
	}
	err := outcomeErr(fr.outs[i])
	if err == nil {
		fr.mu.Lock()
		for _, it := range items {
			if it.s >= 1 && it.s <= len(fr.tenants) && fr.tenants[it.s-1] == it.tenant {
				fr.stored[i][it.s] = true // stored under the series' own tenant
			}
		}
		fr.mu.Unlock()
	}
	return err
}

// ---- the receiver's own storage (RouterIngestor with the receiver as one of the replicas) ----

// localStore is the TenantStorage behind the handler's Writer. Tenant names carry the run id
// ("t<run>" / "t<run>x<k>"), so a straggling local write of an earlier run is recognised.
type localStore struct{ cur atomic.Pointer[fanoutRun] }

func (ls *localStore) TenantAppendable(tenant string) (receive.Appendable, error) {
	return &localAppendable{ls: ls, tenant: tenant}, nil
}

type localAppendable struct {
	ls     *localStore
	tenant string
}

func runOfTenant(tenant string) string {
	t := strings.TrimPrefix(tenant, "t")
	if k := strings.IndexByte(t, 'x'); k >= 0 {
		t = t[:k]
	}
	return t
}

func (la *localAppendable) Appender(ctx context.Context) (storage.Appender, error) {
	fr := la.ls.cur.Load()
	if fr == nil || runOfTenant(la.tenant) != fr.runID {
		return &localAppender{}, nil // straggler: swallow
	}
	fr.mu.Lock()
	i := fr.localIdx
	if i < 0 {
		fr.placement = "a write went to the local storage although the case has no local replica"
		fr.mu.Unlock()
		return &localAppender{}, nil
	}
	fr.arrived[i] = true
	ch := fr.rel[i]
	fr.mu.Unlock()
	select {
	case <-ch: // a write with several tenants asks once per tenant: only the first call waits
	case <-ctx.Done():
		return nil, ctx.Err()
	}
	switch fr.outs[i] {
	case "notready":
		return nil, tsdb.ErrNotReady
	case "ok":
		return &localAppender{fr: fr, er: i, tenant: la.tenant}, nil
	case "conflict":
		return &localAppender{fr: fr, er: i, tenant: la.tenant, conflict: true}, nil
	default:
		return nil, fmt.Errorf("verif: local storage failure")
	}
}

// localAppender records what the Writer appends; with conflict every sample is out of order.
type localAppender struct {
	storage.Appender // nil: the Writer only calls the methods below
	fr               *fanoutRun
	er               int
	tenant           string
	conflict         bool
	pending          []int
}

func (a *localAppender) GetRef(l labels.Labels, _ uint64) (storage.SeriesRef, labels.Labels) {
	return 0, l
}

func (a *localAppender) Append(_ storage.SeriesRef, l labels.Labels, _ int64, _ float64) (storage.SeriesRef, error) {
	if a.conflict {
		return 0, storage.ErrOutOfOrderSample
	}
	if a.fr != nil && l.Get("vrun") != a.fr.runID {
		return 1, nil // not a series of the judged request
	}
	s, _ := strconv.Atoi(l.Get("vser"))
	a.pending = append(a.pending, s)
	return 1, nil
}

func (a *localAppender) Commit() error {
	if a.fr == nil {
		return nil
	}
	a.fr.mu.Lock()
	defer a.fr.mu.Unlock()
	for _, s := range a.pending {
		ok := false
		for _, x := range a.fr.ers[a.er].series {
			if x == s {
				ok = true
			}
		}
		if !ok {
			a.fr.placement = fmt.Sprintf("local write carries series %d, expected %v", s, a.fr.ers[a.er].series)
		}
		if s >= 1 && s <= len(a.fr.tenants) && a.fr.tenants[s-1] == a.tenant {
			a.fr.stored[a.er][s] = true
		}
	}
	return nil
}

func (a *localAppender) Rollback() error { return nil }

func sortInts(s []int) {
	for i := 1; i < len(s); i++ {
		for j := i; j > 0 && s[j] < s[j-1]; j-- {
			s[j], s[j-1] = s[j-1], s[j]
		}
	}
}

type fanoutDriver struct {
	t        *testing.T
	envs     map[string]*env
	runNo    int
	deadAddr string
	store    *localStore
}

func newFanoutDriver(t *testing.T) *fanoutDriver {
	return &fanoutDriver{t: t, envs: map[string]*env{}, store: &localStore{}}
}

func (d *fanoutDriver) close() {
	d.t.Logf("fan-out driver: %d runs, %d retried, priming %.1fs, %d primer barrier timeouts", d.runNo, retries.Load(),
		float64(primeNanos.Load())/1e9, primeTimeouts.Load())
	d.t.Logf("fan-out driver: idle fires %d, loop %.1fs, http wait %.1fs, slow runs %d", idleFires.Load(), float64(loopNanos.Load())/1e9, float64(httpNanos.Load())/1e9, slowRuns.Load())
	for _, e := range d.envs {
		setPeerFunc(e.peers, nil)
		e.close()
	}
}

func (d *fanoutDriver) env(rf, nn int, mode string, backoff bool, local int, split bool) *env {
	k := fmt.Sprintf("%d/%d/%s/%v/%d/%v", rf, nn, mode, backoff, local, split)
	if e, ok := d.envs[k]; ok {
		return e
	}
	m := receive.RouterOnly
	if mode == "routeringestor" {
		m = receive.RouterIngestor
	}
	o := envOpts{nodes: nn, rf: rf, mode: m, forwardTimeout: 30 * time.Second, localNode: local + 1, storage: d.store}
	if split {
		o.splitLabel = "vtenant"
	}
	if backoff {
		o.workers = 64           // room for every primer write of every replica on one node
		o.maxBackoff = time.Hour // peers that failed stay refused for min(100ms * 2^failures, 1h), jittered
	}
	e := newEnv(d.t, o)
	d.envs[k] = e
	return e
}

// isLocal: the failure is produced by the handler itself, before any RPC.
//
//	"noconn": the peer is in its back-off window after earlier failures (getConnection refuses it)
//	"nodial": the peer's address cannot be dialled (grpc.NewClient fails)
func isLocal(o string) bool { return o == "noconn" || o == "nodial" }

// prime makes the handler's peer group put the given nodes into back-off: `primers` concurrent
// ungated requests whose writes to those nodes are answered Unavailable (all at once, so every one
// of them reaches the peer and counts as a failure: window = jitter(100ms * 2^failures)).
const primers = 8

func (d *fanoutDriver) prime(e *env, down map[int]bool, runID string, nn int) {
	t0 := time.Now()
	defer func() { primeNanos.Add(int64(time.Since(t0))) }()
	fanoutBypass.Add(1)
	defer fanoutBypass.Add(-1)
	var mu sync.Mutex
	arrivedAt := map[int]int{}
	all := make(chan struct{})
	var once sync.Once
	setPeerFunc(e.peers, func(ctx context.Context, node int, req *storepb.WriteRequest) error {
		if !down[node] {
			return nil
		}
		own := false
		for _, td := range req.TimeseriesTenantData {
			for i := range td.Timeseries {
				if labelOf(&td.Timeseries[i], "vrun") != "p"+runID {
					return nil
				}
				if labelOf(&td.Timeseries[i], "vstart") == strconv.Itoa(node) {
					own = true
				}
			}
		}
		if own {
			mu.Lock()
			arrivedAt[node]++
			full := true
			for n := range down {
				if arrivedAt[n] < primers {
					full = false
				}
			}
			mu.Unlock()
			if full {
				once.Do(func() { close(all) })
			}
		}
		// every write to a node that is to go down waits until all of them are there: an early
		// failure would already refuse the later primers
		select {
		case <-all:
		case <-time.After(300 * time.Millisecond):
			if primeTimeouts.Add(1) <= 3 {
				mu.Lock()
				d.t.Logf("primer barrier timeout: node %d own=%v down=%v arrived=%v", node, own, down, arrivedAt)
				mu.Unlock()
			}
		case <-ctx.Done():
		}
		return status.Error(codes.Unavailable, "verif: primer")
	})
	var tss []prompb.TimeSeries
	k := 0
	for n := 0; n < nn; n++ {
		if down[n] {
			k++
			tss = append(tss, series(map[string]string{"__name__": "verif_primer", "vser": strconv.Itoa(k),
				"vstart": strconv.Itoa(n), "vrun": "p" + runID}, 1700000000000, 1))
		}
	}
	body := v1Body(d.t, tss)
	hdr := map[string]string{"Content-Type": "application/x-protobuf", "Content-Encoding": "snappy"}
	var wg sync.WaitGroup
	for i := 0; i < primers; i++ {
		wg.Add(1)
		go func() {
			defer wg.Done()
			cl := newClient()
			_, _, _ = post(context.Background(), cl, e.url+"/api/v1/receive", body, hdr)
			cl.CloseIdleConnections()
		}()
	}
	wg.Wait()
	time.Sleep(time.Millisecond) // the completion callbacks (which mark the peers) run right after the answers
}

// rejectedBefore is the history step "the previous requests on this handler were rejected while their
// series were being distributed": the same series as the judged request (same tenant, same placement)
// followed by one more series that cannot be placed - an invalid split-tenant label value, or a series
// no hashring handles. Nothing of these requests may influence the judged one. Several are sent so that
// whatever the handler keeps per request (pooled scratch maps, per P) has seen one.
func (d *fanoutDriver) rejectedBefore(e *env, kind, baseTenant, runID string, starts, tenantIdx []int, tenants []string) {
	fanoutBypass.Add(1)
	defer fanoutBypass.Add(-1)
	var tss []prompb.TimeSeries
	for s := 1; s <= len(starts); s++ {
		lb := map[string]string{"__name__": "verif_fanout", "vser": strconv.Itoa(s), "vstart": strconv.Itoa(starts[s-1]), "vrun": "r" + runID}
		if tenantIdx[s-1] > 0 {
			lb["vtenant"] = tenants[s-1]
		}
		tss = append(tss, series(lb, 1700000000000, float64(s)))
	}
	bad := map[string]string{"__name__": "verif_fanout", "vser": strconv.Itoa(len(starts) + 1), "vstart": "0", "vrun": "r" + runID}
	if kind == "badtenant" {
		bad["vtenant"] = "../evil"
	} else {
		bad["vfail"] = "1"
	}
	tss = append(tss, series(bad, 1700000000000, 0))
	body := v1Body(d.t, tss)
	hdr := map[string]string{"Content-Type": "application/x-protobuf", "Content-Encoding": "snappy", "THANOS-TENANT": baseTenant}
	for i := 0; i < 6; i++ {
		cl := newClient()
		st, _, err := post(context.Background(), cl, e.url+"/api/v1/receive", body, hdr)
		cl.CloseIdleConnections()
		if err == nil && st >= 200 && st <= 299 {
			d.t.Fatalf("fan-out driver: the request that should be rejected in distribution was accepted (%s)", kind)
		}
	}
}

// runOrder executes the case once with the given response order (1-based er indices) and retries
// when the environment did not behave as the case demands (a back-off window that had already
// expired, a straggler callback of an earlier run that put a healthy peer into back-off).
func (d *fanoutDriver) runOrder(c vt.Case, ers []erSpec, outs []string, order []int) vt.Event {
	var ev vt.Event
	for attempt := 0; attempt < 6; attempt++ {
		var valid bool
		ev, valid = d.runOnce(c, ers, outs, order)
		if valid {
			ev["attempts"] = attempt + 1
			return ev
		}
		retries.Add(1)
	}
	// The environment could not be brought into the state the case demands. That is not an
	// observation about the property: the case is skipped (no trace line), never a harness failure,
	// so that the other cases of the run are still judged.
	skipped.Add(1)
	d.t.Logf("fan-out driver: skipped a case whose peer states could not be established in 6 attempts")
	return nil
}

func (d *fanoutDriver) runOnce(c vt.Case, ers []erSpec, outs []string, order []int) (vt.Event, bool) {
	rf, nn, rep := vt.Int(c["rf"]), vt.Int(c["nn"]), vt.Int(c["rep"])
	nser := len(vt.List(c["starts"]))
	starts := vt.Ints(c["starts"])
	down, undial := map[int]bool{}, map[int]bool{}
	nlocal := 0
	for i, er := range ers {
		switch outs[i] {
		case "noconn":
			down[er.node] = true
			nlocal++
		case "nodial":
			undial[er.node] = true
			nlocal++
		}
	}
	for i, er := range ers {
		if (down[er.node] && outs[i] != "noconn") || (undial[er.node] && outs[i] != "nodial") {
			d.t.Fatalf("fan-out driver: case gives node %d both a local failure and another outcome: %v", er.node, c)
		}
	}
	// local replica: node `local` is the receiver itself; tenants[s-1] = k: 0 = the request's tenant
	// (header), k >= 1 = tenant split off by the series label vtenant
	local := -1
	if v, ok := c["local"]; ok {
		local = vt.Int(v)
	}
	tenantIdx := make([]int, nser)
	split := false
	if v, ok := c["tenants"]; ok {
		for i, k := range vt.Ints(v) {
			tenantIdx[i] = k
			split = split || k > 0
		}
	}
	if local >= 0 && (down[local] || undial[local]) {
		d.t.Fatalf("fan-out driver: the local node cannot be down: %v", c)
	}
	if vt.Str(c["pre"]) == "badtenant" {
		split = true // the history step needs the tenant-split label to be configured
	}
	e := d.env(rf, nn, vt.Str(c["mode"]), len(down) > 0, local, split)
	dead := vt.Bool(c["dead"]) // back-off nodes are really dead: nothing listens at their address
	eps := e.eps
	if len(undial) > 0 || (dead && len(down) > 0) {
		eps = append([]receive.Endpoint(nil), e.eps...)
		for n := range undial {
			eps[n] = receive.Endpoint{Address: fmt.Sprintf("verif-bad-%%zz-%d:10901", n)} // invalid URL escape: grpc.NewClient fails
		}
		if dead {
			if d.deadAddr == "" {
				d.deadAddr = freeAddr(d.t)
			}
			for n := range down {
				eps[n] = receive.Endpoint{Address: d.deadAddr, AZ: strconv.Itoa(n)}
			}
		}
	}
	e.h.Hashring(posHashring{eps: eps}) // keeps connections of unchanged nodes, forgets peer back-off state
	d.runNo++
	fr := &fanoutRun{runID: strconv.Itoa(d.runNo), ers: ers, outs: outs, idx: map[[2]int]int{},
		rel: make([]chan struct{}, len(ers)), stored: make([]map[int]bool, len(ers)), arrived: make([]bool, len(ers)),
		tenants: make([]string, nser), localIdx: -1}
	baseTenant := "t" + fr.runID
	for s := range fr.tenants {
		fr.tenants[s] = baseTenant
		if tenantIdx[s] > 0 {
			fr.tenants[s] = baseTenant + "x" + strconv.Itoa(tenantIdx[s])
		}
	}
	for i, er := range ers {
		fr.idx[[2]int{er.node, er.replica}] = i
		fr.rel[i] = make(chan struct{})
		fr.stored[i] = map[int]bool{}
		if er.node == local {
			if fr.localIdx >= 0 {
				d.t.Fatalf("fan-out driver: two writes go to the local node: %v", c)
			}
			fr.localIdx = i
		}
	}
	d.store.cur.Store(fr)
	if len(down) > 0 {
		d.prime(e, down, fr.runID, nn) // earlier requests fail on these nodes => back-off for this one
	}
	if pre := vt.Str(c["pre"]); pre == "badtenant" || pre == "noring" {
		d.rejectedBefore(e, pre, baseTenant, fr.runID, starts, tenantIdx, fr.tenants)
	}
	setPeerFunc(e.peers, fr.fn)
	// drain stale hook signals (none expected)
	for len(fctl.ret) > 0 {
		<-fctl.ret
	}
	tss := make([]prompb.TimeSeries, 0, nser)
	for s := 1; s <= nser; s++ {
		lb := map[string]string{"__name__": "verif_fanout", "vser": strconv.Itoa(s),
			"vstart": strconv.Itoa(starts[s-1]), "vrun": fr.runID}
		if tenantIdx[s-1] > 0 {
			lb["vtenant"] = fr.tenants[s-1]
		}
		tss = append(tss, series(lb, 1700000000000+int64(d.runNo), float64(s)))
	}
	hdr := map[string]string{"Content-Type": "application/x-protobuf", "Content-Encoding": "snappy", "THANOS-TENANT": baseTenant}
	if rep > 0 {
		hdr[receive.DefaultReplicaHeader] = strconv.Itoa(rep)
	}
	type httpRes struct {
		status int
		body   string
		err    error
	}
	done := make(chan httpRes, 1)
	go func() {
		cl := newClient()
		st, body, err := post(context.Background(), cl, e.url+"/api/v1/receive", v1Body(d.t, tss), hdr)
		cl.CloseIdleConnections()
		done <- httpRes{st, body, err}
	}()
	// Local failures are answered by the handler itself while it sends the writes, i.e. before any
	// peer is let through: effective order = local failures first, then the listed order.
	relOrder, effective := []int{}, []int{}
	for i := range ers {
		if isLocal(outs[i]) {
			effective = append(effective, i+1)
		}
	}
	for _, o := range order {
		if !isLocal(outs[o-1]) {
			relOrder = append(relOrder, o)
			effective = append(effective, o)
		}
	}
	released := 0
	releasedSet := make([]bool, len(ers))
	release := func(i int) {
		if !releasedSet[i] {
			releasedSet[i] = true
			close(fr.rel[i])
		}
	}
	releaseNext := func() {
		if released < len(relOrder) {
			release(relOrder[released] - 1)
			released++
		}
	}
	var res httpRes
	haveRes := false
	returned := false
	deadline := time.After(60 * time.Second)
	localsLeft := nlocal
	tLoop := time.Now()
	var idle <-chan time.Time // armed while the handler waits for a local failure we expect it to have queued
loop:
	for {
		select {
		case <-fctl.next:
			idle = nil
			if localsLeft > 0 {
				localsLeft-- // let the handler account one locally produced failure
				idle = time.After(500 * time.Millisecond)
			} else {
				releaseNext()
			}
			fctl.goOn <- struct{}{}
		case <-idle:
			// no local failure showed up (the handler did not queue one): go on with the peers
			idleFires.Add(1)
			idle = nil
			localsLeft = 0
			releaseNext()
		case <-fctl.ret:
			returned = true
			break loop
		case res = <-done:
			haveRes = true
			break loop
		case <-deadline:
			d.t.Fatalf("fan-out driver: no progress (case %v order %v, released %d)", c, order, released)
		}
	}
	loopNanos.Add(int64(time.Since(tLoop)))
	if time.Since(tLoop) > 200*time.Millisecond {
		slowRuns.Add(1)
		if slowRuns.Load() <= 5 {
			d.t.Logf("slow run %v: outs=%v order=%v released=%d localsLeft=%d", time.Since(tLoop), outs, order, released, localsLeft)
		}
	}
	tHTTP := time.Now()
	// what the peers had stored when fanoutForward decided
	fr.mu.Lock()
	storedAt := make([]int, nser)
	for i := range ers {
		for s := range fr.stored[i] {
			storedAt[s-1]++
		}
	}
	placement := fr.placement
	fr.mu.Unlock()
	if !haveRes {
		select {
		case res = <-done:
		case <-time.After(60 * time.Second):
			d.t.Fatalf("fan-out driver: no HTTP response (case %v order %v)", c, order)
		}
	}
	httpNanos.Add(int64(time.Since(tHTTP)))
	for i := range ers {
		release(i)
	}
	if placement != "" {
		d.t.Fatalf("fan-out driver: placement differs from the case: %s (case %v)", placement, c)
	}
	// did the environment behave as the case says?  A write with a local failure must not have
	// reached a peer; a write that was let through before the decision must have reached its peer.
	valid := true
	fr.mu.Lock()
	for i := range ers {
		if isLocal(outs[i]) && fr.arrived[i] {
			valid = false
		}
	}
	for k := 0; k < released; k++ {
		if !fr.arrived[relOrder[k]-1] {
			valid = false
		}
	}
	fr.mu.Unlock()
	if len(down) > 0 {
		time.Sleep(2 * time.Millisecond) // let the completion callbacks of this run mark/unmark peers before the next reset
	}
	st := res.status
	if res.err != nil {
		st = 0
	}
	return vt.Event{"order": effective, "status": st, "stored": storedAt, "released": released, "hooked": returned}, valid
}

func parseErs(c vt.Case) ([]erSpec, []string) {
	var ers []erSpec
	for _, x := range vt.List(c["ers"]) {
		m := vt.Map(x)
		ers = append(ers, erSpec{node: vt.Int(m["node"]), replica: vt.Int(m["replica"]), series: vt.Ints(m["series"])})
	}
	return ers, vt.Strs(c["outs"])
}

// runFanoutCase executes every listed order of the case and returns the trace line's fields.
func (d *fanoutDriver) runFanoutCase(c vt.Case) vt.Event {
	ers, outs := parseErs(c)
	runs := []any{}
	seen := map[string]bool{}
	for _, o := range vt.List(c["orders"]) {
		ord := vt.Ints(o)
		// local failures always come first, whatever the listed order says: skip orders that
		// differ only in the position of local failures
		var key []int
		for _, x := range ord {
			if !isLocal(outs[x-1]) {
				key = append(key, x)
			}
		}
		if k := fmt.Sprint(key); seen[k] {
			continue
		} else {
			seen[k] = true
		}
		if ev := d.runOrder(c, ers, outs, ord); ev != nil {
			runs = append(runs, ev)
		}
	}
	if len(runs) == 0 {
		return nil // every order was skipped: no observation for this case
	}
	return vt.Event{"runs": runs}
}

// ---- case construction on the harness side (random concrete cases) ----

// ersFor computes the <node,replica> writes of a request under the positional ring.
func ersFor(rf, nn, rep int, starts []int) []map[string]any {
	type key [2]int
	idx := map[key]int{}
	var out []map[string]any
	reps := []int{}
	if rep == 0 {
		for r := 0; r < rf; r++ {
			reps = append(reps, r)
		}
	} else {
		reps = []int{rep - 1}
	}
	for s, st := range starts {
		for _, r := range reps {
			k := key{(st + r) % nn, r}
			i, ok := idx[k]
			if !ok {
				i = len(out)
				idx[k] = i
				out = append(out, map[string]any{"node": k[0], "replica": k[1], "series": []int{}})
			}
			out[i]["series"] = append(out[i]["series"].([]int), s+1)
		}
	}
	return out
}

func randomFanoutCase(rnd *rand.Rand, outcomes []string, maxRF, norders int, locals bool) vt.Case {
	nser := 1 + rnd.Intn(4)
	rf := 1 + rnd.Intn(maxRF)
	nn := rf + rnd.Intn(3)
	if nser == 1 {
		nn = rf
	}
	rep := 0
	if rnd.Intn(8) == 0 {
		rep = 1 + rnd.Intn(rf)
	}
	starts := make([]int, nser)
	for i := range starts {
		starts[i] = rnd.Intn(nn)
	}
	ers := ersFor(rf, nn, rep, starts)
	outs := make([]string, len(ers))
	// bias: mostly ok with a few faults, or uniformly random
	uniform := rnd.Intn(2) == 0
	for i := range outs {
		if uniform || rnd.Intn(3) == 0 {
			outs[i] = outcomes[rnd.Intn(len(outcomes))]
		} else {
			outs[i] = "ok"
		}
	}
	dead := false
	if locals && rnd.Intn(2) == 0 {
		// node-level failures produced by the handler itself: peers in back-off / undiallable peers
		for k := 1 + rnd.Intn(2); k > 0; k-- {
			n := rnd.Intn(nn)
			kind := []string{"noconn", "noconn", "nodial"}[rnd.Intn(3)]
			for i, er := range ers {
				if er["node"].(int) == n {
					outs[i] = kind
				}
			}
		}
		dead = rnd.Intn(4) == 0
	}
	// the receiver itself as one of the replicas: a node that gets exactly one write and is not down
	local := -1
	if rnd.Intn(3) == 0 {
		perNode := map[int]int{}
		for _, er := range ers {
			perNode[er["node"].(int)]++
		}
		var cand []int
		for i, er := range ers {
			if perNode[er["node"].(int)] == 1 && !isLocal(outs[i]) {
				cand = append(cand, i)
			}
		}
		if len(cand) > 0 {
			i := cand[rnd.Intn(len(cand))]
			local = ers[i]["node"].(int)
			if outs[i] == "unavailable" || rnd.Intn(4) == 0 {
				outs[i] = []string{"notready", "conflict", "other", "ok"}[rnd.Intn(4)]
			}
		}
	}
	// tenant split: some series carry the split label and go to their own tenant
	tenants := make([]int, nser)
	if rnd.Intn(3) == 0 {
		for i := range tenants {
			tenants[i] = rnd.Intn(3)
		}
	}
	orders := make([][]int, 0, norders)
	for k := 0; k < norders; k++ {
		p := rnd.Perm(len(ers))
		for i := range p {
			p[i]++
		}
		orders = append(orders, p)
	}
	mode := []string{"router", "routeringestor"}[rnd.Intn(2)]
	if rep > 0 {
		mode = "routeringestor"
	}
	return vt.Case{"rf": rf, "nn": nn, "starts": starts, "rep": rep, "ers": ers, "outs": outs, "orders": orders, "mode": mode, "dead": dead,
		"local": local, "tenants": tenants, "pre": []string{"none", "none", "badtenant", "noring"}[rnd.Intn(4)]}
}

// dialFailureCases: one series, rf 1..maxRF, every multiset over ok/conflict/unavailable/nodial with at
// least one undiallable peer, every order of the remaining answers.
func dialFailureCases(maxRF int) []vt.Case {
	alphabet := []string{"ok", "conflict", "unavailable", "nodial"}
	var out []vt.Case
	var rec func(rf int, outs []string, from int)
	rec = func(rf int, outs []string, from int) {
		if len(outs) == rf {
			has := false
			var rest []int
			for i, o := range outs {
				if o == "nodial" {
					has = true
				} else {
					rest = append(rest, i+1)
				}
			}
			if !has {
				return
			}
			var orders [][]int
			var perm func(cur, left []int)
			perm = func(cur, left []int) {
				if len(left) == 0 {
					orders = append(orders, append([]int{}, cur...))
					return
				}
				for i := range left {
					nl := append(append([]int(nil), left[:i]...), left[i+1:]...)
					perm(append(cur, left[i]), nl)
				}
			}
			perm(nil, rest)
			ers := ersFor(rf, rf, 0, []int{0})
			out = append(out, vt.Case{"rf": rf, "nn": rf, "starts": []int{0}, "rep": 0, "ers": ers,
				"outs": append([]string(nil), outs...), "orders": orders, "mode": "router", "dead": false})
			return
		}
		for k := from; k < len(alphabet); k++ {
			rec(rf, append(outs, alphabet[k]), k)
		}
	}
	for rf := 1; rf <= maxRF; rf++ {
		rec(rf, nil, 0)
	}
	return out
}

// fanoutGen yields the TLC cases (with a seeded choice of receiver mode) and then n random ones.
func fanoutGen(t *testing.T, outcomes []string, maxRF, n, norders int, locals bool) func(yield func(vt.Case)) {
	return func(yield func(vt.Case)) {
		rnd := vt.Rand()
		for _, c := range vt.TLCCases(t) {
			c["mode"] = []string{"router", "routeringestor"}[rnd.Intn(2)]
			if vt.Int(c["rep"]) > 0 {
				c["mode"] = "routeringestor" // RouterOnly ignores the replica header by design
			}
			c["pre"] = []string{"none", "none", "badtenant", "noring"}[rnd.Intn(4)] // history before the judged request
			yield(c)
		}
		if locals {
			for _, c := range dialFailureCases(vt.Pick(3, 4)) {
				yield(c)
			}
		}
		for i := 0; i < n; i++ {
			yield(randomFanoutCase(rnd, outcomes, maxRF, norders, locals))
		}
	}
}
