package recvwrite

import (
	"context"
	"fmt"
	"math/rand"
	"strconv"
	"sync"
	"testing"
	"time"

	"google.golang.org/grpc/codes"
	"google.golang.org/grpc/status"

	"github.com/thanos-io/thanos/pkg/receive"
	"github.com/thanos-io/thanos/pkg/store/storepb"
	"github.com/thanos-io/thanos/pkg/store/storepb/prompb"
	"github.com/thanos-io/thanos/pkg/verifhook"

	"verif/harness/vt"
)

// Shared driver of C22 and C23: one real remote-write request against a real receive.Handler whose
// peers answer each <node,replica> write with a programmed outcome, in a programmed order.
//
// Exact replay of a response order: the hook "receive.Handler.fanoutForward.next" (a blocking Gate
// at the top of fanoutForward's select loop) tells the driver that every response received so far
// has been accounted and did not end the request; the driver then lets exactly one more peer answer
// and releases the gate. The deferred hook "...fanoutForward.return" tells it that the function
// returned; the peers released up to then are exactly the ones that had stored when the handler
// decided. Peers "store" when they are released with outcome ok.

type fanoutCtl struct {
	next chan struct{}
	goOn chan struct{}
	ret  chan struct{}
}

var fctl = &fanoutCtl{next: make(chan struct{}), goOn: make(chan struct{}), ret: make(chan struct{}, 16)}

func installFanoutHooks() func() {
	verifhook.SetGate(func(name string, kv ...any) {
		if name == "receive.Handler.fanoutForward.next" {
			fctl.next <- struct{}{}
			<-fctl.goOn
		}
	})
	verifhook.SetSink(func(name string, kv ...any) {
		if name == "receive.Handler.fanoutForward.return" {
			fctl.ret <- struct{}{}
		}
	})
	return func() { verifhook.SetGate(nil); verifhook.SetSink(nil) }
}

type erSpec struct {
	node, replica int
	series        []int
}

type fanoutRun struct {
	mu        sync.Mutex
	runID     string
	ers       []erSpec
	outs      []string
	idx       map[[2]int]int // (node, replica) -> er index
	rel       []chan struct{}
	stored    []bool // er index -> peer stored the batch
	arrived   []bool
	placement string // non-empty: the handler sent something the case did not expect
}

func outcomeErr(o string) error {
	switch o {
	case "ok":
		return nil
	case "conflict":
		return status.Error(codes.AlreadyExists, "verif: conflict")
	case "unavailable":
		return status.Error(codes.Unavailable, "verif: unavailable")
	default:
		return status.Error(codes.Internal, "verif: other error")
	}
}

func (fr *fanoutRun) fn(ctx context.Context, node int, req *storepb.WriteRequest) error {
	var got []int
	run := ""
	for _, td := range req.TimeseriesTenantData {
		for i := range td.Timeseries {
			run = labelOf(&td.Timeseries[i], "vrun")
			s, _ := strconv.Atoi(labelOf(&td.Timeseries[i], "vser"))
			got = append(got, s)
		}
	}
	if run != fr.runID {
		return nil // straggler of an earlier run
	}
	fr.mu.Lock()
	i, ok := fr.idx[[2]int{node, int(req.Replica) - 1}]
	if !ok {
		fr.placement = fmt.Sprintf("unexpected write node=%d replica=%d series=%v", node, req.Replica-1, got)
		fr.mu.Unlock()
		return nil
	}
	sortInts(got)
	if fmt.Sprint(got) != fmt.Sprint(fr.ers[i].series) {
		fr.placement = fmt.Sprintf("write node=%d replica=%d carries series %v, expected %v", node, req.Replica-1, got, fr.ers[i].series)
	}
	fr.arrived[i] = true
	ch := fr.rel[i]
	fr.mu.Unlock()
	select {
	case <-ch:
	case <-ctx.Done():
		return status.Error(codes.Canceled, "verif: not released")
	}
	err := outcomeErr(fr.outs[i])
	if err == nil {
		fr.mu.Lock()
		fr.stored[i] = true
		fr.mu.Unlock()
	}
	return err
}

func sortInts(s []int) {
	for i := 1; i < len(s); i++ {
		for j := i; j > 0 && s[j] < s[j-1]; j-- {
			s[j], s[j-1] = s[j-1], s[j]
		}
	}
}

type fanoutDriver struct {
	t     *testing.T
	envs  map[string]*env
	runNo int
}

func newFanoutDriver(t *testing.T) *fanoutDriver {
	return &fanoutDriver{t: t, envs: map[string]*env{}}
}

func (d *fanoutDriver) close() {
	for _, e := range d.envs {
		setPeerFunc(e.peers, nil)
		e.close()
	}
}

func (d *fanoutDriver) env(rf, nn int, mode string) *env {
	k := fmt.Sprintf("%d/%d/%s", rf, nn, mode)
	if e, ok := d.envs[k]; ok {
		return e
	}
	m := receive.RouterOnly
	if mode == "routeringestor" {
		m = receive.RouterIngestor
	}
	e := newEnv(d.t, envOpts{nodes: nn, rf: rf, mode: m, forwardTimeout: 30 * time.Second})
	d.envs[k] = e
	return e
}

// runOrder executes the case once with the given response order (1-based er indices).
func (d *fanoutDriver) runOrder(c vt.Case, ers []erSpec, outs []string, order []int) vt.Event {
	rf, nn, rep := vt.Int(c["rf"]), vt.Int(c["nn"]), vt.Int(c["rep"])
	nser := len(vt.List(c["starts"]))
	starts := vt.Ints(c["starts"])
	e := d.env(rf, nn, vt.Str(c["mode"]))
	e.h.Hashring(posHashring{eps: e.eps}) // same nodes: keeps connections, forgets peer back-off state
	d.runNo++
	fr := &fanoutRun{runID: strconv.Itoa(d.runNo), ers: ers, outs: outs, idx: map[[2]int]int{},
		rel: make([]chan struct{}, len(ers)), stored: make([]bool, len(ers)), arrived: make([]bool, len(ers))}
	for i, er := range ers {
		fr.idx[[2]int{er.node, er.replica}] = i
		fr.rel[i] = make(chan struct{})
	}
	setPeerFunc(e.peers, fr.fn)
	// drain stale hook signals (none expected)
	for len(fctl.ret) > 0 {
		<-fctl.ret
	}
	tss := make([]prompb.TimeSeries, 0, nser)
	for s := 1; s <= nser; s++ {
		tss = append(tss, series(map[string]string{"__name__": "verif_fanout", "vser": strconv.Itoa(s),
			"vstart": strconv.Itoa(starts[s-1]), "vrun": fr.runID}, 1700000000000+int64(d.runNo), float64(s)))
	}
	hdr := map[string]string{"Content-Type": "application/x-protobuf", "Content-Encoding": "snappy"}
	if rep > 0 {
		hdr[receive.DefaultReplicaHeader] = strconv.Itoa(rep)
	}
	type httpRes struct {
		status int
		body   string
		err    error
	}
	done := make(chan httpRes, 1)
	go func() {
		cl := newClient()
		st, body, err := post(context.Background(), cl, e.url+"/api/v1/receive", v1Body(d.t, tss), hdr)
		cl.CloseIdleConnections()
		done <- httpRes{st, body, err}
	}()
	released := 0
	releasedSet := make([]bool, len(ers))
	release := func(i int) {
		if !releasedSet[i] {
			releasedSet[i] = true
			close(fr.rel[i])
		}
	}
	var res httpRes
	haveRes := false
	returned := false
	deadline := time.After(60 * time.Second)
loop:
	for {
		select {
		case <-fctl.next:
			if released < len(order) {
				release(order[released] - 1)
				released++
			}
			fctl.goOn <- struct{}{}
		case <-fctl.ret:
			returned = true
			break loop
		case res = <-done:
			haveRes = true
			break loop
		case <-deadline:
			d.t.Fatalf("fan-out driver: no progress (case %v order %v, released %d)", c, order, released)
		}
	}
	// what the peers had stored when fanoutForward decided
	fr.mu.Lock()
	storedAt := make([]int, nser)
	for i, er := range ers {
		if fr.stored[i] {
			for _, s := range er.series {
				storedAt[s-1]++
			}
		}
	}
	placement := fr.placement
	fr.mu.Unlock()
	if !haveRes {
		select {
		case res = <-done:
		case <-time.After(60 * time.Second):
			d.t.Fatalf("fan-out driver: no HTTP response (case %v order %v)", c, order)
		}
	}
	for i := range ers {
		release(i)
	}
	if placement != "" {
		d.t.Fatalf("fan-out driver: placement differs from the case: %s (case %v)", placement, c)
	}
	st := res.status
	if res.err != nil {
		st = 0
	}
	return vt.Event{"order": order, "status": st, "stored": storedAt, "released": released, "hooked": returned}
}

func parseErs(c vt.Case) ([]erSpec, []string) {
	var ers []erSpec
	for _, x := range vt.List(c["ers"]) {
		m := vt.Map(x)
		ers = append(ers, erSpec{node: vt.Int(m["node"]), replica: vt.Int(m["replica"]), series: vt.Ints(m["series"])})
	}
	return ers, vt.Strs(c["outs"])
}

// runFanoutCase executes every listed order of the case and returns the trace line's fields.
func (d *fanoutDriver) runFanoutCase(c vt.Case) vt.Event {
	ers, outs := parseErs(c)
	runs := []any{}
	for _, o := range vt.List(c["orders"]) {
		runs = append(runs, d.runOrder(c, ers, outs, vt.Ints(o)))
	}
	return vt.Event{"runs": runs}
}

// ---- case construction on the harness side (random concrete cases) ----

// ersFor computes the <node,replica> writes of a request under the positional ring.
func ersFor(rf, nn, rep int, starts []int) []map[string]any {
	type key [2]int
	idx := map[key]int{}
	var out []map[string]any
	reps := []int{}
	if rep == 0 {
		for r := 0; r < rf; r++ {
			reps = append(reps, r)
		}
	} else {
		reps = []int{rep - 1}
	}
	for s, st := range starts {
		for _, r := range reps {
			k := key{(st + r) % nn, r}
			i, ok := idx[k]
			if !ok {
				i = len(out)
				idx[k] = i
				out = append(out, map[string]any{"node": k[0], "replica": k[1], "series": []int{}})
			}
			out[i]["series"] = append(out[i]["series"].([]int), s+1)
		}
	}
	return out
}

func randomFanoutCase(rnd *rand.Rand, outcomes []string, maxRF, norders int) vt.Case {
	nser := 1 + rnd.Intn(4)
	rf := 1 + rnd.Intn(maxRF)
	nn := rf + rnd.Intn(3)
	if nser == 1 {
		nn = rf
	}
	rep := 0
	if rnd.Intn(8) == 0 {
		rep = 1 + rnd.Intn(rf)
	}
	starts := make([]int, nser)
	for i := range starts {
		starts[i] = rnd.Intn(nn)
	}
	ers := ersFor(rf, nn, rep, starts)
	outs := make([]string, len(ers))
	// bias: mostly ok with a few faults, or uniformly random
	uniform := rnd.Intn(2) == 0
	for i := range outs {
		if uniform || rnd.Intn(3) == 0 {
			outs[i] = outcomes[rnd.Intn(len(outcomes))]
		} else {
			outs[i] = "ok"
		}
	}
	orders := make([][]int, 0, norders)
	for k := 0; k < norders; k++ {
		p := rnd.Perm(len(ers))
		for i := range p {
			p[i]++
		}
		orders = append(orders, p)
	}
	mode := []string{"router", "routeringestor"}[rnd.Intn(2)]
	if rep > 0 {
		mode = "routeringestor"
	}
	return vt.Case{"rf": rf, "nn": nn, "starts": starts, "rep": rep, "ers": ers, "outs": outs, "orders": orders, "mode": mode}
}

// fanoutGen yields the TLC cases (with a seeded choice of receiver mode) and then n random ones.
func fanoutGen(t *testing.T, outcomes []string, maxRF, n, norders int) func(yield func(vt.Case)) {
	return func(yield func(vt.Case)) {
		rnd := vt.Rand()
		for _, c := range vt.TLCCases(t) {
			c["mode"] = []string{"router", "routeringestor"}[rnd.Intn(2)]
			if vt.Int(c["rep"]) > 0 {
				c["mode"] = "routeringestor" // RouterOnly ignores the replica header by design
			}
			yield(c)
		}
		for i := 0; i < n; i++ {
			yield(randomFanoutCase(rnd, outcomes, maxRF, norders))
		}
	}
}
