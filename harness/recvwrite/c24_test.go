package recvwrite

import (
	"context"
	"fmt"
	"math/rand"
	"strconv"
	"strings"
	"sync"
	"testing"
	"time"

	"go.opentelemetry.io/collector/pdata/pcommon"
	"go.opentelemetry.io/collector/pdata/pmetric"
	"go.opentelemetry.io/collector/pdata/pmetric/pmetricotlp"

	"github.com/thanos-io/thanos/pkg/store/storepb"
	"github.com/thanos-io/thanos/pkg/store/storepb/prompb"

	"verif/harness/vt"
)

// C24: the remote-write concurrency gate is never exceeded.
//
// A real receive.Handler with `write.global.max_concurrency: max` forwards every admitted request
// to ONE blocking fake peer (rf 1). The peer is the observation point "inside the wrapped write
// path": under its mutex it counts the requests it is currently holding and emits Admit / Finish
// events, so the order of these trace lines is the order in which the peer saw them. The driver
// goroutine controls arrivals (protobuf or OTLP endpoint), client cancellations (closing the
// connection) and completions (letting the peer answer).
//
// Two kinds of cases: (a) driver scripts enumerated by TLC (WriteGateMC.CaseSet), executed step by
// step, each step followed by a wait for quiescence (all requests blocked in the gate, blocked at
// the peer or finished; derived from the gate's own metrics - pacing only); (b) seeded random
// concurrent schedules (no pacing) to sample real races.

const (
	gateTotalMetric    = "thanos_receive_write_request_concurrent_gate_write_requests_total"
	gateDurationMetric = "thanos_receive_write_request_concurrent_gate_write_requests_duration_seconds"
	httpTotalMetric    = "http_requests_total"
)

type gatePeer struct {
	mu       sync.Mutex
	tr       *vt.Tracer
	caseID   int64
	inflight int
	maxSeen  int
	seen     map[int]bool
	release  map[int]chan struct{}
	total    int
}

func (g *gatePeer) rel(r int) chan struct{} {
	ch, ok := g.release[r]
	if !ok {
		ch = make(chan struct{})
		g.release[r] = ch
	}
	return ch
}

func (g *gatePeer) fn(ctx context.Context, node int, req *storepb.WriteRequest) error {
	r := -1
	for _, td := range req.TimeseriesTenantData {
		for i := range td.Timeseries {
			if v := labelOf(&td.Timeseries[i], "vreq"); v != "" {
				r, _ = strconv.Atoi(v)
			}
		}
	}
	g.mu.Lock()
	g.inflight++
	g.total++
	if g.inflight > g.maxSeen {
		g.maxSeen = g.inflight
	}
	g.seen[r] = true
	ch := g.rel(r)
	g.tr.Emit(vt.Event{"ev": "Admit", "case": g.caseID, "req": r, "inflight": g.inflight})
	g.mu.Unlock()
	select {
	case <-ch:
	case <-ctx.Done(): // forward timeout (60 s): only when the driver died
	}
	g.mu.Lock()
	g.inflight--
	g.tr.Emit(vt.Event{"ev": "Finish", "case": g.caseID, "req": r, "inflight": g.inflight})
	g.mu.Unlock()
	return nil
}

// otlpBodyN: npoints data points (= series) for request r; pad is an extra attribute value.
func otlpBodyN(t testing.TB, r, npoints int, pad string) []byte {
	md := pmetric.NewMetrics()
	rm := md.ResourceMetrics().AppendEmpty()
	m := rm.ScopeMetrics().AppendEmpty().Metrics().AppendEmpty()
	m.SetName("verif_gate")
	g := m.SetEmptyGauge()
	for k := 0; k < npoints; k++ {
		dp := g.DataPoints().AppendEmpty()
		dp.SetIntValue(int64(r))
		dp.SetTimestamp(pcommon.NewTimestampFromTime(time.Unix(1700000000, 0)))
		dp.Attributes().PutStr("vreq", strconv.Itoa(r))
		dp.Attributes().PutStr("k", strconv.Itoa(k))
		if pad != "" {
			dp.Attributes().PutStr("pad", pad)
		}
	}
	b, err := pmetricotlp.NewExportRequestFromMetrics(md).MarshalProto()
	if err != nil {
		t.Fatalf("otlp marshal: %v", err)
	}
	return b
}

func otlpBody(t testing.TB, r int) []byte {
	md := pmetric.NewMetrics()
	rm := md.ResourceMetrics().AppendEmpty()
	m := rm.ScopeMetrics().AppendEmpty().Metrics().AppendEmpty()
	m.SetName("verif_gate")
	dp := m.SetEmptyGauge().DataPoints().AppendEmpty()
	dp.SetIntValue(int64(r))
	dp.SetTimestamp(pcommon.NewTimestampFromTime(time.Unix(1700000000, 0)))
	dp.Attributes().PutStr("vreq", strconv.Itoa(r))
	b, err := pmetricotlp.NewExportRequestFromMetrics(md).MarshalProto()
	if err != nil {
		t.Fatalf("otlp marshal: %v", err)
	}
	return b
}

type gateReq struct {
	cancel context.CancelFunc
	done   chan struct{}
	status int
	errStr string
}

type gateRun struct {
	t      *testing.T
	e      *env
	gp     *gatePeer
	reqs   map[int]*gateReq
	eps    []string
	h2     bool
	reject map[int]string // request -> kind of limit it exceeds
	slow   int
	diag   string
}

func (gr *gateRun) send(r int) {
	ep := gr.eps[(r-1)%len(gr.eps)]
	ctx, cancel := context.WithCancel(context.Background())
	q := &gateReq{cancel: cancel, done: make(chan struct{})}
	gr.reqs[r] = q
	var body []byte
	var url string
	hdr := map[string]string{}
	// a request that exceeds a request limit: too many series (3 > series_limit 2) or too large
	// (> size_bytes_limit 4096); it passes the gate first and is then answered 413
	npoints, pad := 1, 0
	switch gr.reject[r] {
	case "toomany":
		npoints = 3
	case "toolarge": // incompressible: already the compressed body exceeds the limit (Content-Length check)
		pad = 12000
	case "toolarge2": // compressible: only the decoded request exceeds the limit
		pad = -6000
	}
	padding := ""
	if pad > 0 {
		pr := rand.New(rand.NewSource(int64(r) + 77))
		b := make([]byte, pad)
		for i := range b {
			b[i] = "abcdefghijklmnopqrstuvwxyzABCDEFGHIJKLMNOPQRSTUVWXYZ0123456789"[pr.Intn(62)]
		}
		padding = string(b)
	} else if pad < 0 {
		padding = strings.Repeat("x", -pad)
	}
	if ep == "otlp" {
		body, url = otlpBodyN(gr.t, r, npoints, padding), gr.e.url+"/api/v1/otlp"
		hdr["Content-Type"] = "application/x-protobuf"
	} else {
		var tss []prompb.TimeSeries
		for k := 0; k < npoints; k++ {
			lb := map[string]string{"__name__": "verif_gate", "vreq": strconv.Itoa(r), "k": strconv.Itoa(k)}
			if padding != "" {
				lb["pad"] = padding
			}
			tss = append(tss, series(lb, 1700000000000, float64(r)))
		}
		body = v1Body(gr.t, tss)
		url = gr.e.url + "/api/v1/receive"
		hdr["Content-Type"] = "application/x-protobuf"
		hdr["Content-Encoding"] = "snappy"
	}
	go func() {
		defer close(q.done)
		cl := newClient()
		if gr.h2 {
			cl = newH2Client()
		}
		st, _, err := post(ctx, cl, url, body, hdr)
		q.status = st
		if err != nil {
			q.errStr = "transport"
		}
		cl.CloseIdleConnections()
	}()
}

// quiescent: every request that reached the gate is blocked in Start, blocked at the peer, or its
// handler has returned. Read from the gate's and the HTTP middleware's own metrics.
func (gr *gateRun) settle(arrivals int) {
	var last [4]int
	ok := waitFor(800*time.Millisecond, func() bool {
		entered := sumMetric(gr.e.gateReg, gateTotalMetric, counterVal)
		returned := sumMetric(gr.e.gateReg, gateDurationMetric, histCount)
		exits := sumMetric(gr.e.reg, httpTotalMetric, counterVal)
		gr.gp.mu.Lock()
		blocked := gr.gp.inflight
		gr.gp.mu.Unlock()
		last = [4]int{int(entered), int(returned), int(exits), blocked}
		if arrivals < 0 { // wind-down: nobody left in the gate, at the peer or inside a handler
			return entered == returned && int(returned-exits) == blocked
		}
		return int(entered) == arrivals && int(returned-exits) == blocked
	})
	if !ok {
		gr.slow++
		gr.diag = fmt.Sprintf("arrivals=%d entered/returned/exits/blocked=%v", arrivals, last)
	}
}

func runGateCase(t *testing.T, tr *vt.Tracer, caseID int64, c vt.Case) {
	c = vt.Normalize(c)
	max := vt.Int(c["max"])
	eps := vt.Strs(c["eps"])
	h2 := vt.Str(c["tr"]) == "h2"
	reject := map[int]string{}
	if v, ok := c["reject"]; ok {
		kinds := vt.Strs(c["rkinds"])
		for i, r := range vt.Ints(v) {
			reject[r] = kinds[i%len(kinds)]
		}
	}
	e := newEnv(t, envOpts{nodes: 1, rf: 1, maxConcurrency: max, tls: h2, requestLimits: len(reject) > 0})
	defer e.close()
	gp := &gatePeer{tr: tr, caseID: caseID, seen: map[int]bool{}, release: map[int]chan struct{}{}}
	setPeerFunc(e.peers, gp.fn)
	defer setPeerFunc(e.peers, nil)
	gr := &gateRun{t: t, e: e, gp: gp, reqs: map[int]*gateReq{}, eps: eps, h2: h2, reject: reject}
	tr.Emit(vt.Event{"ev": "case", "case": caseID, "in": c, "kf": ""})

	releaseReq := func(r int) {
		gp.mu.Lock()
		ch := gp.rel(r)
		select {
		case <-ch:
		default:
			close(ch)
		}
		gp.mu.Unlock()
	}
	arrivals := 0
	if ops, ok := c["ops"]; ok {
		// (a) TLC driver script, one step at a time
		for _, o := range vt.List(ops) {
			op := vt.Map(o)
			r := vt.Int(op["r"])
			switch vt.Str(op["op"]) {
			case "arrive":
				arrivals++
				tr.Emit(vt.Event{"ev": "Arrive", "case": caseID, "req": r})
				gr.send(r)
			case "cancel":
				tr.Emit(vt.Event{"ev": "Cancel", "case": caseID, "req": r})
				gr.reqs[r].cancel()
			case "finish":
				releaseReq(r)
			}
			gr.settle(arrivals)
		}
	} else {
		// (b) random concurrent schedule
		n := vt.Int(c["n"])
		rnd := rand.New(rand.NewSource(vt.Int64(c["sseed"])))
		var wg sync.WaitGroup
		for r := 1; r <= n; r++ {
			arrivals++
			tr.Emit(vt.Event{"ev": "Arrive", "case": caseID, "req": r})
			gr.send(r)
			act := rnd.Intn(3) // 0 finish after a delay, 1 cancel after a delay, 2 cancel immediately
			d1 := time.Duration(rnd.Intn(3000)) * time.Microsecond
			d2 := time.Duration(rnd.Intn(3000)) * time.Microsecond
			q := gr.reqs[r]
			wg.Add(1)
			go func(r, act int, d1, d2 time.Duration) {
				defer wg.Done()
				switch act {
				case 0:
					time.Sleep(d1)
					releaseReq(r)
				case 1:
					time.Sleep(d1)
					q.cancel()
					time.Sleep(d2)
					releaseReq(r)
				default:
					q.cancel()
					time.Sleep(d2)
					releaseReq(r)
				}
			}(r, act, d1, d2)
			if rnd.Intn(2) == 0 {
				time.Sleep(time.Duration(rnd.Intn(1500)) * time.Microsecond)
			}
		}
		wg.Wait()
	}
	// wind down: let everything still held finish
	for r := range gr.reqs {
		releaseReq(r)
	}
	stuck := 0
	for _, q := range gr.reqs {
		select {
		case <-q.done:
		case <-time.After(10 * time.Second):
			stuck++
			q.cancel()
		}
	}
	if stuck == 0 {
		gr.settle(-1)
	}
	gp.mu.Lock()
	maxSeen, total := gp.maxSeen, gp.total
	gp.mu.Unlock()
	statuses := map[string]int{}
	for r, q := range gr.reqs {
		select {
		case <-q.done:
			statuses[strconv.Itoa(r)] = q.status
		default:
			statuses[strconv.Itoa(r)] = -1
		}
	}
	tr.Emit(vt.Event{"ev": "End", "case": caseID, "statuses": statuses, "panics": e.plog.Count(), "panic_msg": e.plog.First(),
		"max_inflight": maxSeen, "admitted": total, "stuck": stuck, "slow": gr.slow, "diag": gr.diag})
}

func TestC24(t *testing.T) {
	tr := vt.Open(t)
	defer tr.Close()
	if rc := vt.Replay(t); rc != nil {
		runGateCase(t, tr, 1, rc)
		return
	}
	rnd := vt.Rand()
	id := int64(0)
	epChoices := [][]string{{"proto"}, {"otlp"}, {"proto", "otlp"}, {"otlp", "proto"}}
	for _, c := range vt.TLCCases(t) {
		id++
		c["eps"] = epChoices[rnd.Intn(len(epChoices))]
		// Over HTTP/1.1 the server only notices a vanished client once the body has been read, i.e.
		// after the gate; over HTTP/2 (TLS) the stream reset cancels the request context at once.
		// Scripts with a cancellation therefore run over HTTP/2; the others over either.
		c["rkinds"] = []string{[]string{"toomany", "toolarge", "toolarge2"}[rnd.Intn(3)]}
		c["tr"] = []string{"h1", "h2"}[rnd.Intn(2)]
		for _, o := range vt.List(c["ops"]) {
			if vt.Str(vt.Map(o)["op"]) == "cancel" {
				c["tr"] = "h2"
			}
		}
		runGateCase(t, tr, id, c)
	}
	if id == 0 {
		t.Fatalf("no TLC cases")
	}
	n := vt.Pick(60, 600)
	for i := 0; i < n; i++ {
		id++
		nreq := 2 + rnd.Intn(7)
		rej, kinds := []int{}, []string{"toomany", "toolarge", "toolarge2"}
		if rnd.Intn(3) == 0 { // some requests exceed a request limit
			for r := 1; r <= nreq; r++ {
				if rnd.Intn(3) == 0 {
					rej = append(rej, r)
				}
			}
			if rnd.Intn(2) == 0 {
				kinds = []string{"toolarge2", "toolarge", "toomany"}
			}
		}
		runGateCase(t, tr, id, vt.Case{"max": 1 + rnd.Intn(3), "n": nreq, "sseed": rnd.Int63n(1 << 40), "eps": epChoices[rnd.Intn(len(epChoices))],
			"tr": []string{"h1", "h2", "h2"}[rnd.Intn(3)], "reject": rej, "rkinds": kinds})
	}
}
