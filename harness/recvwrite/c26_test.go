package recvwrite

import (
	"bytes"
	"context"
	"io"
	"math"
	"math/rand"
	"net/http"
	"strconv"
	"strings"
	"sync"
	"testing"

	"github.com/klauspost/compress/s2"

	"github.com/thanos-io/thanos/pkg/store/labelpb"
	"github.com/thanos-io/thanos/pkg/store/storepb"
	"github.com/thanos-io/thanos/pkg/store/storepb/prompb"
	writev2 "github.com/thanos-io/thanos/pkg/store/storepb/prompb/io/prometheus/write/v2"

	"verif/harness/vt"
)

// C26: remote-write v2 requests are translated faithfully and safely.
//
// Every case is a real remote-write 2.0 request (snappy protobuf, v2 content type and version
// header) sent to a real receive.Handler (rf 1, one fake gRPC peer). The peer records the series
// the handler forwards for ingestion: labels, samples, histograms, exemplars. Observed per case:
// HTTP status, what reached the peer, and whether request handling panicked (net/http recovers
// the panic, logs "panic serving" and drops the connection).
//
// Cases: TLC's structural cases (RWv2MC.CaseSet: table size, label refs, exemplar refs; in range,
// out of range, odd lengths) filled with seeded strings / samples / histograms, plus seeded random
// larger requests (up to 40 symbols, 6 series, several exemplars, refs such as 4294967295).
//
// A reference written as a negative number n stands for uint32(n) (-1 = 4294967295).
// Numbers are kept small and logged as integers (TLC integers are 32 bit): timestamps are logged
// relative to tsBase, float values are multiples of 0.5 logged doubled.

const tsBase = int64(1700000000000)

func f2i(v float64) int { return int(math.Round(v * 2)) }

type v2Peer struct {
	mu  sync.Mutex
	got []prompb.TimeSeries
}

func (p *v2Peer) fn(_ context.Context, _ int, req *storepb.WriteRequest) error {
	p.mu.Lock()
	defer p.mu.Unlock()
	for _, td := range req.TimeseriesTenantData {
		for _, ts := range td.Timeseries {
			// deep copy: the request buffer is reused by gRPC
			c := prompb.TimeSeries{}
			for _, l := range ts.Labels {
				c.Labels = append(c.Labels, labelpbCopy(l.Name, l.Value))
			}
			c.Samples = append(c.Samples, ts.Samples...)
			for _, e := range ts.Exemplars {
				ce := prompb.Exemplar{Value: e.Value, Timestamp: e.Timestamp}
				for _, l := range e.Labels {
					ce.Labels = append(ce.Labels, labelpbCopy(l.Name, l.Value))
				}
				c.Exemplars = append(c.Exemplars, ce)
			}
			c.Histograms = append(c.Histograms, ts.Histograms...)
			p.got = append(p.got, c)
		}
	}
	return nil
}

func labelpbCopy(n, v string) labelpb.ZLabel {
	return labelpb.ZLabel{Name: strings.Clone(n), Value: strings.Clone(v)}
}

func spansV2(s []writev2.BucketSpan) []int {
	out := []int{len(s)}
	for _, x := range s {
		out = append(out, int(x.Offset), int(x.Length))
	}
	return out
}

func spansV1(s []prompb.BucketSpan) []int {
	out := []int{len(s)}
	for _, x := range s {
		out = append(out, int(x.Offset), int(x.Length))
	}
	return out
}

func i64s(s []int64) []int {
	out := []int{len(s)}
	for _, x := range s {
		out = append(out, int(x))
	}
	return out
}

func f64s(s []float64) []int {
	out := []int{len(s)}
	for _, x := range s {
		out = append(out, f2i(x))
	}
	return out
}

// flatV2 / flatV1 lay a histogram out as one integer sequence, field by field, identically.
func flatV2(h writev2.Histogram) []int {
	out := []int{}
	switch c := h.Count.(type) {
	case *writev2.Histogram_CountInt:
		out = append(out, 1, int(c.CountInt))
	case *writev2.Histogram_CountFloat:
		out = append(out, 2, f2i(c.CountFloat))
	default:
		out = append(out, 0, 0)
	}
	out = append(out, f2i(h.Sum), int(h.Schema), f2i(h.ZeroThreshold))
	switch c := h.ZeroCount.(type) {
	case *writev2.Histogram_ZeroCountInt:
		out = append(out, 1, int(c.ZeroCountInt))
	case *writev2.Histogram_ZeroCountFloat:
		out = append(out, 2, f2i(c.ZeroCountFloat))
	default:
		out = append(out, 0, 0)
	}
	out = append(out, spansV2(h.NegativeSpans)...)
	out = append(out, i64s(h.NegativeDeltas)...)
	out = append(out, f64s(h.NegativeCounts)...)
	out = append(out, spansV2(h.PositiveSpans)...)
	out = append(out, i64s(h.PositiveDeltas)...)
	out = append(out, f64s(h.PositiveCounts)...)
	out = append(out, int(h.ResetHint), int(h.Timestamp-tsBase))
	out = append(out, f64s(h.CustomValues)...)
	return out
}

func flatV1(h prompb.Histogram) []int {
	out := []int{}
	switch c := h.Count.(type) {
	case *prompb.Histogram_CountInt:
		out = append(out, 1, int(c.CountInt))
	case *prompb.Histogram_CountFloat:
		out = append(out, 2, f2i(c.CountFloat))
	default:
		out = append(out, 0, 0)
	}
	out = append(out, f2i(h.Sum), int(h.Schema), f2i(h.ZeroThreshold))
	switch c := h.ZeroCount.(type) {
	case *prompb.Histogram_ZeroCountInt:
		out = append(out, 1, int(c.ZeroCountInt))
	case *prompb.Histogram_ZeroCountFloat:
		out = append(out, 2, f2i(c.ZeroCountFloat))
	default:
		out = append(out, 0, 0)
	}
	out = append(out, spansV1(h.NegativeSpans)...)
	out = append(out, i64s(h.NegativeDeltas)...)
	out = append(out, f64s(h.NegativeCounts)...)
	out = append(out, spansV1(h.PositiveSpans)...)
	out = append(out, i64s(h.PositiveDeltas)...)
	out = append(out, f64s(h.PositiveCounts)...)
	out = append(out, int(h.ResetHint), int(h.Timestamp-tsBase))
	out = append(out, f64s(h.CustomValues)...)
	return out
}

func half(r *rand.Rand, n int) float64 { return float64(r.Intn(2*n)-n) / 2 }

func randHist(r *rand.Rand) writev2.Histogram {
	h := writev2.Histogram{Sum: half(r, 2000), Schema: int32(r.Intn(12) - 4), ZeroThreshold: float64(r.Intn(4)) / 2,
		ResetHint: writev2.Histogram_ResetHint(r.Intn(4)), Timestamp: tsBase + int64(r.Intn(100000))}
	float := r.Intn(2) == 0
	switch {
	case r.Intn(6) == 0: // count left unset
	case float:
		h.Count = &writev2.Histogram_CountFloat{CountFloat: float64(r.Intn(400)) / 2}
		h.ZeroCount = &writev2.Histogram_ZeroCountFloat{ZeroCountFloat: float64(r.Intn(40)) / 2}
	default:
		h.Count = &writev2.Histogram_CountInt{CountInt: uint64(r.Intn(1000))}
		h.ZeroCount = &writev2.Histogram_ZeroCountInt{ZeroCountInt: uint64(r.Intn(50))}
	}
	spans := func() []writev2.BucketSpan {
		var s []writev2.BucketSpan
		for i := r.Intn(3); i > 0; i-- {
			s = append(s, writev2.BucketSpan{Offset: int32(r.Intn(9) - 3), Length: uint32(1 + r.Intn(4))})
		}
		return s
	}
	h.NegativeSpans, h.PositiveSpans = spans(), spans()
	for i := r.Intn(4); i > 0; i-- {
		if float {
			h.NegativeCounts = append(h.NegativeCounts, float64(r.Intn(100))/2)
			h.PositiveCounts = append(h.PositiveCounts, float64(r.Intn(100))/2)
		} else {
			h.NegativeDeltas = append(h.NegativeDeltas, int64(r.Intn(20)-10))
			h.PositiveDeltas = append(h.PositiveDeltas, int64(r.Intn(20)-10))
		}
	}
	if r.Intn(4) == 0 { // custom bucket boundaries (schema -53)
		h.Schema = -53
		for i, b := 1+r.Intn(3), 0.0; i > 0; i-- {
			b += float64(1+r.Intn(10)) / 2
			h.CustomValues = append(h.CustomValues, b)
		}
	}
	return h
}

var symAlphabet = []string{"a", "b", "job", "instance", "__name__", "le", "é", "日本", "x:y", " ", "\"q\"", "0", "_", "up", "http_requests_total", "ü-1"}

func randSymbol(r *rand.Rand) string {
	n := 1 + r.Intn(3)
	var sb strings.Builder
	for i := 0; i < n; i++ {
		sb.WriteString(symAlphabet[r.Intn(len(symAlphabet))])
	}
	return sb.String()
}

func u32s(v any) []uint32 {
	l := vt.List(v)
	out := make([]uint32, len(l))
	for i, x := range l {
		out[i] = uint32(vt.Int64(x))
	}
	return out
}

// runV2Case: the case holds the reference structure; strings and payload come from pseed.
func runV2Case(t *testing.T, e *env, peer *v2Peer, c vt.Case) vt.Event {
	r := rand.New(rand.NewSource(vt.Int64(c["pseed"])))
	nsym := vt.Int(c["nsym"])
	req := writev2.Request{}
	for i := 0; i < nsym; i++ {
		if i == 0 {
			req.Symbols = append(req.Symbols, "") // the protocol wants symbols[0] = ""
		} else {
			req.Symbols = append(req.Symbols, randSymbol(r))
		}
	}
	inSeries := []any{}
	for _, sx := range vt.List(c["series"]) {
		sm := vt.Map(sx)
		ts := writev2.TimeSeries{LabelsRefs: u32s(sm["lrefs"])}
		samples, hists, exs := [][]int{}, [][]int{}, []any{}
		for i := r.Intn(3); i > 0; i-- {
			s := writev2.Sample{Timestamp: tsBase + int64(r.Intn(100000)), Value: half(r, 100000)}
			if r.Intn(3) == 0 {
				s.StartTimestamp = s.Timestamp - int64(r.Intn(1000)) // v1 cannot carry it: must simply be dropped
			}
			ts.Samples = append(ts.Samples, s)
			samples = append(samples, []int{int(s.Timestamp - tsBase), f2i(s.Value)})
		}
		for i := r.Intn(3); i > 0 && r.Intn(2) == 0; i-- {
			h := randHist(r)
			ts.Histograms = append(ts.Histograms, h)
			hists = append(hists, flatV2(h))
		}
		for _, ex := range vt.List(sm["exrefs"]) {
			x := writev2.Exemplar{LabelsRefs: u32s(ex), Value: half(r, 1000), Timestamp: tsBase + int64(r.Intn(100000))}
			ts.Exemplars = append(ts.Exemplars, x)
			exs = append(exs, map[string]any{"lrefs": vt.List(ex), "v": f2i(x.Value), "t": int(x.Timestamp - tsBase)})
		}
		if nsym > 0 && r.Intn(3) == 0 {
			// series metadata (type, help, unit through the symbol table): not ingested by thanos, must not disturb
			ts.Metadata = writev2.Metadata{Type: writev2.Metadata_MetricType(r.Intn(4)), HelpRef: uint32(r.Intn(nsym)), UnitRef: uint32(r.Intn(nsym))}
		}
		req.Timeseries = append(req.Timeseries, ts)
		inSeries = append(inSeries, map[string]any{"lrefs": vt.List(sm["lrefs"]), "samples": samples, "hists": hists, "exemplars": exs})
	}
	syms := req.Symbols
	if syms == nil {
		syms = []string{}
	}
	ev := vt.Event{"req": map[string]any{"symbols": syms, "series": inSeries}}

	raw, err := req.Marshal()
	if err != nil {
		t.Fatalf("marshal v2: %v", err)
	}
	peer.mu.Lock()
	peer.got = nil
	peer.mu.Unlock()
	panicsBefore := e.plog.Count()
	cl := newClient()
	st, written, perr := postV2(cl, e.url+"/api/v1/receive", s2.EncodeSnappy(nil, raw))
	cl.CloseIdleConnections()
	panicked := e.plog.Count() > panicsBefore
	// written: the X-Prometheus-Remote-Write-{Samples,Histograms,Exemplars}-Written response headers
	// (-1 = header absent); sent: what the request carried. Model conformance only (DRIFT).
	got := map[string]any{"kind": "", "status": st, "series": []any{}, "msg": "", "written": written}
	switch {
	case panicked || perr != nil:
		got["kind"] = "panic"
		got["status"] = 0
		got["msg"] = e.plog.First()
		if perr != nil && !panicked {
			got["msg"] = "transport error: " + perr.Error()
		}
	case st >= 200 && st <= 299:
		got["kind"] = "ingested"
		peer.mu.Lock()
		out := []any{}
		for _, ts := range peer.got {
			lbls := [][]string{}
			for _, l := range ts.Labels {
				lbls = append(lbls, []string{l.Name, l.Value})
			}
			samples, hists, exs := [][]int{}, [][]int{}, []any{}
			for _, s := range ts.Samples {
				samples = append(samples, []int{int(s.Timestamp - tsBase), f2i(s.Value)})
			}
			for _, h := range ts.Histograms {
				hists = append(hists, flatV1(h))
			}
			for _, x := range ts.Exemplars {
				xl := [][]string{}
				for _, l := range x.Labels {
					xl = append(xl, []string{l.Name, l.Value})
				}
				exs = append(exs, map[string]any{"labels": xl, "v": f2i(x.Value), "t": int(x.Timestamp - tsBase)})
			}
			out = append(out, map[string]any{"labels": lbls, "samples": samples, "hists": hists, "exemplars": exs})
		}
		peer.mu.Unlock()
		got["series"] = out
	default:
		got["kind"] = "rejected"
	}
	ev["got"] = got
	return ev
}

// postV2 sends a remote-write 2.0 request and returns the status and the three "written" headers.
func postV2(cl *http.Client, url string, body []byte) (int, []int, error) {
	req, err := http.NewRequest(http.MethodPost, url, bytes.NewReader(body))
	if err != nil {
		return 0, []int{-1, -1, -1}, err
	}
	req.Header.Set("Content-Type", "application/x-protobuf;proto=io.prometheus.write.v2.Request")
	req.Header.Set("Content-Encoding", "snappy")
	req.Header.Set("X-Prometheus-Remote-Write-Version", "2.0.0")
	resp, err := cl.Do(req)
	if err != nil {
		return 0, []int{-1, -1, -1}, err
	}
	defer resp.Body.Close()
	_, _ = io.Copy(io.Discard, io.LimitReader(resp.Body, 4096))
	w := []int{-1, -1, -1}
	for i, h := range []string{"X-Prometheus-Remote-Write-Samples-Written", "X-Prometheus-Remote-Write-Histograms-Written", "X-Prometheus-Remote-Write-Exemplars-Written"} {
		if v := resp.Header.Get(h); v != "" {
			if n, err := strconv.Atoi(v); err == nil {
				w[i] = n
			}
		}
	}
	return resp.StatusCode, w, nil
}

// symbol-table sizes around the varint boundaries of the packed references (1 byte up to 127, 2 bytes
// up to 16383) and beyond
var tableSizes = []int{126, 127, 128, 129, 255, 256, 300}
var hugeTableSizes = []int{16383, 16384, 16385}

func randomV2Case(rnd *rand.Rand) vt.Case {
	nsym := rnd.Intn(41)
	big := rnd.Intn(8) == 0
	if big {
		nsym = tableSizes[rnd.Intn(len(tableSizes))]
		if vt.Thorough() && rnd.Intn(12) == 0 {
			nsym = hugeTableSizes[rnd.Intn(len(hugeTableSizes))]
		}
	}
	nser := 1 + rnd.Intn(6)
	mode := rnd.Intn(4) // 0,1: all refs valid; 2: a few bad refs; 3: odd lengths too
	ref := func() int64 {
		if mode >= 2 && rnd.Intn(12) == 0 || nsym == 0 {
			switch rnd.Intn(3) {
			case 0:
				return int64(nsym) // one past the end
			case 1:
				return int64(nsym + 1 + rnd.Intn(1000))
			default:
				return -1 - int64(rnd.Intn(3)) // uint32: 4294967295, ...
			}
		}
		if big && rnd.Intn(2) == 0 {
			return int64(nsym - 1 - rnd.Intn(3)) // the last entries of a big table: multi-byte varints
		}
		return int64(rnd.Intn(nsym))
	}
	refs := func(maxPairs int) []int64 {
		n := 2 * rnd.Intn(maxPairs+1)
		if mode == 3 && rnd.Intn(5) == 0 {
			n++
		}
		out := make([]int64, n)
		for i := range out {
			out[i] = ref()
		}
		return out
	}
	series := []any{}
	for s := 0; s < nser; s++ {
		exrefs := []any{}
		for i := rnd.Intn(3); i > 0; i-- {
			exrefs = append(exrefs, refs(2))
		}
		series = append(series, map[string]any{"lrefs": refs(6), "exrefs": exrefs})
	}
	return vt.Case{"nsym": nsym, "series": series, "pseed": rnd.Int63n(1 << 40)}
}

func TestC26(t *testing.T) {
	e := newEnv(t, envOpts{nodes: 1, rf: 1})
	defer e.close()
	peer := &v2Peer{}
	setPeerFunc(e.peers, peer.fn)
	defer setPeerFunc(e.peers, nil)
	rnd := vt.Rand()
	gen := func(yield func(vt.Case)) {
		for _, c := range vt.TLCCases(t) {
			c["pseed"] = rnd.Int63n(1 << 40)
			yield(c)
		}
		n := vt.Pick(400, 6000)
		for i := 0; i < n; i++ {
			yield(randomV2Case(rnd))
		}
	}
	vt.Run(t, gen, nil, func(c vt.Case) vt.Event { return runV2Case(t, e, peer, c) })
}
