package recvwrite

import (
	"testing"

	"verif/harness/vt"
)

// C22: an acknowledged remote write reached quorum for every series.
// Cases: TLC's (ReceiveWriteMC: request shape, fault assignment, response orders) plus seeded random
// larger requests (up to 4 series over up to 9 nodes, rf up to 7, outcomes ok / conflict /
// unavailable / other, fresh and already-replicated). Every run goes through the real HTTP
// endpoint of a real handler; recorded per run: HTTP status and, per series, on how many replicas
// the fake peers had stored it when fanoutForward returned.
func TestC22(t *testing.T) {
	defer installFanoutHooks()()
	d := newFanoutDriver(t)
	defer d.close()
	outcomes := []string{"ok", "conflict", "unavailable", "other"}
	vt.Run(t, fanoutGen(t, outcomes, 7, vt.Pick(150, 1500), vt.Pick(3, 6), true), nil, d.runFanoutCase)
}
