// Package recvwrite holds the conformance harnesses of the receive write path
// (C22 quorum, C23 status mapping, C24 write gate, C26 remote-write v2 translation).
//
// Shared environment: a REAL receive.Handler (receive.NewHandler + Run() on a loopback port,
// RouterOnly, protobuf replication) whose peers are in-process gRPC WriteableStore servers on
// 127.0.0.1 with a programmable behaviour, and a positional hashring (series label "vstart"
// selects the first node; replica n goes to node (vstart+n) mod N) so that the harness controls
// which <endpoint,replica> write carries which series without depending on hash values.
package recvwrite

import (
	"bytes"
	"context"
	"crypto/ecdsa"
	"crypto/elliptic"
	crand "crypto/rand"
	"crypto/tls"
	"crypto/x509"
	"crypto/x509/pkix"
	"fmt"
	"io"
	"math/big"
	"net"
	"net/http"
	"strconv"
	"strings"
	"sync"
	"sync/atomic"
	"testing"
	"time"

	"github.com/go-kit/log"
	"github.com/gogo/protobuf/proto"
	"github.com/klauspost/compress/s2"
	"github.com/prometheus/client_golang/prometheus"
	dto "github.com/prometheus/client_model/go"
	"github.com/prometheus/prometheus/storage"
	"google.golang.org/grpc"
	"google.golang.org/grpc/credentials/insecure"

	"github.com/thanos-io/thanos/pkg/receive"
	"github.com/thanos-io/thanos/pkg/store/labelpb"
	"github.com/thanos-io/thanos/pkg/store/storepb"
	"github.com/thanos-io/thanos/pkg/store/storepb/prompb"
)

// ---------------------------------------------------------------- fake peers

// peerFunc decides what a fake peer answers to one forwarded write. It may block.
type peerFunc func(ctx context.Context, node int, req *storepb.WriteRequest) error

type fakePeer struct {
	storepb.UnimplementedWriteableStoreServer
	node int
	addr string
	fn   atomic.Pointer[peerFunc]
	srv  *grpc.Server
}

func (p *fakePeer) RemoteWrite(ctx context.Context, req *storepb.WriteRequest) (*storepb.WriteResponse, error) {
	if f := p.fn.Load(); f != nil {
		if err := (*f)(ctx, p.node, req); err != nil {
			return nil, err
		}
	}
	return &storepb.WriteResponse{}, nil
}

var (
	peersMu  sync.Mutex
	peersAll []*fakePeer
)

// peers returns n running fake peers (started once per process, reused by every case).
func peers(t testing.TB, n int) []*fakePeer {
	peersMu.Lock()
	defer peersMu.Unlock()
	for len(peersAll) < n {
		lis, err := net.Listen("tcp", "127.0.0.1:0")
		if err != nil {
			t.Fatalf("listen: %v", err)
		}
		p := &fakePeer{node: len(peersAll), addr: lis.Addr().String(), srv: grpc.NewServer()}
		storepb.RegisterWriteableStoreServer(p.srv, p)
		go func() { _ = p.srv.Serve(lis) }()
		peersAll = append(peersAll, p)
	}
	return peersAll[:n]
}

func setPeerFunc(ps []*fakePeer, f peerFunc) {
	for _, p := range ps {
		if f == nil {
			p.fn.Store(nil)
		} else {
			p.fn.Store(&f)
		}
	}
}

// ---------------------------------------------------------------- positional hashring

type posHashring struct{ eps []receive.Endpoint }

func (h posHashring) GetN(_ string, ts *prompb.TimeSeries, n uint64) (receive.Endpoint, error) {
	if n >= uint64(len(h.eps)) {
		return receive.Endpoint{}, fmt.Errorf("insufficient nodes; have %d, want %d", len(h.eps), n+1)
	}
	start := 0
	for _, l := range ts.Labels {
		if l.Name == "vstart" {
			start, _ = strconv.Atoi(l.Value)
		}
		if l.Name == "vfail" { // stands for a tenant / series no hashring is configured for
			return receive.Endpoint{}, fmt.Errorf("verif: no matching hashring to handle this series")
		}
	}
	return h.eps[(start+int(n))%len(h.eps)], nil
}
func (h posHashring) Nodes() []receive.Endpoint { return h.eps }
func (h posHashring) Close()                    {}

// ---------------------------------------------------------------- no-op local storage (never used: no endpoint is local)

type nopTenantStorage struct{}

func (nopTenantStorage) TenantAppendable(string) (receive.Appendable, error) {
	return nopAppendable{}, nil
}

type nopAppendable struct{}

func (nopAppendable) Appender(context.Context) (storage.Appender, error) {
	return nil, fmt.Errorf("verif: local storage must not be used")
}

// ---------------------------------------------------------------- limits config content

type limitsContent string

func (c limitsContent) Content() ([]byte, error) { return []byte(c), nil }
func (c limitsContent) Path() string             { return "" }

// ---------------------------------------------------------------- log capture (panics recovered by net/http are logged through the handler's error log)

type panicLog struct {
	mu     sync.Mutex
	panics []string
}

func (l *panicLog) Log(kv ...interface{}) error {
	for _, v := range kv {
		if s, ok := v.(string); ok && strings.Contains(s, "panic serving") {
			l.mu.Lock()
			if len(s) > 300 {
				s = s[:300]
			}
			l.panics = append(l.panics, s)
			l.mu.Unlock()
		}
	}
	return nil
}

func (l *panicLog) Count() int { l.mu.Lock(); defer l.mu.Unlock(); return len(l.panics) }
func (l *panicLog) First() string {
	l.mu.Lock()
	defer l.mu.Unlock()
	if len(l.panics) == 0 {
		return ""
	}
	return l.panics[0]
}

// ---------------------------------------------------------------- handler under test

type env struct {
	eps     []receive.Endpoint
	h       *receive.Handler
	url     string // http://127.0.0.1:port
	peers   []*fakePeer
	reg     *prometheus.Registry // handler metrics (http_requests_total, ...)
	gateReg *prometheus.Registry // write gate metrics
	plog    *panicLog
	runErr  chan error
}

type envOpts struct {
	nodes          int
	rf             int
	maxConcurrency int  // 0 = no write gate
	requestLimits  bool // default request limits: size_bytes_limit 4096, series_limit 2
	workers        uint
	forwardTimeout time.Duration
	maxBackoff     time.Duration         // 0: 1 ns (a peer that answered Unavailable is retried at once)
	localNode      int                   // >= 1: node localNode-1 is the receiver itself (its writes go to storage)
	splitLabel     string                // tenant split label
	storage        receive.TenantStorage // local storage (default: one that must never be used)
	mode           receive.ReceiverMode  // default RouterOnly
	tls            bool                  // serve HTTPS (Go then speaks HTTP/2, where a client's stream reset cancels the request context at once)
}

var (
	certOnce sync.Once
	certVal  tls.Certificate
	certErr  error
)

// selfSigned returns a throw-away certificate for 127.0.0.1 (generated once per process).
func selfSigned() (tls.Certificate, error) {
	certOnce.Do(func() {
		key, err := ecdsa.GenerateKey(elliptic.P256(), crand.Reader)
		if err != nil {
			certErr = err
			return
		}
		tmpl := &x509.Certificate{
			SerialNumber: big.NewInt(1), Subject: pkix.Name{CommonName: "verif"},
			NotBefore: time.Now().Add(-time.Hour), NotAfter: time.Now().Add(24 * time.Hour),
			KeyUsage: x509.KeyUsageDigitalSignature, ExtKeyUsage: []x509.ExtKeyUsage{x509.ExtKeyUsageServerAuth},
			IPAddresses: []net.IP{net.ParseIP("127.0.0.1")},
		}
		der, err := x509.CreateCertificate(crand.Reader, tmpl, tmpl, &key.PublicKey, key)
		if err != nil {
			certErr = err
			return
		}
		certVal = tls.Certificate{Certificate: [][]byte{der}, PrivateKey: key}
	})
	return certVal, certErr
}

func freeAddr(t testing.TB) string {
	l, err := net.Listen("tcp", "127.0.0.1:0")
	if err != nil {
		t.Fatalf("listen: %v", err)
	}
	a := l.Addr().String()
	l.Close()
	return a
}

// newEnv starts a real receive handler on a loopback port.
func newEnv(t testing.TB, o envOpts) *env {
	ps := peers(t, o.nodes)
	eps := make([]receive.Endpoint, len(ps))
	for i, p := range ps {
		eps[i] = receive.Endpoint{Address: p.addr}
	}
	if o.workers == 0 {
		o.workers = 16
	}
	if o.maxBackoff == 0 {
		o.maxBackoff = time.Nanosecond
	}
	if o.forwardTimeout == 0 {
		o.forwardTimeout = 60 * time.Second
	}
	if o.mode == "" {
		o.mode = receive.RouterOnly
	}
	var lastErr error
	for attempt := 0; attempt < 20; attempt++ {
		e := &env{eps: eps, peers: ps, reg: prometheus.NewRegistry(), gateReg: prometheus.NewRegistry(), plog: &panicLog{}, runErr: make(chan error, 1)}
		var cfg limitsContent
		if o.maxConcurrency > 0 && o.requestLimits {
			cfg = limitsContent(fmt.Sprintf("write:\n  global:\n    max_concurrency: %d\n  default:\n    request:\n      size_bytes_limit: 4096\n      series_limit: 2\n", o.maxConcurrency))
		} else if o.maxConcurrency > 0 {
			cfg = limitsContent(fmt.Sprintf("write:\n  global:\n    max_concurrency: %d\n", o.maxConcurrency))
		} else {
			cfg = limitsContent("write:\n  global:\n    max_concurrency: 0\n")
		}
		lim, err := receive.NewLimiter(cfg, e.gateReg, receive.RouterOnly, log.NewNopLogger(), time.Hour)
		if err != nil {
			t.Fatalf("NewLimiter: %v", err)
		}
		addr := freeAddr(t)
		endpoint := "verif-router:0" // not a peer: nothing is "local"
		if o.localNode >= 1 {
			endpoint = eps[o.localNode-1].Address
		}
		var localStorage receive.TenantStorage = nopTenantStorage{}
		if o.storage != nil {
			localStorage = o.storage
		}
		var tlsCfg *tls.Config
		scheme := "http://"
		if o.tls {
			cert, err := selfSigned()
			if err != nil {
				t.Fatalf("cert: %v", err)
			}
			tlsCfg = &tls.Config{Certificates: []tls.Certificate{cert}}
			scheme = "https://"
		}
		e.h = receive.NewHandler(e.plog, &receive.Options{
			TLSConfig:               tlsCfg,
			Writer:                  receive.NewWriter(log.NewNopLogger(), localStorage, nil),
			SplitTenantLabelName:    o.splitLabel,
			ListenAddress:           addr,
			Registry:                e.reg,
			TenantHeader:            "THANOS-TENANT",
			DefaultTenantID:         "default-tenant",
			ReplicaHeader:           receive.DefaultReplicaHeader,
			Endpoint:                endpoint, // non-empty; a peer address only when the case has a local replica
			ReplicationFactor:       uint64(o.rf),
			ReceiverMode:            o.mode,
			DialOpts:                []grpc.DialOption{grpc.WithTransportCredentials(insecure.NewCredentials())},
			ForwardTimeout:          o.forwardTimeout,
			MaxBackoff:              o.maxBackoff, // default 1 ns: no locally generated "unavailable" answers unless a case asks for them
			Limiter:                 lim,
			AsyncForwardWorkerCount: o.workers,
			ReplicationProtocol:     receive.ProtobufReplication,
		})
		e.h.Hashring(posHashring{eps: eps})
		go func() { e.runErr <- e.h.Run() }()
		e.url = scheme + addr
		ok := false
		for i := 0; i < 2000; i++ {
			select {
			case lastErr = <-e.runErr:
				i = 1 << 30
				continue
			default:
			}
			c, err := net.DialTimeout("tcp", addr, 200*time.Millisecond)
			if err == nil {
				c.Close()
				ok = true
				break
			}
			time.Sleep(500 * time.Microsecond)
		}
		if ok {
			return e
		}
		e.h.Close()
	}
	t.Fatalf("could not start the receive handler: %v", lastErr)
	return nil
}

func (e *env) close() { e.h.Close() }

// ---------------------------------------------------------------- metrics (used only to pace the driver, never for a verdict)

func sumMetric(reg *prometheus.Registry, name string, pick func(*dto.Metric) float64) float64 {
	mfs, err := reg.Gather()
	if err != nil {
		return -1
	}
	tot := 0.0
	for _, mf := range mfs {
		if mf.GetName() != name {
			continue
		}
		for _, m := range mf.Metric {
			tot += pick(m)
		}
	}
	return tot
}

func counterVal(m *dto.Metric) float64 { return m.GetCounter().GetValue() }
func gaugeVal(m *dto.Metric) float64   { return m.GetGauge().GetValue() }
func histCount(m *dto.Metric) float64  { return float64(m.GetHistogram().GetSampleCount()) }

// ---------------------------------------------------------------- requests

func series(lbls map[string]string, ts int64, v float64) prompb.TimeSeries {
	names := make([]string, 0, len(lbls))
	for k := range lbls {
		names = append(names, k)
	}
	sortStrings(names)
	out := prompb.TimeSeries{Samples: []prompb.Sample{{Timestamp: ts, Value: v}}}
	for _, k := range names {
		out.Labels = append(out.Labels, labelpb.ZLabel{Name: k, Value: lbls[k]})
	}
	return out
}

func sortStrings(s []string) {
	for i := 1; i < len(s); i++ {
		for j := i; j > 0 && s[j] < s[j-1]; j-- {
			s[j], s[j-1] = s[j-1], s[j]
		}
	}
}

func v1Body(t testing.TB, tss []prompb.TimeSeries) []byte {
	b, err := proto.Marshal(&prompb.WriteRequest{Timeseries: tss})
	if err != nil {
		t.Fatalf("marshal: %v", err)
	}
	return s2.EncodeSnappy(nil, b)
}

// post sends one request; returns the HTTP status, or 0 and the transport error.
func post(ctx context.Context, cl *http.Client, url string, body []byte, hdr map[string]string) (int, string, error) {
	req, err := http.NewRequestWithContext(ctx, http.MethodPost, url, bytes.NewReader(body))
	if err != nil {
		return 0, "", err
	}
	for k, v := range hdr {
		req.Header.Set(k, v)
	}
	resp, err := cl.Do(req)
	if err != nil {
		return 0, "", err
	}
	defer resp.Body.Close()
	b, _ := io.ReadAll(io.LimitReader(resp.Body, 2048))
	return resp.StatusCode, string(b), nil
}

// newClient returns a client with its own connection pool (so closing it / cancelling a request
// affects only its own connections).
func newClient() *http.Client {
	return &http.Client{Transport: &http.Transport{DisableKeepAlives: true, MaxIdleConns: 1}, Timeout: 120 * time.Second}
}

// newH2Client returns an HTTP/2 (over TLS) client with its own connection.
func newH2Client() *http.Client {
	return &http.Client{Transport: &http.Transport{
		TLSClientConfig:   &tls.Config{InsecureSkipVerify: true},
		ForceAttemptHTTP2: true, MaxIdleConns: 1,
	}, Timeout: 120 * time.Second}
}

func labelOf(ts *prompb.TimeSeries, name string) string {
	for _, l := range ts.Labels {
		if l.Name == name {
			return l.Value
		}
	}
	return ""
}

// waitFor polls cond until it holds (twice in a row) or the timeout expires; pacing only.
func waitFor(timeout time.Duration, cond func() bool) bool {
	deadline := time.Now().Add(timeout)
	hits := 0
	for {
		if cond() {
			hits++
			if hits >= 2 {
				return true
			}
		} else {
			hits = 0
		}
		if time.Now().After(deadline) {
			return false
		}
		time.Sleep(150 * time.Microsecond)
	}
}
