package recvwrite

import (
	"testing"

	"verif/harness/vt"
)

// C23: failed replicated writes report retryable and permanent failures correctly.
// Same driver as C22; the outcome alphabet is the statement's (success, conflict, unavailable) and
// each case is executed for every listed response order, so that order independence is judged
// inside one trace line.
func TestC23(t *testing.T) {
	defer installFanoutHooks()()
	d := newFanoutDriver(t)
	defer d.close()
	outcomes := []string{"ok", "conflict", "unavailable"}
	vt.Run(t, fanoutGen(t, outcomes, 7, vt.Pick(150, 1500), vt.Pick(4, 8), false), nil, d.runFanoutCase)
}
