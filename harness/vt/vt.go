// Package vt is the shared runtime of the conformance harnesses: it reads the abstract
// cases TLC generated (leg B), records what the real code did as NDJSON trace lines for the
// TLA+ trace specs (leg C), and implements single-case replay.
//
// Environment (set by /verif/bin/check):
//
//	VERIF_TRACE   path of the NDJSON trace file to write (required)
//	VERIF_CASES   path of an NDJSON file of TLC-generated cases (optional)
//	VERIF_SEED    integer seed for every random choice
//	VERIF_TIER    quick | thorough
//	VERIF_REPLAY  path of a replay file; only the case stored there is re-executed
package vt

import (
	"bufio"
	"bytes"
	"encoding/json"
	"fmt"
	"math/rand"
	"os"
	"strconv"
	"sync"
	"testing"
)

// Event is one trace line. Keys "ev" and "case" are always present.
type Event map[string]any

// Case is the input of one execution: JSON-serialisable, self-contained (replayable).
type Case map[string]any

type Tracer struct {
	mu   sync.Mutex
	f    *os.File
	w    *bufio.Writer
	n    int
	seq  int
	t    testing.TB
	path string
}

var (
	globalMu sync.Mutex
	global   *Tracer
)

// Open returns the process-wide tracer writing to $VERIF_TRACE (truncating it on first open).
// Without VERIF_TRACE the harness test is skipped: harness tests only make sense under bin/check.
func Open(t testing.TB) *Tracer {
	t.Helper()
	globalMu.Lock()
	defer globalMu.Unlock()
	if global != nil {
		global.t = t
		return global
	}
	p := os.Getenv("VERIF_TRACE")
	if p == "" {
		t.Skip("VERIF_TRACE not set; run through /verif/bin/check")
	}
	f, err := os.Create(p)
	if err != nil {
		t.Fatalf("vt: %v", err)
	}
	global = &Tracer{f: f, w: bufio.NewWriterSize(f, 1<<20), t: t, path: p}
	return global
}

// Emit appends one event. Safe for concurrent use; the order of lines is the order of Emit
// calls (callers that need a linearised order must call Emit under the lock that protects the
// state they report).
func (tr *Tracer) Emit(ev Event) {
	tr.mu.Lock()
	defer tr.mu.Unlock()
	tr.seq++
	if _, ok := ev["ev"]; !ok {
		ev["ev"] = "case"
	}
	b, err := json.Marshal(ev)
	if err != nil {
		panic(fmt.Sprintf("vt: cannot marshal event: %v", err))
	}
	tr.w.Write(b)
	tr.w.WriteByte('\n')
	tr.n++
}

// Close flushes the trace. Call it (deferred) from the test function.
func (tr *Tracer) Close() {
	tr.mu.Lock()
	defer tr.mu.Unlock()
	tr.w.Flush()
	tr.f.Sync()
}

func (tr *Tracer) Lines() int { tr.mu.Lock(); defer tr.mu.Unlock(); return tr.n }

func Seed() int64 {
	if s := os.Getenv("VERIF_SEED"); s != "" {
		if v, err := strconv.ParseInt(s, 10, 64); err == nil {
			return v
		}
	}
	return 1
}

func Rand() *rand.Rand { return rand.New(rand.NewSource(Seed())) }

func Tier() string {
	if os.Getenv("VERIF_TIER") == "thorough" {
		return "thorough"
	}
	return "quick"
}

func Thorough() bool { return Tier() == "thorough" }

// Pick returns q in the quick tier and th in the thorough tier.
func Pick[T any](q, th T) T {
	if Thorough() {
		return th
	}
	return q
}

// ReadNDJSON reads a file of JSON objects, one per line.
func ReadNDJSON(path string) ([]Case, error) {
	f, err := os.Open(path)
	if err != nil {
		return nil, err
	}
	defer f.Close()
	var out []Case
	sc := bufio.NewScanner(f)
	sc.Buffer(make([]byte, 1<<20), 1<<28)
	for sc.Scan() {
		b := sc.Bytes()
		if len(b) == 0 {
			continue
		}
		var c Case
		dec := json.NewDecoder(bytesReader(b))
		dec.UseNumber()
		if err := dec.Decode(&c); err != nil {
			return nil, fmt.Errorf("%s: %w", path, err)
		}
		out = append(out, c)
	}
	return out, sc.Err()
}

// TLCCases returns the cases TLC generated for this run ($VERIF_CASES), or nil.
func TLCCases(t testing.TB) []Case {
	p := os.Getenv("VERIF_CASES")
	if p == "" {
		return nil
	}
	cs, err := ReadNDJSON(p)
	if err != nil {
		t.Fatalf("vt: reading TLC cases: %v", err)
	}
	return cs
}

// Replay returns the case stored in $VERIF_REPLAY (field "input"), or nil when not replaying.
func Replay(t testing.TB) Case {
	p := os.Getenv("VERIF_REPLAY")
	if p == "" {
		return nil
	}
	b, err := os.ReadFile(p)
	if err != nil {
		t.Fatalf("vt: %v", err)
	}
	var r struct {
		Input Case `json:"input"`
	}
	dec := json.NewDecoder(bytesReader(b))
	dec.UseNumber()
	if err := dec.Decode(&r); err != nil {
		t.Fatalf("vt: bad replay file %s: %v", p, err)
	}
	if r.Input == nil {
		t.Fatalf("vt: replay file %s has no input", p)
	}
	return r.Input
}

// Run is the standard driver of a case-trace harness. gen yields the cases of this run (from
// TLC and/or seeded random generation); run executes one case on the real code and returns the
// observation to be recorded. Each trace line is {ev:"case", case:<n>, in:<input>, kf:<key or "">,
// out...}. When replaying, only the stored input is executed.
//
// kf classifies the *input alone* into a known-finding class (or ""); it must not look at
// results.
func Run(t *testing.T, gen func(yield func(Case)), kf func(Case) string, run func(Case) Event) {
	tr := Open(t)
	defer tr.Close()
	id := 0
	do := func(c Case) {
		id++
		// normalise through JSON so that replayed and fresh cases look the same to run()
		c = Normalize(c)
		ev := run(c)
		if ev == nil {
			return
		}
		ev["ev"] = "case"
		ev["case"] = id
		ev["in"] = c
		k := ""
		if kf != nil {
			k = kf(c)
		}
		ev["kf"] = k
		tr.Emit(ev)
	}
	if rc := Replay(t); rc != nil {
		do(rc)
		return
	}
	gen(do)
	if id == 0 {
		t.Fatalf("vt: harness generated no cases")
	}
}

// Normalize round-trips a case through JSON (numbers become json.Number).
func Normalize(c Case) Case {
	b, err := json.Marshal(c)
	if err != nil {
		panic(err)
	}
	var out Case
	dec := json.NewDecoder(bytesReader(b))
	dec.UseNumber()
	if err := dec.Decode(&out); err != nil {
		panic(err)
	}
	return out
}

// Accessors for normalised cases.

func Int(v any) int {
	switch x := v.(type) {
	case json.Number:
		i, err := x.Int64()
		if err != nil {
			f, _ := x.Float64()
			return int(f)
		}
		return int(i)
	case float64:
		return int(x)
	case int:
		return x
	case int64:
		return int(x)
	case string:
		i, _ := strconv.Atoi(x)
		return i
	}
	panic(fmt.Sprintf("vt.Int: %T %v", v, v))
}

func Int64(v any) int64 {
	switch x := v.(type) {
	case json.Number:
		i, err := x.Int64()
		if err != nil {
			f, _ := x.Float64()
			return int64(f)
		}
		return i
	case float64:
		return int64(x)
	case int:
		return int64(x)
	case int64:
		return x
	}
	panic(fmt.Sprintf("vt.Int64: %T %v", v, v))
}

func Str(v any) string {
	if v == nil {
		return ""
	}
	if s, ok := v.(string); ok {
		return s
	}
	return fmt.Sprint(v)
}

func Bool(v any) bool {
	b, _ := v.(bool)
	return b
}

func List(v any) []any {
	if v == nil {
		return nil
	}
	if l, ok := v.([]any); ok {
		return l
	}
	panic(fmt.Sprintf("vt.List: %T", v))
}

func Map(v any) map[string]any {
	if v == nil {
		return nil
	}
	switch m := v.(type) {
	case map[string]any:
		return m
	case Case:
		return m
	case Event:
		return m
	}
	panic(fmt.Sprintf("vt.Map: %T", v))
}

func Ints(v any) []int {
	l := List(v)
	out := make([]int, len(l))
	for i, x := range l {
		out[i] = Int(x)
	}
	return out
}

func Strs(v any) []string {
	l := List(v)
	out := make([]string, len(l))
	for i, x := range l {
		out[i] = Str(x)
	}
	return out
}

func bytesReader(b []byte) *bytes.Reader { return bytes.NewReader(b) }
