package compaction

import (
	"context"
	"encoding/json"
	"errors"
	"fmt"
	"io"
	"math"
	"math/rand"
	"os"
	"path"
	"sort"
	"strconv"
	"sync/atomic"
	"testing"
	"time"

	"github.com/go-kit/log"
	"github.com/oklog/ulid/v2"
	"github.com/prometheus/client_golang/prometheus"
	"github.com/prometheus/prometheus/tsdb"
	"github.com/thanos-io/objstore"

	"github.com/thanos-io/thanos/pkg/block/metadata"
	"github.com/thanos-io/thanos/pkg/compact"
	"github.com/thanos-io/thanos/pkg/extprom"

	"verif/harness/vt"
)

// ---------------------------------------------------------------------------------------------
// C30: compaction planning is safe and converges.
//
// A case is one compaction group given in ABSTRACT time units:
//
//	ranges  [1,2,4]                      compaction ranges
//	blocks  [{mint,maxt,nc,tomb,ser,failed,isz}]
//	kind    "tsdb" | "size" | "vdown"    planner stack (NewPlanner / +WithLargeTotalIndexSizeFilter /
//	                                     +WithVerticalCompactionDownsampleFilter, as cmd/thanos/compact.go builds it)
//	thr     index-size threshold in index-size units (0 = no limit), ds: the group is downsampled
//	scale   milliseconds per unit, shift: units added to every time (a multiple of every range, so
//	        alignment is preserved); the real planner sees (x+shift)*scale milliseconds.
//
// The harness plans with the REAL planner (no-compact marks through a real
// GatherNoCompactionMarkFilter over an in-memory bucket, input order through the real
// DefaultGrouper/Group.AppendMeta), applies the plan (planned blocks -> one block spanning them, no
// tombstones), and repeats until the planner returns nothing.  Every planner input, plan and the
// set of no-compact marks in the bucket after the call are logged, times converted back to units.
// ---------------------------------------------------------------------------------------------

const idxUnit = 85 // bytes per index-size unit: limit = thr*100 makes int64(float64(limit)*0.85) = thr*85

type absBlock struct {
	id             int
	mint, maxt     int64 // units
	nc, failed     bool
	tomb, ser, isz int
	ul             ulid.ULID
}

func idULID(id int) ulid.ULID { return ulid.MustNew(uint64(id), nil) }

// budgetBucket fails every call once the per-Plan operation budget is used up, so that a planner
// that re-plans forever returns (with an error) instead of hanging the harness.
type budgetBucket struct {
	objstore.Bucket
	left atomic.Int64
}

var errBudget = errors.New("verif: bucket operation budget of one Plan call exhausted (planner does not terminate)")

func (b *budgetBucket) take() error {
	if b.left.Add(-1) < 0 {
		return errBudget
	}
	return nil
}
func (b *budgetBucket) Exists(ctx context.Context, name string) (bool, error) {
	if err := b.take(); err != nil {
		return false, err
	}
	return b.Bucket.Exists(ctx, name)
}
func (b *budgetBucket) Upload(ctx context.Context, name string, r io.Reader, opts ...objstore.ObjectUploadOption) error {
	if err := b.take(); err != nil {
		return err
	}
	return b.Bucket.Upload(ctx, name, r, opts...)
}
func (b *budgetBucket) Attributes(ctx context.Context, name string) (objstore.ObjectAttributes, error) {
	if err := b.take(); err != nil {
		return objstore.ObjectAttributes{}, err
	}
	return b.Bucket.Attributes(ctx, name)
}
func (b *budgetBucket) Get(ctx context.Context, name string) (io.ReadCloser, error) {
	if err := b.take(); err != nil {
		return nil, err
	}
	return b.Bucket.Get(ctx, name)
}

func gcdI(a, b int64) int64 {
	for b != 0 {
		a, b = b, a%b
	}
	return a
}
func lcmRanges(rs []int) int64 {
	l := int64(1)
	for _, r := range rs {
		l = l / gcdI(l, int64(r)) * int64(r)
	}
	return l
}

var planHung atomic.Bool // a Plan call did not return: stop generating cases

func runC30(c vt.Case) vt.Event {
	ctx := context.Background()
	logger := log.NewNopLogger()
	ranges := vt.Ints(c["ranges"])
	kind := vt.Str(c["kind"])
	thr := vt.Int(c["thr"])
	ds := vt.Bool(c["ds"])
	// scale and shift are strings in the case: they may exceed TLC's 32-bit integers
	scale, _ := strconv.ParseInt(vt.Str(c["scale"]), 10, 64)
	shift, err0 := strconv.ParseInt(vt.Str(c["shift"]), 10, 64)
	if err0 != nil || scale <= 0 {
		panic("harness: bad scale/shift")
	}
	if shift%lcmRanges(ranges) != 0 {
		panic("harness: shift must be a multiple of every range")
	}
	toMs := func(x int64) int64 { return (x + shift) * scale }
	toUnit := func(ms int64) int64 {
		if ms%scale != 0 {
			panic("harness: time not on the unit grid")
		}
		return ms/scale - shift
	}
	res := int64(0)
	if ds {
		res = 300000
	}
	inner := objstore.NewInMemBucket()
	bb := &budgetBucket{Bucket: inner}
	cur := map[int]*absBlock{}
	n := 0
	for _, x := range vt.List(c["blocks"]) {
		m := vt.Map(x)
		n++
		b := &absBlock{id: n, mint: vt.Int64(m["mint"]), maxt: vt.Int64(m["maxt"]), nc: vt.Bool(m["nc"]), failed: vt.Bool(m["failed"]),
			tomb: vt.Int(m["tomb"]), ser: vt.Int(m["ser"]), isz: vt.Int(m["isz"]), ul: idULID(n)}
		cur[n] = b
		if b.nc {
			mk, _ := json.Marshal(metadata.NoCompactMark{ID: b.ul, Version: metadata.NoCompactMarkVersion1, NoCompactTime: time.Now().Unix(), Reason: metadata.ManualNoCompactReason})
			if err := inner.Upload(ctx, path.Join(b.ul.String(), metadata.NoCompactMarkFilename), bytesReader(mk)); err != nil {
				panic(err)
			}
		}
	}
	concRanges := make([]int64, len(ranges))
	for i, r := range ranges {
		concRanges[i] = int64(r) * scale
	}
	limit := int64(1) << 50
	if thr > 0 {
		limit = int64(thr) * 100
		if int64(float64(limit)*0.85) != int64(thr)*idxUnit {
			panic("harness: threshold arithmetic")
		}
	}
	ncFilter := compact.NewGatherNoCompactionMarkFilter(logger, objstore.WithNoopInstr(inner), 2)
	cnt := prometheus.NewCounter(prometheus.CounterOpts{Name: "x"})
	tsdbPlanner := compact.NewPlanner(logger, concRanges, ncFilter)
	var planner compact.Planner = tsdbPlanner
	switch kind {
	case "tsdb":
	case "size":
		planner = compact.WithLargeTotalIndexSizeFilter(tsdbPlanner, bb, limit, cnt)
	case "vdown":
		planner = compact.WithVerticalCompactionDownsampleFilter(compact.WithLargeTotalIndexSizeFilter(tsdbPlanner, bb, limit, cnt), bb, cnt)
	default:
		panic("harness: unknown planner kind " + kind)
	}
	grouper := compact.NewDefaultGrouper(logger, inner, false, kind == "vdown", prometheus.NewRegistry(), cnt, cnt, cnt, metadata.NoneFunc, 1, 1)
	gauge := extprom.NewTxGaugeVec(nil, prometheus.GaugeOpts{}, []string{"state"})

	decoys := 0
	if v, ok := c["decoys"]; ok {
		decoys = vt.Int(v)
	}
	steps := []any{}
	converged := false
	maxSteps := 2*n + 4
	for step := 1; step <= maxSteps && !converged; step++ {
		metas := map[ulid.ULID]*metadata.Meta{}
		byULID := map[ulid.ULID]*absBlock{}
		for _, b := range cur {
			m := &metadata.Meta{}
			m.Version = 1
			m.ULID = b.ul
			m.MinTime, m.MaxTime = toMs(b.mint), toMs(b.maxt)
			m.Stats = tsdb.BlockStats{NumSeries: uint64(b.ser), NumTombstones: uint64(b.tomb), NumSamples: 100}
			m.Compaction.Level = 1
			m.Compaction.Sources = []ulid.ULID{b.ul}
			m.Compaction.Failed = b.failed
			m.Thanos.Labels = map[string]string{"grp": "a"}
			m.Thanos.Downsample.Resolution = res
			m.Thanos.Source = metadata.TestSource
			m.Thanos.Files = []metadata.File{{RelPath: "index", SizeBytes: int64(b.isz) * idxUnit}, {RelPath: "meta.json"}}
			metas[b.ul] = m
			byULID[b.ul] = b
		}
		// the compactor's sync: the mark filter reads the no-compact marks of the current blocks
		if err := ncFilter.Filter(ctx, metas, gauge, nil); err != nil {
			panic(err)
		}
		pre := ncFilter.NoCompactMarkedBlocks()
		// phase 2: decoy blocks of OTHER compaction groups (other external labels, other resolution) with the time
		// ranges of the group's own blocks go through the same real grouper; the plan must name none of them
		var ownID ulid.ULID
		for id := range metas {
			ownID = id
			break
		}
		if nd := decoys; nd > 0 {
			k := 0
			cids := make([]int, 0, len(cur))
			for id := range cur {
				cids = append(cids, id)
			}
			sort.Ints(cids)
			for _, cid := range cids {
				b := cur[cid]
				if k >= nd {
					break
				}
				m := &metadata.Meta{}
				m.Version = 1
				m.ULID = idULID(100000 + b.id)
				m.MinTime, m.MaxTime = toMs(b.mint), toMs(b.maxt)
				m.Stats = tsdb.BlockStats{NumSeries: 19, NumSamples: 100}
				m.Compaction.Level = 1
				m.Compaction.Sources = []ulid.ULID{m.ULID}
				m.Thanos.Labels = map[string]string{"grp": "a"}
				m.Thanos.Downsample.Resolution = res
				if k%2 == 0 {
					m.Thanos.Labels = map[string]string{"grp": "b"}
				} else {
					m.Thanos.Downsample.Resolution = 300000 - res // the other one of raw / 5m
				}
				m.Thanos.Source = metadata.TestSource
				m.Thanos.Files = []metadata.File{{RelPath: "index", SizeBytes: idxUnit}, {RelPath: "meta.json"}}
				metas[m.ULID] = m
				k++
			}
		}
		groups, err := grouper.Groups(metas)
		var own *compact.Group
		for _, g := range groups { // the group that holds the case's blocks
			for _, id := range g.IDs() {
				if id == ownID {
					own = g
				}
			}
		}
		if err != nil || own == nil {
			es := "no group for the blocks"
			if err != nil {
				es = err.Error()
			}
			steps = append(steps, map[string]any{"blocks": []any{}, "plan": []int{}, "marked": []int{}, "err": "error: grouping: " + es})
			break
		}
		groups = []*compact.Group{own}
		input := compact.VerifGroupMetas(groups[0])
		blocks := make([]any, 0, len(input))
		for _, m := range input {
			b := byULID[m.ULID]
			_, marked := pre[m.ULID]
			blocks = append(blocks, map[string]any{"id": b.id, "mint": toUnit(m.MinTime), "maxt": toUnit(m.MaxTime), "nc": marked,
				"tomb": b.tomb, "ser": b.ser, "failed": b.failed, "isz": b.isz})
		}
		bb.left.Store(int64(8*len(input)*len(input) + 64))
		type planRes struct {
			plan []*metadata.Meta
			err  string
		}
		ch := make(chan planRes, 1)
		go func() {
			var r planRes
			defer func() {
				if p := recover(); p != nil {
					r = planRes{err: fmt.Sprintf("panic: %v", p)}
				}
				ch <- r
			}()
			pl, err := planner.Plan(ctx, input, nil, groups[0].Extensions())
			r.plan = pl
			if err != nil {
				r.err = "error: " + err.Error()
			}
		}()
		var r planRes
		select {
		case r = <-ch:
		case <-time.After(60 * time.Second):
			r = planRes{err: "hang: Plan did not return within 60s"}
			planHung.Store(true)
		}
		planIDs := []int{}
		for _, m := range r.plan {
			if b, ok := byULID[m.ULID]; ok {
				planIDs = append(planIDs, b.id)
			} else {
				planIDs = append(planIDs, -1) // names a block that is not in the group
			}
		}
		marked := []int{}
		ids := make([]int, 0, len(cur))
		for id := range cur {
			ids = append(ids, id)
		}
		sort.Ints(ids)
		for _, id := range ids {
			ok, err := inner.Exists(ctx, path.Join(cur[id].ul.String(), metadata.NoCompactMarkFilename))
			if err != nil {
				panic(err)
			}
			if ok {
				marked = append(marked, id)
			}
		}
		steps = append(steps, map[string]any{"blocks": blocks, "plan": planIDs, "marked": marked, "err": r.err})
		if r.err != "" {
			break
		}
		if len(planIDs) == 0 {
			converged = true
			break
		}
		// apply: the planned blocks become one block spanning them (what Group.compact uploads and
		// the next sync sees, the sources being marked for deletion)
		nb := &absBlock{id: n + step, mint: math.MaxInt64, maxt: math.MinInt64, ul: idULID(n + step)}
		for _, id := range planIDs {
			b, ok := cur[id]
			if !ok {
				continue
			}
			if b.mint < nb.mint {
				nb.mint = b.mint
			}
			if b.maxt > nb.maxt {
				nb.maxt = b.maxt
			}
			if b.ser > nb.ser {
				nb.ser = b.ser
			}
			nb.isz += b.isz
			delete(cur, id)
		}
		if nb.mint == math.MaxInt64 {
			break // the plan named no block of the group; the line is rejected by the trace spec anyway
		}
		cur[nb.id] = nb
	}
	return vt.Event{"ranges": ranges, "kind": kind, "thr": thr, "ds": ds, "n": n, "steps": steps, "converged": converged}
}

func TestC30(t *testing.T) {
	rnd := vt.Rand()
	scales := []int64{7200000, 3600000, 60000, 1000, 1}
	withConcretisation := func(c vt.Case, r *rand.Rand) vt.Case {
		rs := vt.Ints(vt.Normalize(c)["ranges"])
		l := lcmRanges(rs)
		sc := scales[r.Intn(len(scales))]
		c["scale"] = strconv.FormatInt(sc, 10)
		// shift: 0, one largest-range back (negative times), or far in the future (near "now" for scale >= 1 min)
		switch r.Intn(3) {
		case 0:
			c["shift"] = "0"
		case 1:
			c["shift"] = strconv.FormatInt(-l*int64(1+r.Intn(3)), 10)
		default:
			c["shift"] = strconv.FormatInt(l*(1_700_000_000_000/sc/l/int64(1+r.Intn(4))), 10)
		}
		return c
	}
	gen := func(yield func(vt.Case)) {
		for _, env := range []string{"VERIF_CASES_TSDB", "VERIF_CASES_FILTERS", "VERIF_CASES_TSDB2", "VERIF_CASES_TSDB3", "VERIF_CASES_FILTERS2"} {
			p := os.Getenv(env)
			if p == "" {
				continue
			}
			cs, err := vt.ReadNDJSON(p)
			if err != nil {
				t.Fatalf("reading %s: %v", env, err)
			}
			for _, c := range cs {
				if planHung.Load() {
					return
				}
				c["src"] = "tlc"
				yield(withConcretisation(c, rnd))
			}
		}
		// hand-written regression layouts (counterexamples TLC found in the model, confirmed on the code)
		for _, c := range regressionLayouts() {
			yield(withConcretisation(c, rnd))
		}
		nrand := vt.Pick(1500, 10000)
		for i := 0; i < nrand && !planHung.Load(); i++ {
			yield(withConcretisation(randomLayout(rnd), rnd))
		}
	}
	vt.Run(t, gen, func(vt.Case) string { return "" }, runC30)
}

// randomLayout: bigger groups on realistic range lists (in minutes: 1h/2h/8h/2d/14d, or small
// synthetic lists): mostly aligned level-1 blocks with gaps, some already compacted blocks,
// misaligned blocks, overlapping replicas, marks, tombstones, failed compactions.
func randomLayout(r *rand.Rand) vt.Case {
	rangeLists := [][]int{{60, 120, 480, 2880, 20160}, {120, 480, 2880}, {1, 3, 9}, {1, 2, 4, 8}, {2, 6}, {5}, {3, 4}}
	rs := rangeLists[r.Intn(len(rangeLists))]
	base := int64(rs[0])
	if len(rs) > 1 && r.Intn(2) == 0 {
		base = int64(rs[1])
	}
	top := int64(rs[len(rs)-1])
	n := 1 + r.Intn(12)
	blocks := make([]any, 0, n)
	t0 := -top + int64(r.Intn(int(2*top)))
	t0 -= ((t0 % base) + base) % base // align to base
	cursor := t0
	for i := 0; i < n; i++ {
		var mint, maxt int64
		switch k := r.Intn(20); {
		case k < 11: // next aligned base block, sometimes after a gap
			if r.Intn(5) == 0 {
				cursor += base * int64(1+r.Intn(4))
			}
			mint, maxt = cursor, cursor+base
			cursor = maxt
		case k < 14: // an already compacted block of a bigger range, aligned
			rr := int64(rs[r.Intn(len(rs))])
			mint = cursor - ((cursor%rr)+rr)%rr
			if mint < cursor {
				mint += rr
			}
			maxt = mint + rr
			cursor = maxt
		case k < 16: // overlapping replica of a window near the cursor
			mint = cursor - base*int64(1+r.Intn(2))
			maxt = mint + base*int64(1+r.Intn(2))
		case k < 18: // misaligned, arbitrary length
			mint = cursor + int64(r.Intn(int(base)+1))
			maxt = mint + 1 + int64(r.Intn(int(2*base)))
			cursor = maxt
		default: // shorter than base inside one window (e.g. a receiver restart)
			mint = cursor
			maxt = cursor + 1 + int64(r.Intn(int(base)))
			if maxt > cursor+base {
				maxt = cursor + base
			}
			cursor = maxt
		}
		ser := []int{0, 19, 19, 100, 1000}[r.Intn(5)]
		tomb := 0
		if r.Intn(6) == 0 {
			tomb = []int{1, 2, 5, 6, 50, 51, 60}[r.Intn(7)]
		}
		blocks = append(blocks, map[string]any{"mint": mint, "maxt": maxt, "nc": r.Intn(7) == 0, "tomb": tomb, "ser": ser,
			"failed": r.Intn(15) == 0, "isz": 1 + r.Intn(4)})
	}
	kind := []string{"tsdb", "tsdb", "size", "vdown", "vdown"}[r.Intn(5)]
	thr := 0
	ds := false
	if kind != "tsdb" {
		thr = []int{0, 3, 4, 6, 9}[r.Intn(5)]
		if kind == "size" && thr == 0 {
			thr = 5
		}
		ds = kind == "vdown" && r.Intn(2) == 0
	}
	return vt.Case{"ranges": rs, "blocks": blocks, "kind": kind, "thr": thr, "ds": ds, "src": "rand", "decoys": r.Intn(4)}
}

func plainBlock(mint, maxt, isz int) map[string]any {
	return map[string]any{"mint": mint, "maxt": maxt, "nc": false, "tomb": 0, "ser": 19, "failed": false, "isz": isz}
}

// regressionLayouts: (1) the vertical-compaction downsample filter forgot the no-compact marks its
// inner index-size filter had made in an earlier round and planned a block that this very Plan
// call had marked no-compact (found by TLC on PlannerMC with 4 blocks; fixed in planner.go).
func regressionLayouts() []vt.Case {
	var out []vt.Case
	for _, thr := range []int{3, 4} {
		for _, first := range []int{1, 2} {
			out = append(out, vt.Case{"ranges": []int{1, 2, 4}, "kind": "vdown", "thr": thr, "ds": true, "src": "regress",
				"blocks": []any{plainBlock(0, 2, first), plainBlock(2, 4, 1), plainBlock(2, 4, 1), plainBlock(2, 4, 1)}})
		}
	}
	return out
}
