package compaction

// A REAL store gateway for the C29 scenarios (phase 2): store.BucketStore over the same bucket as the
// compactor, its meta fetcher wired like cmd/thanos/store.go (IgnoreDeletionMarkFilter with the default
// 24 h delay, DeduplicateFilter).  "Served samples" are what a Series call through it returns.

import (
	"context"
	"fmt"
	"math"
	"os"
	"sync"
	"time"

	"github.com/go-kit/log"
	"github.com/prometheus/client_golang/prometheus"
	"github.com/prometheus/prometheus/tsdb/chunkenc"
	"github.com/thanos-io/objstore"

	"github.com/thanos-io/thanos/pkg/block"
	"github.com/thanos-io/thanos/pkg/store"
	"github.com/thanos-io/thanos/pkg/store/storepb"
)

type gateway struct {
	name     string
	lagging  bool // syncs only when time passes (every <= 23 h), not after every bucket mutation
	inner    objstore.Bucket
	scratch  string
	dir      string
	bs       *store.BucketStore
	w        *world
	restarts int
}

func (g *gateway) start() error {
	dir, err := os.MkdirTemp(g.scratch, "c29gw-")
	if err != nil {
		return err
	}
	logger := log.NewNopLogger()
	ins := objstore.WithNoopInstr(g.inner)
	fetcher, err := block.NewMetaFetcher(logger, 2, ins, block.NewConcurrentLister(logger, ins), dir, nil, []block.MetadataFilter{
		block.NewLabelShardedMetaFilter(nil),
		block.NewConsistencyDelayMetaFilter(logger, 0, nil),
		block.NewIgnoreDeletionMarkFilter(logger, ins, sgDelay, 2),
		block.NewDeduplicateFilter(2),
	})
	if err != nil {
		return err
	}
	bs, err := store.NewBucketStore(ins, fetcher, dir,
		store.NewChunksLimiterFactory(0), store.NewSeriesLimiterFactory(0), store.NewBytesLimiterFactory(0),
		store.NewGapBasedPartitioner(store.PartitionerMaxGapSize), 2, store.DefaultPostingOffsetInMemorySampling,
		false, false, time.Minute, store.WithRegistry(prometheus.NewRegistry()))
	if err != nil {
		return err
	}
	g.dir, g.bs = dir, bs
	return nil
}

func (g *gateway) stop() {
	if g.bs != nil {
		_ = g.bs.Close()
		g.bs = nil
	}
	if g.dir != "" {
		os.RemoveAll(g.dir)
		g.dir = ""
	}
}

// restart: a fresh BucketStore (empty local dir) over the same bucket.
func (g *gateway) restart() error {
	g.stop()
	g.restarts++
	return g.start()
}

func (g *gateway) sync() string {
	ctx, cancel := context.WithTimeout(context.Background(), 2*time.Minute)
	defer cancel()
	if err := g.bs.SyncBlocks(ctx); err != nil {
		return "sync: " + err.Error()
	}
	return ""
}

type gwCollector struct {
	storepb.Store_SeriesServer
	ctx    context.Context
	mu     sync.Mutex
	series []*storepb.Series
}

func (c *gwCollector) Context() context.Context { return c.ctx }
func (c *gwCollector) Send(r *storepb.SeriesResponse) error {
	c.mu.Lock()
	defer c.mu.Unlock()
	if s := r.GetSeries(); s != nil {
		c.series = append(c.series, s)
	}
	if b := r.GetBatch(); b != nil {
		c.series = append(c.series, b.Series...)
	}
	return nil
}

// query asks the gateway for everything and counts how often each original sample is returned.
func (g *gateway) query() (counts []int, extra int, errs string) {
	counts = make([]int, len(g.w.tokens))
	defer func() {
		if r := recover(); r != nil {
			errs = fmt.Sprintf("panic: %v", r)
		}
	}()
	ctx, cancel := context.WithTimeout(context.Background(), 2*time.Minute)
	defer cancel()
	col := &gwCollector{ctx: ctx}
	req := &storepb.SeriesRequest{MinTime: math.MinInt64 / 2, MaxTime: math.MaxInt64 / 2,
		Matchers: []storepb.LabelMatcher{{Type: storepb.LabelMatcher_EQ, Name: "__name__", Value: "m"}}}
	if err := g.bs.Series(req, col); err != nil {
		e := err.Error()
		if len(e) > 200 {
			e = e[:200]
		}
		return counts, 0, "series: " + e
	}
	grpOf := map[string]int{}
	for gi, gd := range g.w.lay.groups {
		grpOf[gd.ext["cluster"]] = gi
	}
	for _, s := range col.series {
		name, cluster := "", ""
		for _, l := range s.Labels {
			switch l.Name {
			case "s":
				name = string([]byte(l.Value))
			case "cluster":
				cluster = string([]byte(l.Value))
			}
		}
		grp, ok := grpOf[cluster]
		for _, ch := range s.Chunks {
			if ch.Raw == nil {
				continue
			}
			c, err := chunkenc.FromData(chunkenc.EncXOR, ch.Raw.Data)
			if err != nil {
				return counts, 0, "chunk: " + err.Error()
			}
			it := c.Iterator(nil)
			for it.Next() != chunkenc.ValNone {
				t, v := it.At()
				tok, known := g.w.tokens[tokKey(grp, name, t)]
				if !ok || !known || v != sampleValue(name, t) {
					extra++
					continue
				}
				counts[tok-1]++
			}
		}
	}
	return counts, extra, ""
}

// observe: what the gateway serves right now (syncing first unless it is the lagging one and time did not pass).
func (g *gateway) observe(doSync bool) map[string]any {
	errs := ""
	if doSync {
		errs = g.sync()
	}
	counts, extra, qerr := g.query()
	if errs == "" {
		errs = qerr
	}
	return map[string]any{"name": g.name, "lagging": g.lagging, "counts": counts, "extra": extra, "err": errs, "restarts": g.restarts}
}
