package compaction

import (
	"bytes"
	"context"
	"encoding/json"
	"fmt"
	"math/rand"
	"os"
	"os/exec"
	"path"
	"path/filepath"
	"regexp"
	"sort"
	"strings"
	"testing"
	"time"

	"github.com/oklog/ulid/v2"
	"github.com/prometheus/common/model"
	"github.com/thanos-io/objstore"

	"github.com/thanos-io/thanos/pkg/block"
	"github.com/thanos-io/thanos/pkg/block/metadata"

	"verif/harness/vt"
)

// ---------------------------------------------------------------------------------------------
// C34: the compactor / store-gateway delay protocol.  The property is decided in the model
// (DelayProtocolMC); this harness binds the model's ingredients to the code:
//
//	flags   the defaults of --delete-delay (compact), --ignore-deletion-marks-delay and
//	        --sync-block-duration (store): from the flag registrations in cmd/thanos/*.go (quick and
//	        thorough) and from `thanos compact|store --help` of a freshly built binary (thorough)
//	case    bucket states enumerated by TLC (blocks with sources, with or without meta.json, deletion
//	        mark of an age class) materialised in an in-memory bucket; the REAL store-gateway meta fetcher
//	        (IgnoreDeletionMarkFilter(default delay) + DeduplicateFilter, wired like cmd/thanos/store.go)
//	        selects blocks
//	probe   (thorough, best effort) the built binary compacts a filesystem bucket in one-shot mode with one
//	        source block marked 20 h / 30 h ago: does the compactor still plan with it (deleteDelay/2 rule)?
// ---------------------------------------------------------------------------------------------

var flagRe = map[string]*regexp.Regexp{}

// sourceDefault extracts Default("...") of cmd.Flag("<name>", ...) from a cmd/thanos source file.
func sourceDefault(src, name string) (string, error) {
	i := strings.Index(src, `Flag("`+name+`"`)
	if i < 0 {
		return "", fmt.Errorf("flag %s not registered", name)
	}
	rest := src[i:]
	// the registration ends at the first Var/SetValue call after the flag
	end := len(rest)
	for _, stop := range []string{".SetValue(", "Var(&"} {
		if j := strings.Index(rest, stop); j >= 0 && j < end {
			end = j
		}
	}
	m := regexp.MustCompile(`Default\("([^"]*)"\)`).FindStringSubmatch(rest[:end])
	if m == nil {
		return "", fmt.Errorf("flag %s has no default", name)
	}
	return m[1], nil
}

func helpDefault(help, name string) (string, error) {
	m := regexp.MustCompile(`--` + regexp.QuoteMeta(name) + `=("?)([^\s"]+)("?)`).FindStringSubmatch(help)
	if m == nil {
		return "", fmt.Errorf("flag --%s not in help", name)
	}
	return m[2], nil
}

func durSec(s string) (int, error) {
	d, err := model.ParseDuration(s)
	if err != nil {
		dd, err2 := time.ParseDuration(s)
		if err2 != nil {
			return 0, err
		}
		return int(dd / time.Second), nil
	}
	return int(time.Duration(d) / time.Second), nil
}

func repoDir() string {
	if d := os.Getenv("VERIF_REPO"); d != "" {
		return d
	}
	return "/repo"
}

type delays struct{ del, ign, sync int }

func flagsFromSource(t *testing.T) delays {
	cb, err := os.ReadFile(filepath.Join(repoDir(), "cmd/thanos/compact.go"))
	if err != nil {
		t.Fatal(err)
	}
	sb, err := os.ReadFile(filepath.Join(repoDir(), "cmd/thanos/store.go"))
	if err != nil {
		t.Fatal(err)
	}
	get := func(src []byte, name string) int {
		s, err := sourceDefault(string(src), name)
		if err != nil {
			t.Fatalf("cmd/thanos: %v", err)
		}
		v, err := durSec(s)
		if err != nil {
			t.Fatalf("default of %s: %v", name, err)
		}
		return v
	}
	return delays{del: get(cb, "delete-delay"), ign: get(sb, "ignore-deletion-marks-delay"), sync: get(sb, "sync-block-duration")}
}

func buildThanos(t *testing.T, scratch string) string {
	bin := filepath.Join(scratch, "thanos-c34")
	cmd := exec.Command("go", "build", "-tags", "slicelabels,verif", "-o", bin, "github.com/thanos-io/thanos/cmd/thanos")
	cmd.Env = append(os.Environ(), "GOFLAGS=-mod=mod", "GOPROXY=off")
	if out, err := cmd.CombinedOutput(); err != nil {
		t.Fatalf("building cmd/thanos: %v\n%s", err, out)
	}
	return bin
}

func flagsFromBinary(t *testing.T, bin string) delays {
	help := func(sub string) string {
		out, _ := exec.Command(bin, sub, "--help").CombinedOutput()
		return string(out)
	}
	ch, sh := help("compact"), help("store")
	get := func(h, name string) int {
		s, err := helpDefault(h, name)
		if err != nil {
			t.Fatalf("thanos --help: %v", err)
		}
		v, err := durSec(s)
		if err != nil {
			t.Fatalf("default of %s: %v", name, err)
		}
		return v
	}
	return delays{del: get(ch, "delete-delay"), ign: get(sh, "ignore-deletion-marks-delay"), sync: get(sh, "sync-block-duration")}
}

// age classes of the model (ticks of 12 h, delete delay 4, ignore delay 2) -> seconds relative to the REAL
// default delays: 0 -> just marked; ignoreTicks -> just inside the ignore delay; ignoreTicks+1 -> just beyond it;
// deleteTicks+1 -> beyond the delete delay.  The margin keeps the verdict independent of machine speed.
const ageMargin = 300

func ageSeconds(age, ignoreTicks, deleteTicks int, d delays, jitter int) int {
	switch {
	case age < 0:
		return -1
	case age == 0:
		return jitter
	case age <= ignoreTicks:
		return d.ign - ageMargin - jitter
	case age <= deleteTicks:
		return d.ign + ageMargin + jitter
	default:
		return d.del + ageMargin + jitter
	}
}

func runFilterCase(c vt.Case, d delays) vt.Event {
	ctx := context.Background()
	inner := objstore.NewInMemBucket()
	ignoreTicks, deleteTicks := vt.Int(c["ignoreTicks"]), vt.Int(c["deleteTicks"])
	jr := rand.New(rand.NewSource(vt.Int64(c["jseed"])))
	srcULID := func(s int) ulid.ULID { return ulid.MustNew(uint64(1000+s), nil) }
	now := time.Now()
	var ids []ulid.ULID
	for k, x := range vt.List(c["blocks"]) {
		b := vt.Map(x)
		id := ulid.MustNew(uint64(2000+k), nil)
		ids = append(ids, id)
		if vt.Bool(b["meta"]) {
			m := metadata.Meta{}
			m.Version = 1
			m.ULID = id
			m.MinTime, m.MaxTime = 0, 7200000
			m.Compaction.Level = 1
			for _, s := range vt.Ints(b["src"]) {
				m.Compaction.Sources = append(m.Compaction.Sources, srcULID(s))
			}
			m.Thanos.Labels = map[string]string{"cluster": "a"}
			m.Thanos.Source = metadata.CompactorSource
			var buf bytes.Buffer
			if err := m.Write(&buf); err != nil {
				panic(err)
			}
			if err := inner.Upload(ctx, path.Join(id.String(), block.MetaFilename), &buf); err != nil {
				panic(err)
			}
		}
		// a data file: present for complete blocks and for partial ones (upload in progress / deletion in progress)
		if err := inner.Upload(ctx, path.Join(id.String(), block.IndexFilename), strings.NewReader("index")); err != nil {
			panic(err)
		}
		if a := ageSeconds(vt.Int(b["age"]), ignoreTicks, deleteTicks, d, jr.Intn(120)); a >= 0 {
			dm, _ := json.Marshal(metadata.DeletionMark{ID: id, Version: metadata.DeletionMarkVersion1, DeletionTime: now.Unix() - int64(a), Details: "c34"})
			if err := inner.Upload(ctx, path.Join(id.String(), metadata.DeletionMarkFilename), bytes.NewReader(dm)); err != nil {
				panic(err)
			}
		}
	}
	got, err := sgFetch(inner, time.Duration(d.ign)*time.Second)
	if err != nil {
		panic(err)
	}
	// observe the bucket AFTER the fetch: ages only grow, the margins absorb the difference
	w := &world{grpKey: map[string]int{}}
	th := metadata.Thanos{Labels: map[string]string{"cluster": "a"}}
	w.grpKey[th.GroupKey()] = 0
	o := &observer{w: w, cache: map[string]metaCacheEntry{}}
	snap := o.snapshot(inner, time.Now())
	idOf := map[string]int{}
	for k, id := range ids {
		idOf[id.String()] = k + 1
	}
	for s := 1; s <= 4; s++ {
		idOf[srcULID(s).String()] = 100 + s
	}
	blocks := []any{}
	for _, b := range snap {
		src := []int{}
		for _, s := range b.Src {
			src = append(src, idOf[s])
		}
		sort.Ints(src)
		blocks = append(blocks, map[string]any{"id": idOf[b.ULID], "grp": b.Grp, "src": src, "meta": b.Meta, "complete": b.Complete, "markAge": b.MarkAge})
	}
	gotIDs := []int{}
	for _, u := range got {
		gotIDs = append(gotIDs, idOf[u])
	}
	sort.Ints(gotIDs)
	return vt.Event{"kind": "filter", "blocks": blocks, "got": gotIDs, "ignoreSec": d.ign, "deleteSec": d.del, "syncSec": d.sync,
		"modelIgnore": ignoreTicks, "modelDelete": deleteTicks, "included": false, "ageH": 0, "origin": "",
		"deleted": []int{}, "after": []int{}, "views": []any{}, "err": "", "filterSec": 0, "cleanerSec": 0, "storeSec": 0}
}

func flagsEvent(d delays, from string) vt.Event {
	return vt.Event{"kind": "flags", "blocks": []any{}, "got": []int{}, "ignoreSec": d.ign, "deleteSec": d.del, "syncSec": d.sync,
		"modelIgnore": 2, "modelDelete": 4, "included": false, "ageH": 0, "origin": from,
		"deleted": []int{}, "after": []int{}, "views": []any{}, "err": "", "filterSec": 0, "cleanerSec": 0, "storeSec": 0}
}

// probe: one-shot `thanos compact` over a filesystem bucket holding the aligned5 layout with the second block
// marked ageH hours ago; reports whether the compaction result was made of that block too.
func runProbe(t *testing.T, bin, scratch string, ageH int, d delays) (vt.Event, error) {
	w, err := buildWorld(layouts["aligned5"], scratch)
	if err != nil {
		return nil, err
	}
	bdir, _ := os.MkdirTemp(scratch, "c34probe-bkt-")
	ddir, _ := os.MkdirTemp(scratch, "c34probe-data-")
	defer os.RemoveAll(bdir)
	defer os.RemoveAll(ddir)
	if err := copyTree(bdir, w.objects); err != nil {
		return nil, err
	}
	marked := w.ids[1]
	dm, _ := json.Marshal(metadata.DeletionMark{ID: marked, Version: metadata.DeletionMarkVersion1, DeletionTime: time.Now().Add(-time.Duration(ageH) * time.Hour).Unix(), Details: "c34 probe"})
	if err := os.WriteFile(filepath.Join(bdir, marked.String(), metadata.DeletionMarkFilename), dm, 0o644); err != nil {
		return nil, err
	}
	cfg := fmt.Sprintf("type: FILESYSTEM\nconfig:\n  directory: %s\n", bdir)
	ctx, cancel := context.WithTimeout(context.Background(), 4*time.Minute)
	defer cancel()
	cmd := exec.CommandContext(ctx, bin, "compact", "--objstore.config="+cfg, "--data-dir="+ddir, "--consistency-delay=0s",
		"--http-address=127.0.0.1:0", "--log.level=error", "--downsampling.disable")
	out, err := cmd.CombinedOutput()
	if err != nil {
		return nil, fmt.Errorf("thanos compact: %v\n%s", err, out)
	}
	// find the compaction result: a block made of more than one source
	ents, _ := os.ReadDir(bdir)
	included, found := false, false
	for _, e := range ents {
		b, err := os.ReadFile(filepath.Join(bdir, e.Name(), block.MetaFilename))
		if err != nil {
			continue
		}
		m := metadata.Meta{}
		if json.Unmarshal(b, &m) != nil || len(m.Compaction.Sources) < 2 {
			continue
		}
		found = true
		for _, s := range m.Compaction.Sources {
			if s == marked {
				included = true
			}
		}
	}
	if !found {
		return nil, fmt.Errorf("probe: the one-shot compactor produced no compacted block:\n%s", out)
	}
	ev := flagsEvent(d, "binary")
	ev["kind"], ev["included"], ev["ageH"] = "probe", included, ageH
	return ev, nil
}

func TestC34(t *testing.T) {
	scratch := os.Getenv("VERIF_SCRATCH")
	if scratch == "" {
		scratch = t.TempDir()
	}
	src := flagsFromSource(t)
	bin := ""
	var fromBin delays
	if vt.Thorough() && vt.Replay(t) == nil {
		bin = buildThanos(t, scratch)
		defer os.Remove(bin)
		fromBin = flagsFromBinary(t, bin)
	}
	rnd := vt.Rand()
	wir := wiringFromSource(t, src)
	gen := func(yield func(vt.Case)) {
		yield(vt.Case{"kind": "flags", "origin": "source"})
		wiringCases(rnd, src, wir, vt.Pick(60, 600), yield)
		gwlagCases(rnd, src, wir, vt.Pick(36, 400), yield)
		if bin != "" {
			yield(vt.Case{"kind": "flags", "origin": "binary"})
			yield(vt.Case{"kind": "probe", "ageH": 20})
			yield(vt.Case{"kind": "probe", "ageH": 30})
		}
		for _, c := range vt.TLCCases(t) {
			c["kind"] = "filter"
			c["jseed"] = rnd.Int63n(1 << 30)
			yield(c)
		}
		// seeded random bigger bucket states: up to 6 blocks over 4 source ids
		n := vt.Pick(300, 3000)
		for i := 0; i < n; i++ {
			nb := 1 + rnd.Intn(6)
			blocks := make([]any, 0, nb)
			for k := 0; k < nb; k++ {
				var srcs []int
				for s := 1; s <= 4; s++ {
					if rnd.Intn(2) == 0 {
						srcs = append(srcs, s)
					}
				}
				if len(srcs) == 0 {
					srcs = []int{1 + rnd.Intn(4)}
				}
				blocks = append(blocks, map[string]any{"src": srcs, "meta": rnd.Intn(6) != 0, "age": []int{-1, -1, 0, 2, 3, 5}[rnd.Intn(6)]})
			}
			yield(vt.Case{"kind": "filter", "blocks": blocks, "ignoreTicks": 2, "deleteTicks": 4, "jseed": rnd.Int63n(1 << 30)})
		}
	}
	vt.Run(t, gen, func(vt.Case) string { return "" }, func(c vt.Case) vt.Event {
		switch vt.Str(c["kind"]) {
		case "flags":
			if vt.Str(c["origin"]) == "binary" {
				if bin == "" { // replay of a binary case in a run that did not build it
					b := buildThanos(t, scratch)
					defer os.Remove(b)
					return flagsEvent(flagsFromBinary(t, b), "binary")
				}
				return flagsEvent(fromBin, "binary")
			}
			return flagsEvent(src, "source")
		case "probe":
			b := bin
			if b == "" {
				b = buildThanos(t, scratch)
				defer os.Remove(b)
			}
			ev, err := runProbe(t, b, scratch, vt.Int(c["ageH"]), src)
			if err != nil {
				t.Logf("probe skipped (best effort): %v", err)
				return nil
			}
			return ev
		case "wiring":
			return runWiringCase(c, src, wir)
		case "gwlag":
			return runGwLagCase(t, c, src, wir, scratch)
		default:
			return runFilterCase(c, src)
		}
	})
}
