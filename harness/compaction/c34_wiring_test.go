package compaction

import (
	"bytes"
	"context"
	"encoding/json"
	"fmt"
	"go/ast"
	"go/parser"
	"go/token"
	"math/rand"
	"path"
	"path/filepath"
	"sort"
	"strconv"
	"strings"
	"testing"
	"time"

	"github.com/go-kit/log"
	"github.com/oklog/ulid/v2"
	"github.com/prometheus/client_golang/prometheus"
	"github.com/thanos-io/objstore"

	"github.com/thanos-io/thanos/pkg/block"
	"github.com/thanos-io/thanos/pkg/block/metadata"
	"github.com/thanos-io/thanos/pkg/compact"

	"verif/harness/vt"
)

// ---------------------------------------------------------------------------------------------
// C34 "wiring" cases: the compactor's deletion side composed as cmd/thanos/compact.go composes it.
//
// The delays handed to block.NewIgnoreDeletionMarkFilter and compact.NewBlocksCleaner are READ FROM
// THE SOURCE of runCompact (go/ast: the argument expressions, evaluated with --delete-delay at its
// default), as is the fact that the cleaner receives that very filter; the store gateway's filter
// delay is read from runStore the same way.  With these values the REAL filter, the REAL
// BlocksCleaner and REAL MetaFetchers run over an in-memory bucket whose deletion marks are aged
// around deleteDelay/2 and deleteDelay:
//
//	views    what a store gateway that synced `lag` ago has loaded: the real gateway fetcher on the
//	         bucket as it was `lag` ago (marks younger by lag), lag in {0, sync interval, 23 h}
//	deleted  what DeleteMarkedBlocks deleted after the compactor's own sync
//	after    the blocks still intact in the bucket afterwards
// ---------------------------------------------------------------------------------------------

type wiring struct {
	filterDelay  time.Duration // compactor: NewIgnoreDeletionMarkFilter(..., <this>, ...)
	cleanerDelay time.Duration // compactor: NewBlocksCleaner(..., filter, <this>, ...)
	sameFilter   bool          // the cleaner is handed the filter constructed above
	storeDelay   time.Duration // store: NewIgnoreDeletionMarkFilter(..., <this>, ...)
}

// evalDur evaluates a duration expression of cmd/thanos: identifiers bound earlier in the function,
// conf.<field> (flag defaults), time.Duration(x), time.<Unit>, integer literals, + - * /, parentheses.
func evalDur(e ast.Expr, env map[string]int64, fields map[string]int64) (int64, error) {
	switch x := e.(type) {
	case *ast.ParenExpr:
		return evalDur(x.X, env, fields)
	case *ast.BasicLit:
		if x.Kind == token.INT {
			return strconv.ParseInt(x.Value, 0, 64)
		}
	case *ast.Ident:
		if v, ok := env[x.Name]; ok {
			return v, nil
		}
	case *ast.SelectorExpr:
		if id, ok := x.X.(*ast.Ident); ok && id.Name == "time" {
			units := map[string]time.Duration{"Nanosecond": time.Nanosecond, "Microsecond": time.Microsecond, "Millisecond": time.Millisecond,
				"Second": time.Second, "Minute": time.Minute, "Hour": time.Hour}
			if u, ok := units[x.Sel.Name]; ok {
				return int64(u), nil
			}
		}
		if v, ok := fields[x.Sel.Name]; ok {
			return v, nil
		}
	case *ast.CallExpr:
		if s, ok := x.Fun.(*ast.SelectorExpr); ok && s.Sel.Name == "Duration" && len(x.Args) == 1 {
			return evalDur(x.Args[0], env, fields)
		}
	case *ast.BinaryExpr:
		a, err := evalDur(x.X, env, fields)
		if err != nil {
			return 0, err
		}
		b, err := evalDur(x.Y, env, fields)
		if err != nil {
			return 0, err
		}
		switch x.Op {
		case token.ADD:
			return a + b, nil
		case token.SUB:
			return a - b, nil
		case token.MUL:
			return a * b, nil
		case token.QUO:
			if b == 0 {
				return 0, fmt.Errorf("division by zero")
			}
			return a / b, nil
		}
	}
	return 0, fmt.Errorf("cannot evaluate duration expression %T", e)
}

// scanFunc walks the body of function fn of a cmd/thanos file in source order, binding `x := <duration expr>`
// and reporting every call of a function/selector named one of names with its arguments.
func scanFunc(t *testing.T, file, fn string, fields map[string]int64, names []string, onCall func(name string, lhs string, call *ast.CallExpr, env map[string]int64)) {
	fset := token.NewFileSet()
	f, err := parser.ParseFile(fset, filepath.Join(repoDir(), "cmd/thanos", file), nil, 0)
	if err != nil {
		t.Fatalf("parsing cmd/thanos/%s: %v", file, err)
	}
	var body *ast.BlockStmt
	for _, d := range f.Decls {
		if fd, ok := d.(*ast.FuncDecl); ok && fd.Name.Name == fn {
			body = fd.Body
		}
	}
	if body == nil {
		t.Fatalf("cmd/thanos/%s: function %s not found", file, fn)
	}
	env := map[string]int64{}
	want := map[string]bool{}
	for _, n := range names {
		want[n] = true
	}
	ast.Inspect(body, func(n ast.Node) bool {
		as, ok := n.(*ast.AssignStmt)
		lhs := ""
		var rhs ast.Expr
		if ok && len(as.Lhs) >= 1 && len(as.Rhs) == 1 {
			if id, ok := as.Lhs[0].(*ast.Ident); ok {
				lhs, rhs = id.Name, as.Rhs[0]
			}
		}
		if rhs != nil && len(as.Lhs) == 1 {
			if v, err := evalDur(rhs, env, fields); err == nil {
				env[lhs] = v
			}
		}
		var call *ast.CallExpr
		if rhs != nil {
			call, _ = rhs.(*ast.CallExpr)
		} else if es, ok := n.(*ast.ExprStmt); ok {
			call, _ = es.X.(*ast.CallExpr)
		}
		if call != nil {
			name := ""
			switch fx := call.Fun.(type) {
			case *ast.SelectorExpr:
				name = fx.Sel.Name
			case *ast.Ident:
				name = fx.Name
			}
			if want[name] {
				onCall(name, lhs, call, env)
			}
		}
		return true
	})
}

func wiringFromSource(t *testing.T, d delays) wiring {
	fields := map[string]int64{
		"deleteDelay":              int64(time.Duration(d.del) * time.Second),
		"ignoreDeletionMarksDelay": int64(time.Duration(d.ign) * time.Second),
	}
	w := wiring{filterDelay: -1, cleanerDelay: -1, storeDelay: -1}
	filterVar := ""
	scanFunc(t, "compact.go", "runCompact", fields, []string{"NewIgnoreDeletionMarkFilter", "NewBlocksCleaner"}, func(name, lhs string, call *ast.CallExpr, env map[string]int64) {
		switch name {
		case "NewIgnoreDeletionMarkFilter":
			if len(call.Args) < 3 {
				t.Fatalf("runCompact: unexpected NewIgnoreDeletionMarkFilter call")
			}
			v, err := evalDur(call.Args[2], env, fields)
			if err != nil {
				t.Fatalf("runCompact: delay of NewIgnoreDeletionMarkFilter: %v", err)
			}
			w.filterDelay, filterVar = time.Duration(v), lhs
		case "NewBlocksCleaner":
			if len(call.Args) < 4 {
				t.Fatalf("runCompact: unexpected NewBlocksCleaner call")
			}
			v, err := evalDur(call.Args[3], env, fields)
			if err != nil {
				t.Fatalf("runCompact: delay of NewBlocksCleaner: %v", err)
			}
			w.cleanerDelay = time.Duration(v)
			if id, ok := call.Args[2].(*ast.Ident); ok && id.Name == filterVar && filterVar != "" {
				w.sameFilter = true
			}
		}
	})
	scanFunc(t, "store.go", "runStore", fields, []string{"NewIgnoreDeletionMarkFilter"}, func(name, lhs string, call *ast.CallExpr, env map[string]int64) {
		if len(call.Args) < 3 {
			t.Fatalf("runStore: unexpected NewIgnoreDeletionMarkFilter call")
		}
		v, err := evalDur(call.Args[2], env, fields)
		if err != nil {
			t.Fatalf("runStore: delay of NewIgnoreDeletionMarkFilter: %v", err)
		}
		w.storeDelay = time.Duration(v)
	})
	if w.filterDelay < 0 || w.cleanerDelay < 0 || w.storeDelay < 0 {
		t.Fatalf("cmd/thanos wiring not found: %+v", w)
	}
	if !w.sameFilter {
		t.Fatalf("cmd/thanos/compact.go: NewBlocksCleaner is not handed the filter built by NewIgnoreDeletionMarkFilter; the harness cannot mirror that")
	}
	return w
}

// wiringAges: mark ages (seconds) around the wired delays; -1 = no mark.
func wiringAges(d delays, w wiring) []int {
	half, full := int(w.filterDelay/time.Second), int(w.cleanerDelay/time.Second)
	return []int{-1, 3600, half - ageMargin, half + ageMargin, (half + full) / 2, full - ageMargin, full + ageMargin, full + 12*3600,
		d.ign - ageMargin, d.ign + ageMargin, d.del - ageMargin, d.del + ageMargin}
}

func putBlock(ctx context.Context, bkt objstore.Bucket, id ulid.ULID, src []ulid.ULID, markAge int, now time.Time) {
	m := metadata.Meta{}
	m.Version = 1
	m.ULID = id
	m.MinTime, m.MaxTime = 0, 7200000
	m.Compaction.Level = 1
	m.Compaction.Sources = src
	m.Thanos.Labels = map[string]string{"cluster": "a"}
	m.Thanos.Source = metadata.CompactorSource
	var buf bytes.Buffer
	if err := m.Write(&buf); err != nil {
		panic(err)
	}
	if err := bkt.Upload(ctx, path.Join(id.String(), block.MetaFilename), &buf); err != nil {
		panic(err)
	}
	if err := bkt.Upload(ctx, path.Join(id.String(), block.IndexFilename), strings.NewReader("index")); err != nil {
		panic(err)
	}
	if markAge >= 0 {
		dm, _ := json.Marshal(metadata.DeletionMark{ID: id, Version: metadata.DeletionMarkVersion1, DeletionTime: now.Unix() - int64(markAge), Details: "c34 wiring"})
		if err := bkt.Upload(ctx, path.Join(id.String(), metadata.DeletionMarkFilename), bytes.NewReader(dm)); err != nil {
			panic(err)
		}
	}
}

func runWiringCase(c vt.Case, d delays, w wiring) vt.Event {
	ctx := context.Background()
	logger := log.NewNopLogger()
	ages := vt.Ints(c["ages"])
	covered := vt.Bool(c["covered"]) // a compaction result made of all blocks is present too (unmarked)
	now := time.Now()
	ids := make([]ulid.ULID, len(ages))
	idOf := map[string]int{}
	for k := range ages {
		ids[k] = ulid.MustNew(uint64(3000+k), nil)
		idOf[ids[k].String()] = k + 1
	}
	resID := ulid.MustNew(uint64(3900), nil)
	idOf[resID.String()] = len(ages) + 1
	build := func(lag int) objstore.Bucket {
		b := objstore.NewInMemBucket()
		for k, a := range ages {
			ak := -1
			if a >= 0 && a > lag {
				ak = a - lag // `lag` seconds ago the mark was that much younger (or not there yet)
			}
			putBlock(ctx, b, ids[k], []ulid.ULID{ids[k]}, ak, now)
		}
		if covered {
			putBlock(ctx, b, resID, ids, -1, now)
		}
		return b
	}
	// store gateways that synced `lag` ago
	lags := []int{0, d.sync, 23 * 3600}
	views := []any{}
	for _, lag := range lags {
		got, err := sgFetch(build(lag), w.storeDelay)
		if err != nil {
			panic(err)
		}
		loaded := []int{}
		for _, u := range got {
			loaded = append(loaded, idOf[u])
		}
		sort.Ints(loaded)
		views = append(views, map[string]any{"lagSec": lag, "loaded": loaded})
	}
	// the compactor now: its sync, then the cleaner, composed as runCompact composes them
	inner := build(0)
	ins := objstore.WithNoopInstr(inner)
	filter := block.NewIgnoreDeletionMarkFilter(logger, ins, w.filterDelay, 2)
	cf, err := block.NewMetaFetcher(logger, 2, ins, block.NewConcurrentLister(logger, ins), "", nil, []block.MetadataFilter{
		block.NewLabelShardedMetaFilter(nil),
		block.NewConsistencyDelayMetaFilter(logger, 0, nil),
		filter,
		block.NewReplicaLabelRemover(logger, nil),
		block.NewDeduplicateFilter(2),
	})
	if err != nil {
		panic(err)
	}
	if _, _, err := cf.Fetch(ctx); err != nil {
		panic(err)
	}
	cnt := func(n string) prometheus.Counter { return prometheus.NewCounter(prometheus.CounterOpts{Name: n}) }
	cleaner := compact.NewBlocksCleaner(logger, inner, filter, w.cleanerDelay, cnt("a"), cnt("b"))
	wo := &world{grpKey: map[string]int{}}
	th := metadata.Thanos{Labels: map[string]string{"cluster": "a"}}
	wo.grpKey[th.GroupKey()] = 0
	o := &observer{w: wo, cache: map[string]metaCacheEntry{}}
	obsBlocks := func(snap []blockObs) []any {
		out := []any{}
		for _, b := range snap {
			src := []int{}
			for _, s := range b.Src {
				src = append(src, idOf[s])
			}
			sort.Ints(src)
			out = append(out, map[string]any{"id": idOf[b.ULID], "grp": b.Grp, "src": src, "meta": b.Meta, "complete": b.Complete, "markAge": b.MarkAge})
		}
		return out
	}
	before := o.snapshot(inner, time.Now())
	del, cerr := cleaner.DeleteMarkedBlocks(ctx)
	errs := ""
	if cerr != nil {
		errs = cerr.Error()
	}
	deleted := []int{}
	for id := range del {
		deleted = append(deleted, idOf[id.String()])
	}
	sort.Ints(deleted)
	after := []int{}
	for _, b := range o.snapshot(inner, time.Now()) {
		if b.Meta && b.Complete {
			after = append(after, idOf[b.ULID])
		}
	}
	sort.Ints(after)
	ev := flagsEvent(d, "source")
	ev["kind"], ev["blocks"] = "wiring", obsBlocks(before)
	ev["deleted"], ev["after"], ev["views"], ev["err"] = deleted, after, views, errs
	ev["filterSec"], ev["cleanerSec"], ev["storeSec"] = int(w.filterDelay/time.Second), int(w.cleanerDelay/time.Second), int(w.storeDelay/time.Second)
	return ev
}

// wiringCases: one state with every age class, then seeded random states (jitter moves an age away from
// the boundary it sits next to, never across it).
func wiringCases(rnd *rand.Rand, d delays, w wiring, n int, yield func(vt.Case)) {
	all := wiringAges(d, w)
	dirs := []int{0, 1, -1, 1, 1, -1, 1, 1, -1, 1, -1, 1}
	yield(vt.Case{"kind": "wiring", "ages": all, "covered": false})
	yield(vt.Case{"kind": "wiring", "ages": all, "covered": true})
	for i := 0; i < n; i++ {
		k := 1 + rnd.Intn(6)
		ages := make([]int, k)
		for j := range ages {
			c := rnd.Intn(len(all))
			ages[j] = all[c] + dirs[c]*rnd.Intn(1500)
		}
		yield(vt.Case{"kind": "wiring", "ages": ages, "covered": rnd.Intn(2) == 0})
	}
}

// ---------------------------------------------------------------------------------------------
// Phase 2, kind "gwlag": the same composition observed through a REAL store gateway.  The aligned5 world
// (real blocks) is put into a bucket with deletion marks of the given ages; a store.BucketStore syncs on the
// bucket as it was `lag` seconds ago, then the compactor (its sync + the cleaner, wired from the source of
// runCompact) runs now, then the gateway is queried WITHOUT another sync.
// ---------------------------------------------------------------------------------------------

var gwlagWorld *world

func runGwLagCase(t *testing.T, c vt.Case, d delays, w wiring, scratch string) vt.Event {
	ctx := context.Background()
	logger := log.NewNopLogger()
	if gwlagWorld == nil {
		ww, err := buildWorld(layouts["aligned5"], scratch)
		if err != nil {
			t.Fatalf("gwlag world: %v", err)
		}
		gwlagWorld = ww
	}
	ww := gwlagWorld
	ages := vt.Ints(c["ages"]) // one per original block, -1 = unmarked
	lag := vt.Int(c["lag"])
	inner := objstore.NewInMemBucket()
	if err := ww.fill(inner); err != nil {
		panic(err)
	}
	now := time.Now()
	mark := func(k, age int) {
		dm, _ := json.Marshal(metadata.DeletionMark{ID: ww.ids[k], Version: metadata.DeletionMarkVersion1, DeletionTime: now.Unix() - int64(age), Details: "c34 gwlag"})
		if err := inner.Upload(ctx, path.Join(ww.ids[k].String(), metadata.DeletionMarkFilename), bytes.NewReader(dm)); err != nil {
			panic(err)
		}
	}
	// the bucket `lag` ago
	for k, a := range ages {
		if a >= 0 && a > lag {
			mark(k, a-lag)
		}
	}
	g := &gateway{name: "lagging", lagging: true, inner: inner, scratch: scratch, w: ww}
	if err := g.start(); err != nil {
		panic(err)
	}
	defer g.stop()
	serr := g.sync()
	loadedULIDs, err := sgFetch(inner, w.storeDelay)
	if err != nil {
		panic(err)
	}
	idOf := map[string]int{}
	for k, id := range ww.ids {
		idOf[id.String()] = k + 1
	}
	loaded := []int{}
	for _, u := range loadedULIDs {
		loaded = append(loaded, idOf[u])
	}
	sort.Ints(loaded)
	// now: the marks as they are today, the compactor's sync and cleaner
	for k, a := range ages {
		if a >= 0 {
			mark(k, a)
		}
	}
	ins := objstore.WithNoopInstr(inner)
	filter := block.NewIgnoreDeletionMarkFilter(logger, ins, w.filterDelay, 2)
	cf, err := block.NewMetaFetcher(logger, 2, ins, block.NewConcurrentLister(logger, ins), "", nil, []block.MetadataFilter{
		block.NewLabelShardedMetaFilter(nil), block.NewConsistencyDelayMetaFilter(logger, 0, nil), filter,
		block.NewReplicaLabelRemover(logger, nil), block.NewDeduplicateFilter(2)})
	if err != nil {
		panic(err)
	}
	if _, _, err := cf.Fetch(ctx); err != nil {
		panic(err)
	}
	cnt := func(n string) prometheus.Counter { return prometheus.NewCounter(prometheus.CounterOpts{Name: n}) }
	del, cerr := compact.NewBlocksCleaner(logger, inner, filter, w.cleanerDelay, cnt("a"), cnt("b")).DeleteMarkedBlocks(ctx)
	deleted := []int{}
	for id := range del {
		deleted = append(deleted, idOf[id.String()])
	}
	sort.Ints(deleted)
	counts, extra, qerr := g.query() // no sync in between
	if serr != "" {
		qerr = serr
	}
	orig := []any{}
	for _, toks := range ww.origTok {
		orig = append(orig, toks)
	}
	ev := flagsEvent(d, "source")
	ev["kind"] = "gwlag"
	ev["deleted"], ev["views"] = deleted, []any{map[string]any{"lagSec": lag, "loaded": loaded}}
	ev["err"] = ""
	if cerr != nil {
		ev["err"] = cerr.Error()
	}
	ev["orig"], ev["counts"], ev["extra"], ev["qerr"] = orig, counts, extra, qerr
	ev["filterSec"], ev["cleanerSec"], ev["storeSec"] = int(w.filterDelay/time.Second), int(w.cleanerDelay/time.Second), int(w.storeDelay/time.Second)
	return ev
}

func gwlagCases(rnd *rand.Rand, d delays, w wiring, n int, yield func(vt.Case)) {
	all := wiringAges(d, w)
	dirs := []int{0, 1, -1, 1, 1, -1, 1, 1, -1, 1, -1, 1}
	lags := []int{0, d.sync, 23 * 3600, 6 * 3600}
	for i := 0; i < n; i++ {
		ages := make([]int, 5)
		for j := range ages {
			c := rnd.Intn(len(all))
			ages[j] = all[c] + dirs[c]*rnd.Intn(1500)
			if i < len(all) && j == 0 {
				ages[j] = all[i] // every age class at least once
			}
		}
		yield(vt.Case{"kind": "gwlag", "ages": ages, "lag": lags[i%len(lags)]})
	}
}
