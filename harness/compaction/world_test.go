package compaction

// World of the C29 / C34 harnesses: small REAL tsdb blocks with known samples, a compactor wired
// like cmd/thanos/compact.go, bucket snapshots as a store gateway could observe them.

import (
	"bytes"
	"context"
	"encoding/json"
	"fmt"
	"io"
	"log/slog"
	"math"
	"os"
	"path"
	"path/filepath"
	"sort"
	"strings"
	"time"

	"github.com/go-kit/log"
	"github.com/oklog/ulid/v2"
	"github.com/prometheus/client_golang/prometheus"
	"github.com/prometheus/prometheus/model/histogram"
	"github.com/prometheus/prometheus/model/labels"
	"github.com/prometheus/prometheus/storage"
	"github.com/prometheus/prometheus/tsdb"
	"github.com/prometheus/prometheus/tsdb/chunkenc"
	"github.com/prometheus/prometheus/tsdb/chunks"
	"github.com/thanos-io/objstore"

	"github.com/thanos-io/thanos/pkg/block"
	"github.com/thanos-io/thanos/pkg/block/metadata"
	"github.com/thanos-io/thanos/pkg/compact"
	"github.com/thanos-io/thanos/pkg/compact/downsample"
	"github.com/thanos-io/thanos/pkg/extprom"

	"verif/harness/bucketrec"
)

const (
	unitMs  = int64(2 * 3600 * 1000)   // one model time unit = 2 h
	baseMs  = int64(1_700_006_400_000) // multiple of 8 h
	hour    = time.Hour
	sgDelay = 24 * time.Hour // store gateway --ignore-deletion-marks-delay default
	delDel  = 48 * time.Hour // compactor --delete-delay default
)

var discardSlog = slog.New(slog.NewTextHandler(io.Discard, nil))

type blockDef struct {
	lo, hi int      // model units
	series []string // series held by the block (each with samples at lo, mid, hi-1ms)
}
type groupDef struct {
	ext    map[string]string
	blocks []blockDef
}
type layoutDef struct {
	name     string
	vertical bool
	levels   []int64 // compaction ranges in ms
	groups   []groupDef
}

func lv(units ...int) []int64 {
	out := make([]int64, len(units))
	for i, u := range units {
		out[i] = int64(u) * unitMs
	}
	return out
}

// The layouts of CompactionMC.tla by name (same block ranges, ranges and vertical flag; a model
// token corresponds to one series), plus harness-only layouts.
var layouts = map[string]layoutDef{
	"aligned5": {name: "aligned5", levels: lv(1, 4), groups: []groupDef{{ext: map[string]string{"cluster": "a"}, blocks: []blockDef{
		{0, 1, []string{"up", "t1"}}, {1, 2, []string{"up", "t2"}}, {2, 3, []string{"up", "t3"}}, {3, 4, []string{"up", "t4"}}, {4, 5, []string{"up", "t5"}}}}}},
	"gap4": {name: "gap4", levels: lv(1, 4), groups: []groupDef{{ext: map[string]string{"cluster": "a"}, blocks: []blockDef{
		{0, 1, []string{"up", "t1"}}, {1, 2, []string{"up", "t2"}}, {4, 5, []string{"up", "t3"}}, {5, 6, []string{"up", "t4"}}}}}},
	"replica": {name: "replica", vertical: true, levels: lv(1, 4), groups: []groupDef{{ext: map[string]string{"cluster": "a"}, blocks: []blockDef{
		{0, 1, []string{"t1", "t2"}}, {0, 1, []string{"t2", "t3"}}, {1, 2, []string{"t4"}}}}}},
	"twolevel": {name: "twolevel", levels: lv(1, 2, 4), groups: []groupDef{{ext: map[string]string{"cluster": "a"}, blocks: []blockDef{
		{0, 1, []string{"up", "t1"}}, {1, 2, []string{"up", "t2"}}, {2, 3, []string{"up", "t3"}}, {3, 4, []string{"up", "t4"}}, {4, 5, []string{"up", "t5"}}}}}},
	"replica3": {name: "replica3", vertical: true, levels: lv(1, 2, 4), groups: []groupDef{{ext: map[string]string{"cluster": "a"}, blocks: []blockDef{
		{0, 1, []string{"t1", "t2"}}, {0, 1, []string{"t2", "t3"}}, {1, 2, []string{"t4"}}, {1, 2, []string{"t4", "t5"}}, {2, 3, []string{"t6"}}}}}},
	// harness only: two groups compacted by two concurrent workers
	"twogroups": {name: "twogroups", levels: lv(1, 4), groups: []groupDef{
		{ext: map[string]string{"cluster": "a"}, blocks: []blockDef{{0, 1, []string{"up", "t1"}}, {1, 2, []string{"up", "t2"}}, {2, 3, []string{"up"}}, {3, 4, []string{"up", "t4"}}, {4, 5, []string{"up"}}}},
		{ext: map[string]string{"cluster": "b"}, blocks: []blockDef{{0, 1, []string{"up"}}, {1, 2, []string{"up", "u2"}}, {4, 5, []string{"up"}}, {5, 6, []string{"up", "u4"}}}}}},
}

type smpl struct {
	t int64
	v float64
}

func (s smpl) T() int64                      { return s.t }
func (s smpl) F() float64                    { return s.v }
func (s smpl) H() *histogram.Histogram       { return nil }
func (s smpl) FH() *histogram.FloatHistogram { return nil }
func (s smpl) Type() chunkenc.ValueType      { return chunkenc.ValFloat }
func (s smpl) Copy() chunks.Sample           { return s }

func sampleValue(series string, t int64) float64 {
	h := 0
	for _, c := range series {
		h = h*31 + int(c)
	}
	return float64(h%1000) + float64((t/1000)%100000)
}

func blockTimes(b blockDef) []int64 {
	lo, hi := baseMs+int64(b.lo)*unitMs, baseMs+int64(b.hi)*unitMs
	return []int64{lo, lo + (hi-lo)/2, hi - 1}
}

// world: everything fixed for one layout.
type world struct {
	lay     layoutDef
	ids     []ulid.ULID       // original blocks in layout order (model ids 1..n)
	origGrp []int             // group index of each original block
	tokens  map[string]int    // "grp|series|t" -> token id (1-based)
	origTok [][]int           // tokens of each original block
	objects map[string][]byte // bucket content with all original blocks uploaded
	grpKey  map[string]int    // group key of metas -> group index
}

func tokKey(grp int, series string, t int64) string { return fmt.Sprintf("%d|%s|%d", grp, series, t) }

// logicalWorld computes everything that does not need block files: tokens, tokens per original
// block, group keys (also used by the child processes of the process-death mode).
func logicalWorld(lay layoutDef) *world {
	w := &world{lay: lay, tokens: map[string]int{}, grpKey: map[string]int{}}
	for gi, g := range lay.groups {
		th := metadata.Thanos{Labels: g.ext, Downsample: metadata.ThanosDownsample{Resolution: 0}}
		w.grpKey[th.GroupKey()] = gi
		for _, b := range g.blocks {
			names := append([]string(nil), b.series...)
			sort.Strings(names)
			var toks []int
			for _, name := range names {
				for _, t := range blockTimes(b) {
					k := tokKey(gi, name, t)
					if _, ok := w.tokens[k]; !ok {
						w.tokens[k] = len(w.tokens) + 1
					}
					toks = append(toks, w.tokens[k])
				}
			}
			sort.Ints(toks)
			w.origTok = append(w.origTok, toks)
			w.origGrp = append(w.origGrp, gi)
		}
	}
	return w
}

func buildWorld(lay layoutDef, scratch string) (*world, error) {
	ctx := context.Background()
	w := logicalWorld(lay)
	dir, err := os.MkdirTemp(scratch, "c29world-")
	if err != nil {
		return nil, err
	}
	defer os.RemoveAll(dir)
	bkt := objstore.NewInMemBucket()
	for _, g := range lay.groups {
		for _, b := range g.blocks {
			var ss []storage.Series
			names := append([]string(nil), b.series...)
			sort.Strings(names)
			for _, name := range names {
				var sm []chunks.Sample
				for _, t := range blockTimes(b) {
					sm = append(sm, smpl{t, sampleValue(name, t)})
				}
				ss = append(ss, storage.NewListSeries(labels.FromStrings("__name__", "m", "s", name), sm))
			}
			bdir, err := tsdb.CreateBlock(ss, dir, unitMs, discardSlog)
			if err != nil {
				return nil, err
			}
			id, err := ulid.Parse(filepath.Base(bdir))
			if err != nil {
				return nil, err
			}
			m, err := metadata.InjectThanos(log.NewNopLogger(), bdir, metadata.Thanos{Labels: g.ext, Downsample: metadata.ThanosDownsample{Resolution: 0}, Source: metadata.SidecarSource}, nil)
			if err != nil {
				return nil, err
			}
			if m.MinTime != baseMs+int64(b.lo)*unitMs || m.MaxTime != baseMs+int64(b.hi)*unitMs {
				return nil, fmt.Errorf("block range %d-%d, want units %d-%d", m.MinTime, m.MaxTime, b.lo, b.hi)
			}
			if _, ok := w.grpKey[m.Thanos.GroupKey()]; !ok {
				return nil, fmt.Errorf("group key of the block is not the logical one")
			}
			if err := block.Upload(ctx, log.NewNopLogger(), bkt, bdir, metadata.NoneFunc); err != nil {
				return nil, err
			}
			w.ids = append(w.ids, id)
			time.Sleep(2 * time.Millisecond) // distinct, increasing ULID timestamps
		}
	}
	w.objects = map[string][]byte{}
	for k, v := range bkt.Objects() {
		w.objects[k] = append([]byte(nil), v...)
	}
	return w, nil
}

func (w *world) fill(bkt objstore.Bucket) error {
	names := make([]string, 0, len(w.objects))
	for k := range w.objects {
		names = append(names, k)
	}
	sort.Strings(names)
	for _, k := range names {
		if err := bkt.Upload(context.Background(), k, bytes.NewReader(w.objects[k])); err != nil {
			return err
		}
	}
	return nil
}

// ---- the compactor, wired like cmd/thanos/compact.go runCompact (defaults: delete-delay 48h, so the
// sync filter ignores marks older than 24h; consistency delay 0; downsampling and retention off) ----

type compactorRun struct {
	run func(ctx context.Context) error
}

func newCompactor(bkt objstore.InstrumentedBucket, dataDir string, lay layoutDef, conc int, deleteDelay time.Duration) (*compactorRun, error) {
	logger := log.NewNopLogger()
	reg := prometheus.NewRegistry()
	ctx := context.Background()
	cnt := func(n string) prometheus.Counter { return prometheus.NewCounter(prometheus.CounterOpts{Name: n}) }
	ignoreDeletionMarkFilter := block.NewIgnoreDeletionMarkFilter(logger, bkt, deleteDelay/2, 2)
	duplicateBlocksFilter := block.NewDeduplicateFilter(2)
	noCompactMarkerFilter := compact.NewGatherNoCompactionMarkFilter(logger, bkt, 2)
	baseMetaFetcher, err := block.NewBaseFetcher(logger, 2, bkt, block.NewConcurrentLister(logger, bkt), filepath.Join(dataDir, "meta-cache"), extprom.WrapRegistererWithPrefix("thanos_", reg))
	if err != nil {
		return nil, err
	}
	filters := []block.MetadataFilter{
		block.NewLabelShardedMetaFilter(nil),
		block.NewConsistencyDelayMetaFilter(logger, 0, extprom.WrapRegistererWithPrefix("thanos_", reg)),
		ignoreDeletionMarkFilter,
		block.NewReplicaLabelRemover(logger, nil),
		duplicateBlocksFilter,
		noCompactMarkerFilter,
	}
	cf := baseMetaFetcher.NewMetaFetcher(extprom.WrapRegistererWithPrefix("thanos_", reg), filters)
	sy, err := compact.NewMetaSyncer(logger, reg, bkt, cf, duplicateBlocksFilter, ignoreDeletionMarkFilter, cnt("marked"), cnt("gc"), 0)
	if err != nil {
		return nil, err
	}
	comp, err := tsdb.NewLeveledCompactor(ctx, reg, discardSlog, lay.levels, downsample.NewPool(), storage.NewCompactingChunkSeriesMerger(storage.ChainedSeriesMerge))
	if err != nil {
		return nil, err
	}
	compactDir := path.Join(dataDir, "compact")
	if err := os.MkdirAll(compactDir, 0o777); err != nil {
		return nil, err
	}
	grouper := compact.NewDefaultGrouper(logger, bkt, false, lay.vertical, reg, cnt("m1"), cnt("m2"), cnt("m3"), metadata.NoneFunc, 2, 1)
	tsdbPlanner := compact.NewPlanner(logger, lay.levels, noCompactMarkerFilter)
	sizePlanner := compact.WithLargeTotalIndexSizeFilter(tsdbPlanner, bkt, 64<<30, cnt("m4"))
	var planner compact.Planner = sizePlanner
	if lay.vertical {
		planner = compact.WithVerticalCompactionDownsampleFilter(sizePlanner, bkt, cnt("m5"))
	}
	blocksCleaner := compact.NewBlocksCleaner(logger, bkt, ignoreDeletionMarkFilter, deleteDelay, cnt("m6"), cnt("m7"))
	bc, err := compact.NewBucketCompactor(logger, sy, grouper, planner, comp, compactDir, bkt, conc, false, blocksCleaner)
	if err != nil {
		return nil, err
	}
	// compactMainFn without downsampling and with retention disabled (0d)
	run := func(ctx context.Context) error {
		if err := bc.Compact(ctx); err != nil {
			return fmt.Errorf("compaction: %w", err)
		}
		if err := sy.SyncMetas(ctx); err != nil {
			return fmt.Errorf("sync before retention: %w", err)
		}
		if err := compact.ApplyRetentionPolicyByResolution(ctx, logger, bkt, sy.Metas(), map[compact.ResolutionLevel]time.Duration{}, cnt("m8")); err != nil {
			return fmt.Errorf("retention: %w", err)
		}
		compact.BestEffortCleanAbortedPartialUploads(ctx, logger, sy.Partial(), bkt, cnt("m9"), cnt("m10"), cnt("m11"), ignoreDeletionMarkFilter.DeletionMarkBlocks())
		return nil
	}
	return &compactorRun{run: run}, nil
}

// ---- observation ----

// blockObs is one block directory as a store gateway could observe it (identified by ULID).
type blockObs struct {
	ULID     string   `json:"ulid"`
	Grp      int      `json:"grp"`
	Src      []string `json:"src"`
	Meta     bool     `json:"meta"`
	Complete bool     `json:"complete"`
	MarkAge  int64    `json:"markAge"` // seconds, -1 = no mark
}

type metaCacheEntry struct {
	size int64
	m    *metadata.Meta
}

type observer struct {
	w     *world
	cache map[string]metaCacheEntry
}

func getAll(bkt objstore.Bucket, name string) ([]byte, error) {
	rc, err := bkt.Get(context.Background(), name)
	if err != nil {
		return nil, err
	}
	defer rc.Close()
	return io.ReadAll(rc)
}

// snapshot lists the bucket (through the UNWRAPPED bucket) and describes every block directory.
func (o *observer) snapshot(inner objstore.Bucket, now time.Time) []blockObs {
	listing := bucketrec.Listing(inner)
	dirs := map[string]map[string]int64{}
	for name, size := range listing {
		i := strings.IndexByte(name, '/')
		if i < 0 {
			continue
		}
		d := name[:i]
		if _, err := ulid.Parse(d); err != nil {
			continue
		}
		if dirs[d] == nil {
			dirs[d] = map[string]int64{}
		}
		dirs[d][name[i+1:]] = size
	}
	names := make([]string, 0, len(dirs))
	for d := range dirs {
		names = append(names, d)
	}
	sort.Strings(names)
	out := make([]blockObs, 0, len(names))
	for _, d := range names {
		files := dirs[d]
		ob := blockObs{ULID: d, Grp: -1, Src: []string{}, MarkAge: -1}
		if sz, ok := files[block.MetaFilename]; ok {
			ce, hit := o.cache[d]
			if !hit || ce.size != sz {
				if b, err := getAll(inner, path.Join(d, block.MetaFilename)); err == nil {
					m := &metadata.Meta{}
					if json.Unmarshal(b, m) == nil && m.Version == 1 {
						ce = metaCacheEntry{sz, m}
						o.cache[d] = ce
					}
				}
			}
			if ce.m != nil {
				ob.Meta = true
				if g, ok := o.w.grpKey[ce.m.Thanos.GroupKey()]; ok {
					ob.Grp = g
				}
				for _, s := range ce.m.Compaction.Sources {
					ob.Src = append(ob.Src, s.String())
				}
				ob.Complete = true
				for _, f := range ce.m.Thanos.Files {
					if f.RelPath == block.MetaFilename {
						continue
					}
					if sz, ok := files[f.RelPath]; !ok || (f.SizeBytes > 0 && sz != f.SizeBytes) {
						ob.Complete = false
					}
				}
				if len(ce.m.Thanos.Files) == 0 {
					_, hasIdx := files[block.IndexFilename]
					ob.Complete = hasIdx
				}
			}
		}
		if _, ok := files[metadata.DeletionMarkFilename]; ok {
			if b, err := getAll(inner, path.Join(d, metadata.DeletionMarkFilename)); err == nil {
				dm := metadata.DeletionMark{}
				if json.Unmarshal(b, &dm) == nil && dm.Version == metadata.DeletionMarkVersion1 {
					ob.MarkAge = now.Unix() - dm.DeletionTime
					if ob.MarkAge < 0 {
						ob.MarkAge = 0
					}
				}
			}
		}
		out = append(out, ob)
	}
	return out
}

// readBlock downloads a complete block and returns the tokens of the samples it holds and the
// number of samples that are not original samples of its group ("invented").
func (o *observer) readBlock(inner objstore.Bucket, id string, grp int, scratch string) (toks []int, extra int, err error) {
	ctx := context.Background()
	uid, err := ulid.Parse(id)
	if err != nil {
		return nil, 0, err
	}
	dir, err := os.MkdirTemp(scratch, "c29read-")
	if err != nil {
		return nil, 0, err
	}
	defer os.RemoveAll(dir)
	bdir := filepath.Join(dir, id)
	if err := block.Download(ctx, log.NewNopLogger(), inner, uid, bdir); err != nil {
		return nil, 0, err
	}
	b, err := tsdb.OpenBlock(discardSlog, bdir, nil, nil)
	if err != nil {
		return nil, 0, err
	}
	defer b.Close()
	q, err := tsdb.NewBlockQuerier(b, math.MinInt64, math.MaxInt64)
	if err != nil {
		return nil, 0, err
	}
	defer q.Close()
	ss := q.Select(ctx, true, nil, labels.MustNewMatcher(labels.MatchEqual, "__name__", "m"))
	seen := map[int]int{}
	var it chunkenc.Iterator
	for ss.Next() {
		s := ss.At()
		name := s.Labels().Get("s")
		it = s.Iterator(it)
		for it.Next() != chunkenc.ValNone {
			t, v := it.At()
			tok, ok := o.w.tokens[tokKey(grp, name, t)]
			if !ok || v != sampleValue(name, t) {
				extra++
				continue
			}
			seen[tok]++
		}
		if it.Err() != nil {
			return nil, 0, it.Err()
		}
	}
	if ss.Err() != nil {
		return nil, 0, ss.Err()
	}
	for tok, n := range seen {
		toks = append(toks, tok)
		extra += n - 1 // the same sample twice inside one block
	}
	sort.Ints(toks)
	return toks, extra, nil
}

// ageMarks back-dates every deletion mark by d (time passing), directly in the unwrapped bucket.
func ageMarks(inner objstore.Bucket, d time.Duration) error {
	ctx := context.Background()
	for name := range bucketrec.Listing(inner) {
		if !strings.HasSuffix(name, "/"+metadata.DeletionMarkFilename) {
			continue
		}
		b, err := getAll(inner, name)
		if err != nil {
			return err
		}
		dm := metadata.DeletionMark{}
		if err := json.Unmarshal(b, &dm); err != nil {
			continue // a torn mark stays as it is
		}
		dm.DeletionTime -= int64(d / time.Second)
		nb, _ := json.Marshal(dm)
		if err := inner.Upload(ctx, name, bytes.NewReader(nb)); err != nil {
			return err
		}
	}
	return nil
}

// sgFetch runs the REAL store-gateway meta fetcher (IgnoreDeletionMarkFilter(24h) + DeduplicateFilter,
// as cmd/thanos/store.go wires them) and returns the ULIDs it selects.
func sgFetch(inner objstore.Bucket, ignoreDelay time.Duration) ([]string, error) {
	logger := log.NewNopLogger()
	ins := objstore.WithNoopInstr(inner)
	f, err := block.NewMetaFetcher(logger, 2, ins, block.NewConcurrentLister(logger, ins), "", nil, []block.MetadataFilter{
		block.NewLabelShardedMetaFilter(nil),
		block.NewConsistencyDelayMetaFilter(logger, 0, nil),
		block.NewIgnoreDeletionMarkFilter(logger, ins, ignoreDelay, 2),
		block.NewDeduplicateFilter(2),
	})
	if err != nil {
		return nil, err
	}
	metas, _, err := f.Fetch(context.Background())
	if err != nil {
		return nil, err
	}
	out := make([]string, 0, len(metas))
	for id := range metas {
		out = append(out, id.String())
	}
	sort.Strings(out)
	return out, nil
}
