package compaction

import (
	"context"
	"encoding/json"
	"fmt"
	"os"
	"os/exec"
	"path/filepath"
	"sort"
	"strings"
	"sync"
	"testing"
	"time"

	"github.com/thanos-io/objstore"
	"github.com/thanos-io/objstore/providers/filesystem"

	"github.com/thanos-io/thanos/pkg/block"
	"github.com/thanos-io/thanos/pkg/block/metadata"

	"verif/harness/bucketrec"
	"verif/harness/vt"
)

// ---------------------------------------------------------------------------------------------
// C29: compaction never loses or invents data, even across crashes.
//
// A case is a scenario on one layout of small real blocks (world_test.go):
//
//	layout, conc       blocks / ranges / vertical flag; compaction concurrency
//	phase              "none" | "compact" (the crash hits the run that compacts) | "clean" (the crash hits
//	                   the later run that deletes the marked sources, 49 h after they were marked)
//	kind, ord          the crash point as the model names it: before the first/last mutation of a kind
//	                   (updata, upmeta, mark, delmeta, deldata, delmark) of that run  -- or --
//	k                  the crash point as a plain index: before the k-th bucket mutation of that run
//	downtime           ticks the compactor stays down before it is restarted: 0, 3 (= 25 h, beyond the store
//	                   gateway's 24 h ignore delay), 5 (= 49 h, beyond the 48 h delete delay)
//	mode               "outage": every bucket call from the crash point on fails, the compactor returns through
//	                   its error paths, a fresh compactor is started on the same bucket and data dir;
//	                   "exit": the compactor runs in a child process on a filesystem bucket and the process
//	                   exits immediately before the mutation (no deferred code, no error path)
//
// Script:  [run A] 49h [run C] ... with the crash in A or C, then the downtime, a restart run, 49 h, a final
// run (which deletes what is due).  After EVERY bucket mutation the bucket is snapshotted as a store gateway
// could observe it; blocks are read with the real TSDB reader when they first appear complete.
// ---------------------------------------------------------------------------------------------

type scenario struct {
	Layout   string `json:"layout"`
	Conc     int    `json:"conc"`
	Phase    string `json:"phase"`
	Kind     string `json:"kind"`
	Ord      string `json:"ord"`
	K        int    `json:"k"`
	Downtime int    `json:"downtime"`
	Mode     string `json:"mode"`
	Gw       bool   `json:"gw"` // phase 2: two REAL store gateways (store.BucketStore) watch the bucket
}

func downtimeHours(ticks int) int {
	switch {
	case ticks <= 0:
		return 0
	case ticks <= 3:
		return 25
	default:
		return 49
	}
}

func mutKind(op bucketrec.Op) string {
	name := op.Name
	i := strings.IndexByte(name, '/')
	rest := ""
	if i >= 0 {
		rest = name[i+1:]
	}
	switch op.Kind {
	case "upload":
		switch {
		case rest == block.MetaFilename:
			return "upmeta"
		case rest == metadata.DeletionMarkFilename:
			return "mark"
		case rest == block.IndexFilename || strings.HasPrefix(rest, block.ChunksDirname+"/"):
			return "updata"
		}
	case "delete":
		switch {
		case rest == block.MetaFilename:
			return "delmeta"
		case rest == metadata.DeletionMarkFilename:
			return "delmark"
		case rest == block.IndexFilename || (strings.HasPrefix(rest, block.ChunksDirname+"/") && len(rest) > len(block.ChunksDirname)+1):
			return "deldata"
		default:
			return "deldir"
		}
	}
	return "other"
}

// emitter translates ULIDs to the small integer ids of the trace (originals 1..n in layout order,
// later blocks in order of first appearance) and writes the events of one case.
type emitter struct {
	tr   *vt.Tracer
	c    int64
	ids  map[string]int
	next int
	buf  []vt.Event // the events of the case, written contiguously by flush (scenarios run in parallel)
}

var flushMu sync.Mutex

func (e *emitter) put(ev vt.Event) { e.buf = append(e.buf, ev) }

func (e *emitter) flush() {
	flushMu.Lock()
	defer flushMu.Unlock()
	for _, ev := range e.buf {
		e.tr.Emit(ev)
	}
	e.buf = nil
}

func (e *emitter) id(u string) int {
	if v, ok := e.ids[u]; ok {
		return v
	}
	e.next++
	e.ids[u] = e.next
	return e.next
}

func (e *emitter) blocks(obs []blockObs) []any {
	// ids must be assigned in a deterministic order: ULID order = creation order
	sort.Slice(obs, func(i, j int) bool { return obs[i].ULID < obs[j].ULID })
	out := make([]any, 0, len(obs))
	for _, b := range obs {
		src := make([]int, 0, len(b.Src))
		for _, s := range b.Src {
			src = append(src, e.id(s))
		}
		sort.Ints(src)
		out = append(out, map[string]any{"id": e.id(b.ULID), "grp": b.Grp, "src": src, "meta": b.Meta, "complete": b.Complete, "markAge": b.MarkAge})
	}
	return out
}

// rawEvent is what the (possibly child-process) observer produces, with ULIDs.
type rawEvent struct {
	Ev      string     `json:"ev"`
	Op      string     `json:"op,omitempty"`
	Name    string     `json:"name,omitempty"`
	Kind    string     `json:"kind,omitempty"`
	Run     string     `json:"run,omitempty"`
	ULID    string     `json:"ulid,omitempty"`
	Grp     int        `json:"grp"`
	Src     []string   `json:"src,omitempty"`
	Toks    []int      `json:"toks"`
	Extra   int        `json:"extra"`
	Unread  string     `json:"unread,omitempty"`
	Err     string     `json:"err,omitempty"`
	Crashed bool       `json:"crashed"`
	Hours   int        `json:"hours"`
	NMut    int        `json:"nmut"`
	Blocks  []blockObs `json:"blocks"`
	Gw      []any      `json:"gw,omitempty"`
}

func (e *emitter) emit(r rawEvent) {
	gw := r.Gw
	if gw == nil {
		gw = []any{}
	}
	ev := vt.Event{"ev": r.Ev, "case": e.c, "blocks": e.blocks(r.Blocks), "gw": gw}
	switch r.Ev {
	case "Block":
		src := make([]int, 0, len(r.Src))
		for _, s := range r.Src {
			src = append(src, e.id(s))
		}
		sort.Ints(src)
		toks := r.Toks
		if toks == nil {
			toks = []int{}
		}
		ev["id"], ev["grp"], ev["src"], ev["toks"], ev["extra"], ev["unread"] = e.id(r.ULID), r.Grp, src, toks, r.Extra, r.Unread
	case "Mut":
		name := r.Name
		if i := strings.IndexByte(name, '/'); i > 0 {
			name = fmt.Sprintf("b%d%s", e.id(name[:i]), name[i:])
		}
		ev["op"], ev["name"], ev["kind"], ev["run"] = r.Op, name, r.Kind, r.Run
	case "Quiet":
		ev["run"], ev["err"], ev["crashed"], ev["nmut"] = r.Run, r.Err, r.Crashed, r.NMut
	case "Tick":
		ev["hours"] = r.Hours
	}
	e.put(ev)
}

// runner executes compactor runs over one bucket and produces raw events.
type runner struct {
	w         *world
	lay       layoutDef
	conc      int
	inner     objstore.Bucket
	rec       *bucketrec.Bucket
	obs       *observer
	dataDir   string
	scratch   string
	out       func(rawEvent)
	read      map[string]bool // blocks whose content was already reported
	mu        sync.Mutex
	ops       []bucketrec.Op // mutations of the current run that changed the bucket
	gws       []*gateway     // real store gateways (phase 2), nil in most scenarios
	keepReads bool           // record read calls too (reference runs count them)
	oneRead   bool           // mode "readfault": the fault of the crashing run is ONE failing read (the crashAt-th), not an outage
}

// gwObserve: what the real gateways serve now.  timePassed: every gateway syncs (they sync at least every
// 23 h); otherwise only the non-lagging gateway syncs (it follows the bucket mutation by mutation).
func (r *runner) gwObserve(timePassed bool) []any {
	if len(r.gws) == 0 {
		return nil
	}
	out := make([]any, 0, len(r.gws))
	for _, g := range r.gws {
		out = append(out, g.observe(timePassed || !g.lagging))
	}
	return out
}

func (r *runner) startGateways() {
	for _, g := range []*gateway{{name: "fresh"}, {name: "lagging", lagging: true}} {
		g.inner, g.scratch, g.w = r.inner, r.scratch, r.w
		if err := g.start(); err != nil {
			panic(err)
		}
		if e := g.sync(); e != "" {
			panic("gateway initial " + e)
		}
		r.gws = append(r.gws, g)
	}
}

func (r *runner) stopGateways() {
	for _, g := range r.gws {
		g.stop()
	}
	r.gws = nil
}

func newRunner(w *world, conc int, inner objstore.Bucket, dataDir, scratch string, out func(rawEvent), origRead bool) *runner {
	r := &runner{w: w, lay: w.lay, conc: conc, inner: inner, rec: bucketrec.New(inner), obs: &observer{w: w, cache: map[string]metaCacheEntry{}},
		dataDir: dataDir, scratch: scratch, out: out, read: map[string]bool{}}
	r.rec.RecordReads(false)
	if origRead {
		for _, id := range w.ids {
			r.read[id.String()] = true
		}
	}
	return r
}

// reportNew reads every block that is complete for the first time and reports its content.
func (r *runner) reportNew(snap []blockObs) {
	for _, b := range snap {
		if !b.Meta || !b.Complete || r.read[b.ULID] {
			continue
		}
		r.read[b.ULID] = true
		toks, extra, err := r.obs.readBlock(r.inner, b.ULID, b.Grp, r.scratch)
		ev := rawEvent{Ev: "Block", ULID: b.ULID, Grp: b.Grp, Src: b.Src, Toks: toks, Extra: extra, Blocks: snap}
		if err != nil {
			ev.Unread = err.Error()
			ev.Toks = nil
		}
		r.out(ev)
	}
}

// run performs one compactor run (fresh objects: a restarted process). crashAt > 0 arms the fault
// before the crashAt-th mutation: outage (in process) or exit (child process, exitMode).
func (r *runner) run(name string, crashAt int, exitMode bool) (err error, crashed bool) {
	r.rec.Reset()
	r.rec.RecordReads(r.keepReads)
	r.rec.SetPhase(name)
	r.mu.Lock()
	r.ops = nil
	r.mu.Unlock()
	r.rec.Observe(func(op bucketrec.Op) {
		if !op.IsMutation() || op.Injected {
			return
		}
		if op.Kind == "delete" && !op.OK {
			return // deleting a missing directory marker: nothing changed
		}
		snap := r.obs.snapshot(r.inner, time.Now())
		r.reportNew(snap)
		r.mu.Lock()
		r.ops = append(r.ops, op)
		r.mu.Unlock()
		r.out(rawEvent{Ev: "Mut", Op: op.Kind, Name: op.Name, Kind: mutKind(op), Run: name, Blocks: snap, Gw: r.gwObserve(false)})
	})
	if crashAt > 0 {
		switch {
		case exitMode:
			r.rec.ExitBeforeMutation(crashAt, 3)
		case r.oneRead:
			r.rec.FailRead(func(kind, name string) bool { return true }, crashAt, nil)
		default:
			r.rec.OutageFromMutation(crashAt)
		}
	}
	c, cerr := newCompactor(r.rec, r.dataDir, r.lay, r.conc, delDel)
	if cerr != nil {
		panic(cerr)
	}
	ctx, cancel := context.WithTimeout(context.Background(), 5*time.Minute)
	err = c.run(ctx)
	cancel()
	crashed = r.rec.InOutage()
	r.rec.Heal()
	r.rec.Observe(nil)
	return err, crashed
}

func (r *runner) quiet(name string, err error, crashed bool) {
	snap := r.obs.snapshot(r.inner, time.Now())
	r.reportNew(snap)
	es := ""
	if err != nil {
		es = err.Error()
		if len(es) > 300 {
			es = es[:300]
		}
	}
	r.mu.Lock()
	n := len(r.ops)
	r.mu.Unlock()
	for _, g := range r.gws {
		if !g.lagging { // a gateway restart: fresh BucketStore, empty local dir, same bucket
			if err := g.restart(); err != nil {
				panic(err)
			}
		}
	}
	r.out(rawEvent{Ev: "Quiet", Run: name, Err: es, Crashed: crashed, NMut: n, Blocks: snap, Gw: r.gwObserve(false)})
}

// tick lets time pass in steps of at most 23 h (the gateways' sync lag stays below the 24 h difference of the
// delays): marks are back-dated, every gateway syncs, the bucket is observed.
func (r *runner) tick(hours int) {
	for left := hours; ; {
		step := left
		if step > 23 {
			step = 23
		}
		if step > 0 {
			if err := ageMarks(r.inner, time.Duration(step)*time.Hour); err != nil {
				panic(err)
			}
		}
		r.out(rawEvent{Ev: "Tick", Hours: step, Blocks: r.obs.snapshot(r.inner, time.Now()), Gw: r.gwObserve(true)})
		left -= step
		if left <= 0 {
			break
		}
	}
}

// ---- child process of the process-death mode ----

type childSpec struct {
	Layout    string   `json:"layout"`
	Conc      int      `json:"conc"`
	BucketDir string   `json:"bucketDir"`
	DataDir   string   `json:"dataDir"`
	Scratch   string   `json:"scratch"`
	Out       string   `json:"out"`
	Run       string   `json:"run"`
	CrashAt   int      `json:"crashAt"`
	Read      []string `json:"read"`
}

// TestC29Child is the compactor process of the "exit" mode; it only runs when started by TestC29.
func TestC29Child(t *testing.T) {
	js := os.Getenv("VERIF_C29_CHILD")
	if js == "" {
		t.Skip("not a child")
	}
	var cs childSpec
	if err := json.Unmarshal([]byte(js), &cs); err != nil {
		t.Fatal(err)
	}
	fsb, err := filesystem.NewBucket(cs.BucketDir)
	if err != nil {
		t.Fatal(err)
	}
	f, err := os.OpenFile(cs.Out, os.O_CREATE|os.O_WRONLY|os.O_APPEND, 0o644)
	if err != nil {
		t.Fatal(err)
	}
	var wmu sync.Mutex
	out := func(ev rawEvent) {
		b, _ := json.Marshal(ev)
		wmu.Lock()
		f.Write(append(b, '\n')) // unbuffered: survives os.Exit
		wmu.Unlock()
	}
	w := logicalWorld(layouts[cs.Layout])
	r := newRunner(w, cs.Conc, fsb, cs.DataDir, cs.Scratch, out, false)
	for _, u := range cs.Read {
		r.read[u] = true
	}
	err, crashed := r.run(cs.Run, cs.CrashAt, true)
	r.quiet(cs.Run, err, crashed)
	f.Close()
}

// ---- scenario execution ----

type env struct {
	t       *testing.T
	tr      *vt.Tracer
	scratch string
	mu      sync.Mutex // protects worlds, refs, caseID
	worlds  map[string]*world
	refs    map[string]map[string][]string // layout/conc -> run phase -> mutation kinds in order (crash-free reference)
	caseID  int64
}

func (e *env) world(name string) *world {
	e.mu.Lock()
	defer e.mu.Unlock()
	if w, ok := e.worlds[name]; ok {
		return w
	}
	lay, ok := layouts[name]
	if !ok {
		e.t.Fatalf("unknown layout %q", name)
	}
	w, err := buildWorld(lay, e.scratch)
	if err != nil {
		e.t.Fatalf("building world %s: %v", name, err)
	}
	// the sample sets known by construction are what the real reader finds in the blocks
	chk := objstore.NewInMemBucket()
	if err := w.fill(chk); err != nil {
		e.t.Fatal(err)
	}
	o := &observer{w: w, cache: map[string]metaCacheEntry{}}
	for i, id := range w.ids {
		toks, extra, err := o.readBlock(chk, id.String(), w.origGrp[i], e.scratch)
		if err != nil || extra != 0 || fmt.Sprint(toks) != fmt.Sprint(w.origTok[i]) {
			e.t.Fatalf("world %s: block %d holds %v (+%d), expected %v: %v", name, i+1, toks, extra, w.origTok[i], err)
		}
	}
	e.worlds[name] = w
	return w
}

// reference: mutation kinds of the crash-free compaction run ("compact") and of the cleaning run 49 h later ("clean").
func (e *env) reference(layout string, conc int) map[string][]string {
	key := fmt.Sprintf("%s/%d", layout, conc)
	e.mu.Lock()
	r0, ok := e.refs[key]
	e.mu.Unlock()
	if ok {
		return r0
	}
	w := e.world(layout)
	inner := objstore.NewInMemBucket()
	if err := w.fill(inner); err != nil {
		e.t.Fatal(err)
	}
	dd, _ := os.MkdirTemp(e.scratch, "c29ref-")
	defer os.RemoveAll(dd)
	r := newRunner(w, conc, inner, dd, e.scratch, func(rawEvent) {}, true)
	ref := map[string][]string{}
	kinds := func() []string {
		var out []string
		for _, op := range r.ops {
			out = append(out, mutKind(op))
		}
		return out
	}
	var nreads int
	countReads := func() {
		nreads = 0
		for _, op := range r.rec.Ops() {
			if !op.IsMutation() {
				nreads++
			}
		}
	}
	r.keepReads = true
	if err, _ := r.run("A", 0, false); err != nil {
		e.t.Fatalf("reference run A of %s failed: %v", layout, err)
	}
	countReads()
	ref["compact"] = kinds()
	ref["reads-compact"] = make([]string, nreads)
	ageMarks(inner, 49*time.Hour)
	if err, _ := r.run("C", 0, false); err != nil {
		e.t.Fatalf("reference run C of %s failed: %v", layout, err)
	}
	countReads()
	ref["clean"] = kinds()
	ref["reads-clean"] = make([]string, nreads)
	e.mu.Lock()
	e.refs[key] = ref
	e.mu.Unlock()
	return ref
}

// resolveK turns the model's crash point (kind, ord) into a mutation index of the crashing run.
func (e *env) resolveK(sc scenario) int {
	if sc.Phase == "none" {
		return 0
	}
	if sc.K > 0 {
		return sc.K
	}
	kinds := e.reference(sc.Layout, sc.Conc)[sc.Phase]
	first, last := 0, 0
	for i, k := range kinds {
		if k == sc.Kind {
			if first == 0 {
				first = i + 1
			}
			last = i + 1
		}
	}
	if sc.Ord == "last" {
		return last
	}
	return first
}

func copyTree(dst string, objs map[string][]byte) error {
	for name, b := range objs {
		p := filepath.Join(dst, filepath.FromSlash(name))
		if err := os.MkdirAll(filepath.Dir(p), 0o755); err != nil {
			return err
		}
		if err := os.WriteFile(p, b, 0o644); err != nil {
			return err
		}
	}
	return nil
}

func (e *env) runScenario(in vt.Case) {
	in = vt.Normalize(in)
	var sc scenario
	b, _ := json.Marshal(in)
	if err := json.Unmarshal(b, &sc); err != nil {
		e.t.Fatalf("bad case: %v", err)
	}
	if sc.Conc <= 0 {
		sc.Conc = 1
	}
	if sc.Mode == "" {
		sc.Mode = "outage"
	}
	w := e.world(sc.Layout)
	k := e.resolveK(sc)
	if sc.Phase != "none" && k == 0 {
		return // the reference run has no such mutation (nothing to crash before)
	}
	e.mu.Lock()
	e.caseID++
	cid := e.caseID
	e.mu.Unlock()
	em := &emitter{tr: e.tr, c: cid, ids: map[string]int{}}
	defer em.flush()
	for _, id := range w.ids {
		em.id(id.String())
	}
	orig := make([]any, 0, len(w.ids))
	for i := range w.ids {
		orig = append(orig, map[string]any{"id": i + 1, "grp": w.origGrp[i], "toks": w.origTok[i]})
	}
	in["kresolved"] = k
	em.put(vt.Event{"ev": "case", "case": cid, "in": in, "kf": "", "orig": orig, "ntok": len(w.tokens),
		"ignoreDelay": int(sgDelay / time.Second), "blocks": []any{}, "gw": []any{}})

	dataDir, _ := os.MkdirTemp(e.scratch, "c29data-")
	defer os.RemoveAll(dataDir)
	hours := downtimeHours(sc.Downtime)

	var inner objstore.Bucket
	var bucketDir string
	exit := sc.Mode == "exit"
	if exit {
		bucketDir, _ = os.MkdirTemp(e.scratch, "c29bkt-")
		defer os.RemoveAll(bucketDir)
		if err := copyTree(bucketDir, w.objects); err != nil {
			e.t.Fatal(err)
		}
		fsb, err := filesystem.NewBucket(bucketDir)
		if err != nil {
			e.t.Fatal(err)
		}
		inner = fsb
	} else {
		im := objstore.NewInMemBucket()
		if err := w.fill(im); err != nil {
			e.t.Fatal(err)
		}
		inner = im
	}
	r := newRunner(w, sc.Conc, inner, dataDir, e.scratch, em.emit, true)
	r.oneRead = sc.Mode == "readfault"
	if sc.Gw && !exit {
		r.startGateways()
		defer r.stopGateways()
	}

	// one run, in process or as a child process
	doRun := func(name string, crashAt int) {
		if !exit {
			err, crashed := r.run(name, crashAt, false)
			r.quiet(name, err, crashed)
			return
		}
		outFile := filepath.Join(e.scratch, fmt.Sprintf("c29child-%d-%s.ndjson", cid, name))
		defer os.Remove(outFile)
		var read []string
		for u := range r.read {
			read = append(read, u)
		}
		sort.Strings(read)
		cs, _ := json.Marshal(childSpec{Layout: sc.Layout, Conc: sc.Conc, BucketDir: bucketDir, DataDir: dataDir, Scratch: e.scratch, Out: outFile, Run: name, CrashAt: crashAt, Read: read})
		cmd := exec.Command(os.Args[0], "-test.run", "^TestC29Child$", "-test.count=1", "-test.timeout=10m")
		cmd.Env = append(os.Environ(), "VERIF_C29_CHILD="+string(cs))
		outb, err := cmd.CombinedOutput()
		code := 0
		if err != nil {
			if ee, ok := err.(*exec.ExitError); ok {
				code = ee.ExitCode()
			} else {
				e.t.Fatalf("starting child: %v", err)
			}
		}
		if code != 0 && code != 3 {
			e.t.Fatalf("child of run %s failed with code %d:\n%s", name, code, outb)
		}
		evs, rerr := vt.ReadNDJSON(outFile)
		if rerr != nil && !os.IsNotExist(rerr) {
			e.t.Fatalf("child output: %v", rerr)
		}
		sawQuiet := false
		for _, raw := range evs {
			bb, _ := json.Marshal(raw)
			var re rawEvent
			if err := json.Unmarshal(bb, &re); err != nil {
				e.t.Fatal(err)
			}
			if re.Ev == "Block" {
				r.read[re.ULID] = true
			}
			if re.Ev == "Quiet" {
				sawQuiet = true
			}
			em.emit(re)
		}
		if code == 3 || !sawQuiet {
			// the process died: the parent looks at what it left behind
			r.quiet(name, fmt.Errorf("process exited before mutation %d", crashAt), true)
		}
	}

	switch sc.Phase {
	case "none":
		doRun("A", 0)
		r.tick(25)
		doRun("B", 0)
		r.tick(24)
		doRun("C", 0)
	case "compact":
		doRun("A", k)
		r.tick(hours)
		doRun("B", 0)
		r.tick(49)
		doRun("C", 0)
	case "clean":
		doRun("A", 0)
		r.tick(49)
		doRun("C", k)
		r.tick(hours)
		doRun("D", 0)
		r.tick(49)
		doRun("E", 0)
	default:
		e.t.Fatalf("unknown phase %q", sc.Phase)
	}
	// what the REAL store-gateway fetcher selects at the end (model conformance of the filters)
	sg, err := sgFetch(inner, sgDelay)
	if err != nil {
		e.t.Fatalf("store gateway fetch: %v", err)
	}
	sgIDs := make([]int, 0, len(sg))
	for _, u := range sg {
		sgIDs = append(sgIDs, em.id(u))
	}
	sort.Ints(sgIDs)
	em.put(vt.Event{"ev": "End", "case": cid, "sg": sgIDs, "blocks": em.blocks(r.obs.snapshot(inner, time.Now())), "gw": []any{}})
}

func TestC29(t *testing.T) {
	tr := vt.Open(t)
	defer tr.Close()
	scratch := os.Getenv("VERIF_SCRATCH")
	if scratch == "" {
		scratch = t.TempDir()
	}
	e := &env{t: t, tr: tr, scratch: scratch, worlds: map[string]*world{}, refs: map[string]map[string][]string{}}
	if rc := vt.Replay(t); rc != nil {
		e.runScenario(rc)
		return
	}
	rnd := vt.Rand()
	var cases []vt.Case
	add := func(c vt.Case) { cases = append(cases, c) }
	// (1) the crash scenarios of the model (CompactionMC: layout x crash point x downtime), as outages
	tlc := vt.TLCCases(t)
	for _, c := range tlc {
		c["mode"], c["conc"] = "outage", 1
		// quick tier, stratified: every crash point x downtime on the first layout, the longest downtime on the others
		if !vt.Thorough() && vt.Str(c["layout"]) != "aligned5" && vt.Str(c["phase"]) != "none" && vt.Int(c["downtime"]) != 5 {
			continue
		}
		// phase 2: real store gateways on the model's scenarios (thorough: all with downtime 0 or 49 h; quick: the crash points
		// around the result's meta.json and the first source mark / meta.json deletion, longest downtimes)
		k, o := vt.Str(c["kind"]), vt.Str(c["ord"])
		c["gw"] = (vt.Thorough() && vt.Int(c["downtime"]) != 3) || (vt.Int(c["downtime"]) >= 3 && vt.Str(c["layout"]) == "aligned5" && o == "first" && (k == "upmeta" || k == "mark" || k == "delmeta")) ||
			(vt.Str(c["layout"]) == "replica" && k == "mark" && o == "last")
		add(c)
	}
	// (2) process death on a filesystem bucket: a sample of the model's scenarios (thorough: all with downtime 49 h, compaction-run crashes also with downtime 0)
	for i, c := range tlc {
		if vt.Str(c["phase"]) == "none" {
			continue
		}
		if !vt.Thorough() && rnd.Intn(len(tlc)) >= 4 && i != 1 {
			continue
		}
		if vt.Thorough() && (vt.Int(c["downtime"]) == 3 || (vt.Int(c["downtime"]) == 0 && vt.Str(c["phase"]) == "clean")) {
			continue
		}
		d := vt.Case{}
		for k, v := range c {
			d[k] = v
		}
		d["mode"] = "exit"
		add(d)
	}
	// (3) every mutation index as a crash point (thorough: all; quick: a seeded sample), all layouts of the
	// tier including the two-group layout compacted by two workers
	names := []string{"aligned5", "replica", "twogroups"}
	if vt.Thorough() {
		names = []string{"aligned5", "gap4", "replica", "twolevel", "replica3", "twogroups"}
	}
	for _, name := range names {
		conc := 1
		if name == "twogroups" {
			conc = 2
		}
		ref := e.reference(name, conc)
		for _, phase := range []string{"compact", "clean"} {
			n := len(ref[phase])
			dts := []int{0, 3, 5}
			if phase == "clean" || name == "twolevel" || name == "replica3" {
				dts = []int{0, 5}
			}
			for k := 1; k <= n; k++ {
				for _, dt := range dts {
					if !vt.Thorough() && rnd.Intn(n*3) >= 4 {
						continue
					}
					add(vt.Case{"layout": name, "conc": conc, "phase": phase, "kind": "", "ord": "", "k": k, "downtime": dt, "mode": "outage"})
				}
			}
		}
		add(vt.Case{"layout": name, "conc": conc, "phase": "none", "kind": "none", "ord": "first", "k": 0, "downtime": 0, "mode": "outage"})
		// phase 2: ONE read of the run fails (a fault that does not persist): the k-th bucket read of the compaction
		// run / of the cleaning run; the following runs are fault-free (thorough: every read of aligned5, every third read of replica and twogroups)
		if name == "aligned5" || name == "replica" || name == "twogroups" {
			for _, phase := range []string{"compact", "clean"} {
				n := len(ref["reads-"+phase])
				for k := 1; k <= n; k++ {
					if !vt.Thorough() && rnd.Intn(n) >= 3 {
						continue
					}
					if vt.Thorough() && name != "aligned5" && k%3 != int(vt.Seed()%3) {
						continue
					}
					add(vt.Case{"layout": name, "conc": conc, "phase": phase, "kind": "", "ord": "", "k": k, "downtime": []int{0, 5}[rnd.Intn(2)], "mode": "readfault", "gw": k%7 == 0})
				}
			}
		}
	}
	// worlds and crash-free references are built up front; the scenarios are independent (own bucket, own
	// data dir) and run on a few workers; each case's events are written contiguously
	for _, c := range cases {
		n := vt.Normalize(c)
		conc := 1
		if v, ok := n["conc"]; ok {
			conc = vt.Int(v)
		}
		e.reference(vt.Str(n["layout"]), conc)
	}
	workers := vt.Pick(3, 8)
	ch := make(chan vt.Case)
	var wg sync.WaitGroup
	for i := 0; i < workers; i++ {
		wg.Add(1)
		go func() {
			defer wg.Done()
			for c := range ch {
				e.runScenario(c)
			}
		}()
	}
	for _, c := range cases {
		ch <- c
	}
	close(ch)
	wg.Wait()
}
