package compaction

import "bytes"

func bytesReader(b []byte) *bytes.Reader { return bytes.NewReader(b) }
