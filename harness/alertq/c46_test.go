package alertq

import (
	"math/rand"
	"runtime"
	"strconv"
	"sync"
	"sync/atomic"
	"testing"
	"time"

	"github.com/go-kit/log"
	"github.com/prometheus/common/model"
	"github.com/prometheus/prometheus/model/labels"
	"github.com/prometheus/prometheus/model/relabel"
	"github.com/prometheus/prometheus/notifier"

	"github.com/thanos-io/thanos/pkg/alert"
	"github.com/thanos-io/thanos/pkg/verifhook"

	"verif/harness/vt"
)

func ids(as []*notifier.Alert) []int {
	out := make([]int, 0, len(as))
	for _, a := range as {
		n, _ := strconv.Atoi(a.Labels.Get("id"))
		out = append(out, n)
	}
	return out
}

func mkAlerts(next *int64, n, kept int) []*notifier.Alert {
	out := make([]*notifier.Alert, 0, n)
	for i := 0; i < n; i++ {
		id := atomic.AddInt64(next, 1)
		drop := "0"
		if i >= kept {
			drop = "1"
		}
		out = append(out, &notifier.Alert{Labels: labels.FromStrings("alertname", "a", "id", strconv.FormatInt(id, 10), "drop", drop)})
	}
	return out
}

// relabel config dropping alerts labelled drop="1" (the "relabel may drop" dimension of the model)
func dropCfg() []*relabel.Config {
	return []*relabel.Config{{
		SourceLabels:         model.LabelNames{"drop"},
		Regex:                relabel.MustNewRegexp("1"),
		Action:               relabel.Drop,
		NameValidationScheme: model.UTF8Validation,
	}}
}

// TestC46 drives a real alert.Queue (a) sequentially through every operation sequence TLC
// enumerated and (b) concurrently with seeded random schedules; the hooks inside Push/Pop fire
// under the queue mutex, so the recorded order is the linearisation order.
func TestC46(t *testing.T) {
	tr := vt.Open(t)
	defer tr.Close()
	var cur atomic.Pointer[alert.Queue]
	var curCase atomic.Int64
	verifhook.SetSink(func(name string, kv ...any) {
		if len(kv) < 8 {
			return
		}
		q, _ := kv[1].(*alert.Queue)
		if q == nil || q != cur.Load() {
			return
		}
		switch name {
		case "alert.Queue.Push":
			tr.Emit(vt.Event{"ev": "Push", "case": curCase.Load(), "batch": ids(kv[3].([]*notifier.Alert)), "queue": ids(kv[5].([]*notifier.Alert)), "morec": kv[7]})
		case "alert.Queue.Pop":
			tr.Emit(vt.Event{"ev": "Pop", "case": curCase.Load(), "popped": ids(kv[3].([]*notifier.Alert)), "queue": ids(kv[5].([]*notifier.Alert)), "morec": kv[7]})
		}
	})
	defer verifhook.SetSink(nil)

	caseID := int64(0)
	runSeq := func(c vt.Case) {
		caseID++
		curCase.Store(caseID)
		c = vt.Normalize(c)
		capn, maxb := vt.Int(c["cap"]), vt.Int(c["maxbatch"])
		q := alert.NewQueue(log.NewNopLogger(), nil, capn, maxb, labels.EmptyLabels(), nil, dropCfg())
		cur.Store(q)
		tr.Emit(vt.Event{"ev": "case", "case": caseID, "in": c, "kf": ""})
		var next int64
		stall := false
		for _, o := range vt.List(c["ops"]) {
			op := vt.Map(o)
			if vt.Str(op["op"]) == "push" {
				q.Push(mkAlerts(&next, vt.Int(op["n"]), vt.Int(op["kept"])))
				continue
			}
			if q.Len() == 0 {
				continue // Pop would (correctly) block
			}
			termc := make(chan struct{})
			tm := time.AfterFunc(500*time.Millisecond, func() { close(termc) })
			if got := q.Pop(termc); got == nil {
				stall = true
			}
			tm.Stop()
		}
		tr.Emit(vt.Event{"ev": "End", "case": caseID, "stall": stall, "len": q.Len()})
	}

	runConc := func(c vt.Case) {
		caseID++
		curCase.Store(caseID)
		c = vt.Normalize(c)
		capn, maxb := vt.Int(c["cap"]), vt.Int(c["maxbatch"])
		pushers, poppers, each := vt.Int(c["pushers"]), vt.Int(c["poppers"]), vt.Int(c["each"])
		rnd := rand.New(rand.NewSource(vt.Int64(c["sseed"])))
		q := alert.NewQueue(log.NewNopLogger(), nil, capn, maxb, labels.EmptyLabels(), nil, dropCfg())
		cur.Store(q)
		tr.Emit(vt.Event{"ev": "case", "case": caseID, "in": c, "kf": ""})
		var next int64
		var wg sync.WaitGroup
		seeds := make([]int64, pushers+poppers)
		for i := range seeds {
			seeds[i] = rnd.Int63()
		}
		for p := 0; p < pushers; p++ {
			wg.Add(1)
			go func(seed int64) {
				defer wg.Done()
				r := rand.New(rand.NewSource(seed))
				for i := 0; i < each; i++ {
					n := 1 + r.Intn(capn+2)
					kept := n
					if r.Intn(4) == 0 {
						kept = r.Intn(n + 1)
					}
					q.Push(mkAlerts(&next, n, kept))
					if r.Intn(2) == 0 {
						runtime.Gosched()
					} else if r.Intn(8) == 0 {
						time.Sleep(time.Duration(r.Intn(200)) * time.Microsecond)
					}
				}
			}(seeds[p])
		}
		termc := make(chan struct{})
		var lastPop atomic.Int64
		lastPop.Store(time.Now().UnixNano())
		var pwg sync.WaitGroup
		for p := 0; p < poppers; p++ {
			pwg.Add(1)
			go func(seed int64) {
				defer pwg.Done()
				r := rand.New(rand.NewSource(seed))
				for {
					if got := q.Pop(termc); got == nil {
						return
					}
					lastPop.Store(time.Now().UnixNano())
					if r.Intn(3) == 0 {
						runtime.Gosched()
					}
				}
			}(seeds[pushers+p])
		}
		wg.Wait()
		// all pushes done: the poppers must drain the queue; a popper that stays blocked for 1 s
		// with alerts queued is a lost wake-up
		stall := false
		for {
			if q.Len() == 0 {
				break
			}
			if time.Since(time.Unix(0, lastPop.Load())) > time.Second {
				stall = true
				break
			}
			time.Sleep(200 * time.Microsecond)
		}
		n := q.Len()
		close(termc)
		pwg.Wait()
		tr.Emit(vt.Event{"ev": "End", "case": caseID, "stall": stall, "len": n})
	}

	if rc := vt.Replay(t); rc != nil {
		if _, ok := rc["ops"]; ok {
			runSeq(rc)
		} else {
			runConc(rc)
		}
		return
	}
	for _, c := range vt.TLCCases(t) {
		runSeq(c)
	}
	rnd := vt.Rand()
	n := vt.Pick(150, 3000)
	for i := 0; i < n; i++ {
		capn := 1 + rnd.Intn(4)
		runConc(vt.Case{"cap": capn, "maxbatch": 1 + rnd.Intn(3), "pushers": 1 + rnd.Intn(3), "poppers": 1 + rnd.Intn(2), "each": 1 + rnd.Intn(6), "sseed": rnd.Int63n(1 << 40)})
	}
}
