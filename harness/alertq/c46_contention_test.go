package alertq

import (
	"runtime"
	"sync"
	"sync/atomic"
	"testing"
	"time"

	"github.com/go-kit/log"
	"github.com/prometheus/prometheus/model/labels"
	"github.com/prometheus/prometheus/notifier"
	"golang.org/x/sys/unix"

	"github.com/thanos-io/thanos/pkg/alert"
	"github.com/thanos-io/thanos/pkg/verifhook"

	"verif/harness/vt"
)

// TestC46Contention looks for interleavings inside windows that are only a few instructions wide.
// The process is pinned to ONE cpu while GOMAXPROCS stays high, so the kernel preempts the popper
// and the pushers at arbitrary instructions for whole time slices; with several hundred thousand
// pops per scenario a preemption lands inside any given window a few times per run.
//
// There is exactly ONE popper goroutine, therefore nobody else can receive from the signal channel
// while it is inside Pop's critical section: at the Pop hook "alerts remain => signal pending" must
// hold (clause pop-resignals-when-alerts-remain; header field in.single_popper tells the trace spec).
//
// Recording every one of ~10^6 steps would make the trace too large for TLC, so the sink keeps the
// previous step and emits (a) every step that a cheap local predicate finds suspicious, preceded by
// a Sync step carrying the queue contents before it, and (b) a 1-in-N sample of ordinary steps, also
// with their Sync.  The predicate only selects; TLC judges every emitted step.
func TestC46Contention(t *testing.T) {
	if vt.Replay(t) != nil {
		return // contention scenarios are schedule-dependent; the recorded trace is re-validated by the driver
	}
	tr := vt.Open(t)
	defer tr.Close()

	// pin to one cpu (restored afterwards)
	var old unix.CPUSet
	pinned := false
	if err := unix.SchedGetaffinity(0, &old); err == nil && old.Count() > 1 {
		var one unix.CPUSet
		for i := 0; i < 1024; i++ {
			if old.IsSet(i) {
				one.Set(i)
				break
			}
		}
		if unix.SchedSetaffinity(0, &one) == nil {
			pinned = true
			defer unix.SchedSetaffinity(0, &old)
		}
	}
	prev := runtime.GOMAXPROCS(16)
	defer runtime.GOMAXPROCS(prev)

	scenarios := vt.Pick(2, 12)
	pushesPer := vt.Pick(60000, 250000)
	rnd := vt.Rand()
	for sc := 0; sc < scenarios; sc++ {
		caseID := int64(1000000 + sc)
		capn := 2 + rnd.Intn(3)
		maxb := 1 + rnd.Intn(2)
		pushers := 2 + rnd.Intn(2)
		q := alert.NewQueue(log.NewNopLogger(), nil, capn, maxb, labels.EmptyLabels(), nil, nil)
		in := vt.Case{"cap": capn, "maxbatch": maxb, "pushers": pushers, "poppers": 1, "each": pushesPer, "single_popper": true, "pinned": pinned, "sampled": true}
		tr.Emit(vt.Event{"ev": "case", "case": caseID, "in": in, "kf": ""})

		var lastQueue []int
		var steps, emitted int64
		emitWithSync := func(ev vt.Event) {
			tr.Emit(vt.Event{"ev": "Sync", "case": caseID, "queue": lastQueue})
			tr.Emit(ev)
			emitted++
		}
		verifhook.SetSink(func(name string, kv ...any) {
			// called under q.mtx (HEAD) -> calls are serialised
			if len(kv) < 8 || kv[1].(*alert.Queue) != q {
				return
			}
			steps++
			queue := ids(kv[5].([]*notifier.Alert))
			morec, _ := kv[7].(int)
			switch name {
			case "alert.Queue.Push":
				batch := ids(kv[3].([]*notifier.Alert))
				suspicious := len(queue) > capn || !eqInts(queue, lastN(append(append([]int{}, lastQueue...), batch...), capn))
				if suspicious || steps%5000 == 0 {
					emitWithSync(vt.Event{"ev": "Push", "case": caseID, "batch": batch, "queue": queue, "morec": morec})
				}
			case "alert.Queue.Pop":
				popped := ids(kv[3].([]*notifier.Alert))
				n := len(lastQueue)
				if n > maxb {
					n = maxb
				}
				suspicious := (len(queue) > 0 && morec == 0) || !eqInts(popped, lastQueue[:n]) || !eqInts(queue, lastQueue[n:])
				if (suspicious && emitted < 200) || steps%5000 == 0 {
					emitWithSync(vt.Event{"ev": "Pop", "case": caseID, "popped": popped, "queue": queue, "morec": morec})
				}
			}
			lastQueue = queue
		})

		var next int64
		var wg sync.WaitGroup
		for p := 0; p < pushers; p++ {
			wg.Add(1)
			go func() {
				defer wg.Done()
				for i := 0; i < pushesPer/pushers; i++ {
					q.Push(mkAlerts(&next, 1, 1))
				}
			}()
		}
		termc := make(chan struct{})
		var lastPop atomic.Int64
		lastPop.Store(time.Now().UnixNano())
		done := make(chan struct{})
		go func() {
			defer close(done)
			for q.Pop(termc) != nil {
				lastPop.Store(time.Now().UnixNano())
			}
		}()
		wg.Wait()
		stall := false
		for q.Len() > 0 {
			if time.Since(time.Unix(0, lastPop.Load())) > 2*time.Second {
				stall = true
				break
			}
			time.Sleep(time.Millisecond)
		}
		n := q.Len()
		close(termc)
		<-done
		verifhook.SetSink(nil)
		tr.Emit(vt.Event{"ev": "End", "case": caseID, "stall": stall, "len": n, "steps": steps})
	}
}

func eqInts(a, b []int) bool {
	if len(a) != len(b) {
		return false
	}
	for i := range a {
		if a[i] != b[i] {
			return false
		}
	}
	return true
}

func lastN(s []int, n int) []int {
	if len(s) <= n {
		return s
	}
	return s[len(s)-n:]
}
