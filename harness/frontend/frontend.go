// Package frontend holds the conformance harnesses of the query-frontend properties (C41 split by
// interval, C42 results cache, C43 cache keys; C44 sharding builds on the same pieces).
//
// Everything goes through /repo/pkg/queryfrontend/verif_export.go (build tag verif), because the
// middlewares and their config types live under internal/cortex/.
package frontend

import (
	"bytes"
	"context"
	"encoding/json"
	"fmt"
	"io"
	"net/http"
	"net/url"
	"sort"
	"strconv"
	"strings"
	"sync"

	"github.com/weaveworks/common/user"
)

// SubReq is one request the fake downstream (the "querier") received from the frontend.
type SubReq struct {
	Path             string
	Start, End, Step int64 // ms; Step 0 for labels/series
	Query            string
	Tenant           string
	Form             url.Values
}

// Downstream is a deterministic fake querier behind the frontend. It records every request and
// answers it with Answer (a pure function of the request), so "direct evaluation" of a query is
// simply Answer applied to the query itself.
type Downstream struct {
	mu  sync.Mutex
	log []SubReq
	// Answer returns the JSON body for a request; nil means the canned empty answer.
	Answer func(r SubReq) []byte
	// Fail, when set, may return a non-zero HTTP status for a request.
	Fail func(r SubReq) int
}

// Take returns and clears the recorded requests, sorted by (Start, End).
func (d *Downstream) Take() []SubReq {
	d.mu.Lock()
	out := d.log
	d.log = nil
	d.mu.Unlock()
	sort.SliceStable(out, func(i, j int) bool {
		if out[i].Start != out[j].Start {
			return out[i].Start < out[j].Start
		}
		return out[i].End < out[j].End
	})
	return out
}

// ParseSecMs parses the decimal seconds the frontend codecs emit ("12.345") into ms, exactly.
func ParseSecMs(s string) (int64, error) {
	if s == "" {
		return 0, fmt.Errorf("empty time")
	}
	neg := false
	if s[0] == '-' {
		neg = true
		s = s[1:]
	}
	ip, fp, _ := strings.Cut(s, ".")
	if ip == "" {
		ip = "0"
	}
	sec, err := strconv.ParseInt(ip, 10, 64)
	if err != nil {
		return 0, err
	}
	if len(fp) > 3 {
		if strings.Trim(fp[3:], "0") != "" {
			return 0, fmt.Errorf("sub-millisecond time %q", s)
		}
		fp = fp[:3]
	}
	for len(fp) < 3 {
		fp += "0"
	}
	ms, err := strconv.ParseInt(fp, 10, 64)
	if err != nil {
		return 0, err
	}
	v := sec*1000 + ms
	if neg {
		v = -v
	}
	return v, nil
}

// FmtSecMs renders ms as decimal seconds.
func FmtSecMs(ms int64) string {
	if ms < 0 {
		return "-" + FmtSecMs(-ms)
	}
	return fmt.Sprintf("%d.%03d", ms/1000, ms%1000)
}

func (d *Downstream) RoundTrip(r *http.Request) (*http.Response, error) {
	if r.Body != nil {
		defer r.Body.Close()
	}
	if err := r.ParseForm(); err != nil {
		return nil, err
	}
	sr := SubReq{Path: r.URL.Path, Query: r.Form.Get("query"), Form: r.Form}
	sr.Tenant = r.Header.Get(user.OrgIDHeaderName)
	var err error
	if strings.HasSuffix(sr.Path, "/api/v1/query") { // instant query: start = end = time (-1: no time given)
		sr.Start, sr.End = -1, -1
		if tm := r.Form.Get("time"); tm != "" {
			if sr.Start, err = ParseSecMs(tm); err != nil {
				return nil, fmt.Errorf("downstream: time: %w", err)
			}
			sr.End = sr.Start
		}
	} else {
		if sr.Start, err = ParseSecMs(r.Form.Get("start")); err != nil {
			return nil, fmt.Errorf("downstream: start: %w", err)
		}
		if sr.End, err = ParseSecMs(r.Form.Get("end")); err != nil {
			return nil, fmt.Errorf("downstream: end: %w", err)
		}
	}
	if st := r.Form.Get("step"); st != "" {
		if sr.Step, err = ParseSecMs(st); err != nil {
			return nil, fmt.Errorf("downstream: step: %w", err)
		}
	}
	d.mu.Lock()
	d.log = append(d.log, sr)
	d.mu.Unlock()
	code := http.StatusOK
	if d.Fail != nil {
		if c := d.Fail(sr); c != 0 {
			code = c
		}
	}
	var body []byte
	if d.Answer != nil && code == http.StatusOK {
		body = d.Answer(sr)
	}
	if body == nil {
		if strings.HasSuffix(sr.Path, "/query_range") {
			body = []byte(`{"status":"success","data":{"resultType":"matrix","result":[]}}`)
		} else {
			body = []byte(`{"status":"success","data":[]}`)
		}
	}
	return &http.Response{
		StatusCode:    code,
		Header:        http.Header{"Content-Type": []string{"application/json"}},
		Body:          io.NopCloser(bytes.NewReader(body)),
		ContentLength: int64(len(body)),
		Request:       r,
	}, nil
}

// Do sends a GET request with the given path and parameters through rt on behalf of tenant and
// returns status, body and transport error.
func Do(rt http.RoundTripper, tenant, path string, params url.Values, hdr http.Header) (int, []byte, error) {
	u := &url.URL{Scheme: "http", Host: "frontend.verif", Path: path, RawQuery: params.Encode()}
	req, err := http.NewRequest(http.MethodGet, u.String(), nil)
	if err != nil {
		return 0, nil, err
	}
	for k, v := range hdr {
		req.Header[k] = v
	}
	req = req.WithContext(user.InjectOrgID(context.Background(), tenant))
	resp, err := rt.RoundTrip(req)
	if err != nil {
		return 0, nil, err
	}
	defer resp.Body.Close()
	b, err := io.ReadAll(resp.Body)
	return resp.StatusCode, b, err
}

// RangeParams are the URL parameters of a query_range request.
func RangeParams(query string, start, end, step int64) url.Values {
	return url.Values{
		"query": {query},
		"start": {FmtSecMs(start)},
		"end":   {FmtSecMs(end)},
		"step":  {FmtSecMs(step)},
	}
}

// Series / Matrix are the decoded form of a query_range answer: per series (canonical label string)
// the list of [t, v] with integer values.
type Series struct {
	Labels string
	TS     []int64
	Vals   []int64
}

// MatrixJSON renders series as a Prometheus matrix answer.
func MatrixJSON(series []Series) []byte {
	type stream struct {
		Metric map[string]string `json:"metric"`
		Values [][2]any          `json:"values"`
	}
	res := make([]stream, 0, len(series))
	for _, s := range series {
		if len(s.TS) == 0 {
			continue
		}
		st := stream{Metric: parseLabels(s.Labels)}
		for i := range s.TS {
			st.Values = append(st.Values, [2]any{json.Number(FmtSecMs(s.TS[i])), strconv.FormatInt(s.Vals[i], 10)})
		}
		res = append(res, st)
	}
	b, err := json.Marshal(map[string]any{"status": "success", "data": map[string]any{"resultType": "matrix", "result": res}})
	if err != nil {
		panic(err)
	}
	return b
}

// ParseMatrix decodes a query_range answer into series sorted by label string.
func ParseMatrix(body []byte) ([]Series, error) {
	var r struct {
		Status string `json:"status"`
		Data   struct {
			ResultType string `json:"resultType"`
			Result     []struct {
				Metric map[string]string   `json:"metric"`
				Values [][]json.RawMessage `json:"values"`
			} `json:"result"`
		} `json:"data"`
	}
	dec := json.NewDecoder(bytes.NewReader(body))
	if err := dec.Decode(&r); err != nil {
		return nil, err
	}
	if r.Status != "success" {
		return nil, fmt.Errorf("status %q", r.Status)
	}
	out := make([]Series, 0, len(r.Data.Result))
	for _, st := range r.Data.Result {
		s := Series{Labels: fmtLabels(st.Metric)}
		for _, v := range st.Values {
			if len(v) != 2 {
				return nil, fmt.Errorf("bad sample pair")
			}
			t, err := ParseSecMs(strings.TrimSpace(string(v[0])))
			if err != nil {
				// scientific notation etc.
				f, err2 := strconv.ParseFloat(string(v[0]), 64)
				if err2 != nil {
					return nil, err
				}
				t = int64(f*1000 + 0.5)
			}
			var vs string
			if err := json.Unmarshal(v[1], &vs); err != nil {
				return nil, err
			}
			f, err := strconv.ParseFloat(vs, 64)
			if err != nil {
				return nil, err
			}
			s.TS = append(s.TS, t)
			s.Vals = append(s.Vals, int64(f))
		}
		out = append(out, s)
	}
	sort.Slice(out, func(i, j int) bool { return out[i].Labels < out[j].Labels })
	return out, nil
}

func fmtLabels(m map[string]string) string {
	ks := make([]string, 0, len(m))
	for k := range m {
		ks = append(ks, k)
	}
	sort.Strings(ks)
	var b strings.Builder
	for i, k := range ks {
		if i > 0 {
			b.WriteByte(',')
		}
		b.WriteString(k)
		b.WriteByte('=')
		b.WriteString(m[k])
	}
	return b.String()
}

func parseLabels(s string) map[string]string {
	m := map[string]string{}
	if s == "" {
		return m
	}
	for _, kv := range strings.Split(s, ",") {
		k, v, _ := strings.Cut(kv, "=")
		m[k] = v
	}
	return m
}
