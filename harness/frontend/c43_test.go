package frontend

import (
	"context"
	"encoding/json"
	"fmt"
	"math/rand"
	"net/http"
	"net/url"
	"sort"
	"strings"
	"testing"
	"time"

	"github.com/weaveworks/common/user"

	"github.com/thanos-io/thanos/pkg/queryfrontend"

	"verif/harness/vt"
)

// C43: results-cache keys separate tenants and result-changing parameters.
//
// One case = a pair of requests (a, b) of one kind (range / labels / series). Free-text fields
// (tenant, query, engine, label, replica labels) are token lists whose concatenation is the real
// string; tokens include the key separators ":" "," the escape "\" and text that imitates typed key
// fields ("true", "1000", "[]"). For each request the harness builds the HTTP request a client would
// send, decodes it with the REAL codec, and records
//
//	ka/kb: the key of thanosCacheKeyGenerator.GenerateCacheKey (tenant resolved from the context as
//	       resultsCache.Do does), through the export shim;
//	ea/eb: the key actually stored when the request runs through the real tripperware chain around
//	       an inspectable in-memory cache ("" when nothing was stored, e.g. not cacheable).
//
// Pairs: those TLC serialised (FrontendKeysMC: every pair the pre-fix format confused, every
// known-finding pair, every pair differing in one parameter) + seeded random pairs (mutations of
// 1..3 fields and adversarial re-splits of the same flat text over neighbouring fields).

func c43Flat(v any) string { return strings.Join(vt.Strs(v), "") }

func c43FlatList(v any) []string {
	var out []string
	for _, x := range vt.List(v) {
		out = append(out, c43Flat(x))
	}
	return out
}

func c43Level(msr int64) int {
	switch {
	case msr >= 3600000:
		return 0
	case msr >= 300000:
		return 1
	}
	return 2
}

func c43Set(xs []string) string {
	m := map[string]bool{}
	for _, x := range xs {
		m[x] = true
	}
	ks := make([]string, 0, len(m))
	for k := range m {
		ks = append(ks, k)
	}
	sort.Strings(ks)
	b, _ := json.Marshal(ks)
	return string(b)
}

// c43Diff mirrors DiffFields of FrontendKeys.tla (only used to tag known-finding classes from the
// input; the verdict is TLC's).
func c43Diff(a, b map[string]any) map[string]bool {
	d := map[string]bool{}
	kind := vt.Str(a["kind"])
	if c43Flat(a["tenant"]) != c43Flat(b["tenant"]) {
		d["tenant"] = true
	}
	if vt.Bool(a["partial"]) != vt.Bool(b["partial"]) {
		d["partial"] = true
	}
	if kind == "range" {
		if c43Flat(a["query"]) != c43Flat(b["query"]) {
			d["query"] = true
		}
		if vt.Int64(a["step"]) != vt.Int64(b["step"]) {
			d["step"] = true
		}
		if c43Level(vt.Int64(a["msr"])) != c43Level(vt.Int64(b["msr"])) {
			d["resolution"] = true
		}
		sa, sb := vt.Map(a["shard"]), vt.Map(b["shard"])
		if vt.Bool(sa["on"]) != vt.Bool(sb["on"]) || vt.Int64(sa["total"]) != vt.Int64(sb["total"]) || vt.Int64(sa["index"]) != vt.Int64(sb["index"]) {
			d["shard"] = true
		}
		if vt.Bool(sa["on"]) && vt.Bool(sb["on"]) && (vt.Bool(sa["by"]) != vt.Bool(sb["by"]) || c43Set(vt.Strs(sa["labels"])) != c43Set(vt.Strs(sb["labels"]))) {
			d["shardlabels"] = true
		}
		if vt.Int64(a["lookback"]) != vt.Int64(b["lookback"]) {
			d["lookback"] = true
		}
		if c43Flat(a["engine"]) != c43Flat(b["engine"]) {
			d["engine"] = true
		}
		if vt.Bool(a["analyze"]) != vt.Bool(b["analyze"]) {
			d["analyze"] = true
		}
	}
	if kind == "range" || kind == "series" {
		if c43Set(c43FlatList(a["replicas"])) != c43Set(c43FlatList(b["replicas"])) {
			d["replicas"] = true
		}
	}
	if kind == "labels" || kind == "series" {
		if c43Set(vt.Strs(a["matchers"])) != c43Set(vt.Strs(b["matchers"])) {
			d["matchers"] = true
		}
	}
	if kind == "labels" && c43Flat(a["label"]) != c43Flat(b["label"]) {
		d["label"] = true
	}
	if kind != "labels" && vt.Bool(a["dedup"]) != vt.Bool(b["dedup"]) {
		d["dedup"] = true
	}
	if c43Set(vt.Strs(a["storem"])) != c43Set(vt.Strs(b["storem"])) {
		d["storematchers"] = true
	}
	return d
}

// c43KF: known-finding classes (KNOWN_FINDINGS.jsonl), decided from the input pair alone: the two
// requests differ ONLY in a parameter the key format does not contain.
func c43KF(c vt.Case) string {
	a, b := vt.Map(c["a"]), vt.Map(c["b"])
	kind := vt.Str(a["kind"])
	d := c43Diff(a, b)
	only := func(allowed ...string) bool {
		for k := range d {
			ok := false
			for _, x := range allowed {
				ok = ok || x == k
			}
			if !ok {
				return false
			}
		}
		return len(d) > 0
	}
	switch {
	case kind == "series" && d["replicas"] && only("replicas", "partial"):
		return "series-replica-labels"
	case (kind == "labels" || kind == "series") && only("partial"):
		return "meta-partial-response"
	case kind == "range" && only("shardlabels"):
		return "shard-labels"
	}
	return ""
}

// c43HTTP builds the request a client would send for x.
func c43HTTP(x map[string]any) (*http.Request, error) {
	kind := vt.Str(x["kind"])
	start := vt.Int64(x["start"])
	p := url.Values{}
	path := ""
	boolStr := func(b bool) string {
		if b {
			return "true"
		}
		return "false"
	}
	p.Set("partial_response", boolStr(vt.Bool(x["partial"])))
	for _, m := range vt.Strs(x["storem"]) {
		p.Add("storeMatch[]", "{"+m+"}")
	}
	switch kind {
	case "range":
		step := vt.Int64(x["step"])
		path = "/api/v1/query_range"
		p.Set("query", c43Flat(x["query"]))
		p.Set("start", FmtSecMs(start))
		p.Set("end", FmtSecMs(start+10*step))
		p.Set("step", FmtSecMs(step))
		p.Set("dedup", boolStr(vt.Bool(x["dedup"])))
		if m := vt.Int64(x["msr"]); m > 0 {
			p.Set("max_source_resolution", FmtSecMs(m))
		}
		if lb := vt.Int64(x["lookback"]); lb > 0 {
			p.Set("lookback_delta", FmtSecMs(lb))
		}
		if e := c43Flat(x["engine"]); e != "" {
			p.Set("engine", e)
		}
		if vt.Bool(x["analyze"]) {
			p.Set("analyze", "true")
		}
		for _, r := range c43FlatList(x["replicas"]) {
			p.Add("replicaLabels[]", r)
		}
		if sh := vt.Map(x["shard"]); vt.Bool(sh["on"]) {
			b, _ := json.Marshal(map[string]any{"total_shards": vt.Int64(sh["total"]), "shard_index": vt.Int64(sh["index"]),
				"by": vt.Bool(sh["by"]), "labels": vt.Strs(sh["labels"])})
			p.Set("shard_info", string(b))
		}
	case "labels":
		path = "/api/v1/labels"
		if l := c43Flat(x["label"]); l != "" {
			path = "/api/v1/label/" + l + "/values"
		}
		p.Set("start", FmtSecMs(start))
		p.Set("end", FmtSecMs(start+600000))
		for _, m := range vt.Strs(x["matchers"]) {
			p.Add("match[]", "{"+m+"}")
		}
	case "series":
		path = "/api/v1/series"
		p.Set("start", FmtSecMs(start))
		p.Set("end", FmtSecMs(start+600000))
		p.Set("dedup", boolStr(vt.Bool(x["dedup"])))
		for _, m := range vt.Strs(x["matchers"]) {
			p.Add("match[]", "{"+m+"}")
		}
		for _, r := range c43FlatList(x["replicas"]) {
			p.Add("replicaLabels[]", r)
		}
	default:
		return nil, fmt.Errorf("kind %q", kind)
	}
	u := &url.URL{Scheme: "http", Host: "frontend.verif", Path: path, RawQuery: p.Encode()}
	req, err := http.NewRequest(http.MethodGet, u.String(), nil)
	if err != nil {
		return nil, err
	}
	if vt.Bool(x["nostore"]) {
		req.Header.Set("Cache-Control", "no-store")
	}
	return req.WithContext(user.InjectOrgID(context.Background(), c43Flat(x["tenant"]))), nil
}

type c43Obs struct {
	key, e2e, err string
	cacheable     bool
}

func c43Observe(x map[string]any) (o c43Obs) {
	defer func() {
		if r := recover(); r != nil {
			o.err = fmt.Sprint("panic: ", r)
		}
	}()
	split := time.Duration(vt.Int64(x["split"])) * time.Millisecond
	// ---- direct: codec + key generator ----
	req, err := c43HTTP(x)
	if err != nil {
		return c43Obs{err: err.Error()}
	}
	ids, err := queryfrontend.VerifTenantIDs(req.Context())
	if err != nil {
		return c43Obs{err: "tenant: " + err.Error()}
	}
	dec, err := queryfrontend.VerifDecodeRequest(req, false, 24*time.Hour)
	if err != nil {
		return c43Obs{err: "decode: " + err.Error()}
	}
	dec = queryfrontend.VerifWithSplitInterval(dec, split)
	o.cacheable = queryfrontend.VerifShouldCache(dec)
	o.key, err = queryfrontend.VerifCacheKey(ids, dec)
	if err != nil {
		o.err = "key: " + err.Error()
		return o
	}
	// ---- e2e: the key under which the real chain stores the answer ----
	cache := queryfrontend.NewVerifCache()
	rt, err := queryfrontend.VerifNewTripperware(queryfrontend.VerifTripperwareOptions{
		SplitInterval: split, LabelsSplitInterval: split, Cache: cache, LabelsCache: cache, MaxQueryParallelism: 1,
	}, &Downstream{})
	if err != nil {
		o.err = "tripperware: " + err.Error()
		return o
	}
	req2, _ := c43HTTP(x)
	if resp, err := rt.RoundTrip(req2); err == nil {
		resp.Body.Close()
		if es := cache.Entries(); len(es) == 1 {
			o.e2e = es[0].Key
		} else if len(es) > 1 {
			o.e2e = fmt.Sprintf("<%d entries>", len(es))
		}
	}
	return o
}

func TestC43(t *testing.T) {
	rnd := vt.Rand()
	gen := func(yield func(vt.Case)) {
		for _, c := range vt.TLCCases(t) {
			yield(vt.Case{"src": "tlc", "a": c["a"], "b": c["b"]})
		}
		n := vt.Pick(1500, 40000)
		for i := 0; i < n; i++ {
			a := c43Random(rnd)
			b := c43Mutate(rnd, a)
			yield(vt.Case{"src": "rand", "a": a, "b": b})
		}
	}
	vt.Run(t, gen, c43KF, func(c vt.Case) vt.Event {
		oa, ob := c43Observe(vt.Map(c["a"])), c43Observe(vt.Map(c["b"]))
		return vt.Event{"got": map[string]any{
			"ka": oa.key, "kb": ob.key, "ea": oa.e2e, "eb": ob.e2e, "erra": oa.err, "errb": ob.err,
			"ca": oa.cacheable, "cb": ob.cacheable,
		}}
	})
}

// ---- random pairs ----

var (
	c43TenantToks = []string{"a", "b", "c", ":", ",", "|", "true", "1000", "[]", "-"}
	c43TextToks   = []string{"a", "b", "c", ":", ",", "\\", "true", "false", "1000", "[]", "-", "3600000"}
	c43QueryToks  = []string{"a", "b", "c", ":", "1000", "3600000"}
	c43Matchers   = []string{`a="b"`, `a="b:c"`, `c="d"`, `a=":"`, `e="[]"`, `a="b\\"`, `a="\\\\"`, `a="\\,"`, `a="\\:c"`}
	// label names: separators and the escape character (alone, trailing, doubled, before a separator)
	c43LabelToks = []string{"a", "b", "c", ":", ",", "\\", "[]"}
)

func c43Toks(r *rand.Rand, alphabet []string, min, max int) []string {
	n := min + r.Intn(max-min+1)
	out := make([]string, 0, n)
	for i := 0; i < n; i++ {
		out = append(out, alphabet[r.Intn(len(alphabet))])
	}
	return out
}

func c43ReplicaList(r *rand.Rand) [][]string {
	n := r.Intn(3)
	out := make([][]string, 0, n)
	for i := 0; i < n; i++ {
		out = append(out, c43Toks(r, c43TextToks, 1, 3))
	}
	// in the order the key generator puts them (sort.Strings on the raw labels)
	sort.Slice(out, func(i, j int) bool { return strings.Join(out[i], "") < strings.Join(out[j], "") })
	return out
}

func c43MatcherList(r *rand.Rand) []string {
	n := r.Intn(3)
	out := make([]string, 0, n)
	for i := 0; i < n; i++ {
		out = append(out, c43Matchers[r.Intn(len(c43Matchers))])
	}
	return out
}

func c43Shard(r *rand.Rand) map[string]any {
	if r.Intn(2) == 0 {
		return map[string]any{"on": false, "total": 0, "index": 0, "by": false, "labels": []string{}}
	}
	total := 2 + r.Intn(2)
	return map[string]any{"on": true, "total": total, "index": r.Intn(total), "by": r.Intn(2) == 0,
		"labels": [][]string{{"x"}, {"y"}, {"x", "y"}}[r.Intn(3)]}
}

func c43Random(r *rand.Rand) map[string]any {
	tenant := c43Toks(r, c43TenantToks, 1, 3)
	switch r.Intn(4) {
	case 0:
		return map[string]any{"kind": "labels", "tenant": tenant, "label": c43Toks(r, c43LabelToks, 0, 3),
			"matchers": c43MatcherList(r), "partial": r.Intn(2) == 0, "split": 3600000, "start": 0,
			"storem": []string{}, "nostore": false}
	case 1:
		return map[string]any{"kind": "series", "tenant": tenant, "matchers": append([]string{c43Matchers[r.Intn(len(c43Matchers))]}, c43MatcherList(r)...),
			"partial": r.Intn(2) == 0, "replicas": c43ReplicaList(r), "dedup": r.Intn(8) != 0, "split": 3600000, "start": 0,
			"storem": []string{}, "nostore": false}
	}
	storem := []string{}
	if r.Intn(10) == 0 {
		storem = []string{c43Matchers[r.Intn(len(c43Matchers))]}
	}
	// a metric name (may contain ':' and digits, starts with a letter or ':'): the split middleware
	// re-prints the query, anything else (number literals, ...) would be normalised on the way
	query := append([]string{c43QueryToks[r.Intn(4)]}, c43Toks(r, c43QueryToks, 0, 3)...)
	return map[string]any{"kind": "range", "tenant": tenant, "query": query,
		"step": []int{1000, 2000, 15000, 60000}[r.Intn(4)], "split": 3600000, "start": []int{0, 3600000}[r.Intn(2)],
		"msr": []int{0, 10000, 300000, 3600000}[r.Intn(4)], "shard": c43Shard(r), "lookback": []int{0, 1000, 300000}[r.Intn(3)],
		"engine": c43Toks(r, c43TextToks, 0, 3), "partial": r.Intn(2) == 0, "replicas": c43ReplicaList(r),
		"analyze": r.Intn(2) == 0, "dedup": r.Intn(8) != 0, "storem": storem, "nostore": r.Intn(12) == 0}
}

func c43Clone(x map[string]any) map[string]any {
	b, _ := json.Marshal(x)
	var out map[string]any
	_ = json.Unmarshal(b, &out)
	return out
}

// c43Resplit moves the boundary between two neighbouring free-text fields: the concatenation
// left + sep + right keeps its text, the fields change.
func c43Resplit(r *rand.Rand, left, right []string, sep string) ([]string, []string, bool) {
	all := append(append(append([]string{}, left...), sep), right...)
	var cuts []int
	for i, t := range all {
		if t == sep && i > 0 {
			cuts = append(cuts, i)
		}
	}
	if len(cuts) < 2 {
		return left, right, false
	}
	c := cuts[r.Intn(len(cuts))]
	return append([]string{}, all[:c]...), append([]string{}, all[c+1:]...), true
}

func c43Mutate(r *rand.Rand, a map[string]any) map[string]any {
	b := c43Clone(a)
	kind := vt.Str(a["kind"])
	strs := func(v any) []string { return vt.Strs(v) }
	if r.Intn(3) == 0 { // adversarial re-split over neighbouring free-text fields
		switch kind {
		case "range":
			if r.Intn(2) == 0 {
				if l, rr, ok := c43Resplit(r, strs(b["tenant"]), strs(b["query"]), ":"); ok && len(l) > 0 && len(rr) > 0 {
					b["tenant"], b["query"] = l, rr
					return b
				}
			} else if reps := vt.List(b["replicas"]); len(reps) == 2 { // ["x","y"] vs ["x,y"]
				b["replicas"] = [][]string{append(append(strs(reps[0]), ","), strs(reps[1])...)}
				return b
			}
		case "labels":
			// (a tenant ID cannot contain the escape character: the resolver rejects '\\')
			if l, rr, ok := c43Resplit(r, strs(b["tenant"]), strs(b["label"]), ":"); ok && len(l) > 0 && !strings.Contains(strings.Join(l, ""), "\\") {
				b["tenant"], b["label"] = l, rr
				return b
			}
		}
	}
	if r.Intn(4) == 0 { // the escape character at the end of a field, in front of the separator that follows
		x, y := c43Toks(r, []string{"a", "b", "r", "\\"}, 0, 2), c43Toks(r, []string{"a", "b", "s", "\\"}, 1, 2)
		bs := []string{"\\"}
		if r.Intn(3) == 0 {
			bs = []string{"\\", "\\"}
		}
		switch {
		case kind != "labels" && r.Intn(2) == 0: // replica labels [x\, y] vs [x,y] / [x\,y]
			two := [][]string{append(append([]string{}, x...), bs...), y}
			sort.Slice(two, func(i, j int) bool { return strings.Join(two[i], "") < strings.Join(two[j], "") })
			one := append(append(append([]string{}, x...), ","), y...)
			if r.Intn(2) == 0 {
				one = append(append(append(append([]string{}, x...), bs...), ","), y...)
			}
			a["replicas"], b["replicas"] = two, [][]string{one}
			return c43Clone(b)
		case kind == "range": // engine e\ + partial vs engine e:<partial> etc.
			a["engine"] = append(append([]string{"e"}, x...), bs...)
			b["engine"] = append(append(append([]string{"e"}, x...), ":"), []string{"true", "false"}[r.Intn(2)])
			return c43Clone(b)
		case kind == "labels": // label name l\ vs l:<matchers text>
			a["label"] = append(append([]string{"l"}, x...), bs...)
			b["label"] = append(append(append([]string{"l"}, x...), ":"), "[]")
			return c43Clone(b)
		}
	}
	fresh := c43Random(r)
	for fresh["kind"] != kind {
		fresh = c43Random(r)
	}
	keys := make([]string, 0, len(fresh))
	for k := range fresh {
		if k != "kind" && k != "split" && k != "start" {
			keys = append(keys, k)
		}
	}
	sort.Strings(keys)
	for n := 1 + r.Intn(3); n > 0; n-- {
		k := keys[r.Intn(len(keys))]
		b[k] = fresh[k]
	}
	return c43Clone(b)
}
