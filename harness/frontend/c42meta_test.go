package frontend

import (
	"encoding/json"
	"fmt"
	"math/rand"
	"net/url"
	"os"
	"sort"
	"strconv"
	"strings"
	"testing"
	"time"

	"github.com/thanos-io/thanos/pkg/queryfrontend"

	"verif/harness/vt"
)

// C42, phase 2: metadata requests (label names, label values, series) through the labels
// tripperware (split by interval -> results cache with the whole-response extractor) and instant
// queries passing the tripperware. A history is a sequence of requests {kind, s, e}: kind 0 instant
// query (s = e = time), 1 label names, 2 label values of "s", 3 series. The world is the one of the
// range histories: series k exists in its windows and carries the labels
// {__name__="m", s="<k>", l<k>="x"}, so every answer determines a set of series ids.

func c42MetaPresent(w [][]c42Win, s, e int64) []int {
	var ids []int
	for i, wins := range w {
		for _, x := range wins {
			if x.lo <= e && s <= x.hi {
				ids = append(ids, i+1)
				break
			}
		}
	}
	return ids
}

func c42MetaAnswer(w [][]c42Win, r SubReq) []byte {
	ids := c42MetaPresent(w, r.Start, r.End)
	var data any
	switch {
	case strings.HasSuffix(r.Path, "/api/v1/query"):
		res := []any{}
		for _, k := range ids {
			res = append(res, map[string]any{"metric": map[string]string{"__name__": "m", "s": fmt.Sprintf("%02d", k)},
				"value": []any{json.Number(FmtSecMs(r.Start)), strconv.Itoa(k)}})
		}
		data = map[string]any{"resultType": "vector", "result": res}
	case strings.HasSuffix(r.Path, "/api/v1/labels"):
		names := []string{}
		if len(ids) > 0 {
			names = append(names, "__name__", "s")
		}
		for _, k := range ids {
			names = append(names, fmt.Sprintf("l%02d", k))
		}
		sort.Strings(names)
		data = names
	case strings.HasSuffix(r.Path, "/values"):
		vals := []string{}
		for _, k := range ids {
			vals = append(vals, fmt.Sprintf("%02d", k))
		}
		data = vals
	default: // series
		sets := []map[string]string{}
		for _, k := range ids {
			sets = append(sets, map[string]string{"__name__": "m", "s": fmt.Sprintf("%02d", k), fmt.Sprintf("l%02d", k): "x"})
		}
		data = sets
	}
	b, _ := json.Marshal(map[string]any{"status": "success", "data": data})
	return b
}

// c42MetaIDs decodes an answer of the frontend into the sorted list of series ids it mentions.
func c42MetaIDs(kind int, body []byte) ([]int, error) {
	var r struct {
		Status string          `json:"status"`
		Data   json.RawMessage `json:"data"`
	}
	if err := json.Unmarshal(body, &r); err != nil {
		return nil, err
	}
	if r.Status != "success" {
		return nil, fmt.Errorf("status %q", r.Status)
	}
	seen := map[int]bool{}
	add := func(s string) {
		if n, err := strconv.Atoi(s); err == nil {
			seen[n] = true
		} else {
			seen[-1] = true // something that is no series id at all
		}
	}
	switch kind {
	case 0:
		var d struct {
			Result []struct {
				Metric map[string]string `json:"metric"`
			} `json:"result"`
		}
		if err := json.Unmarshal(r.Data, &d); err != nil {
			return nil, err
		}
		for _, x := range d.Result {
			add(x.Metric["s"])
		}
	case 1:
		var names []string
		if err := json.Unmarshal(r.Data, &names); err != nil {
			return nil, err
		}
		for _, n := range names {
			if strings.HasPrefix(n, "l") {
				add(n[1:])
			} else if n != "__name__" && n != "s" {
				seen[-1] = true
			}
		}
	case 2:
		var vals []string
		if err := json.Unmarshal(r.Data, &vals); err != nil {
			return nil, err
		}
		for _, v := range vals {
			add(v)
		}
	default:
		var sets []map[string]string
		if err := json.Unmarshal(r.Data, &sets); err != nil {
			return nil, err
		}
		for _, m := range sets {
			add(m["s"])
		}
	}
	ids := make([]int, 0, len(seen))
	for k := range seen {
		ids = append(ids, k)
	}
	sort.Ints(ids)
	return ids, nil
}

// kind of a metadata cache key: "fe:<tenant>:<label>:<matchers>:<split>:<idx>" (labels: label "" = names,
// else values) or "fe:<tenant>:<matchers>:<split>:<idx>" (series); tenant/label/matchers without ':'.
func c42MetaKey(key string) (kind int, idx int64, ok bool) {
	f := strings.Split(key, ":")
	switch {
	case len(f) == 6 && f[0] == "fe":
		kind = 1
		if f[2] != "" {
			kind = 2
		}
	case len(f) == 5 && f[0] == "fe":
		kind = 3
	default:
		return 0, 0, false
	}
	idx, err := strconv.ParseInt(f[len(f)-1], 10, 64)
	return kind, idx, err == nil
}

func c42MetaGen(t *testing.T, rnd *rand.Rand, yield func(vt.Case), scale func(tick int64, world any, T int64) (any, int64),
	randWorld func(r *rand.Rand, span, tick int64) []any) {
	// ---- the request pairs of the model (FrontendMetaMC); min extent 3 ticks = 5 min => tick 100 s ----
	if p := os.Getenv("VERIF_CASES_FRONTENDMETA"); p != "" {
		cs, err := vt.ReadNDJSON(p)
		if err != nil {
			t.Fatalf("reading %s: %v", p, err)
		}
		for _, c := range cs {
			tick := 300000 / vt.Int64(c["minext"])
			w, _ := scale(tick, c["world"], vt.Int64(c["T"]))
			var hist []any
			for _, q := range vt.List(c["hist"]) {
				m := vt.Map(q)
				hist = append(hist, map[string]any{"kind": vt.Int(m["kind"]), "s": vt.Int64(m["s"]) * tick, "e": vt.Int64(m["e"]) * tick, "lose": -1})
			}
			yield(vt.Case{"src": "tlc-meta", "meta": true, "iv": vt.Int64(c["iv"]) * tick, "par": 1, "world": w, "hist": hist})
		}
	}
	// ---- random histories of 1..8 metadata / instant requests ----
	n := vt.Pick(150, 4000)
	for i := 0; i < n; i++ {
		tick := []int64{100000, 60000, 75000}[rnd.Intn(3)]
		T := int64(8 + rnd.Intn(9))
		iv := []int64{3, 4, 6, 8}[rnd.Intn(4)] * tick
		var hist []any
		for k := 1 + rnd.Intn(8); k > 0; k-- {
			kind := []int{1, 1, 2, 3, 3, 0}[rnd.Intn(6)]
			s := rnd.Int63n(T+1) * tick
			e := s + rnd.Int63n(T+1-s/tick)*tick
			if rnd.Intn(4) == 0 { // off the tick grid
				s += rnd.Int63n(tick)
				if e < s {
					e = s
				}
			}
			if kind == 0 { // instant query; time 0 is "no time given" for the codec, so stay above it
				s += tick
				e = s
			}
			lose := -1
			if rnd.Intn(5) == 0 {
				lose = rnd.Intn(4)
			}
			hist = append(hist, map[string]any{"kind": kind, "s": s, "e": e, "lose": lose})
		}
		yield(vt.Case{"src": "rand-meta", "meta": true, "iv": iv, "par": []int{1, 4}[rnd.Intn(2)],
			"world": randWorld(rnd, T*tick, tick), "hist": hist})
	}
}

func c42MetaRun(t *testing.T, c vt.Case) vt.Event {
	w := c42World(c["world"])
	down := &Downstream{Answer: func(r SubReq) []byte { return c42MetaAnswer(w, r) }}
	cache := queryfrontend.NewVerifCache()
	iv := time.Duration(vt.Int64(c["iv"])) * time.Millisecond
	rt, err := queryfrontend.VerifNewTripperware(queryfrontend.VerifTripperwareOptions{
		SplitInterval: iv, LabelsSplitInterval: iv, LabelsCache: cache, MaxQueryParallelism: vt.Int(c["par"]),
	}, down)
	if err != nil {
		t.Fatalf("tripperware: %v", err)
	}
	var steps []any
	for _, qv := range vt.List(c["hist"]) {
		q := vt.Map(qv)
		kind := vt.Int(q["kind"])
		st := map[string]any{"lost": []any{}}
		if li := vt.Int(q["lose"]); li >= 0 {
			if es := cache.Entries(); len(es) > 0 {
				e := es[li%len(es)]
				if cache.Drop(e.Key) {
					if k, idx, ok := c42MetaKey(e.Key); ok {
						st["lost"] = []any{[]int64{int64(k), idx}}
					}
				}
			}
		}
		down.Take()
		got := map[string]any{"err": "", "ids": []int{}}
		func() {
			defer func() {
				if r := recover(); r != nil {
					got["err"] = fmt.Sprint("panic: ", r)
				}
			}()
			s, e := vt.Int64(q["s"]), vt.Int64(q["e"])
			path, params := "", url.Values{"start": {FmtSecMs(s)}, "end": {FmtSecMs(e)}}
			switch kind {
			case 0:
				path, params = "/api/v1/query", url.Values{"query": {"m"}, "time": {FmtSecMs(s)}}
			case 1:
				path = "/api/v1/labels"
			case 2:
				path = "/api/v1/label/s/values"
			default:
				path = "/api/v1/series"
				params.Set("match[]", `{__name__="m"}`)
			}
			code, body, err := Do(rt, "tenant-1", path, params, nil)
			switch {
			case err != nil:
				got["err"] = err.Error()
			case code != 200:
				got["err"] = fmt.Sprintf("http %d: %.200s", code, body)
			default:
				ids, err := c42MetaIDs(kind, body)
				if err != nil {
					got["err"] = "undecodable answer: " + err.Error()
					return
				}
				got["ids"] = ids
			}
		}()
		st["got"] = got
		subs := down.Take()
		st["nsub"] = len(subs)
		// an instant query must reach the querier once, with its own time
		st["passed"] = kind != 0 || (len(subs) == 1 && subs[0].Start == vt.Int64(q["s"]) && subs[0].Query == "m")
		ext := [][]int64{}
		for _, e := range cache.Entries() {
			k, _, ok := c42MetaKey(e.Key)
			if !ok {
				k = -1
			}
			for _, x := range e.Extents {
				ext = append(ext, []int64{int64(k), x.Start, x.End})
			}
		}
		sort.Slice(ext, func(i, j int) bool {
			for k := 0; k < 3; k++ {
				if ext[i][k] != ext[j][k] {
					return ext[i][k] < ext[j][k]
				}
			}
			return false
		})
		st["ext"] = ext
		steps = append(steps, st)
	}
	return vt.Event{"steps": steps}
}
