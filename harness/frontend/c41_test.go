package frontend

import (
	"fmt"
	"net/http"
	"net/url"
	"testing"
	"time"

	"github.com/thanos-io/thanos/pkg/queryfrontend"

	"verif/harness/vt"
)

// C41: splitting a query by interval evaluates every step exactly once.
//
// Cases: every (kind, start, end, step, interval) of the model (FrontendSplitMC, abstract ticks x
// 1000 ms; "meta" becomes a labels, a label-values and a series request in turn) plus seeded random
// realistic requests (unaligned ms starts, steps 1 s .. 2 d, intervals 77 s .. 24 h, static or
// dynamic split configuration).
//
// Observations per case, both from the real code:
//
//	direct: the sub-requests splitQuery returns (through the export shim),
//	e2e:    the sub-requests a recording downstream receives when the request is sent through the
//	        real tripperware chain (codec decode -> limits -> split by interval -> codec encode).
type c41Chain struct {
	rt   http.RoundTripper
	down *Downstream
}

func TestC41(t *testing.T) {
	rnd := vt.Rand()
	const unit = 1000
	chains := map[string]*c41Chain{}
	chain := func(c vt.Case) *c41Chain {
		iv := vt.Int64(c["iv"])
		key := fmt.Sprint(iv)
		var dyn map[string]any
		if c["dyn"] != nil {
			dyn = vt.Map(c["dyn"])
			key = fmt.Sprint("dyn", dyn["min"], dyn["max"], dyn["shards"])
		}
		if ch, ok := chains[key]; ok {
			return ch
		}
		d := &Downstream{}
		o := queryfrontend.VerifTripperwareOptions{
			SplitInterval:       time.Duration(iv) * time.Millisecond,
			LabelsSplitInterval: time.Duration(iv) * time.Millisecond,
			MaxQueryParallelism: 4,
		}
		if dyn != nil {
			o.SplitInterval = 0
			o.MinSplitInterval = time.Duration(vt.Int64(dyn["min"])) * time.Millisecond
			o.MaxSplitInterval = time.Duration(vt.Int64(dyn["max"])) * time.Millisecond
			o.HorizontalShards = vt.Int64(dyn["shards"])
		}
		rt, err := queryfrontend.VerifNewTripperware(o, d)
		if err != nil {
			t.Fatalf("tripperware: %v", err)
		}
		ch := &c41Chain{rt: rt, down: d}
		chains[key] = ch
		return ch
	}

	gen := func(yield func(vt.Case)) {
		nmeta := 0
		e2eEvery := vt.Pick(1, 3) // thorough: the chain is driven for every 3rd model case
		n := 0
		for _, c := range vt.TLCCases(t) {
			n++
			kind := vt.Str(c["kind"])
			if kind == "meta" {
				kind = []string{"labels", "series", "label_values"}[nmeta%3]
				nmeta++
			}
			out := vt.Case{"kind": kind, "src": "tlc",
				"s": vt.Int64(c["s"]) * unit, "e": vt.Int64(c["e"]) * unit,
				"step": vt.Int64(c["step"]) * unit, "iv": vt.Int64(c["iv"]) * unit,
				"e2e": n%e2eEvery == 0}
			if d := vt.Map(c["dyn"]); d != nil && vt.Int64(d["shards"]) > 0 {
				// dynamic split interval (min / max / horizontal shards): the interval is computed by the
				// frontend from the query length; only the chain can be observed
				out["dyn"] = map[string]any{"min": vt.Int64(d["min"]) * unit, "max": vt.Int64(d["max"]) * unit, "shards": vt.Int64(d["shards"])}
				out["e2e"] = true
			}
			yield(out)
		}
		steps := []int64{1000, 15000, 30000, 60000, 300000, 3600000, 13 * 3600000, 2 * 86400000, 7000, 1}
		ivs := []int64{3600000, 6 * 3600000, 12 * 3600000, 86400000, 90 * 60000, 77000, 600000}
		nr := vt.Pick(300, 3000)
		for i := 0; i < nr; i++ {
			kind := []string{"range", "range", "range", "labels", "series", "label_values"}[rnd.Intn(6)]
			iv := ivs[rnd.Intn(len(ivs))]
			// keep every value below 2^31 ms (TLC integers are 32 bit): start < 10 d, length <= 7 d
			s := rnd.Int63n(10 * 86400000)
			if rnd.Intn(3) == 0 {
				s = s / iv * iv // interval-aligned start
			}
			var length int64
			switch rnd.Intn(6) {
			case 0:
				length = 0
			case 1:
				length = rnd.Int63n(iv + 1)
			default:
				length = rnd.Int63n(minI64(7*86400000, 150*iv))
			}
			step := int64(1)
			if kind == "range" {
				step = steps[rnd.Intn(len(steps))]
				for length/step > 10000 { // the codec refuses more than 11000 points
					step *= 7
				}
				if rnd.Intn(3) == 0 {
					s = s / step * step
				}
				if rnd.Intn(3) == 0 {
					length = length / step * step
				}
			}
			c := vt.Case{"kind": kind, "src": "rand", "s": s, "e": s + length, "step": step, "iv": iv, "e2e": true}
			if kind == "range" && rnd.Intn(4) == 0 {
				// dynamic split interval: the interval is computed by the frontend from the query length
				c["dyn"] = map[string]any{"min": []int64{3600000, 600000, 7200000}[rnd.Intn(3)],
					"max": []int64{86400000, 6 * 3600000}[rnd.Intn(2)], "shards": 1 + rnd.Int63n(5)}
			}
			yield(c)
		}
	}

	vt.Run(t, gen, nil, func(c vt.Case) vt.Event {
		kind := vt.Str(c["kind"])
		s, e, step, iv := vt.Int64(c["s"]), vt.Int64(c["e"]), vt.Int64(c["step"]), vt.Int64(c["iv"])
		ev := vt.Event{}
		noObs := map[string]any{"ran": false, "err": "", "subs": []any{}}

		// ---- direct: splitQuery ----
		if c["dyn"] == nil {
			ev["direct"] = c41Guard(func() map[string]any {
				k := kind
				if k == "label_values" {
					k = "labels"
				}
				subs, err := queryfrontend.VerifSplitQuery(k, s, e, step, "up", time.Duration(iv)*time.Millisecond)
				if err != nil {
					return map[string]any{"ran": true, "err": err.Error(), "subs": []any{}}
				}
				out := make([]any, 0, len(subs))
				for _, x := range subs {
					out = append(out, map[string]any{"start": x.Start, "end": x.End, "step": x.Step})
				}
				return map[string]any{"ran": true, "err": "", "subs": out}
			})
		} else {
			ev["direct"] = noObs
		}

		// ---- e2e: through the tripperware ----
		if !vt.Bool(c["e2e"]) {
			ev["e2e"] = noObs
			return ev
		}
		ch := chain(c)
		ev["e2e"] = c41Guard(func() map[string]any {
			ch.down.Take()
			var path string
			var params url.Values
			switch kind {
			case "range":
				path, params = "/api/v1/query_range", RangeParams("up", s, e, step)
			case "labels":
				path, params = "/api/v1/labels", url.Values{"start": {FmtSecMs(s)}, "end": {FmtSecMs(e)}}
			case "label_values":
				path, params = "/api/v1/label/job/values", url.Values{"start": {FmtSecMs(s)}, "end": {FmtSecMs(e)}}
			case "series":
				path, params = "/api/v1/series", url.Values{"start": {FmtSecMs(s)}, "end": {FmtSecMs(e)}, "match[]": {"up"}}
			}
			code, body, err := Do(ch.rt, "tenant-1", path, params, nil)
			got := ch.down.Take()
			if err != nil {
				return map[string]any{"ran": true, "err": err.Error(), "subs": []any{}}
			}
			if code != 200 {
				return map[string]any{"ran": true, "err": fmt.Sprintf("http %d: %.200s", code, body), "subs": []any{}}
			}
			out := make([]any, 0, len(got))
			for _, x := range got {
				st := x.Step
				if kind != "range" {
					st = 1
				}
				out = append(out, map[string]any{"start": x.Start, "end": x.End, "step": st})
			}
			return map[string]any{"ran": true, "err": "", "subs": out}
		})
		return ev
	})
}

func c41Guard(f func() map[string]any) (out map[string]any) {
	defer func() {
		if r := recover(); r != nil {
			out = map[string]any{"ran": true, "err": fmt.Sprint("panic: ", r), "subs": []any{}}
		}
	}()
	return f()
}

func minI64(a, b int64) int64 {
	if a < b {
		return a
	}
	return b
}
