package frontend

import (
	"fmt"
	"math/rand"
	"os"
	"sort"
	"sync"
	"strconv"
	"strings"
	"testing"
	"time"

	"github.com/thanos-io/thanos/pkg/queryfrontend"

	"verif/harness/vt"
)

// C42: the results cache never changes query results.
//
// One case = one history: a world (series with presence windows; the value of a sample is a pure
// function of series and time, i.e. "data that does not change"), a frontend configuration (split
// interval, step align on/off, parallelism) and a sequence of range queries, optionally with cache
// entries lost in between. Every query goes through the REAL chain (codec -> limits -> step align
// -> split by interval -> results cache -> codec) built by the export shim around an in-memory
// cache, against a downstream that evaluates the world. Recorded per query: the answer (series,
// timestamps, values), the cache extents afterwards and the number of downstream requests.
//
// Cases: every history TLC serialised (FrontendCacheMC: all pairs of aligned queries on its grid
// per interval and world; ticks scaled to 15 s so that steps 1/2/4 are the "common" steps
// 15 s/30 s/1 m, or to 5 m when the min-extent filter is modelled) + seeded random histories of 1..8
// queries on the same abstract grids + seeded random dashboard-like histories with realistic
// steps and intervals.

const c42Query = `m`

// c42Val is the value of series k at time t (ms): integer, pure.
func c42Val(k int, t, vunit int64) int64 { return int64(k)*1000000 + t/vunit }

type c42Win struct{ lo, hi int64 }

func c42World(v any) [][]c42Win {
	var w [][]c42Win
	for _, s := range vt.List(v) {
		var wins []c42Win
		for _, x := range vt.List(s) {
			m := vt.Map(x)
			wins = append(wins, c42Win{vt.Int64(m["lo"]), vt.Int64(m["hi"])})
		}
		w = append(w, wins)
	}
	return w
}

// c42Eval evaluates a range query on the world (what the querier answers).
func c42Eval(w [][]c42Win, vunit, s, e, st int64) []Series {
	var out []Series
	for i, wins := range w {
		k := i + 1
		ser := Series{Labels: fmt.Sprintf("__name__=m,s=%02d", k)}
		for t := s; t <= e; t += st {
			for _, x := range wins {
				if x.lo <= t && t <= x.hi {
					ser.TS = append(ser.TS, t)
					ser.Vals = append(ser.Vals, c42Val(k, t, vunit))
					break
				}
			}
		}
		if len(ser.TS) > 0 {
			out = append(out, ser)
		}
	}
	return out
}

func c42SeriesID(labels string) int {
	for _, kv := range strings.Split(labels, ",") {
		if strings.HasPrefix(kv, "s=") {
			n, _ := strconv.Atoi(strings.TrimPrefix(kv, "s="))
			return n
		}
	}
	return -1
}

// key fields of "fe:<tenant>:<query>:<step>:<split>:<interval index>:..." (tenant and query of this
// harness contain no ':').
func c42KeyFields(key string) (step, idx int64, ok bool) {
	f := strings.Split(key, ":")
	if len(f) < 6 || f[0] != "fe" {
		return 0, 0, false
	}
	step, e1 := strconv.ParseInt(f[3], 10, 64)
	idx, e2 := strconv.ParseInt(f[5], 10, 64)
	return step, idx, e1 == nil && e2 == nil
}

func c42Aligned(c vt.Case) bool {
	for _, q := range vt.List(c["hist"]) {
		m := vt.Map(q)
		st := vt.Int64(m["st"])
		if vt.Int64(m["s"])%st != 0 || vt.Int64(m["e"])%st != 0 {
			return false
		}
	}
	return true
}

// Known finding (KNOWN_FINDINGS.jsonl, key decided from the input alone): with the step-align
// middleware off, a query whose start or end is not a multiple of its step shares cache entries
// with differently phased queries.
func c42KF(c vt.Case) string {
	if vt.Bool(c["meta"]) {
		return ""
	}
	if !vt.Bool(c["align"]) && !c42Aligned(c) {
		return "noalign-unaligned"
	}
	return ""
}

func TestC42(t *testing.T) {
	rnd := vt.Rand()
	gen := func(yield0 func(vt.Case)) {
		yield := func(c vt.Case) {
			if _, ok := c["meta"]; !ok {
				c["meta"] = false
			}
			if c["meta"] == false { // every range history carries the (phase 2) fault fields
				if _, ok := c["retries"]; !ok {
					c["retries"] = 0
				}
				for _, q := range c["hist"].([]any) {
					if m := q.(map[string]any); m["fault"] == nil {
						m["fault"] = map[string]any{"n": -1, "k": 0, "code": 0}
					}
				}
			}
			yield0(c)
		}
		scale := func(tick int64, world any, T int64) (any, int64) {
			var w []any
			for _, s := range vt.List(world) {
				var wins []any
				for _, x := range vt.List(s) {
					m := vt.Map(x)
					hi := vt.Int64(m["hi"])
					if hi >= T {
						hi = 1 << 30 // "until the end of the grid" = for ever
					} else {
						hi *= tick
					}
					wins = append(wins, map[string]any{"lo": vt.Int64(m["lo"]) * tick, "hi": hi})
				}
				w = append(w, wins)
			}
			return w, tick
		}
		// ---- (a) the histories of the model ----
		tlc := vt.TLCCases(t)
		if p := os.Getenv("VERIF_CASES_FRONTENDCACHEMINEXT"); p != "" {
			more, err := vt.ReadNDJSON(p)
			if err != nil {
				t.Fatalf("reading %s: %v", p, err)
			}
			tlc = append(tlc, more...)
		}
		for _, c := range tlc {
			tick := int64(15000)
			if vt.Int64(c["minext"]) == 1 {
				tick = 300000
			}
			w, vunit := scale(tick, c["world"], vt.Int64(c["T"]))
			var hist []any
			for _, q := range vt.List(c["hist"]) {
				m := vt.Map(q)
				hist = append(hist, map[string]any{"s": vt.Int64(m["s"]) * tick, "e": vt.Int64(m["e"]) * tick, "st": vt.Int64(m["st"]) * tick, "lose": -1})
			}
			yield(vt.Case{"src": "tlc", "iv": vt.Int64(c["iv"]) * tick, "align": true, "par": 1, "world": w, "vunit": vunit, "hist": hist})
		}
		randWorld := func(r *rand.Rand, span, tick int64) []any {
			n := 1 + r.Intn(3)
			var w []any
			for i := 0; i < n; i++ {
				var wins []any
				switch r.Intn(5) {
				case 0, 1:
					wins = append(wins, map[string]any{"lo": int64(0), "hi": int64(1 << 30)})
				case 2: // appears
					wins = append(wins, map[string]any{"lo": r.Int63n(span/tick+1) * tick, "hi": int64(1 << 30)})
				case 3: // disappears
					wins = append(wins, map[string]any{"lo": int64(0), "hi": r.Int63n(span/tick+1) * tick})
				default: // gap
					a := r.Int63n(span/tick+1) * tick
					b := a + (1+r.Int63n(4))*tick
					wins = append(wins, map[string]any{"lo": int64(0), "hi": a}, map[string]any{"lo": b, "hi": int64(1 << 30)})
				}
				w = append(w, wins)
			}
			return w
		}
		// ---- (b) random histories on the abstract grids ----
		nb := vt.Pick(400, 6000)
		for i := 0; i < nb; i++ {
			tick := int64(15000)
			steps := []int64{1, 2, 4}
			if rnd.Intn(4) == 0 {
				tick = 300000 // 5 m / 10 m are common steps, 20 m is not; extents shorter than 5 m are ignored
			}
			T := int64(8 + rnd.Intn(9))
			iv := []int64{4, 6, 8, 3}[rnd.Intn(4)] * tick
			align := rnd.Intn(8) != 0
			var hist []any
			for n := 1 + rnd.Intn(8); n > 0; n-- {
				st := steps[rnd.Intn(3)]
				s := rnd.Int63n(T + 1)
				e := s + rnd.Int63n(T+1-s)
				if align || rnd.Intn(3) > 0 {
					s, e = s/st*st, e/st*st
				}
				lose := -1
				if rnd.Intn(5) == 0 {
					lose = rnd.Intn(4)
				}
				hist = append(hist, map[string]any{"s": s * tick, "e": e * tick, "st": st * tick, "lose": lose})
			}
			yield(vt.Case{"src": "rand-grid", "iv": iv, "align": align, "par": []int{1, 1, 4}[rnd.Intn(3)],
				"world": randWorld(rnd, T*tick, tick), "vunit": tick, "hist": hist})
		}
		// ---- (c) dashboard-like histories with realistic steps ----
		nc := vt.Pick(150, 2500)
		stepList := []int64{15000, 30000, 60000, 300000, 900000, 3600000}
		for i := 0; i < nc; i++ {
			iv := []int64{3600000, 2 * 3600000, 6 * 3600000, 24 * 3600000}[rnd.Intn(4)]
			align := rnd.Intn(8) != 0
			base := rnd.Int63n(5*86400) * 1000 // below 2^31 ms together with the ranges
			st := stepList[rnd.Intn(len(stepList))]
			pts := int64(10 + rnd.Intn(70))
			s, e := base/st*st, base/st*st+pts*st
			span := int64(0)
			var hist []any
			for n := 1 + rnd.Intn(8); n > 0; n-- {
				switch rnd.Intn(6) {
				case 0: // refresh: window slides forward
					d := (1 + rnd.Int63n(10)) * st
					s, e = s+d, e+d
				case 1: // zoom out: coarser step, wider range (alternative keys)
					if j := rnd.Intn(len(stepList)); stepList[j] > st && stepList[j]%st == 0 {
						st = stepList[j]
						s, e = s/st*st-(rnd.Int63n(20))*st, e/st*st
					}
				case 2: // zoom in: finer step, narrower range
					if j := rnd.Intn(len(stepList)); stepList[j] < st {
						st = stepList[j]
						e = s + (e-s)/2/st*st
					}
				case 3: // extend to the right
					e += (1 + rnd.Int63n(30)) * st
				case 4: // look further back
					s -= (1 + rnd.Int63n(30)) * st
				default: // same again
				}
				if s < 0 {
					s = 0
				}
				for (e-s)/st > 90 || (e-s)/iv > 20 { // keep answers and the number of sub-requests small (TLC recursion depth)
					e -= (e - s) / 2 / st * st
				}
				if e < s {
					e = s
				}
				qs, qe := s, e
				if !align && rnd.Intn(2) == 0 {
					qs, qe = s+rnd.Int63n(st), e+rnd.Int63n(st)
				} else if rnd.Intn(6) == 0 {
					qs, qe = s+rnd.Int63n(st), e+rnd.Int63n(st) // unaligned client, aligned by the frontend
				}
				if qe < qs { // only valid requests
					qe = qs
				}
				lose := -1
				if rnd.Intn(6) == 0 {
					lose = rnd.Intn(4)
				}
				hist = append(hist, map[string]any{"s": qs, "e": qe, "st": st, "lose": lose})
				if qe > span {
					span = qe
				}
			}
			yield(vt.Case{"src": "rand-dash", "iv": iv, "align": align, "par": []int{1, 4}[rnd.Intn(2)],
				"world": randWorld(rnd, span+1, 60000), "vunit": int64(1000), "hist": hist})
		}
		// ---- (e) phase 2: querier faults under the retry middleware: the n-th distinct downstream request of
		// a query fails its first k attempts with an HTTP status; sub-requests run one after another ----
		nf := vt.Pick(8, 150)
		for i := 0; i < nf; i++ {
			tick := int64(15000)
			T := int64(10 + rnd.Intn(8))
			iv := []int64{4, 6}[rnd.Intn(2)] * tick
			var hist []any
			faults := 0
			for n := 2 + rnd.Intn(4); n > 0; n-- {
				st := []int64{1, 2, 4}[rnd.Intn(3)]
				s := rnd.Int63n(T+1) / st * st
				e := (s + rnd.Int63n(T+1-s)) / st * st
				q := map[string]any{"s": s * tick, "e": e * tick, "st": st * tick, "lose": -1}
				if faults < vt.Pick(1, 2) && rnd.Intn(2) == 0 {
					faults++
					q["fault"] = map[string]any{"n": []int{0, 0, 1, 2}[rnd.Intn(4)], "k": 1 + rnd.Intn(2), "code": []int{500, 503, 500, 400, 422}[rnd.Intn(5)]}
				}
				hist = append(hist, q)
			}
			retries := []int{0, 2, 3, 3, 1}[rnd.Intn(5)]
			if fixed := [][4]int{{3, 0, 1, 400}, {3, 0, 1, 500}, {2, 0, 2, 503}, {3, 1, 2, 422}}; i < len(fixed) {
				// every run covers: 4xx with retries left, 5xx absorbed, 5xx not absorbed, 4xx on a later sub-request
				retries = fixed[i][0]
				for _, q := range hist {
					delete(q.(map[string]any), "fault")
				}
				hist[0].(map[string]any)["fault"] = map[string]any{"n": fixed[i][1], "k": fixed[i][2], "code": fixed[i][3]}
			}
			yield(vt.Case{"src": "rand-fault", "iv": iv, "align": true, "par": 1, "retries": retries,
				"world": randWorld(rnd, T*tick, tick), "vunit": tick, "hist": hist})
		}
		// ---- (d) phase 2: metadata requests and instant queries (c42meta_test.go) ----
		c42MetaGen(t, rnd, yield, scale, randWorld)
	}

	vt.Run(t, gen, c42KF, func(c vt.Case) vt.Event {
		if vt.Bool(c["meta"]) {
			return c42MetaRun(t, c)
		}
		w := c42World(c["world"])
		vunit := vt.Int64(c["vunit"])
		down := &Downstream{Answer: func(r SubReq) []byte {
			if r.Step <= 0 || r.Query != c42Query {
				return nil
			}
			return MatrixJSON(c42Eval(w, vunit, r.Start, r.End, r.Step))
		}}
		// fault injection: the n-th distinct request of the current query fails its first k attempts
		var fmu sync.Mutex
		var fN, fK, fCode, fTrig, fAtt int
		var fOrder []string
		down.Fail = func(r SubReq) int {
			fmu.Lock()
			defer fmu.Unlock()
			key := fmt.Sprint(r.Start, r.End, r.Step)
			idx := -1
			for i, k := range fOrder {
				if k == key {
					idx = i
				}
			}
			if idx < 0 {
				fOrder = append(fOrder, key)
				idx = len(fOrder) - 1
			}
			if idx != fN {
				return 0
			}
			fAtt++
			if fAtt <= fK {
				fTrig++
				return fCode
			}
			return 0
		}
		cache := queryfrontend.NewVerifCache()
		rt, err := queryfrontend.VerifNewTripperware(queryfrontend.VerifTripperwareOptions{
			SplitInterval:       time.Duration(vt.Int64(c["iv"])) * time.Millisecond,
			AlignRangeWithStep:  vt.Bool(c["align"]),
			Cache:               cache,
			MaxQueryParallelism: vt.Int(c["par"]),
			MaxRetries:          vt.Int(c["retries"]),
		}, down)
		if err != nil {
			t.Fatalf("tripperware: %v", err)
		}
		var steps []any
		for _, qv := range vt.List(c["hist"]) {
			q := vt.Map(qv)
			st := map[string]any{"lost": []any{}}
			if li := vt.Int(q["lose"]); li >= 0 {
				if es := cache.Entries(); len(es) > 0 {
					e := es[li%len(es)]
					if cache.Drop(e.Key) {
						if kst, idx, ok := c42KeyFields(e.Key); ok {
							st["lost"] = []any{[]int64{kst, idx}}
						}
					}
				}
			}
			down.Take()
			fmu.Lock()
			fN, fK, fCode, fTrig, fAtt, fOrder = -1, 0, 0, 0, 0, nil
			if f := vt.Map(q["fault"]); f != nil {
				fN, fK, fCode = vt.Int(f["n"]), vt.Int(f["k"]), vt.Int(f["code"])
			}
			fmu.Unlock()
			got := map[string]any{"err": "", "series": []any{}}
			func() {
				defer func() {
					if r := recover(); r != nil {
						got["err"] = fmt.Sprint("panic: ", r)
					}
				}()
				code, body, err := Do(rt, "tenant-1", "/api/v1/query_range",
					RangeParams(c42Query, vt.Int64(q["s"]), vt.Int64(q["e"]), vt.Int64(q["st"])), nil)
				switch {
				case err != nil:
					got["err"] = err.Error()
				case code != 200:
					got["err"] = fmt.Sprintf("http %d: %.200s", code, body)
				default:
					ser, err := ParseMatrix(body)
					if err != nil {
						got["err"] = "undecodable answer: " + err.Error()
						return
					}
					var out []any
					for _, s := range ser {
						out = append(out, map[string]any{"k": c42SeriesID(s.Labels), "ts": nonNil(s.TS), "vs": nonNil(s.Vals)})
					}
					if out != nil {
						got["series"] = out
					}
				}
			}()
			st["got"] = got
			st["nsub"] = len(down.Take())
			fmu.Lock()
			st["ftrig"], st["fatt"] = fTrig, fAtt // failures injected, attempts the faulted request saw
			fmu.Unlock()
			var ext [][]int64
			for _, e := range cache.Entries() {
				kst, _, ok := c42KeyFields(e.Key)
				if !ok {
					kst = -1
				}
				for _, x := range e.Extents {
					ext = append(ext, []int64{kst, x.Start, x.End})
				}
			}
			sort.Slice(ext, func(i, j int) bool {
				for k := 0; k < 3; k++ {
					if ext[i][k] != ext[j][k] {
						return ext[i][k] < ext[j][k]
					}
				}
				return false
			})
			if ext == nil {
				ext = [][]int64{}
			}
			st["ext"] = ext
			steps = append(steps, st)
		}
		return vt.Event{"steps": steps}
	})
}

func nonNil(x []int64) []int64 {
	if x == nil {
		return []int64{}
	}
	return x
}
