package idxhdr

import (
	"context"
	"fmt"
	"io"
	"math/rand"
	"os"
	"path/filepath"
	"runtime"
	"runtime/debug"
	"strconv"
	"sync"
	"sync/atomic"
	"testing"
	"time"

	"github.com/go-kit/log"
	"github.com/pkg/errors"
	"github.com/prometheus/prometheus/tsdb/index"
	"github.com/thanos-io/objstore"
	"golang.org/x/sys/unix"

	"github.com/thanos-io/thanos/pkg/block/indexheader"
	"github.com/thanos-io/thanos/pkg/verifhook"

	"verif/harness/vt"
)

// ---------------------------------------------------------------------------------------------
// C16: lazy index headers stay correct under concurrent idle unloading.
//
// One scenario = a LazyBinaryReader obtained from a ReaderPool with a tiny idle timeout (the pool
// goroutine sweeps every timeout/10), N reader goroutines calling Reader methods with seeded pauses,
// and optionally a goroutine calling Close (unconditional unload) at seeded moments.  Hooks inside
// LazyBinaryReader (Load / Unload under the write lock, Use / UseEnd under the read lock) give the
// linearised order of loads, unloads and uses; every call's outcome is logged next to the answer of
// an always-loaded BinaryReader.  Scenario shapes come from TLC (LazyHeaderMC.CaseSet) and from
// seeded random generation; schedules are sampled (goroutine scheduler + seeded pauses).
// ---------------------------------------------------------------------------------------------

const c16Stall = 30 * time.Second

// slowLogger widens every window in which the code under test logs (a logger may block: a full
// stderr pipe, a slow sink): each Log call yields or sleeps for a seeded few hundred microseconds.
type slowLogger struct {
	mu    sync.Mutex
	rnd   *rand.Rand
	minUS int // > 0: every call sleeps at least this long (storm scenarios: lock holders outlast
	// sync.Mutex's 1 ms starvation threshold, so that lock hand-offs to waiting writers happen)
}

func (l *slowLogger) Log(...interface{}) error {
	l.mu.Lock()
	d := time.Duration(l.minUS+l.rnd.Intn(400+l.minUS)) * time.Microsecond
	y := l.minUS == 0 && l.rnd.Intn(3) == 0
	l.mu.Unlock()
	if y {
		runtime.Gosched()
	} else {
		time.Sleep(d)
	}
	return nil
}

// failingBucket fails the first n reads (Get / GetRange / Attributes): a bucket outage while the
// index-header is being downloaded lazily.
type failingBucket struct {
	objstore.Bucket
	left atomic.Int64
}

func (b *failingBucket) fail() bool { return b.left.Add(-1) >= 0 }

func (b *failingBucket) Get(ctx context.Context, name string) (io.ReadCloser, error) {
	if b.fail() {
		return nil, errors.New("injected bucket outage")
	}
	return b.Bucket.Get(ctx, name)
}

func (b *failingBucket) GetRange(ctx context.Context, name string, off, length int64) (io.ReadCloser, error) {
	if b.fail() {
		return nil, errors.New("injected bucket outage")
	}
	return b.Bucket.GetRange(ctx, name, off, length)
}

func (b *failingBucket) Attributes(ctx context.Context, name string) (objstore.ObjectAttributes, error) {
	if b.fail() {
		return objstore.ObjectAttributes{}, errors.New("injected bucket outage")
	}
	return b.Bucket.Attributes(ctx, name)
}

// the last two hand out strings that alias the mmapped index-header ("aliasing" scenarios only)
var c16Calls = []string{"PostingsOffsets", "PostingsOffset", "LabelNames", "IndexVersion", "LabelValues", "LookupSymbol"}

func rngStrs(rs []index.Range) []string {
	out := make([]string, len(rs))
	for i, r := range rs {
		out[i] = fmt.Sprintf("%d-%d", r.Start, r.End)
	}
	return out
}

// c16Call performs one call (deterministic arguments) on r and returns kind and answer.
// kind: ok | error | panic (the call itself panicked or faulted) | dangling (the call returned
// strings that could no longer be read right after it returned: LabelValues and LookupSymbol hand
// out strings that alias the mmapped index-header).
func c16Call(r indexheader.Reader, call string, arg int) (kind string, got []string) {
	var (
		err  error
		strs []string // strings handed out by the call, possibly aliasing the mmap
	)
	got = []string{}
	func() {
		defer func() {
			if p := recover(); p != nil {
				kind, got = "panic", []string{fmt.Sprint(p)}
			}
		}()
		switch call {
		case "PostingsOffsets":
			W := []string{absVal(arg % 5), absVal(arg%5 + 3), absVal(arg%5 + 3), absVal(arg%5 + 8), absVal(14)}
			var rs []index.Range
			if rs, err = r.PostingsOffsets("v", W...); err == nil {
				got = rngStrs(rs)
			}
		case "PostingsOffset":
			var rg index.Range
			rg, err = r.PostingsOffset("v", absVal(2+2*(arg%7)))
			if err == nil {
				got = rngStrs([]index.Range{rg})
			}
		case "LabelValues":
			strs, err = r.LabelValues([]string{"v", "a", "z", "nosuch"}[arg%4])
		case "LabelNames":
			var vs []string
			if vs, err = r.LabelNames(); err == nil {
				got = append(got, vs...)
			}
		case "LookupSymbol":
			var s string
			if s, err = r.LookupSymbol(context.Background(), uint32(arg%6)); err == nil {
				strs = []string{s}
			}
		case "IndexVersion":
			var v int
			if v, err = r.IndexVersion(); err == nil {
				got = []string{fmt.Sprint(v)}
			}
		}
	}()
	if kind == "panic" {
		return kind, got
	}
	if err != nil {
		return "error", []string{err.Error()}
	}
	// the call has returned: read what it handed out, as any caller would
	func() {
		defer func() {
			if p := recover(); p != nil {
				kind, got = "dangling", []string{fmt.Sprint(p)}
			}
		}()
		for _, v := range strs {
			got = append(got, string(append([]byte(nil), v...)))
		}
	}()
	if kind == "dangling" {
		return kind, got
	}
	return "ok", got
}

// c16KF: the known-finding class, decided from the scenario alone: calls that hand out strings
// aliasing the mmapped header (LabelValues, LookupSymbol) while unloads can happen (idle sweeps or Close).
func c16KF(c vt.Case) string {
	if vt.Bool(c["aliasing"]) && (vt.Int(c["closes"]) > 0 || vt.Int(c["idle_us"]) < 1000000) {
		return "aliased-answer-after-unload"
	}
	return ""
}

var pinCount int

// pinAllThreads pins every thread of the process to one cpu and returns the function that undoes it.
func pinAllThreads() func() {
	var old unix.CPUSet
	if err := unix.SchedGetaffinity(0, &old); err != nil || old.Count() < 2 {
		return func() {}
	}
	// not always the first cpu: other pinned test processes on the machine would all share it
	var one unix.CPUSet
	pinCount++
	want, seen := (os.Getpid()+pinCount*5)%old.Count(), 0
	for i := 0; i < 1024; i++ {
		if old.IsSet(i) {
			if seen == want {
				one.Set(i)
				break
			}
			seen++
		}
	}
	set := func(cs *unix.CPUSet) {
		ents, _ := os.ReadDir("/proc/self/task")
		for _, e := range ents {
			if tid, err := strconv.Atoi(e.Name()); err == nil {
				unix.SchedSetaffinity(tid, cs)
			}
		}
		unix.SchedSetaffinity(0, cs)
	}
	set(&one)
	return func() { set(&old) }
}

func TestC16(t *testing.T) {
	tr := vt.Open(t)
	defer tr.Close()
	root := os.Getenv("VERIF_SCRATCH")
	if root == "" {
		root = t.TempDir()
	}
	root = filepath.Join(root, fmt.Sprintf("c16-%d", os.Getpid()))
	defer os.RemoveAll(root)
	ws := &worlds{t: t, root: root, byKey: map[string]*world{}, readers: map[string]indexheader.Reader{}}
	defer ws.close()
	desc := map[string]any{"kind": "abs", "n": 7, "pos": "mid", "wseed": 0}
	w := ws.get(desc)
	const sampling = 3
	eager, err := ws.reader(desc, w, sampling, false)
	if err != nil {
		t.Fatal(err)
	}

	var cur atomic.Pointer[indexheader.LazyBinaryReader]
	var curCase atomic.Int64
	var gmu sync.Mutex
	gens := map[*indexheader.BinaryReader]int{}
	ngen := 0
	var stormSel atomic.Bool // storm scenario: log a selection of the Use / UseEnd pairs only
	lastGen, nuse, nsusp := 0, 0, 0
	closedGens, logged := map[int]bool{}, map[int]int{}
	verifhook.SetSink(func(name string, kv ...any) {
		if len(kv) < 4 {
			return
		}
		lr, _ := kv[1].(*indexheader.LazyBinaryReader)
		if lr == nil || lr != cur.Load() {
			return
		}
		br, _ := kv[3].(*indexheader.BinaryReader)
		var ev string
		switch name {
		case "indexheader.LazyBinaryReader.Load":
			ev = "Load"
		case "indexheader.LazyBinaryReader.Unload":
			ev = "Unload"
		case "indexheader.LazyBinaryReader.Use":
			ev = "Use"
		case "indexheader.LazyBinaryReader.UseEnd":
			ev = "UseEnd"
		default:
			return
		}
		// the caller holds readerMx (write lock for Load/Unload, read lock for Use/UseEnd); gmu makes
		// gen assignment + emission one step so that concurrent Use/UseEnd lines stay consistent
		gmu.Lock()
		g := 0
		if br != nil {
			if ev == "Load" {
				ngen++
				gens[br] = ngen
			}
			g = gens[br]
		}
		// Storm scenarios make far too many calls to log every one: all Load / Unload steps are logged,
		// and of the Use / UseEnd pairs those that a cheap local test finds suspicious (no header, not the
		// header loaded last, a closed one) plus a 1-in-64 sample (at most 20 suspicious ones per scenario).  The test only selects; TLC judges
		// every logged step.  UseEnd events are matched to logged Use events per gen (a bag).
		emit := true
		if stormSel.Load() {
			switch ev {
			case "Load":
				lastGen = g
			case "Unload":
				closedGens[g] = true
			case "Use":
				nuse++
				susp := g == 0 || g != lastGen || closedGens[g]
				if susp {
					nsusp++
				}
				emit = (susp && nsusp <= 20) || nuse%64 == 0
				if emit {
					logged[g]++
				}
			case "UseEnd":
				emit = logged[g] > 0
				if emit {
					logged[g]--
				}
			}
		}
		if emit {
			tr.Emit(vt.Event{"ev": ev, "case": curCase.Load(), "gen": g})
		}
		gmu.Unlock()
	})
	defer verifhook.SetSink(nil)

	caseID := int64(0)
	run := func(c vt.Case) {
		caseID++
		curCase.Store(caseID)
		c = vt.Normalize(c)
		readers, calls := vt.Int(c["readers"]), vt.Int(c["calls"])
		idle := time.Duration(vt.Int(c["idle_us"])) * time.Microsecond
		closes := vt.Int(c["closes"])
		ncalls := 4 // calls answering by value only
		if vt.Bool(c["aliasing"]) {
			ncalls = len(c16Calls)
		}
		rnd := rand.New(rand.NewSource(vt.Int64(c["sseed"])))
		gmu.Lock()
		gens = map[*indexheader.BinaryReader]int{}
		ngen = 0
		lastGen, nuse, nsusp = 0, 0, 0
		closedGens, logged = map[int]bool{}, map[int]int{}
		stormSel.Store(vt.Int(c["storm"]) > 0)
		gmu.Unlock()
		ctx := context.Background()
		// lazydl: the pool is configured to download the index-header file lazily: nothing is written
		// when the reader is created, the first call that loads it builds the file from the bucket
		// (into a fresh directory), racing with sweeps and Close; dlfail > 0: the first dlfail bucket
		// reads fail (the load error is sticky: every later call must return a clean error).
		dlFunc, hdrDir := indexheader.AlwaysEagerDownloadIndexHeader, w.hdr
		var bkt objstore.Bucket = w.bkt
		if vt.Bool(c["lazydl"]) {
			dlFunc, hdrDir = indexheader.AlwaysLazyDownloadIndexHeader, filepath.Join(root, fmt.Sprintf("hdr-%d", caseID))
			fb := &failingBucket{Bucket: w.bkt}
			fb.left.Store(int64(vt.Int(c["dlfail"])))
			bkt = fb
		}
		pool := indexheader.NewReaderPool(log.NewNopLogger(), true, idle, indexheader.NewReaderPoolMetrics(nil), dlFunc)
		var lg log.Logger = log.NewNopLogger()
		if vt.Bool(c["slowlog"]) {
			lg = &slowLogger{rnd: rand.New(rand.NewSource(vt.Int64(c["sseed"]) + 7))}
			if vt.Int(c["storm"]) > 0 {
				lg.(*slowLogger).minUS = 1200
			}
		}
		rd, err := pool.NewBinaryReader(ctx, lg, bkt, hdrDir, w.id, sampling, nil)
		if err != nil {
			t.Fatalf("pool reader: %v", err)
		}
		lr := rd.(*indexheader.LazyBinaryReader)
		tr.Emit(vt.Event{"ev": "case", "case": caseID, "in": c, "kf": c16KF(c)})
		cur.Store(lr)

		if rounds := vt.Int(c["storm"]); rounds > 0 {
			// Storm: in every round the header is unloaded, then all readers start one lookup at the same
			// moment (one of them loads, the others wait for the write lock and find the reader set) while
			// `closes` goroutines call Close (unconditional unload) in a tight loop.
			stall := false
			var nbad atomic.Int64 // at most 40 failed calls are logged per storm (each one is judged)
			t0 := time.Now()
			for round := 0; round < rounds && !stall && time.Since(t0) < 4*time.Second; round++ {
				lr.Close()
				start := make(chan struct{})
				var stopFlag atomic.Bool
				var rwg, cwg sync.WaitGroup
				for p := 0; p < readers; p++ {
					rwg.Add(1)
					go func(p int) {
						defer rwg.Done()
						debug.SetPanicOnFault(true)
						<-start
						for i := 0; i < calls; i++ {
							call := c16Calls[(p+round+i)%ncalls]
							arg := p*7 + round + i
							kind, got := c16Call(lr, call, arg)
							_, ref := c16Call(eager, call, arg)
							if kind != "ok" {
								if nbad.Add(1) <= 40 {
									tr.Emit(vt.Event{"ev": "Result", "case": caseID, "call": call, "arg": arg, "kind": kind, "got": []string{}, "ref": ref, "msg": got})
								}
							} else if fmt.Sprint(got) != fmt.Sprint(ref) || (p+round+i)%64 == 0 {
								// answers that differ from the reference are always logged, equal ones 1 in 64
								tr.Emit(vt.Event{"ev": "Result", "case": caseID, "call": call, "arg": arg, "kind": kind, "got": got, "ref": ref, "msg": []string{}})
							}
						}
					}(p)
				}
				for k := 0; k < closes; k++ {
					cwg.Add(1)
					go func(k int) {
						defer cwg.Done()
						<-start
						sp := rand.New(rand.NewSource(int64(round*100 + k)))
						for !stopFlag.Load() {
							if false && k%2 == 1 {
								// sporadic closer: arrives at random moments, i.e. also while lookups that waited for
								// a loader pass the write lock one after the other, and barges in between them
								time.Sleep(time.Duration(50+sp.Intn(450)) * time.Microsecond)
							}
							// no yield: re-locking right after the Unlock barges in front of the woken waiter, which
							// (having waited > 1 ms) puts the mutex into starvation mode: from then on every Unlock
							// hands the lock to the next waiter and yields, also inside load()'s Unlock -> RLock gap
							lr.Close()
						}
					}(k)
				}
				close(start)
				done := make(chan struct{})
				go func() { rwg.Wait(); close(done) }()
				select {
				case <-done:
				case <-time.After(c16Stall):
					stall = true
				}
				stopFlag.Store(true)
				if !stall {
					cwg.Wait()
				}
			}
			pool.Close()
			if !stall {
				lr.Close()
			}
			cur.Store(nil)
			tr.Emit(vt.Event{"ev": "End", "case": caseID, "stall": stall})
			return
		}
		var wg sync.WaitGroup
		seeds := make([]int64, readers+1)
		for i := range seeds {
			seeds[i] = rnd.Int63()
		}
		base := idle // pauses are relative to the idle timeout, but never long
		if base > 3*time.Millisecond {
			base = 3 * time.Millisecond
		}
		fast := vt.Bool(c["fast"]) // only yield between calls: many loads racing with Close
		pause := func(r *rand.Rand) {
			if fast {
				runtime.Gosched()
				return
			}
			switch r.Intn(4) {
			case 0:
				runtime.Gosched()
			case 1:
				time.Sleep(time.Duration(r.Int63n(int64(2*base) + 1)))
			case 2:
				time.Sleep(time.Duration(r.Int63n(int64(base)/4 + 1)))
			}
		}
		for p := 0; p < readers; p++ {
			wg.Add(1)
			go func(seed int64) {
				defer wg.Done()
				debug.SetPanicOnFault(true) // reading an unmapped header becomes a recoverable panic
				r := rand.New(rand.NewSource(seed))
				for i := 0; i < calls; i++ {
					call := c16Calls[r.Intn(ncalls)]
					arg := r.Intn(100)
					kind, got := c16Call(lr, call, arg)
					_, ref := c16Call(eager, call, arg)
					if kind != "ok" {
						// error / panic text is for the reader of the trace; the judged part is the kind
						tr.Emit(vt.Event{"ev": "Result", "case": caseID, "call": call, "arg": arg, "kind": kind, "got": []string{}, "ref": ref, "msg": got})
					} else {
						tr.Emit(vt.Event{"ev": "Result", "case": caseID, "call": call, "arg": arg, "kind": kind, "got": got, "ref": ref, "msg": []string{}})
					}
					pause(r)
				}
			}(seeds[p])
		}
		stop := make(chan struct{})
		var cwg sync.WaitGroup
		if closes > 0 {
			cwg.Add(1)
			go func(seed int64) {
				defer cwg.Done()
				r := rand.New(rand.NewSource(seed))
				for i := 0; i < closes; i++ {
					select {
					case <-stop:
						return
					default:
					}
					pause(r)
					lr.Close() // unconditional unload; the reader may be used (reloaded) afterwards
				}
			}(seeds[readers])
		}
		done := make(chan struct{})
		go func() { wg.Wait(); close(done) }()
		stall := false
		select {
		case <-done:
		case <-time.After(c16Stall):
			stall = true
		}
		close(stop)
		if !stall {
			cwg.Wait()
		}
		pool.Close()
		if !stall {
			lr.Close()
		}
		cur.Store(nil)
		if vt.Bool(c["lazydl"]) && !stall {
			os.RemoveAll(hdrDir)
		}
		tr.Emit(vt.Event{"ev": "End", "case": caseID, "stall": stall})
	}

	if rc := vt.Replay(t); rc != nil {
		run(rc)
		return
	}
	rnd := vt.Rand()
	reps := vt.Pick(6, 12)
	for _, tc := range vt.TLCCases(t) {
		for rep := 0; rep < reps; rep++ {
			idle := 1000000 // no sweeps in the TLC shape: the idle timeout never expires
			if vt.Int(tc["sweeps"]) > 0 {
				idle = []int{200, 1000}[rnd.Intn(2)]
			}
			closes := 0
			if vt.Bool(tc["closer"]) {
				closes = 1 + rnd.Intn(3)
			}
			run(vt.Case{"src": "tlc", "readers": vt.Int(tc["readers"]), "calls": vt.Int(tc["calls"]), "idle_us": idle, "closes": closes, "aliasing": rep%3 == 2, "fast": false, "lazydl": rep%2 == 1, "dlfail": 0, "slowlog": rep%2 == 0, "storm": 0, "sseed": rnd.Int63n(1 << 40)})
		}
	}
	n := vt.Pick(60, 300)
	for i := 0; i < n; i++ {
		closes := 0
		if rnd.Intn(2) == 0 {
			closes = 1 + rnd.Intn(30)
		}
		readers, calls := 1+rnd.Intn(vt.Pick(4, 8)), 1+rnd.Intn(vt.Pick(12, 25))
		fast := i%3 == 1
		if fast {
			closes = readers * calls
		}
		run(vt.Case{"src": "rand", "readers": readers, "calls": calls,
			"idle_us": []int{100, 300, 1000, 3000}[rnd.Intn(4)], "closes": closes, "aliasing": i%3 == 2, "fast": fast,
			"lazydl": i%5 >= 3, "dlfail": []int{0, 0, 1, 3}[rnd.Intn(4)], "slowlog": i%2 == 1, "storm": 0, "sseed": rnd.Int63n(1 << 40)})
	}
	// storms: simultaneous lookups on an unloaded header against tight-loop Close.  All threads of the
	// process are pinned to ONE cpu while GOMAXPROCS stays high: a goroutine that wakes a blocked
	// writer (Unlock -> futex wake of another thread) is then regularly preempted by the kernel right
	// there, in favour of the woken thread, i.e. inside the few instructions between the Unlock and the
	// following RLock of load() -- windows that are otherwise only nanoseconds wide.
	prevProcs := runtime.GOMAXPROCS(16)
	defer runtime.GOMAXPROCS(prevProcs)
	for i, ns := 0, vt.Pick(8, 24); i < ns; i++ {
		// measured: many readers and closers + pinning give the most hand-offs inside the gap, and mostly
		// in the first scenario after the threads were pinned: pin afresh for every storm
		restore := pinAllThreads()
		run(vt.Case{"src": "storm", "readers": 10 + rnd.Intn(5), "calls": 100, "idle_us": 1000000, "closes": 12 + rnd.Intn(8),
			"aliasing": false, "fast": true, "lazydl": false, "dlfail": 0, "slowlog": true, "storm": vt.Pick(6, 12), "sseed": rnd.Int63n(1 << 40)})
		restore()
	}
}
