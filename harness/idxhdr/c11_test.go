package idxhdr

import (
	"bytes"
	"context"
	"fmt"
	"math/rand"
	"os"
	"path/filepath"
	"sort"
	"testing"

	"github.com/go-kit/log"
	"github.com/oklog/ulid/v2"
	"github.com/prometheus/client_golang/prometheus"
	"github.com/prometheus/prometheus/model/labels"
	"github.com/prometheus/prometheus/tsdb/index"
	"github.com/thanos-io/objstore"

	"github.com/thanos-io/thanos/pkg/block"
	"github.com/thanos-io/thanos/pkg/block/indexheader"
	"github.com/thanos-io/thanos/pkg/block/metadata"
	"github.com/thanos-io/thanos/pkg/testutil/e2eutil"

	"verif/harness/vt"
)

// ---------------------------------------------------------------------------------------------
// C11: binary index-header answers equal the full index.
//
// Worlds are real TSDB blocks (e2eutil.CreateBlock) whose index is read (a) by prometheus'
// index.Reader -- the reference -- and (b) by indexheader.BinaryReader / LazyBinaryReader built
// with a chosen in-memory sampling rate k.  Lookup cases compare PostingsOffsets(name, W...) and
// the single-value PostingsOffset with the posting-list locations of the full index
// (PostingsRanges); meta cases compare label names, label values and symbols.
//
// Cases: every (n, k, W) TLC enumerated (IndexHeaderMC) on the label "v" with n values "0002",
// "0004", ... and requests drawn from "0001".."(2n+1)"; seeded random worlds (several labels with
// up to 300 random string values) with random sorted requests (present, absent, duplicates) for
// sampling rates {1,2,3,5,8,32,64}.
// ---------------------------------------------------------------------------------------------

type world struct {
	id    ulid.ULID
	bkt   objstore.Bucket
	hdr   string // directory for index-header files
	idx   *index.Reader
	rngs  map[labels.Label]index.Range
	size  int64
	names []string            // label names of the full index
	vals  map[string][]string // sorted values per name
}

type worlds struct {
	t       *testing.T
	root    string
	byKey   map[string]*world
	readers map[string]indexheader.Reader
}

func absVal(x int) string { return fmt.Sprintf("%04d", x) }

// seriesOf builds the series of a world from its (JSON) description.
func seriesOf(w map[string]any) []labels.Labels {
	var out []labels.Labels
	switch vt.Str(w["kind"]) {
	case "abs":
		n := vt.Int(w["n"])
		for j := 1; j <= n; j++ {
			ls := []string{"a", fmt.Sprint(j % 3), "v", absVal(2 * j)}
			if vt.Str(w["pos"]) == "mid" {
				ls = append(ls, "z", "x")
			}
			out = append(out, labels.FromStrings(ls...))
		}
	case "rand":
		r := rand.New(rand.NewSource(vt.Int64(w["wseed"])))
		nlab := 2 + r.Intn(4)
		alphabet := "abcxyz019_"
		type lab struct {
			name string
			vals []string
		}
		var labs []lab
		for i := 0; i < nlab; i++ {
			nv := 1 + r.Intn(12)
			if r.Intn(3) == 0 {
				nv = 1 + r.Intn(300)
			}
			seen := map[string]bool{}
			var vs []string
			for len(vs) < nv {
				l := 1 + r.Intn(5)
				b := make([]byte, l)
				for k := range b {
					b[k] = alphabet[r.Intn(len(alphabet))]
				}
				if !seen[string(b)] {
					seen[string(b)] = true
					vs = append(vs, string(b))
				}
			}
			labs = append(labs, lab{name: fmt.Sprintf("l%d", i), vals: vs})
		}
		nser := 0
		for _, l := range labs {
			if len(l.vals) > nser {
				nser = len(l.vals)
			}
		}
		for s := 0; s < nser; s++ {
			ls := []string{"__name__", "m"}
			for _, l := range labs {
				// every value of every label occurs; some series lack some labels
				if s < len(l.vals) || r.Intn(4) > 0 {
					ls = append(ls, l.name, l.vals[s%len(l.vals)])
				}
			}
			out = append(out, labels.FromStrings(ls...))
		}
	case "wide":
		// many label names, UTF-8 names and values, names/values whose length needs a 2- or 3-byte
		// uvarint in the postings offset table (127/128 and 16383/16384 bytes)
		r := rand.New(rand.NewSource(vt.Int64(w["wseed"])))
		long := func(n int, c byte) string { return string(bytes.Repeat([]byte{c}, n)) }
		names := []string{"ünï", "名前", "λ", "emoji_😀", "a.b/c-d", long(127, 'n'), long(128, 'o'), long(300, 'p')}
		for i, nn := 0, 30+r.Intn(90); i < nn; i++ {
			names = append(names, fmt.Sprintf("l%03d", i))
		}
		special := []string{"ö", "値", "z😀", long(126, 'v'), long(127, 'v'), long(128, 'v'), long(129, 'v'), long(130, 'v'),
			long(16383, 'w'), long(16384, 'w'), long(16385, 'w'), " ", "a b", "\"quoted\"", "new\nline"}
		nser := 20 + r.Intn(40)
		for sI := 0; sI < nser; sI++ {
			ls := []string{"__name__", "m", "sp", special[sI%len(special)]}
			for _, nme := range names {
				if r.Intn(4) == 0 {
					ls = append(ls, nme, fmt.Sprintf("v%d", r.Intn(6)))
				}
			}
			if sI < len(names) {
				ls = append(ls, names[sI], special[(sI*7)%len(special)]) // every name occurs; later duplicates win
			}
			m := map[string]string{}
			for i := 0; i+1 < len(ls); i += 2 {
				m[ls[i]] = ls[i+1]
			}
			out = append(out, labels.FromMap(m))
		}
	default:
		panic("unknown world kind")
	}
	return out
}

func (ws *worlds) get(desc map[string]any) *world {
	key := fmt.Sprint(desc["kind"], "/", desc["n"], "/", desc["pos"], "/", desc["wseed"])
	if w, ok := ws.byKey[key]; ok {
		return w
	}
	t := ws.t
	ctx := context.Background()
	dir := filepath.Join(ws.root, fmt.Sprintf("w%d", len(ws.byKey)))
	if err := os.MkdirAll(dir, 0o755); err != nil {
		t.Fatal(err)
	}
	id, err := e2eutil.CreateBlock(ctx, dir, seriesOf(desc), 1, 0, 1000, labels.FromStrings("ext", "1"), 0, metadata.NoneFunc, nil)
	if err != nil {
		t.Fatalf("create block: %v", err)
	}
	bkt := objstore.NewInMemBucket()
	if err := block.Upload(ctx, log.NewNopLogger(), bkt, filepath.Join(dir, id.String()), metadata.NoneFunc); err != nil {
		t.Fatalf("upload: %v", err)
	}
	ipath := filepath.Join(dir, id.String(), "index")
	fi, err := os.Stat(ipath)
	if err != nil {
		t.Fatal(err)
	}
	idx, err := index.NewFileReader(ipath, index.DecodePostingsRaw)
	if err != nil {
		t.Fatalf("index reader: %v", err)
	}
	rngs, err := idx.PostingsRanges()
	if err != nil {
		t.Fatal(err)
	}
	names, err := idx.LabelNames(ctx)
	if err != nil {
		t.Fatal(err)
	}
	w := &world{id: id, bkt: bkt, hdr: filepath.Join(dir, "hdr"), idx: idx, rngs: rngs, size: fi.Size(), names: names, vals: map[string][]string{}}
	for _, nme := range names {
		vs, err := idx.SortedLabelValues(ctx, nme, nil)
		if err != nil {
			t.Fatal(err)
		}
		w.vals[nme] = vs
	}
	ws.byKey[key] = w
	return w
}

func (ws *worlds) reader(desc map[string]any, w *world, k int, lazy bool) (indexheader.Reader, error) {
	key := fmt.Sprint(w.id, "/", k, "/", lazy)
	if r, ok := ws.readers[key]; ok {
		return r, nil
	}
	ctx := context.Background()
	var r indexheader.Reader
	var err error
	if lazy {
		r, err = indexheader.NewLazyBinaryReader(ctx, log.NewNopLogger(), w.bkt, w.hdr, w.id, k,
			indexheader.NewLazyBinaryReaderMetrics(nil), indexheader.NewBinaryReaderMetrics(nil), nil, false)
	} else {
		r, err = indexheader.NewBinaryReader(ctx, log.NewNopLogger(), w.bkt, w.hdr, w.id, k, indexheader.NewBinaryReaderMetrics(nil))
	}
	if err != nil {
		return nil, err
	}
	ws.readers[key] = r
	return r, nil
}

func (ws *worlds) close() {
	for _, r := range ws.readers {
		r.Close()
	}
	for _, w := range ws.byKey {
		w.idx.Close()
	}
}

func pair(r index.Range) []int64 { return []int64{r.Start, r.End} }

func TestC11(t *testing.T) {
	root := os.Getenv("VERIF_SCRATCH")
	if root == "" {
		root = t.TempDir()
	}
	root = filepath.Join(root, fmt.Sprintf("c11-%d", os.Getpid()))
	defer os.RemoveAll(root)
	ws := &worlds{t: t, root: root, byKey: map[string]*world{}, readers: map[string]indexheader.Reader{}}
	defer ws.close()
	rnd := vt.Rand()
	samplings := []int{1, 2, 3, 5, 8, 32, 64}
	crashN := 0
	crashHist := prometheus.NewHistogram(prometheus.HistogramOpts{Name: "verif_c11_download"})

	gen := func(yield func(vt.Case)) {
		metaSeen := map[string]bool{}
		meta := func(desc map[string]any, k int, lazy bool) {
			key := fmt.Sprint(desc, k, lazy)
			if !metaSeen[key] {
				metaSeen[key] = true
				yield(vt.Case{"src": "meta", "world": desc, "k": k, "lazy": lazy, "name": "", "W": []string{}, "absn": 0, "absW": []int{}})
			}
		}
		for i, tc := range vt.TLCCases(t) {
			n, k := vt.Int(tc["n"]), vt.Int(tc["k"])
			desc := map[string]any{"kind": "abs", "n": n, "pos": []string{"last", "mid"}[i%2], "wseed": 0}
			lazy := rnd.Intn(8) == 0
			aw := vt.Ints(tc["W"])
			W := make([]string, len(aw))
			for j, x := range aw {
				W[j] = absVal(x)
			}
			meta(desc, k, lazy)
			yield(vt.Case{"src": "tlc", "world": desc, "k": k, "lazy": lazy, "name": "v", "W": W, "absn": n, "absW": aw})
		}
		// sampling boundaries with production-size rates, and the long request lists of lazy expanded
		// postings (all values of a label in one call): tables of k-1, k, k+1, 2k-1, ... values
		bn := vt.Pick([]int{31, 33, 64, 129}, []int{31, 32, 33, 63, 64, 65, 127, 128, 129, 257})
		for bi, n := range bn {
			desc := map[string]any{"kind": "abs", "n": n, "pos": []string{"last", "mid"}[bi%2], "wseed": 0}
			for _, k := range []int{32, 64, 8, 1} {
				lazy := rnd.Intn(6) == 0
				meta(desc, k, lazy)
				lists := [][]int{}
				var all, evens, odds []int
				for x := 1; x <= 2*n+1; x++ {
					all = append(all, x)
					if x%2 == 0 {
						evens = append(evens, x)
					} else {
						odds = append(odds, x)
					}
				}
				twice := func(w []int) []int {
					var o []int
					for _, x := range w {
						o = append(o, x, x)
					}
					return o
				}
				lists = append(lists, all, evens, odds, twice(all))
				// windows around every sampled entry: the value before, the entry, the value after (+ absent neighbours)
				for j := 1; j <= n; j += k {
					var wdw []int
					for x := 2*j - 3; x <= 2*j+3; x++ {
						if x >= 1 && x <= 2*n+1 {
							wdw = append(wdw, x)
						}
					}
					if k > 1 && len(lists) < 40 {
						lists = append(lists, wdw)
					}
				}
				lists = append(lists, []int{2*n - 2, 2*n - 1, 2 * n, 2 * n, 2*n + 1}, []int{1, 2, 2 * n}, []int{2, 2 * n, 2*n + 1})
				for _, aw := range lists {
					W := make([]string, len(aw))
					for j, x := range aw {
						W[j] = absVal(x)
					}
					absn := n
					if n > 33 {
						absn, aw = 0, []int{} // too deep for the TLC-side replay of the loop
					}
					yield(vt.Case{"src": "bound", "world": desc, "k": k, "lazy": lazy, "name": "v", "W": W, "absn": absn, "absW": aw})
				}
			}
		}
		// symbol-lookup histories over more symbols than the reader's symbol cache has slots
		for si, n := range vt.Pick([]int{1500}, []int{1100, 1500, 2600}) {
			desc := map[string]any{"kind": "abs", "n": n, "pos": "mid", "wseed": 0}
			yield(vt.Case{"src": "symhist", "world": desc, "k": 32, "lazy": si%2 == 1, "name": "", "W": []string{}, "absn": 0, "absW": []int{}})
			yield(vt.Case{"src": "symhist", "world": desc, "k": 1, "lazy": si%2 == 0, "name": "", "W": []string{}, "absn": 0, "absW": []int{}})
		}
		// crash points of the index-header writer: every prefix of the header file (sampled in quick)
		{
			desc := map[string]any{"kind": "abs", "n": 7, "pos": "mid", "wseed": 0}
			w := ws.get(desc)
			full, err := indexheader.WriteBinary(context.Background(), w.bkt, w.id, "", crashHist)
			if err != nil {
				t.Fatalf("WriteBinary: %v", err)
			}
			step := vt.Pick(9, 1)
			for L := -1; L < len(full); L++ { // -1: no file at all
				if L > 24 && L < len(full)-24 && L%step != 0 {
					continue
				}
				yield(vt.Case{"src": "crash", "world": desc, "k": 1 + (L+3)%3, "lazy": (L+4)%4 == 0, "name": "", "W": []string{}, "absn": 0, "absW": []int{},
					"prefix": L, "tmp": (L+5)%5 == 0})
			}
		}
		// wide worlds: many label names, UTF-8, long names / values
		for wi, nw := 0, vt.Pick(1, 6); wi < nw; wi++ {
			desc := map[string]any{"kind": "wide", "n": 0, "pos": "", "wseed": rnd.Int63n(1 << 40)}
			w := ws.get(vt.Normalize(vt.Case{"d": desc})["d"].(map[string]any))
			for _, k := range []int{1, 2, 32} {
				lazy := rnd.Intn(4) == 0
				meta(desc, k, lazy)
				for _, name := range w.names {
					vals := w.vals[name]
					// all values of the label at once, with an absent neighbour after each
					var W []string
					for _, v := range vals {
						W = append(W, v, v+"~")
					}
					sort.Strings(W)
					if len(vals) > 3 || rnd.Intn(vt.Pick(6, 2)) == 0 {
						yield(vt.Case{"src": "wide", "world": desc, "k": k, "lazy": lazy, "name": name, "W": W, "absn": 0, "absW": []int{}})
					}
				}
			}
		}
		nworlds, nlook := vt.Pick(6, 40), vt.Pick(20, 60)
		for wi := 0; wi < nworlds; wi++ {
			desc := map[string]any{"kind": "rand", "n": 0, "pos": "", "wseed": rnd.Int63n(1 << 40)}
			w := ws.get(vt.Normalize(vt.Case{"d": desc})["d"].(map[string]any))
			for _, k := range samplings {
				lazy := rnd.Intn(4) == 0
				meta(desc, k, lazy)
				for li := 0; li < nlook; li++ {
					name := w.names[rnd.Intn(len(w.names))]
					if rnd.Intn(15) == 0 {
						name = "nosuchlabel"
					}
					if rnd.Intn(25) == 0 {
						name = "" // the all-postings key
					}
					vals := w.vals[name]
					m := 1 + rnd.Intn(6)
					if rnd.Intn(5) == 0 {
						m = 1 + rnd.Intn(40)
					}
					var W []string
					for len(W) < m {
						var v string
						if len(vals) > 0 {
							v = vals[rnd.Intn(len(vals))]
						}
						switch rnd.Intn(6) {
						case 0:
							v += string("abcxyz019_"[rnd.Intn(10)]) // usually absent, just after a present value
						case 1:
							if len(v) > 0 {
								v = v[:len(v)-1] // prefix: just before
							}
						case 2:
							v = string("abcxyz019_~ "[rnd.Intn(12)])
						}
						W = append(W, v)
						if rnd.Intn(4) == 0 {
							W = append(W, v) // duplicate
						}
					}
					sort.Strings(W)
					yield(vt.Case{"src": "rand", "world": desc, "k": k, "lazy": lazy, "name": name, "W": W, "absn": 0, "absW": []int{}})
				}
			}
		}
	}

	vt.Run(t, gen, func(vt.Case) string { return "" }, func(c vt.Case) (ev vt.Event) {
		ctx := context.Background()
		desc := vt.Map(c["world"])
		w := ws.get(desc)
		k, lazy := vt.Int(c["k"]), vt.Bool(c["lazy"])
		name := vt.Str(c["name"])
		W := vt.Strs(c["W"])
		ev = vt.Event{"kind": "lookup", "absent": false, "got": [][]int64{}, "single": [][]int64{}, "goterr": "", "ref": [][]int64{},
			"size": w.size, "lastname": false, "names_got": []string{}, "names_ref": []string{}, "vals": []any{},
			"syms_got": []string{}, "syms_ref": []string{}, "sym_beyond_err": true, "hdrlen": 0}
		defer func() {
			if r := recover(); r != nil {
				ev["goterr"] = fmt.Sprint("panic: ", r)
			}
		}()
		var r indexheader.Reader
		var err error
		if vt.Str(c["src"]) == "crash" {
			// a store gateway died while writing this index-header: the file holds only the first
			// `prefix` bytes (and/or a stale .tmp file is left); the reader opened over that directory
			// must still answer like the full index (it has to notice and rebuild), never serve the torso
			crashN++
			dir := filepath.Join(root, fmt.Sprintf("crash-%d", crashN))
			defer os.RemoveAll(dir)
			full, werr := indexheader.WriteBinary(ctx, w.bkt, w.id, "", crashHist)
			if werr != nil {
				ev["goterr"] = "reference WriteBinary: " + werr.Error()
				return ev
			}
			fn := filepath.Join(dir, w.id.String(), block.IndexHeaderFilename)
			if err := os.MkdirAll(filepath.Dir(fn), 0o755); err != nil {
				t.Fatal(err)
			}
			L := vt.Int(c["prefix"])
			if L > len(full) {
				L = len(full)
			}
			if L >= 0 {
				if err := os.WriteFile(fn, full[:L], 0o644); err != nil {
					t.Fatal(err)
				}
			}
			if vt.Bool(c["tmp"]) {
				if err := os.WriteFile(fn+".tmp", full[:len(full)/2], 0o644); err != nil {
					t.Fatal(err)
				}
			}
			ev["hdrlen"] = len(full)
			if lazy {
				r, err = indexheader.NewLazyBinaryReader(ctx, log.NewNopLogger(), w.bkt, dir, w.id, k,
					indexheader.NewLazyBinaryReaderMetrics(nil), indexheader.NewBinaryReaderMetrics(nil), nil, false)
			} else {
				r, err = indexheader.NewBinaryReader(ctx, log.NewNopLogger(), w.bkt, dir, w.id, k, indexheader.NewBinaryReaderMetrics(nil))
			}
			if err == nil {
				defer r.Close()
			}
		} else {
			r, err = ws.reader(desc, w, k, lazy)
		}
		if err != nil {
			ev["goterr"] = "open: " + err.Error()
			return ev
		}
		if vt.Str(c["src"]) == "symhist" {
			// a HISTORY of symbol lookups on one reader over an index with more symbols than the reader's
			// 1024-slot direct-mapped symbol cache: every symbol, every symbol again in reverse order, then
			// (o, o+k*1024, o+k*1024, o) for refs that share a cache slot; judged like the symbols of a meta case
			ev["kind"] = "meta"
			var all []string
			it := w.idx.Symbols()
			for it.Next() {
				all = append(all, it.At())
			}
			var hist []int
			for i := range all {
				hist = append(hist, i)
			}
			for i := len(all) - 1; i >= 0; i-- {
				hist = append(hist, i)
			}
			for o := 0; o < len(all); o += 5 {
				for k := 1; o+k*1024 < len(all); k++ {
					hist = append(hist, o, o+k*1024, o+k*1024, o)
				}
			}
			sref, sgot := make([]string, 0, len(hist)), make([]string, 0, len(hist))
			for _, i := range hist {
				sref = append(sref, all[i])
				s, err := r.LookupSymbol(ctx, uint32(i))
				if err != nil {
					s = "!error: " + err.Error()
				}
				sgot = append(sgot, string(append([]byte(nil), s...)))
			}
			_, err = r.LookupSymbol(ctx, uint32(len(all)))
			ev["sym_beyond_err"] = err != nil
			ev["syms_ref"], ev["syms_got"] = sref, sgot
			return ev
		}
		if src := vt.Str(c["src"]); src == "meta" || src == "crash" {
			ev["kind"] = "meta"
			ev["names_ref"] = w.names
			ng, err := r.LabelNames()
			if err != nil {
				ev["goterr"] = "LabelNames: " + err.Error()
				return ev
			}
			ev["names_got"] = append([]string{}, ng...)
			var vals []any
			for _, nme := range append(append([]string{}, w.names...), "nosuchlabel") {
				vg, err := r.LabelValues(nme)
				if err != nil {
					ev["goterr"] = "LabelValues: " + err.Error()
					return ev
				}
				ref := w.vals[nme]
				if ref == nil {
					ref = []string{}
				}
				cp := make([]string, len(vg))
				for i := range vg {
					cp[i] = string(append([]byte(nil), vg[i]...)) // values may alias the mmap
				}
				vals = append(vals, map[string]any{"name": nme, "got": cp, "ref": ref})
			}
			ev["vals"] = vals
			var sref, sgot []string
			it := w.idx.Symbols()
			i := 0
			for it.Next() {
				sref = append(sref, it.At())
				s, err := r.LookupSymbol(ctx, uint32(i))
				if err != nil {
					s = "!error: " + err.Error()
				}
				sgot = append(sgot, string(append([]byte(nil), s...)))
				i++
			}
			_, err = r.LookupSymbol(ctx, uint32(i))
			ev["sym_beyond_err"] = err != nil
			ev["syms_ref"], ev["syms_got"] = sref, sgot
			return ev
		}
		// lookup
		_, has := w.vals[name]
		if name == "" {
			_, has = w.rngs[labels.Label{}]
		}
		ev["absent"] = !has
		ev["lastname"] = len(w.names) > 0 && name == w.names[len(w.names)-1]
		ref := make([][]int64, len(W))
		for i, v := range W {
			if rg, ok := w.rngs[labels.Label{Name: name, Value: v}]; ok {
				ref[i] = pair(rg)
			} else {
				ref[i] = []int64{-1, -1}
			}
		}
		ev["ref"] = ref
		rngs, err := r.PostingsOffsets(name, W...)
		if err != nil {
			ev["goterr"] = "PostingsOffsets: " + err.Error()
			return ev
		}
		got := make([][]int64, len(rngs))
		for i, rg := range rngs {
			got[i] = pair(rg)
		}
		ev["got"] = got
		single := make([][]int64, len(W))
		for i, v := range W {
			rg, err := r.PostingsOffset(name, v)
			switch {
			case err == indexheader.NotFoundRangeErr:
				single[i] = []int64{-1, -1}
			case err != nil:
				ev["goterr"] = "PostingsOffset: " + err.Error()
				return ev
			default:
				single[i] = pair(rg)
			}
		}
		ev["single"] = single
		return ev
	})
}
