// Package bucketrec is the recording / fault-injecting objstore.Bucket wrapper shared by the
// BlockLifecycle harnesses (C28, C31-C35) and the compaction harnesses (C29, C30, C34).
//
// It wraps any objstore.Bucket (normally objstore.NewInMemBucket(), or a filesystem bucket for the
// process-death mode) and
//
//   - serialises every MUTATING call (Upload, Delete) under one mutex and records it together with
//     its index among the mutations, so the recorded order IS the order in which the bucket state
//     changed (uploads issued concurrently by errgroup workers are linearised here);
//   - records every READ call (Get, GetRange, Exists, Iter, IterWithAttributes, Attributes);
//   - calls an observer after every recorded operation; for mutations the observer runs under the
//     wrapper's mutex, i.e. before any later mutation can change the bucket, so it may take a
//     consistent snapshot through Listing()/Inner();
//   - injects faults (DESIGN.md 2.5): "outage from the k-th mutation" (that call and every later
//     call, reads included, fail), "process death before the k-th mutation" (os.Exit, for child
//     processes on a filesystem bucket), "fail the j-th read matching a predicate once" and "let the
//     j-th matching Get succeed but make the returned reader fail after k bytes" (FailBody) and
//     "uploads of the chosen object(s) fail persistently, or for their first j attempts, while every
//     other operation succeeds" (DenyUploads).
//
// It never panics inside a bucket call (uploads run in errgroup goroutines; a panic there would kill
// the test process).
package bucketrec

import (
	"context"
	"errors"
	"io"
	"os"
	"sort"
	"strings"
	"sync"

	"github.com/thanos-io/objstore"
)

// ErrInjected is returned by every call the wrapper fails on purpose.
var ErrInjected = errors.New("bucketrec: injected failure")

// Op is one recorded bucket call.
type Op struct {
	Seq      int    // 1-based index among all recorded calls
	Mut      int    // 1-based index among mutating calls; 0 for reads
	Kind     string // upload | delete | get | get_range | get_body | exists | iter | iter_attrs | attributes
	Name     string // object name / directory
	Size     int64  // bytes written (upload)
	OK       bool   // the call succeeded (for mutations: the bucket state changed)
	Injected bool   // the call was failed by the wrapper
	Err      string // error text, "" when OK
	Phase    string // free-form label set by the harness (SetPhase)
}

// IsMutation tells whether the op is an Upload or a Delete.
func (o Op) IsMutation() bool { return o.Kind == "upload" || o.Kind == "delete" }

// Bucket is the wrapper. The zero value is not usable; use New.
type Bucket struct {
	inner objstore.Bucket

	mu       sync.Mutex // serialises mutations and protects everything below
	ops      []Op
	nmut     int
	phase    string
	observer func(Op)

	outageAt  int // outage starts at this mutation index (0 = none)
	outage    bool
	exitAt    int // os.Exit(exitCode) immediately before this mutation (0 = none)
	exitCode  int
	readFault func(kind, name string) bool
	readLeft  int // fail when the counter reaches 0 (counts matching reads); <0 = disarmed
	readGate  func() bool
	keepReads bool

	denyMatch func(name string) bool // uploads of matching objects are refused ...
	denyLeft  int                    // ... this many more times (<0 = every time)
	denied    int                    // refused so far

	bodyFault func(kind, name string) bool
	bodyLeft  int    // the matching Get whose body fails (counts down to 0); <0 = disarmed
	bodyPos   string // "zero" | "mid" | "last": error before the first byte / in the middle / before the last byte
	bodyGate  func() bool
	bodyFired bool
}

// New wraps inner. Reads are recorded too unless RecordReads(false) is called.
func New(inner objstore.Bucket) *Bucket {
	return &Bucket{inner: inner, readLeft: -1, bodyLeft: -1, keepReads: true}
}

// Inner returns the wrapped bucket (for snapshots and for preparing state without recording).
func (b *Bucket) Inner() objstore.Bucket { return b.inner }

// RecordReads switches the recording of read calls on or off (fault injection works either way).
func (b *Bucket) RecordReads(on bool) { b.mu.Lock(); b.keepReads = on; b.mu.Unlock() }

// Observe installs f, called after every recorded op. For mutations f runs under the wrapper's
// mutex (no other mutation can interleave); f must not call mutating methods of this wrapper.
func (b *Bucket) Observe(f func(Op)) { b.mu.Lock(); b.observer = f; b.mu.Unlock() }

// SetPhase labels the ops recorded from now on.
func (b *Bucket) SetPhase(p string) { b.mu.Lock(); b.phase = p; b.mu.Unlock() }

// OutageFromMutation makes the k-th mutating call from now on (1-based, counted from this call) and
// every call after it fail. k <= 0 disarms. Heal ends an outage.
func (b *Bucket) OutageFromMutation(k int) {
	b.mu.Lock()
	defer b.mu.Unlock()
	b.outage = false
	if k <= 0 {
		b.outageAt = 0
		return
	}
	b.outageAt = b.nmut + k
}

// ExitBeforeMutation makes the process exit with code immediately before the k-th mutating call
// from now on (process-death mode, for child processes). k <= 0 disarms.
func (b *Bucket) ExitBeforeMutation(k, code int) {
	b.mu.Lock()
	defer b.mu.Unlock()
	if k <= 0 {
		b.exitAt = 0
		return
	}
	b.exitAt, b.exitCode = b.nmut+k, code
}

// Heal ends an outage and disarms every pending fault.
func (b *Bucket) Heal() {
	b.mu.Lock()
	defer b.mu.Unlock()
	b.outage, b.outageAt, b.exitAt, b.readLeft, b.readFault, b.readGate = false, 0, 0, -1, nil, nil
	b.bodyFault, b.bodyLeft, b.bodyGate = nil, -1, nil
	b.denyMatch, b.denyLeft = nil, 0
}

// InOutage reports whether the outage has begun.
func (b *Bucket) InOutage() bool { b.mu.Lock(); defer b.mu.Unlock(); return b.outage }

// FailRead fails, once, the j-th (1-based) read call from now on for which match returns true and
// (when gate is non-nil) gate() is true at the time of the call.
func (b *Bucket) FailRead(match func(kind, name string) bool, j int, gate func() bool) {
	b.mu.Lock()
	defer b.mu.Unlock()
	b.readFault, b.readLeft, b.readGate = match, j, gate
}

// DenyUploads makes Upload calls for object names accepted by match fail with ErrInjected while every
// other call succeeds: attempts < 0 = persistently (until Heal), attempts = j > 0 = the first j such
// attempts. Refused uploads are recorded as injected, failed mutations.
func (b *Bucket) DenyUploads(match func(name string) bool, attempts int) {
	b.mu.Lock()
	defer b.mu.Unlock()
	b.denyMatch, b.denyLeft, b.denied = match, attempts, 0
}

// DeniedUploads returns how many uploads DenyUploads has refused.
func (b *Bucket) DeniedUploads() int { b.mu.Lock(); defer b.mu.Unlock(); return b.denied }

// FailBody lets, once, the j-th (1-based) Get / GetRange call from now on for which match returns
// true (and gate(), when non-nil, is true) SUCCEED, but makes the reader it returns fail with
// ErrInjected after part of the object's bytes: pos "zero" = before the first byte, "mid" = after
// half of them, "last" = before the last byte. The failure is recorded (kind "get_body") when the
// reader delivers it.
func (b *Bucket) FailBody(match func(kind, name string) bool, j int, pos string, gate func() bool) {
	b.mu.Lock()
	defer b.mu.Unlock()
	b.bodyFault, b.bodyLeft, b.bodyPos, b.bodyGate, b.bodyFired = match, j, pos, gate, false
}

// BodyFaultFired reports whether the armed body fault has been delivered to a reader of the code under test.
func (b *Bucket) BodyFaultFired() bool { b.mu.Lock(); defer b.mu.Unlock(); return b.bodyFired }

// ReadFaultFired reports whether the armed read fault has been delivered.
func (b *Bucket) ReadFaultFired() bool {
	b.mu.Lock()
	defer b.mu.Unlock()
	return b.readFault != nil && b.readLeft == 0
}

// Ops returns a copy of the recorded operations.
func (b *Bucket) Ops() []Op {
	b.mu.Lock()
	defer b.mu.Unlock()
	return append([]Op(nil), b.ops...)
}

// Mutations returns the number of mutating calls recorded so far (failed ones included).
func (b *Bucket) Mutations() int { b.mu.Lock(); defer b.mu.Unlock(); return b.nmut }

// Reset forgets the recorded operations and disarms all faults (the bucket content stays).
func (b *Bucket) Reset() {
	b.mu.Lock()
	defer b.mu.Unlock()
	b.ops, b.nmut = nil, 0
	b.outage, b.outageAt, b.exitAt, b.readLeft, b.readFault, b.readGate = false, 0, 0, -1, nil, nil
	b.bodyFault, b.bodyLeft, b.bodyGate, b.bodyFired = nil, -1, nil, false
	b.denyMatch, b.denyLeft, b.denied = nil, 0, 0
}

// Listing returns name -> size of every object of the wrapped bucket.
func (b *Bucket) Listing() map[string]int64 { return Listing(b.inner) }

// Listing returns name -> size of every object of bkt (fast path for the in-memory bucket).
func Listing(bkt objstore.Bucket) map[string]int64 {
	out := map[string]int64{}
	if im, ok := bkt.(interface{ Objects() map[string][]byte }); ok {
		for k, v := range im.Objects() {
			out[k] = int64(len(v))
		}
		return out
	}
	ctx := context.Background()
	_ = bkt.Iter(ctx, "", func(name string) error {
		if strings.HasSuffix(name, objstore.DirDelim) {
			return nil
		}
		if a, err := bkt.Attributes(ctx, name); err == nil {
			out[name] = a.Size
		}
		return nil
	}, objstore.WithRecursiveIter())
	return out
}

// SortedNames returns the keys of a listing in order.
func SortedNames(l map[string]int64) []string {
	out := make([]string, 0, len(l))
	for k := range l {
		out = append(out, k)
	}
	sort.Strings(out)
	return out
}

// ---- recording helpers ----

func (b *Bucket) record(op Op) {
	// caller holds b.mu
	op.Seq = len(b.ops) + 1
	op.Phase = b.phase
	if op.IsMutation() || b.keepReads {
		b.ops = append(b.ops, op)
	}
	if b.observer != nil && (op.IsMutation() || b.keepReads) {
		b.observer(op)
	}
}

// read runs the bookkeeping of one read call; it returns an error when the call must fail.
func (b *Bucket) readStart(kind, name string) error {
	b.mu.Lock()
	defer b.mu.Unlock()
	if b.outage {
		b.record(Op{Kind: kind, Name: name, Injected: true, Err: ErrInjected.Error()})
		return ErrInjected
	}
	if b.readFault != nil && b.readLeft > 0 && b.readFault(kind, name) && (b.readGate == nil || b.readGate()) {
		b.readLeft--
		if b.readLeft == 0 {
			b.record(Op{Kind: kind, Name: name, Injected: true, Err: ErrInjected.Error()})
			return ErrInjected
		}
	}
	return nil
}

func (b *Bucket) readDone(kind, name string, err error) {
	b.mu.Lock()
	defer b.mu.Unlock()
	op := Op{Kind: kind, Name: name, OK: err == nil}
	if err != nil {
		op.Err = err.Error()
	}
	b.record(op)
}

// mutate serialises one mutating call.
func (b *Bucket) mutate(kind, name string, do func() (int64, error)) error {
	b.mu.Lock()
	defer b.mu.Unlock()
	b.nmut++
	if b.exitAt > 0 && b.nmut >= b.exitAt {
		os.Exit(b.exitCode)
	}
	if b.outageAt > 0 && b.nmut >= b.outageAt {
		b.outage = true
	}
	if b.outage {
		b.record(Op{Mut: b.nmut, Kind: kind, Name: name, Injected: true, Err: ErrInjected.Error()})
		return ErrInjected
	}
	if kind == "upload" && b.denyMatch != nil && b.denyLeft != 0 && b.denyMatch(name) {
		if b.denyLeft > 0 {
			b.denyLeft--
		}
		b.denied++
		b.record(Op{Mut: b.nmut, Kind: kind, Name: name, Injected: true, Err: ErrInjected.Error()})
		return ErrInjected
	}
	n, err := do()
	op := Op{Mut: b.nmut, Kind: kind, Name: name, Size: n, OK: err == nil}
	if err != nil {
		op.Err = err.Error()
	}
	b.record(op)
	return err
}

// wantBodyFault decides (and consumes the countdown) whether the reader of this successful Get must fail.
func (b *Bucket) wantBodyFault(kind, name string) (bool, string) {
	b.mu.Lock()
	defer b.mu.Unlock()
	if b.bodyFault == nil || b.bodyLeft <= 0 || !b.bodyFault(kind, name) || (b.bodyGate != nil && !b.bodyGate()) {
		return false, ""
	}
	b.bodyLeft--
	return b.bodyLeft == 0, b.bodyPos
}

// faultyBody serves the first `good` bytes of data and then fails.
type faultyBody struct {
	b     *Bucket
	kind  string
	name  string
	data  []byte
	good  int
	off   int
	fired bool
}

func (f *faultyBody) Read(p []byte) (int, error) {
	if f.off < f.good {
		n := copy(p, f.data[f.off:f.good])
		f.off += n
		return n, nil
	}
	if !f.fired {
		f.fired = true
		f.b.mu.Lock()
		f.b.bodyFired = true
		f.b.record(Op{Kind: "get_body", Name: f.name, Size: int64(f.good), Injected: true, Err: ErrInjected.Error()})
		f.b.mu.Unlock()
	}
	return 0, ErrInjected
}

func (f *faultyBody) Close() error { return nil }

// withBody wraps the reader of a successful Get when the armed body fault applies to it.
func (b *Bucket) withBody(kind, name string, rc io.ReadCloser, err error) (io.ReadCloser, error) {
	if err != nil || rc == nil {
		return rc, err
	}
	hit, pos := b.wantBodyFault(kind, name)
	if !hit {
		return rc, err
	}
	data, rerr := io.ReadAll(rc)
	rc.Close()
	if rerr != nil {
		return nil, rerr
	}
	good := 0
	switch pos {
	case "mid":
		good = len(data) / 2
	case "last":
		good = len(data) - 1
	}
	if good < 0 {
		good = 0
	}
	return &faultyBody{b: b, kind: kind, name: name, data: data, good: good}, nil
}

type countingReader struct {
	r io.Reader
	n int64
}

func (c *countingReader) Read(p []byte) (int, error) {
	n, err := c.r.Read(p)
	c.n += int64(n)
	return n, err
}

// ---- objstore.Bucket ----

func (b *Bucket) Upload(ctx context.Context, name string, r io.Reader, opts ...objstore.ObjectUploadOption) error {
	return b.mutate("upload", name, func() (int64, error) {
		cr := &countingReader{r: r}
		err := b.inner.Upload(ctx, name, cr, opts...)
		return cr.n, err
	})
}

func (b *Bucket) Delete(ctx context.Context, name string) error {
	return b.mutate("delete", name, func() (int64, error) { return 0, b.inner.Delete(ctx, name) })
}

func (b *Bucket) Iter(ctx context.Context, dir string, f func(string) error, options ...objstore.IterOption) error {
	if err := b.readStart("iter", dir); err != nil {
		return err
	}
	err := b.inner.Iter(ctx, dir, f, options...)
	b.readDone("iter", dir, err)
	return err
}

func (b *Bucket) IterWithAttributes(ctx context.Context, dir string, f func(objstore.IterObjectAttributes) error, options ...objstore.IterOption) error {
	if err := b.readStart("iter_attrs", dir); err != nil {
		return err
	}
	err := b.inner.IterWithAttributes(ctx, dir, f, options...)
	b.readDone("iter_attrs", dir, err)
	return err
}

func (b *Bucket) SupportedIterOptions() []objstore.IterOptionType {
	return b.inner.SupportedIterOptions()
}

func (b *Bucket) Get(ctx context.Context, name string) (io.ReadCloser, error) {
	if err := b.readStart("get", name); err != nil {
		return nil, err
	}
	rc, err := b.inner.Get(ctx, name)
	b.readDone("get", name, err)
	return b.withBody("get", name, rc, err)
}

func (b *Bucket) GetRange(ctx context.Context, name string, off, length int64) (io.ReadCloser, error) {
	if err := b.readStart("get_range", name); err != nil {
		return nil, err
	}
	rc, err := b.inner.GetRange(ctx, name, off, length)
	b.readDone("get_range", name, err)
	return b.withBody("get_range", name, rc, err)
}

func (b *Bucket) Exists(ctx context.Context, name string) (bool, error) {
	if err := b.readStart("exists", name); err != nil {
		return false, err
	}
	ok, err := b.inner.Exists(ctx, name)
	b.readDone("exists", name, err)
	return ok, err
}

func (b *Bucket) Attributes(ctx context.Context, name string) (objstore.ObjectAttributes, error) {
	if err := b.readStart("attributes", name); err != nil {
		return objstore.ObjectAttributes{}, err
	}
	a, err := b.inner.Attributes(ctx, name)
	b.readDone("attributes", name, err)
	return a, err
}

func (b *Bucket) IsObjNotFoundErr(err error) bool  { return b.inner.IsObjNotFoundErr(err) }
func (b *Bucket) IsAccessDeniedErr(err error) bool { return b.inner.IsAccessDeniedErr(err) }
func (b *Bucket) Close() error                     { return nil }
func (b *Bucket) Name() string                     { return "bucketrec(" + b.inner.Name() + ")" }
func (b *Bucket) Provider() objstore.ObjProvider   { return b.inner.Provider() }

// ---- objstore.InstrumentedBucket ----

func (b *Bucket) WithExpectedErrs(objstore.IsOpFailureExpectedFunc) objstore.Bucket { return b }
func (b *Bucket) ReaderWithExpectedErrs(objstore.IsOpFailureExpectedFunc) objstore.BucketReader {
	return b
}

var _ objstore.InstrumentedBucket = (*Bucket)(nil)
