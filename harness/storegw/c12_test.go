package storegw

import (
	"encoding/json"
	"fmt"
	"math/rand"
	"sort"
	"strconv"
	"testing"

	"github.com/prometheus/prometheus/storage"
	"github.com/prometheus/prometheus/tsdb/index"

	"github.com/thanos-io/thanos/pkg/store"

	"verif/harness/vt"
)

// C12: cached posting-list encodings decode to the original list; Seek behaves as on the original.
//
// A case is a list and an operation sequence:
//
//	runs   [[start, step, count], ...]   the list as arithmetic runs; start/step decimal strings (uint64)
//	ops    [["n"] | ["s", "<target>"], ...]   Next / Seek(target) calls, in order
//	mode   "rank": values are arbitrary uint64; the trace carries their order-preserving ranks
//	               (rank of 0 is 0); short lists only
//	       "id":   all values < 2^31; the trace carries the values themselves (long lists as runs)
//
// The list is encoded with every cache codec (shim VerifEncodePostings: dvs, dss, dss2, raw) and
// decoded in every mode (by header through decodePostings; own decoder with and without buffer
// pooling). Each decoded iterator is (a) drained with Next = the round trip, (b) on a second decode,
// driven through ops, logging every result and At(). All iterators of a case are open at the same
// time (pooled buffers must not be shared). Variants with identical observations are logged once.
//
// Cases: every (list, op sequence) TLC enumerated (PostingsCodecMC), the abstract value a made
// a*K for a seeded K (1 .. 2^60, around the varint widths); seeded short lists with gaps around
// 2^7, 2^14, 2^21, 2^28, 2^32, 2^35, 2^56, 2^63; long lists whose encodings cross the 64 KiB chunks
// of the streamed codec with 1-, 2- and 3-byte varints, with seeks around the chunk boundaries.
func TestC12(t *testing.T) {
	rnd := vt.Rand()
	ks := []uint64{1, 127, 128, 129, 16383, 16384, 1 << 21, 1 << 28, 1 << 32, 1 << 35, 1 << 56, 1 << 60}
	u := func(x uint64) string { return strconv.FormatUint(x, 10) }
	gen := func(yield func(vt.Case)) {
		for _, c := range vt.TLCCases(t) {
			k := ks[rnd.Intn(len(ks))]
			runs := [][]any{}
			for _, a := range vt.Ints(c["list"]) {
				runs = append(runs, []any{u(uint64(a) * k), "0", 1})
			}
			ops := [][]any{}
			for _, o := range vt.List(c["ops"]) {
				ol := vt.List(o)
				if vt.Str(ol[0]) == "n" {
					ops = append(ops, []any{"n"})
				} else {
					ops = append(ops, []any{"s", u(uint64(vt.Int(ol[1])) * k)})
				}
			}
			yield(vt.Case{"runs": runs, "ops": ops, "mode": "rank", "k": u(k)})
		}
		// short lists, arbitrary 64-bit values
		gaps := []uint64{0, 1, 2, 126, 127, 128, 129, 16383, 16384, 16385, 1<<21 - 1, 1 << 21, 1<<28 - 1, 1 << 28, 1<<32 - 1, 1 << 32, 1<<32 + 1, 1 << 35, 1 << 42, 1 << 49, 1 << 56, 1 << 62}
		for i := 0; i < vt.Pick(1500, 12000); i++ {
			n := rnd.Intn(9)
			if rnd.Intn(6) == 0 {
				n = rnd.Intn(40)
			}
			var vals []uint64
			cur := uint64(0)
			for j := 0; j < n; j++ {
				g := gaps[rnd.Intn(len(gaps))]
				if j == 0 && rnd.Intn(3) == 0 {
					g = uint64(rnd.Intn(3)) // lists starting at 0, 1, 2
				}
				if g == 0 && j > 0 && rnd.Intn(4) != 0 {
					g = 1 // duplicates are rare
				}
				if cur+g < cur { // overflow
					break
				}
				cur += g
				vals = append(vals, cur)
			}
			if rnd.Intn(20) == 0 && len(vals) > 0 && vals[len(vals)-1] < 1<<63 {
				vals = append(vals, ^uint64(0)-uint64(rnd.Intn(2)))
			}
			runs := [][]any{}
			for _, v := range vals {
				runs = append(runs, []any{u(v), "0", 1})
			}
			target := func() uint64 {
				if len(vals) == 0 || rnd.Intn(8) == 0 {
					return []uint64{0, 1, 5, 1 << 40, ^uint64(0)}[rnd.Intn(5)]
				}
				v := vals[rnd.Intn(len(vals))]
				switch rnd.Intn(4) {
				case 0:
					if v > 0 {
						v--
					}
				case 1:
					if v < ^uint64(0) {
						v++
					}
				}
				return v
			}
			ops := [][]any{}
			for j, m := 0, rnd.Intn(8); j < m; j++ {
				if rnd.Intn(2) == 0 {
					ops = append(ops, []any{"n"})
				} else {
					ops = append(ops, []any{"s", u(target())})
				}
			}
			yield(vt.Case{"runs": runs, "ops": ops, "mode": "rank"})
		}
		// long lists: the diff+varint stream is longer than one 64 KiB snappy chunk
		for i := 0; i < vt.Pick(12, 120); i++ {
			var runs [][]any
			cur := uint64(rnd.Intn(300))
			total := 0
			bytes := 0
			var marks []uint64 // values near which a chunk boundary falls
			for r, nr := 0, 1+rnd.Intn(4); r < nr; r++ {
				step := []uint64{1, 1, 2, 100, 127, 128, 200, 16383, 16384, 20000}[rnd.Intn(10)]
				w := 1
				if step >= 128 {
					w = 2
				}
				if step >= 16384 {
					w = 3
				}
				cnt := 20000 + rnd.Intn(60000)
				if step >= 16384 {
					cnt = 15000 + rnd.Intn(15000)
				}
				if cur+uint64(cnt)*step >= 1<<31-1 {
					break
				}
				runs = append(runs, []any{u(cur), u(step), cnt})
				for b := (bytes/65536 + 1) * 65536; b < bytes+cnt*w; b += 65536 {
					marks = append(marks, cur+uint64((b-bytes)/w)*step)
				}
				bytes += cnt * w
				total += cnt
				cur += uint64(cnt-1)*step + uint64(1+rnd.Intn(40000))
			}
			if len(runs) == 0 {
				continue
			}
			ops := [][]any{}
			last := uint64(0)
			for j, m := 0, 2+rnd.Intn(10); j < m; j++ {
				switch {
				case rnd.Intn(3) == 0:
					ops = append(ops, []any{"n"})
				case len(marks) > 0 && rnd.Intn(3) != 0:
					v := marks[rnd.Intn(len(marks))] + uint64(rnd.Intn(7)) - 3
					if rnd.Intn(2) == 0 && v < last { // mostly forward
						v = last + uint64(rnd.Intn(50))
					}
					last = v
					ops = append(ops, []any{"s", u(v)})
				default:
					ops = append(ops, []any{"s", u(uint64(rnd.Int63n(int64(cur + 10))))})
				}
			}
			yield(vt.Case{"runs": runs, "ops": ops, "mode": "id"})
		}
	}
	vt.Run(t, gen, func(vt.Case) string { return "" }, runC12)
}

type c12Op struct {
	seek bool
	v    uint64
}

func c12Parse(c vt.Case) (list []uint64, ops []c12Op, err error) {
	pu := func(x any) uint64 {
		v, e := strconv.ParseUint(vt.Str(x), 10, 64)
		if e != nil {
			err = e
		}
		return v
	}
	for _, r := range vt.List(c["runs"]) {
		rl := vt.List(r)
		start, step, cnt := pu(rl[0]), pu(rl[1]), vt.Int(rl[2])
		for k := 0; k < cnt; k++ {
			list = append(list, start+uint64(k)*step)
		}
	}
	for _, o := range vt.List(c["ops"]) {
		ol := vt.List(o)
		if vt.Str(ol[0]) == "n" {
			ops = append(ops, c12Op{})
		} else {
			ops = append(ops, c12Op{seek: true, v: pu(ol[1])})
		}
	}
	return list, ops, err
}

// c12Runs is the canonical run compression (greedy arithmetic progressions) of an int-space list.
func c12Runs(l []int64) [][]int64 {
	out := [][]int64{}
	for i := 0; i < len(l); {
		if i+1 >= len(l) {
			out = append(out, []int64{l[i], 0, 1})
			break
		}
		step := l[i+1] - l[i]
		j := i + 1
		for j+1 < len(l) && l[j+1]-l[j] == step {
			j++
		}
		if step < 0 { // not sorted: keep it explicit, the judge will see the mismatch
			out = append(out, []int64{l[i], 0, 1})
			i++
			continue
		}
		out = append(out, []int64{l[i], step, int64(j - i + 1)})
		i = j + 1
	}
	return out
}

func runC12(c vt.Case) vt.Event {
	list, ops, err := c12Parse(c)
	if err != nil {
		panic(err)
	}
	// value -> int space
	var toInt func(uint64) int64
	if vt.Str(c["mode"]) == "rank" {
		uni := map[uint64]struct{}{0: {}}
		for _, v := range list {
			uni[v] = struct{}{}
		}
		for _, o := range ops {
			if o.seek {
				uni[o.v] = struct{}{}
			}
		}
		keys := make([]uint64, 0, len(uni))
		for v := range uni {
			keys = append(keys, v)
		}
		sort.Slice(keys, func(i, j int) bool { return keys[i] < keys[j] })
		rank := map[uint64]int64{}
		for i, v := range keys {
			rank[v] = int64(i)
		}
		toInt = func(v uint64) int64 {
			if r, ok := rank[v]; ok {
				return r
			}
			return -1
		}
	} else {
		toInt = func(v uint64) int64 {
			if v < 1<<31 {
				return int64(v)
			}
			return -1
		}
	}
	ints := func(l []uint64) []int64 {
		out := make([]int64, len(l))
		for i, v := range l {
			out[i] = toInt(v)
		}
		return out
	}
	ev := vt.Event{"list": c12Runs(ints(list))}
	evOps := make([][]any, len(ops))
	for i, o := range ops {
		if o.seek {
			evOps[i] = []any{"s", toInt(o.v)}
		} else {
			evOps[i] = []any{"n"}
		}
	}
	ev["ops"] = evOps

	refs := make([]storage.SeriesRef, len(list))
	for i, v := range list {
		refs[i] = storage.SeriesRef(v)
	}
	type variant struct {
		name            string
		codec           string
		byHeader, nopoo bool
	}
	var variants []variant
	for _, cd := range store.VerifPostingsCodecs {
		if cd == "raw" {
			variants = append(variants, variant{"raw", cd, false, false})
			continue
		}
		variants = append(variants, variant{cd + "/hdr", cd, true, false}, variant{cd + "/pool", cd, false, false}, variant{cd + "/nopool", cd, false, true})
	}
	type obs struct {
		EncErr   string    `json:"encerr"`
		DecErr   string    `json:"decerr"`
		Decoded  [][]int64 `json:"decoded"`
		DrainErr string    `json:"drainerr"`
		Out      [][]any   `json:"out"`
		OpErr    string    `json:"operr"`
		Panic    string    `json:"panic"`
	}
	results := make([]obs, len(variants))
	its := make([]index.Postings, len(variants))
	drains := make([]index.Postings, len(variants))
	var closers []func()
	for i, v := range variants {
		func() {
			defer func() {
				if r := recover(); r != nil {
					results[i].Panic = fmt.Sprint(r)
				}
			}()
			data, err := store.VerifEncodePostings(v.codec, refs)
			if err != nil {
				results[i].EncErr = err.Error()
				return
			}
			for k := 0; k < 2; k++ {
				cp := append([]byte(nil), data...) // each decoder owns its input
				p, cl, err := store.VerifDecodePostings(v.codec, cp, v.byHeader, v.nopoo)
				if err != nil {
					results[i].DecErr = err.Error()
					return
				}
				closers = append(closers, cl)
				if k == 0 {
					drains[i] = p
				} else {
					its[i] = p
				}
			}
		}()
	}
	// interleave: one op on every iterator, then the next op
	for i := range variants {
		results[i].Out = [][]any{}
		results[i].Decoded = [][]int64{}
	}
	for _, o := range ops {
		for i := range variants {
			if its[i] == nil || results[i].Panic != "" {
				continue
			}
			func() {
				defer func() {
					if r := recover(); r != nil {
						results[i].Panic = fmt.Sprint(r)
					}
				}()
				var ret bool
				if o.seek {
					ret = its[i].Seek(storage.SeriesRef(o.v))
				} else {
					ret = its[i].Next()
				}
				results[i].Out = append(results[i].Out, []any{ret, toInt(uint64(its[i].At()))})
			}()
		}
	}
	for i := range variants {
		if drains[i] == nil || results[i].Panic != "" {
			continue
		}
		func() {
			defer func() {
				if r := recover(); r != nil {
					results[i].Panic = fmt.Sprint(r)
				}
			}()
			var got []uint64
			for drains[i].Next() {
				got = append(got, uint64(drains[i].At()))
				if len(got) > len(list)+8 {
					break
				}
			}
			results[i].Decoded = c12Runs(ints(got))
			if e := drains[i].Err(); e != nil {
				results[i].DrainErr = e.Error()
			}
			if e := its[i].Err(); e != nil {
				results[i].OpErr = e.Error()
			}
		}()
	}
	for _, cl := range closers {
		if cl != nil {
			cl()
		}
	}
	// group identical observations
	type group struct {
		Variants []string `json:"variants"`
		obs
	}
	var groups []*group
	seen := map[string]*group{}
	for i, v := range variants {
		b, _ := json.Marshal(results[i])
		if g, ok := seen[string(b)]; ok {
			g.Variants = append(g.Variants, v.name)
			continue
		}
		g := &group{Variants: []string{v.name}, obs: results[i]}
		seen[string(b)] = g
		groups = append(groups, g)
	}
	ev["res"] = groups
	return ev
}

var _ = rand.Int
