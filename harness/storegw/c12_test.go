package storegw

import (
	"encoding/json"
	"fmt"
	"math/rand"
	"sort"
	"strconv"
	"strings"
	"testing"

	"github.com/prometheus/prometheus/storage"
	"github.com/prometheus/prometheus/tsdb/encoding"
	"github.com/prometheus/prometheus/tsdb/index"

	"github.com/thanos-io/thanos/pkg/store"

	"verif/harness/vt"
)

// C12: cached posting-list encodings decode to the original list; Seek behaves as on the original.
//
// A case is a list and an operation sequence:
//
//	runs   [[start, step, count], ...]   the list as arithmetic runs; start/step decimal strings (uint64)
//	ops    [["n"] | ["s", "<target>"], ...]   Next / Seek(target) calls, in order
//	mode   "rank": values are arbitrary uint64; the trace carries their order-preserving ranks
//	               (rank of 0 is 0); short lists only
//	       "id":   all values < 2^31; the trace carries the values themselves (long lists as runs)
//
// The list is encoded with every cache codec (shim VerifEncodePostings: dvs, dss, dss2, raw) and
// decoded in every mode (by header through decodePostings; own decoder with and without buffer
// pooling). Each decoded iterator is (a) drained with Next = the round trip, (b) on a second decode,
// driven through ops, logging every result and At(). All iterators of a case are open at the same
// time (pooled buffers must not be shared). Variants with identical observations are logged once.
//
// Cases: every (list, op sequence) TLC enumerated (PostingsCodecMC), the abstract value a made
// a*K for a seeded K (1 .. 2^60, around the varint widths); seeded short lists with gaps around
// 2^7, 2^14, 2^21, 2^28, 2^32, 2^35, 2^56, 2^63; long lists whose encodings cross the 64 KiB chunks
// of the streamed codec with 1-, 2- and 3-byte varints, with seeks around the chunk boundaries.
func TestC12(t *testing.T) {
	rnd := vt.Rand()
	ks := []uint64{1, 127, 128, 129, 16383, 16384, 1 << 21, 1 << 28, 1 << 32, 1 << 35, 1 << 56, 1 << 60}
	u := func(x uint64) string { return strconv.FormatUint(x, 10) }
	gen := func(yield func(vt.Case)) {
		for _, c := range vt.TLCCases(t) {
			k := ks[rnd.Intn(len(ks))]
			runs := [][]any{}
			for _, a := range vt.Ints(c["list"]) {
				runs = append(runs, []any{u(uint64(a) * k), "0", 1})
			}
			ops := [][]any{}
			for _, o := range vt.List(c["ops"]) {
				ol := vt.List(o)
				if vt.Str(ol[0]) == "n" {
					ops = append(ops, []any{"n"})
				} else {
					ops = append(ops, []any{"s", u(uint64(vt.Int(ol[1])) * k)})
				}
			}
			yield(vt.Case{"runs": runs, "ops": ops, "mode": "rank", "k": u(k)})
		}
		// short lists, arbitrary 64-bit values
		gaps := []uint64{0, 1, 2, 126, 127, 128, 129, 16383, 16384, 16385, 1<<21 - 1, 1 << 21, 1<<28 - 1, 1 << 28, 1<<32 - 1, 1 << 32, 1<<32 + 1, 1 << 35, 1 << 42, 1 << 49, 1 << 56, 1 << 62}
		for i := 0; i < vt.Pick(1500, 12000); i++ {
			n := rnd.Intn(9)
			if rnd.Intn(6) == 0 {
				n = rnd.Intn(40)
			}
			var vals []uint64
			cur := uint64(0)
			for j := 0; j < n; j++ {
				g := gaps[rnd.Intn(len(gaps))]
				if j == 0 && rnd.Intn(3) == 0 {
					g = uint64(rnd.Intn(3)) // lists starting at 0, 1, 2
				}
				if g == 0 && j > 0 && rnd.Intn(4) != 0 {
					g = 1 // duplicates are rare
				}
				if cur+g < cur { // overflow
					break
				}
				cur += g
				vals = append(vals, cur)
			}
			if rnd.Intn(20) == 0 && len(vals) > 0 && vals[len(vals)-1] < 1<<63 {
				vals = append(vals, ^uint64(0)-uint64(rnd.Intn(2)))
			}
			runs := [][]any{}
			for _, v := range vals {
				runs = append(runs, []any{u(v), "0", 1})
			}
			target := func() uint64 {
				if len(vals) == 0 || rnd.Intn(8) == 0 {
					return []uint64{0, 1, 5, 1 << 40, ^uint64(0)}[rnd.Intn(5)]
				}
				v := vals[rnd.Intn(len(vals))]
				switch rnd.Intn(4) {
				case 0:
					if v > 0 {
						v--
					}
				case 1:
					if v < ^uint64(0) {
						v++
					}
				}
				return v
			}
			ops := [][]any{}
			for j, m := 0, rnd.Intn(8); j < m; j++ {
				if rnd.Intn(2) == 0 {
					ops = append(ops, []any{"n"})
				} else {
					ops = append(ops, []any{"s", u(target())})
				}
			}
			yield(vt.Case{"runs": runs, "ops": ops, "mode": "rank"})
		}
		// long lists: the diff+varint stream is longer than one 64 KiB snappy chunk
		for i := 0; i < vt.Pick(12, 120); i++ {
			var runs [][]any
			cur := uint64(rnd.Intn(300))
			total := 0
			bytes := 0
			var marks []uint64 // values near which a chunk boundary falls
			for r, nr := 0, 1+rnd.Intn(4); r < nr; r++ {
				step := []uint64{1, 1, 2, 100, 127, 128, 200, 16383, 16384, 20000}[rnd.Intn(10)]
				w := 1
				if step >= 128 {
					w = 2
				}
				if step >= 16384 {
					w = 3
				}
				cnt := 20000 + rnd.Intn(60000)
				if step >= 16384 {
					cnt = 15000 + rnd.Intn(15000)
				}
				if cur+uint64(cnt)*step >= 1<<31-1 {
					break
				}
				runs = append(runs, []any{u(cur), u(step), cnt})
				for b := (bytes/65536 + 1) * 65536; b < bytes+cnt*w; b += 65536 {
					marks = append(marks, cur+uint64((b-bytes)/w)*step)
				}
				bytes += cnt * w
				total += cnt
				cur += uint64(cnt-1)*step + uint64(1+rnd.Intn(40000))
			}
			if len(runs) == 0 {
				continue
			}
			ops := [][]any{}
			last := uint64(0)
			for j, m := 0, 2+rnd.Intn(10); j < m; j++ {
				switch {
				case rnd.Intn(3) == 0:
					ops = append(ops, []any{"n"})
				case len(marks) > 0 && rnd.Intn(3) != 0:
					v := marks[rnd.Intn(len(marks))] + uint64(rnd.Intn(7)) - 3
					if rnd.Intn(2) == 0 && v < last { // mostly forward
						v = last + uint64(rnd.Intn(50))
					}
					last = v
					ops = append(ops, []any{"s", u(v)})
				default:
					ops = append(ops, []any{"s", u(uint64(rnd.Int63n(int64(cur + 10))))})
				}
			}
			yield(vt.Case{"runs": runs, "ops": ops, "mode": "id"})
		}
		// long lists around the 64 KiB chunks of the streamed codec: incompressible regions (random
		// differences, 2..5-byte varints -> uncompressed snappy chunks), compressible regions (constant
		// difference -> compressed chunks), total varint stream of 1..4 chunks +- a little, the stream
		// shifted by 0..4 one-byte entries so that varints straddle the chunk ends in every alignment
		const chunk = 65536
		widthRange := map[int][2]int64{2: {128, 1<<14 - 1}, 3: {1 << 14, 1<<21 - 1}, 4: {1 << 21, 1<<28 - 1}, 5: {1 << 28, 1<<35 - 1}}
		for i := 0; i < vt.Pick(20, 240); i++ {
			shift := i % 5
			nchunks := 1 + (i/5)%4
			target := nchunks*chunk + []int{-3, 0, 2, 40, 4000, chunk / 2}[rnd.Intn(6)]
			segs := []any{}
			if shift > 0 {
				segs = append(segs, map[string]any{"k": "arith", "n": shift, "step": 1 + rnd.Intn(100)})
			}
			bytes := shift
			pattern := rnd.Intn(4) // 0: all random; 1: random then compressible; 2: compressible then random; 3: alternating
			for sgi := 0; bytes < target; sgi++ {
				random := pattern == 0 || (pattern == 1 && bytes < chunk) || (pattern == 2 && bytes >= chunk/2+rnd.Intn(chunk)) || (pattern == 3 && sgi%2 == 0)
				want := target - bytes
				if pattern == 3 || pattern == 2 {
					if lim := chunk/2 + rnd.Intn(chunk); want > lim {
						want = lim
					}
				}
				if random {
					w := 2 + rnd.Intn(4)
					if rnd.Intn(3) == 0 { // mixed widths: the range spans two widths
						w2 := 2 + rnd.Intn(3)
						n := want/(w2+1) + 1
						segs = append(segs, map[string]any{"k": "rand", "n": n, "lo": widthRange[w2][0] / 2, "hi": widthRange[w2+1][0] * 2})
						bytes += n * (w2 + 1) // roughly
						continue
					}
					n := want/w + 1
					segs = append(segs, map[string]any{"k": "rand", "n": n, "lo": widthRange[w][0], "hi": widthRange[w][1]})
					bytes += n * w
				} else {
					step := []int64{1, 3, 200, 20000}[rnd.Intn(4)]
					w := c12Width(uint64(step))
					n := want/w + 1
					segs = append(segs, map[string]any{"k": "arith", "n": n, "step": step})
					bytes += n * w
				}
			}
			g := map[string]any{"seed": rnd.Int63n(1 << 30), "segs": segs}
			list := c12Gen(vt.Map(vt.Normalize(vt.Case{"g": g})["g"]))
			// element indexes at which a chunk of the varint stream ends
			var marks []int
			off := 0
			prev := uint64(0)
			for k, v := range list {
				w := c12Width(v - prev)
				if (off+w)/chunk > off/chunk {
					marks = append(marks, k)
				}
				off += w
				prev = v
			}
			ops := [][]any{}
			for j, m := 0, 3+rnd.Intn(8); j < m; j++ {
				switch {
				case rnd.Intn(3) == 0 || len(list) == 0:
					ops = append(ops, []any{"n"})
				case len(marks) > 0 && rnd.Intn(4) != 0:
					k := marks[rnd.Intn(len(marks))] + rnd.Intn(5) - 2
					if k < 0 {
						k = 0
					}
					if k >= len(list) {
						k = len(list) - 1
					}
					ops = append(ops, []any{"s", u(list[k] + uint64(rnd.Intn(3)) - 1)})
				default:
					ops = append(ops, []any{"s", u(list[rnd.Intn(len(list))] + uint64(rnd.Intn(2)))})
				}
			}
			yield(vt.Case{"gen": g, "runs": [][]any{}, "ops": ops, "mode": "rank"})
		}
	}
	vt.Run(t, gen, func(vt.Case) string { return "" }, runC12)
}

type c12Op struct {
	seek bool
	v    uint64
}

// c12Gen builds a long list from a compact, replayable description:
//
//	{seed, segs: [{k: "rand", n, lo, hi} | {k: "arith", n, step}, ...]}
//
// "rand": n values whose differences are uniform in [lo, hi] (seeded) - an incompressible varint
// stream, stored by the snappy framing as uncompressed chunks; "arith": n values with a constant
// difference - compressible. Widths: 1 byte below 2^7, 2 below 2^14, 3 below 2^21, 4 below 2^28, 5 below 2^35.
func c12Gen(g map[string]any) []uint64 {
	r := rand.New(rand.NewSource(vt.Int64(g["seed"])))
	var out []uint64
	cur := uint64(0)
	for _, sg := range vt.List(g["segs"]) {
		m := vt.Map(sg)
		n := vt.Int(m["n"])
		if vt.Str(m["k"]) == "arith" {
			step := uint64(vt.Int64(m["step"]))
			for k := 0; k < n; k++ {
				cur += step
				out = append(out, cur)
			}
			continue
		}
		lo, hi := vt.Int64(m["lo"]), vt.Int64(m["hi"])
		for k := 0; k < n; k++ {
			cur += uint64(lo + r.Int63n(hi-lo+1))
			out = append(out, cur)
		}
	}
	return out
}

func c12Width(d uint64) int {
	w := 1
	for d >= 128 {
		d >>= 7
		w++
	}
	return w
}

func c12Parse(c vt.Case) (list []uint64, ops []c12Op, err error) {
	pu := func(x any) uint64 {
		v, e := strconv.ParseUint(vt.Str(x), 10, 64)
		if e != nil {
			err = e
		}
		return v
	}
	if g, ok := c["gen"]; ok && g != nil {
		list = c12Gen(vt.Map(g))
	}
	for _, r := range vt.List(c["runs"]) {
		if c["gen"] != nil {
			break
		}
		rl := vt.List(r)
		start, step, cnt := pu(rl[0]), pu(rl[1]), vt.Int(rl[2])
		for k := 0; k < cnt; k++ {
			list = append(list, start+uint64(k)*step)
		}
	}
	for _, o := range vt.List(c["ops"]) {
		ol := vt.List(o)
		if vt.Str(ol[0]) == "n" {
			ops = append(ops, c12Op{})
		} else {
			ops = append(ops, c12Op{seek: true, v: pu(ol[1])})
		}
	}
	return list, ops, err
}

// c12Runs is the canonical run compression (greedy arithmetic progressions) of an int-space list.
func c12Runs(l []int64) [][]int64 {
	out := [][]int64{}
	for i := 0; i < len(l); {
		if i+1 >= len(l) {
			out = append(out, []int64{l[i], 0, 1})
			break
		}
		step := l[i+1] - l[i]
		j := i + 1
		for j+1 < len(l) && l[j+1]-l[j] == step {
			j++
		}
		if step < 0 { // not sorted: keep it explicit, the judge will see the mismatch
			out = append(out, []int64{l[i], 0, 1})
			i++
			continue
		}
		out = append(out, []int64{l[i], step, int64(j - i + 1)})
		i = j + 1
	}
	return out
}

func runC12(c vt.Case) vt.Event {
	list, ops, err := c12Parse(c)
	if err != nil {
		panic(err)
	}
	// value -> int space
	var toInt func(uint64) int64
	if vt.Str(c["mode"]) == "rank" {
		uni := map[uint64]struct{}{0: {}}
		for _, v := range list {
			uni[v] = struct{}{}
		}
		for _, o := range ops {
			if o.seek {
				uni[o.v] = struct{}{}
			}
		}
		keys := make([]uint64, 0, len(uni))
		for v := range uni {
			keys = append(keys, v)
		}
		sort.Slice(keys, func(i, j int) bool { return keys[i] < keys[j] })
		rank := map[uint64]int64{}
		for i, v := range keys {
			rank[v] = int64(i)
		}
		toInt = func(v uint64) int64 {
			if r, ok := rank[v]; ok {
				return r
			}
			return -1
		}
	} else {
		toInt = func(v uint64) int64 {
			if v < 1<<31 {
				return int64(v)
			}
			return -1
		}
	}
	ints := func(l []uint64) []int64 {
		out := make([]int64, len(l))
		for i, v := range l {
			out[i] = toInt(v)
		}
		return out
	}
	ev := vt.Event{"list": c12Runs(ints(list))}
	evOps := make([][]any, len(ops))
	for i, o := range ops {
		if o.seek {
			evOps[i] = []any{"s", toInt(o.v)}
		} else {
			evOps[i] = []any{"n"}
		}
	}
	ev["ops"] = evOps

	refs := make([]storage.SeriesRef, len(list))
	for i, v := range list {
		refs[i] = storage.SeriesRef(v)
	}
	type variant struct {
		name            string
		codec           string
		byHeader, nopoo bool
	}
	var variants []variant
	for _, cd := range store.VerifPostingsCodecs {
		if cd == "raw" {
			variants = append(variants, variant{"raw", cd, false, false})
			continue
		}
		variants = append(variants, variant{cd + "/hdr", cd, true, false}, variant{cd + "/pool", cd, false, false}, variant{cd + "/nopool", cd, false, true})
	}
	type obs struct {
		EncErr   string    `json:"encerr"`
		DecErr   string    `json:"decerr"`
		Decoded  [][]int64 `json:"decoded"`
		DrainErr string    `json:"drainerr"`
		Out      [][]any   `json:"out"`
		OpErr    string    `json:"operr"`
		Panic    string    `json:"panic"`
		// the same encoded bytes decoded again, after the decodes above are finished: drained with
		// Next (decoded2) and walked with Seek(At()+1) (seekwalk; only for lists without duplicates)
		Decoded2  [][]int64 `json:"decoded2"`
		SeekWalk  [][]int64 `json:"seekwalk"`
		AgainErr  string    `json:"againerr"`
		Intact    bool      `json:"intact"` // the encoded bytes are unchanged after all decoding (informational)
	}
	results := make([]obs, len(variants))
	its := make([]index.Postings, len(variants))
	drains := make([]index.Postings, len(variants))
	var closers []func()
	blobs := make([][]byte, len(variants))    // the "cached bytes" of each variant: every decode reads this very slice
	pristine := make([][]byte, len(variants)) // a copy to tell whether decoding modified them
	for i, v := range variants {
		func() {
			defer func() {
				if r := recover(); r != nil {
					results[i].Panic = fmt.Sprint(r)
				}
			}()
			data, err := store.VerifEncodePostings(v.codec, refs)
			if err != nil {
				results[i].EncErr = err.Error()
				return
			}
			blobs[i] = data
			pristine[i] = append([]byte(nil), data...)
			for k := 0; k < 2; k++ {
				// both decoders read the same bytes, as two queries hitting one in-memory cache entry do
				p, cl, err := store.VerifDecodePostings(v.codec, data, v.byHeader, v.nopoo)
				if err != nil {
					results[i].DecErr = err.Error()
					return
				}
				closers = append(closers, cl)
				if k == 0 {
					drains[i] = p
				} else {
					its[i] = p
				}
			}
		}()
	}
	// interleave: one op on every iterator, then the next op
	for i := range variants {
		results[i].Out = [][]any{}
		results[i].Decoded = [][]int64{}
		results[i].Decoded2 = [][]int64{}
		results[i].SeekWalk = [][]int64{}
	}
	for _, o := range ops {
		for i := range variants {
			if its[i] == nil || results[i].Panic != "" {
				continue
			}
			func() {
				defer func() {
					if r := recover(); r != nil {
						results[i].Panic = fmt.Sprint(r)
					}
				}()
				var ret bool
				if o.seek {
					ret = its[i].Seek(storage.SeriesRef(o.v))
				} else {
					ret = its[i].Next()
				}
				results[i].Out = append(results[i].Out, []any{ret, toInt(uint64(its[i].At()))})
			}()
		}
	}
	for i := range variants {
		if drains[i] == nil || results[i].Panic != "" {
			continue
		}
		func() {
			defer func() {
				if r := recover(); r != nil {
					results[i].Panic = fmt.Sprint(r)
				}
			}()
			var got []uint64
			for drains[i].Next() {
				got = append(got, uint64(drains[i].At()))
				if len(got) > len(list)+8 {
					break
				}
			}
			results[i].Decoded = c12Runs(ints(got))
			if e := drains[i].Err(); e != nil {
				results[i].DrainErr = e.Error()
			}
			if e := its[i].Err(); e != nil {
				results[i].OpErr = e.Error()
			}
		}()
	}
	for _, cl := range closers {
		if cl != nil {
			cl()
		}
	}
	// decode the same bytes again (a cache entry is read many times)
	strict := true
	for k := 1; k < len(list); k++ {
		strict = strict && list[k] > list[k-1]
	}
	ev["strict"] = strict
	for i, v := range variants {
		if blobs[i] == nil || results[i].Panic != "" || results[i].DecErr != "" {
			continue
		}
		func() {
			defer func() {
				if r := recover(); r != nil {
					results[i].Panic = "decoding the same bytes again: " + fmt.Sprint(r)
				}
			}()
			p, cl, err := store.VerifDecodePostings(v.codec, blobs[i], v.byHeader, v.nopoo)
			if err != nil {
				results[i].AgainErr = err.Error()
				return
			}
			var got []uint64
			for p.Next() {
				got = append(got, uint64(p.At()))
				if len(got) > len(list)+8 {
					break
				}
			}
			if e := p.Err(); e != nil {
				results[i].AgainErr = e.Error()
			}
			cl()
			results[i].Decoded2 = c12Runs(ints(got))
			got = got[:0]
			if strict {
				p, cl, err = store.VerifDecodePostings(v.codec, blobs[i], v.byHeader, v.nopoo)
				if err != nil {
					results[i].AgainErr = err.Error()
					return
				}
				target := storage.SeriesRef(1) // Seek(0) on a fresh iterator need not move (see PostingsCodec.tla)
				if len(list) > 0 && list[0] == 0 {
					// a fresh iterator answers Seek(0) without moving: start with Next
					if p.Next() {
						got = append(got, uint64(p.At()))
						target = p.At() + 1
					}
				}
				for (len(got) == 0 || got[len(got)-1] != ^uint64(0)) && p.Seek(target) {
					got = append(got, uint64(p.At()))
					target = p.At() + 1
					if len(got) > len(list)+8 {
						break
					}
				}
				if e := p.Err(); e != nil {
					results[i].AgainErr = e.Error()
				}
				cl()
			}
			results[i].SeekWalk = c12Runs(ints(got))
		}()
		results[i].Intact = string(blobs[i]) == string(pristine[i])
	}
	// ---- pooled decode buffers: decode + close, then several decoded lists alive at the same time ----
	// The decoders take their buffers from process-wide pools and give them back in close(). After
	// a decode + close of the whole list, 2-3 DIFFERENT lists of similar size (the list without its
	// first value, without its last value, and the whole list) are decoded with pooling on and kept
	// open together, their Next calls interleaved round robin: each must still yield its own list.
	subs := map[string][]uint64{"all": list, "first": list, "last": list}
	whiches := []string{"all"}
	if len(list) >= 2 {
		subs["first"], subs["last"] = list[1:], list[:len(list)-1]
		whiches = []string{"first", "last", "all"}
	}
	ev["sub"] = map[string]any{"all": c12Runs(ints(subs["all"])), "first": c12Runs(ints(subs["first"])), "last": c12Runs(ints(subs["last"]))}
	type pooledObs struct {
		Codec   string    `json:"codec"`
		Which   string    `json:"which"`
		Decoded [][]int64 `json:"decoded"`
		Err     string    `json:"err"`
	}
	pooled := []pooledObs{}
	for _, codec := range []string{"dvs", "dss"} {
		func() {
			var obs []pooledObs
			defer func() {
				if r := recover(); r != nil {
					obs = append(obs, pooledObs{Codec: codec, Which: "all", Decoded: [][]int64{}, Err: "panic: " + fmt.Sprint(r)})
				}
				pooled = append(pooled, obs...)
			}()
			enc := func(l []uint64) []byte {
				rr := make([]storage.SeriesRef, len(l))
				for i, v := range l {
					rr[i] = storage.SeriesRef(v)
				}
				b, err := store.VerifEncodePostings(codec, rr)
				if err != nil {
					panic(err)
				}
				return b
			}
			// decode the whole list, drain, close
			p, cl, err := store.VerifDecodePostings(codec, enc(list), false, false)
			if err != nil {
				obs = append(obs, pooledObs{Codec: codec, Which: "all", Decoded: [][]int64{}, Err: err.Error()})
				return
			}
			for p.Next() {
			}
			cl()
			// now several lists alive together
			its := make([]index.Postings, len(whiches))
			cls := make([]func(), len(whiches))
			gots := make([][]uint64, len(whiches))
			errs := make([]string, len(whiches))
			for i, w := range whiches {
				var e error
				its[i], cls[i], e = store.VerifDecodePostings(codec, enc(subs[w]), false, false)
				if e != nil {
					errs[i] = e.Error()
				}
			}
			for live := true; live; {
				live = false
				for i := range whiches {
					if its[i] == nil || len(gots[i]) > len(list)+8 {
						continue
					}
					if its[i].Next() {
						gots[i] = append(gots[i], uint64(its[i].At()))
						live = true
					} else {
						if e := its[i].Err(); e != nil {
							errs[i] = e.Error()
						}
						its[i] = nil
					}
				}
			}
			for i, w := range whiches {
				if cls[i] != nil {
					cls[i]()
				}
				obs = append(obs, pooledObs{Codec: codec, Which: w, Decoded: c12Runs(ints(gots[i])), Err: errs[i]})
			}
		}()
	}
	ev["pooled"] = pooled
	// ---- which decoder reads which encoding: every encoder x every decoder entry point ----
	// encoders: dvs, dss, dss2 (the blobs above), be32 (raw big-endian postings as the index stores
	// them and as an uncompressed cache entry holds them; only when every value fits 32 bits), and
	// blobs with a damaged / truncated / missing prefix. Decoder entry points: hdr = decodePostings
	// (dispatch on the prefix), cached = bucketIndexReader.decodeCachedPostings (prefix, else raw
	// big-endian), dvs / dss = the codec's own decoder.
	type crossObs struct {
		Err     string    `json:"err"`
		Panic   string    `json:"panic"`
		Decoded [][]int64 `json:"decoded"`
	}
	type crossGroup struct {
		Combos []string `json:"combos"`
		crossObs
	}
	encBlobs := map[string][]byte{}
	for i, v := range variants {
		if v.byHeader && blobs[i] != nil {
			encBlobs[v.codec] = pristine[i]
		}
	}
	fits32 := true
	for _, v := range list {
		fits32 = fits32 && v <= 0xffffffff
	}
	if fits32 {
		offs := make([]uint32, len(list))
		for i, v := range list {
			offs[i] = uint32(v)
		}
		var eb encoding.Encbuf
		if err := index.EncodePostingsRaw(&eb, offs); err == nil {
			encBlobs["be32"] = eb.Get()
		}
	}
	for _, cd := range []string{"dvs", "dss"} {
		if b, ok := encBlobs[cd]; ok && len(b) >= 3 {
			encBlobs[cd+":badprefix"] = append([]byte("dvx"), b[3:]...)
			encBlobs[cd+":cut2"] = append([]byte(nil), b[:2]...)
			encBlobs[cd+":noprefix"] = append([]byte(nil), b[3:]...)
		}
	}
	encBlobs["empty"] = []byte{}
	var cross []*crossGroup
	crossSeen := map[string]*crossGroup{}
	encNames := make([]string, 0, len(encBlobs))
	for k := range encBlobs {
		encNames = append(encNames, k)
	}
	sort.Strings(encNames)
	for _, en := range encNames {
		for _, dn := range []string{"hdr", "cached", "dvs", "dss"} {
			if strings.Contains(en, ":") || en == "empty" {
				if dn != "hdr" { // damaged prefixes are only judged at the dispatching decoder
					continue
				}
			}
			var o crossObs
			o.Decoded = [][]int64{}
			func() {
				defer func() {
					if r := recover(); r != nil {
						o.Panic = fmt.Sprint(r)
					}
				}()
				data := append([]byte(nil), encBlobs[en]...)
				var p index.Postings
				var cl func()
				var err error
				switch dn {
				case "hdr":
					p, cl, err = store.VerifDecodePostings("dss", data, true, false)
				case "cached":
					p, cl, err = store.VerifDecodeCachedPostings(data)
				default:
					p, cl, err = store.VerifDecodePostings(dn, data, false, false)
				}
				if err != nil {
					o.Err = err.Error()
					return
				}
				var got []uint64
				for p.Next() {
					got = append(got, uint64(p.At()))
					if len(got) > len(list)+8 {
						break
					}
				}
				if e := p.Err(); e != nil {
					o.Err = e.Error()
				}
				if cl != nil {
					cl()
				}
				if o.Err == "" {
					o.Decoded = c12Runs(ints(got))
				}
			}()
			kb, _ := json.Marshal(o)
			name := en + ">" + dn
			if g, ok := crossSeen[string(kb)]; ok {
				g.Combos = append(g.Combos, name)
				continue
			}
			g := &crossGroup{Combos: []string{name}, crossObs: o}
			crossSeen[string(kb)] = g
			cross = append(cross, g)
		}
	}
	ev["cross"] = cross
	ev["fits32"] = fits32
	// group identical observations
	type group struct {
		Variants []string `json:"variants"`
		obs
	}
	var groups []*group
	seen := map[string]*group{}
	for i, v := range variants {
		b, _ := json.Marshal(results[i])
		if g, ok := seen[string(b)]; ok {
			g.Variants = append(g.Variants, v.name)
			continue
		}
		g := &group{Variants: []string{v.name}, obs: results[i]}
		seen[string(b)] = g
		groups = append(groups, g)
	}
	ev["res"] = groups
	return ev
}

var _ = rand.Int
